import CobaVerif.Model.C16
import CobaVerif.Lemmas.C05
import Mathlib.Tactic.Linarith
import Mathlib.Tactic.Positivity
import Mathlib.Tactic.FieldSimp
import Mathlib.Tactic.Ring
import Mathlib.Tactic.NormNum
import Mathlib.Algebra.Order.Field.Rat
import Mathlib.Data.Rat.Cast.Order
import Mathlib.Data.List.Nodup
import Mathlib.Order.Monotone.Basic
import Mathlib.Algebra.BigOperators.Group.List.Basic

namespace Coba.C16
open Coba.C05 (choicew next)

/-- a probability vector over `n` offered actions -/
def Valid (pmf : List Rat) (n : Nat) : Prop :=
  pmf.length = n ∧ (∀ p ∈ pmf, 0 ≤ p) ∧ pmf.sum = 1

/-! ### sums -/

theorem sum_map_affine_ite {α} (l : List α) (P : α → Prop) [DecidablePred P] (a b c : Rat) :
    (l.map (fun x => a + (if P x then b else 0) * c)).sum = (l.length : Rat) * a + ((l.filter (fun x => decide (P x))).length : Rat) * (b * c) := by
  induction l with
  | nil => simp
  | cons x xs ih =>
    simp only [List.map_cons, List.sum_cons, ih, List.length_cons, List.filter_cons]
    by_cases h : P x
    · simp [h]; ring
    · simp [h]; ring

theorem sum_map_ite {α} (l : List α) (P : α → Prop) [DecidablePred P] (b : Rat) :
    (l.map (fun x => if P x then b else 0)).sum = ((l.filter (fun x => decide (P x))).length : Rat) * b := by
  have := sum_map_affine_ite l P 0 b 1
  simpa using this

theorem sum_map_div (xs : List Rat) (s : Rat) : (xs.map (fun x => x / s)).sum = xs.sum / s := by
  induction xs with
  | nil => simp
  | cons x xs ih => simp [ih, add_div]

theorem sum_map_affine (xs : List Rat) (a b : Rat) :
    (xs.map (fun x => a * x + b)).sum = a * xs.sum + (xs.length : Rat) * b := by
  induction xs with
  | nil => simp
  | cons x xs ih => simp [ih]; ring

theorem sum_pos_of_pos (xs : List Rat) (hne : xs ≠ []) (h : ∀ x ∈ xs, 0 < x) : 0 < xs.sum := by
  induction xs with
  | nil => exact absurd rfl hne
  | cons x xs ih =>
    simp only [List.sum_cons]
    have hx := h x (by simp)
    by_cases hxs : xs = []
    · subst hxs; simpa using hx
    · have := ih hxs (fun y hy => h y (by simp [hy])); linarith

theorem sum_nonneg_of_nonneg (xs : List Rat) (h : ∀ x ∈ xs, 0 ≤ x) : 0 ≤ xs.sum := by
  induction xs with
  | nil => simp
  | cons x xs ih =>
    simp only [List.sum_cons]
    have hx := h x (by simp)
    have := ih (fun y hy => h y (by simp [hy])); linarith

/-! ### max / min -/

theorem maxOf_mem (m : Rat) (xs : List Rat) : maxOf m xs = m ∨ maxOf m xs ∈ xs := by
  induction xs generalizing m with
  | nil => simp [maxOf]
  | cons x xs ih =>
    simp only [maxOf]
    by_cases hmx : m < x
    · simp only [hmx, if_true]
      rcases ih x with h | h
      · right; simp [h]
      · right; simp [h]
    · simp only [hmx, if_false]
      rcases ih m with h | h
      · left; exact h
      · right; simp [h]

theorem minOf_le_init (m : Rat) (xs : List Rat) : minOf m xs ≤ m := by
  induction xs generalizing m with
  | nil => simp [minOf]
  | cons x xs ih =>
    simp only [minOf]
    by_cases h : x < m
    · simp only [h, if_true]; have := ih x; linarith
    · simp only [h, if_false]; exact ih m

theorem minOf_le (m : Rat) (xs : List Rat) : ∀ x ∈ xs, minOf m xs ≤ x := by
  induction xs generalizing m with
  | nil => simp
  | cons y ys ih =>
    intro x hx
    simp only [minOf]
    rcases List.mem_cons.mp hx with rfl | hx
    · by_cases h : x < m
      · simp only [h, if_true]; exact minOf_le_init x ys
      · simp only [h, if_false]; have := minOf_le_init m ys; have h := not_lt.mp h; linarith
    · exact ih _ x hx

/-! ### BanditEpsilon -/

theorem epsPmfVals_valid (eps : Rat) (vals : List Rat) (h0 : 0 ≤ eps) (h1 : eps ≤ 1) (hne : vals ≠ []) :
    Valid (epsPmfVals eps vals) vals.length := by
  cases vals with
  | nil => exact absurd rfl hne
  | cons v vs =>
    have hmem : maxOf v vs ∈ v :: vs := by
      rcases maxOf_mem v vs with h | h
      · simp [h]
      · simp [h]
    set mx := maxOf v vs with hmx
    have hk : 0 < ((v :: vs).filter (fun q => decide (q = mx))).length := by
      apply List.length_pos_of_mem (a := mx)
      simp [List.mem_filter, hmem]
    have hn : (0 : Rat) < ((v :: vs).length : Rat) := by simp; positivity
    have hkq : (0 : Rat) < (((v :: vs).filter (fun q => decide (q = mx))).length : Rat) := by exact_mod_cast hk
    refine ⟨by simp [epsPmfVals], ?_, ?_⟩
    · intro p hp
      simp only [epsPmfVals, List.mem_map] at hp
      obtain ⟨x, _, rfl⟩ := hp
      have h1e : 0 ≤ 1 - eps := by linarith
      have : (0 : Rat) ≤ if x = mx then 1 / (((v :: vs).filter (fun q => decide (q = mx))).length : Rat) else 0 := by
        split
        · positivity
        · exact le_refl _
      positivity
    · simp only [epsPmfVals]
      rw [sum_map_affine_ite (v :: vs) (fun q => q = mx)]
      rw [← hmx]
      field_simp
      ring

theorem Eps.pmf_valid (st : Eps) (actions : List Act) (h0 : 0 ≤ st.eps) (h1 : st.eps ≤ 1) (hne : actions ≠ []) :
    Valid (st.pmf actions) actions.length := by
  have := epsPmfVals_valid st.eps (actions.map st.q) h0 h1 (by simpa using hne)
  simpa [Eps.pmf] using this

/-! ### dict -/
theorem dget_dset_same {β} (d : List (Act × β)) (a : Act) (v : β) : dget (dset d a v) a = some v := by
  induction d with
  | nil => simp [dset, dget]
  | cons kv r ih =>
    obtain ⟨k, w⟩ := kv
    by_cases h : k = a
    · simp [dset, dget, h]
    · simp [dset, dget, h, ih]

theorem dget_dset_other {β} (d : List (Act × β)) (a b : Act) (v : β) (hb : b ≠ a) : dget (dset d a v) b = dget d b := by
  induction d with
  | nil => simp [dset, dget, Ne.symm hb]
  | cons kv r ih =>
    obtain ⟨k, w⟩ := kv
    by_cases h : k = a
    · subst h; simp [dset, dget, Ne.symm hb]
    · by_cases h2 : k = b
      · subst h2; simp [dset, dget, hb]
      · simp [dset, dget, h, h2, ih]

theorem distinct_of_nodup (l : List Act) (h : l.Nodup) : distinct l = l := by
  induction l with
  | nil => rfl
  | cons a l ih =>
    have ⟨h1, h2⟩ := List.nodup_cons.mp h
    simp [distinct, h1, ih h2]

/-! ### BanditUCB -/

theorem uniformOn_filter_valid (actions : List Act) (P : Act → Bool) (hS : actions.filter P ≠ []) :
    Valid (uniformOn (actions.filter P) (actions.filter P).length actions) actions.length := by
  have hk : (0 : Rat) < ((actions.filter P).length : Rat) := by
    have : 0 < (actions.filter P).length := List.length_pos_iff.mpr hS
    exact_mod_cast this
  refine ⟨by simp [uniformOn], ?_, ?_⟩
  · intro p hp
    simp only [uniformOn, List.mem_map] at hp
    obtain ⟨a, _, rfl⟩ := hp
    split
    · positivity
    · exact le_refl _
  · have hcongr : uniformOn (actions.filter P) (actions.filter P).length actions
        = actions.map (fun a => if P a = true then 1 / ((actions.filter P).length : Rat) else 0) := by
      simp only [uniformOn]
      apply List.map_congr_left
      intro a ha
      simp [List.mem_filter, ha]
    rw [hcongr, sum_map_ite actions (fun a => P a = true)]
    have : (List.filter (fun x => decide (P x = true)) actions) = actions.filter P := by
      congr 1; funext x; simp
    rw [this]
    field_simp

/-- what the dictionaries of a BanditUCBLearner satisfy after any history -/
def Ucb.Inv (st : Ucb) : Prop :=
  (∀ a, dhas st.m a = true → ∃ n, dget st.s a = some n ∧ n ≠ 0) ∧ ((∃ a, dhas st.m a = true) → st.t ≠ 0)

theorem Ucb.inv_init : Ucb.Inv {} := by
  constructor
  · intro a h; simp [dhas, dget] at h
  · rintro ⟨a, h⟩; simp [dhas, dget] at h

theorem Ucb.pmf_valid (val : Act → Rat) (st : Ucb) (actions : List Act) (hinv : st.Inv)
    (hne : actions ≠ []) (hnd : actions.Nodup) :
    ∃ pmf, st.pmf val actions = .ok pmf ∧ Valid pmf actions.length := by
  unfold Ucb.pmf
  by_cases hnever : actions.filter (fun a => !dhas st.m a) ≠ []
  · rw [if_pos hnever]
    refine ⟨_, rfl, ?_⟩
    have hd : distinct (actions.filter (fun a => !dhas st.m a)) = actions.filter (fun a => !dhas st.m a) :=
      distinct_of_nodup _ (hnd.filter _)
    rw [hd]
    exact uniformOn_filter_valid actions _ hnever
  · rw [if_neg hnever]
    have hall : ∀ a ∈ actions, dhas st.m a = true := by
      intro a ha
      by_contra hc
      apply hnever
      intro he
      have : a ∈ actions.filter (fun a => !dhas st.m a) := by
        simp only [List.mem_filter, ha, true_and]; simpa using hc
      rw [he] at this; simp at this
    obtain ⟨a0, rest, rfl⟩ := List.exists_cons_of_ne_nil hne
    have h1 : (a0 :: rest).all (fun a => dhas st.s a) = true := by
      simp only [List.all_eq_true]
      intro a ha
      obtain ⟨n, hn, _⟩ := hinv.1 a (hall a ha)
      simp [dhas, hn]
    have h2 : st.t ≠ 0 := hinv.2 ⟨a0, hall a0 (by simp)⟩
    have h3 : (a0 :: rest).all (fun a => st.sPos a) = true := by
      simp only [List.all_eq_true]
      intro a ha
      obtain ⟨n, hn, hn0⟩ := hinv.1 a (hall a ha)
      simp [Ucb.sPos, hn, hn0]
    simp only [h1, h2, h3, Bool.not_true, Bool.false_eq_true, if_false]
    refine ⟨_, rfl, ?_⟩
    have hbest : (a0 :: rest).filter (fun a => decide (val a = maxOf (val a0) (rest.map val))) ≠ [] := by
      have hm : maxOf (val a0) (rest.map val) = val a0 ∨ maxOf (val a0) (rest.map val) ∈ rest.map val := maxOf_mem _ _
      rcases hm with h | h
      · intro he
        have : a0 ∈ (a0 :: rest).filter (fun a => decide (val a = maxOf (val a0) (rest.map val))) := by
          simp [List.mem_filter, h]
        rw [he] at this; simp at this
      · obtain ⟨b, hb, hbv⟩ := List.mem_map.mp h
        intro he
        have : b ∈ (a0 :: rest).filter (fun a => decide (val a = maxOf (val a0) (rest.map val))) := by
          simp [List.mem_filter, hb, hbv]
        rw [he] at this; simp at this
    exact uniformOn_filter_valid (a0 :: rest) _ hbest

theorem Ucb.learn_total (fl : Rat → Rat) (st : Ucb) (a : Act) (r : Rat) (hinv : st.Inv) :
    ∃ st', st.learn fl a r = .ok st' ∧ st'.Inv := by
  unfold Ucb.learn
  cases hm : dget st.m a with
  | none =>
    refine ⟨_, rfl, ?_, ?_⟩
    · intro b hb
      by_cases hba : b = a
      · subst hba; exact ⟨1, dget_dset_same _ _ _, by decide⟩
      · simp only [dhas, dget_dset_other _ _ _ _ hba] at hb
        obtain ⟨n, hn, hn0⟩ := hinv.1 b hb
        exact ⟨n, by simp [dget_dset_other _ _ _ _ hba, hn], hn0⟩
    · intro _; simp
  | some mv =>
    have hha : dhas st.m a = true := by simp [dhas, hm]
    obtain ⟨n, hn, hn0⟩ := hinv.1 a hha
    simp only [hn, hn0, if_false]
    refine ⟨_, rfl, ?_, ?_⟩
    · intro b hb
      by_cases hba : b = a
      · subst hba; exact ⟨n + 1, dget_dset_same _ _ _, by omega⟩
      · simp only [dhas, dget_dset_other _ _ _ _ hba] at hb
        obtain ⟨n', hn', hn0'⟩ := hinv.1 b hb
        exact ⟨n', by simp [dget_dset_other _ _ _ _ hba, hn'], hn0'⟩
    · intro _; simp

open Coba.C05 (choicew next)

/-! ### the learner interface -/

def Kind.Inv : Kind → Prop
  | .eps st => 0 ≤ st.eps ∧ st.eps ≤ 1
  | .ucb st => st.Inv
  | .fixed p => (∀ x ∈ p, 0 ≤ x) ∧ p.sum = 1
  | .random => True

/-- a FixedLearner is only ever offered as many actions as its pmf has entries -/
def Kind.arity : Kind → Option Nat
  | .fixed p => some p.length
  | _ => none

def Fits (ar : Option Nat) (n : Nat) : Prop := ∀ m, ar = some m → m = n

theorem replicate_valid (n : Nat) (hn : n ≠ 0) : Valid (List.replicate n (1 / (n : Rat))) n := by
  have hq : (n : Rat) ≠ 0 := by exact_mod_cast hn
  refine ⟨by simp, ?_, ?_⟩
  · intro p hp
    rw [List.mem_replicate] at hp
    rw [hp.2]; positivity
  · rw [List.sum_replicate, nsmul_eq_mul]; field_simp

theorem Kind.pmf_valid (val : Act → Rat) (k : Kind) (actions : List Act) (hinv : k.Inv)
    (hne : actions ≠ []) (hnd : actions.Nodup) (hfit : Fits k.arity actions.length) :
    ∃ pmf, k.pmf val actions = .ok pmf ∧ Valid pmf actions.length := by
  cases k with
  | eps st => exact ⟨_, rfl, Eps.pmf_valid st actions hinv.1 hinv.2 hne⟩
  | ucb st => exact Ucb.pmf_valid val st actions hinv hne hnd
  | fixed p => exact ⟨p, rfl, hfit p.length rfl, hinv.1, hinv.2⟩
  | random =>
    refine ⟨_, rfl, replicate_valid _ ?_⟩
    intro h; exact hne (List.length_eq_zero_iff.mp h)

theorem valid_sum_pos (pmf : List Rat) (n : Nat) (h : Valid pmf n) : 0 < Coba.C05.sum pmf := by
  rw [Coba.C05.sum_eq, h.2.2]; exact one_pos

theorem Learner.predict_ok (val : Act → Rat) (L : Learner) (actions : List Act) (hinv : L.kind.Inv)
    (hne : actions ≠ []) (hnd : actions.Nodup) (hfit : Fits L.kind.arity actions.length) :
    ∃ i p pmf, L.predict val actions = .ok ({ L with rng := next L.rng }, i, p, pmf) ∧
      L.kind.pmf val actions = .ok pmf ∧ Valid pmf actions.length ∧ i < actions.length ∧ pmf[i]? = some p ∧ 0 < p := by
  obtain ⟨pmf, hpmf, hv⟩ := Kind.pmf_valid val L.kind actions hinv hne hnd hfit
  have hn : actions.length ≠ 0 := fun h => hne (List.length_eq_zero_iff.mp h)
  cases hk : L.kind with
  | random =>
    have hpos : 0 < actions.length := Nat.pos_of_ne_zero hn
    obtain ⟨i, hc, hi⟩ := Coba.C05.choice_uniform_mem' L.rng actions.length hpos
    rw [hk] at hpmf
    simp only [Kind.pmf, Except.ok.injEq] at hpmf
    subst hpmf
    refine ⟨i, 1 / (actions.length : Rat), _, ?_, rfl, hv, hi, ?_, ?_⟩
    · simp [Learner.predict, hk, liftRng, choicew, hc, hn]
    · simp [hi]
    · have : (0 : Rat) < (actions.length : Rat) := by exact_mod_cast hpos
      positivity
  | eps st =>
    obtain ⟨i, w, hc, hw, hwpos⟩ := Coba.C05.choicew_weight' L.rng actions.length pmf hv.1 hv.2.1 (valid_sum_pos pmf _ hv)
    rw [hk] at hpmf
    refine ⟨i, w, pmf, ?_, hpmf, hv, ?_, hw, hwpos⟩
    · simp [Learner.predict, hk, hpmf, liftRng, hc]
    · have := (List.getElem?_eq_some_iff.mp hw).1; rw [hv.1] at this; exact this
  | ucb st =>
    obtain ⟨i, w, hc, hw, hwpos⟩ := Coba.C05.choicew_weight' L.rng actions.length pmf hv.1 hv.2.1 (valid_sum_pos pmf _ hv)
    rw [hk] at hpmf
    refine ⟨i, w, pmf, ?_, hpmf, hv, ?_, hw, hwpos⟩
    · simp [Learner.predict, hk, hpmf, liftRng, hc]
    · have := (List.getElem?_eq_some_iff.mp hw).1; rw [hv.1] at this; exact this
  | fixed p =>
    obtain ⟨i, w, hc, hw, hwpos⟩ := Coba.C05.choicew_weight' L.rng actions.length pmf hv.1 hv.2.1 (valid_sum_pos pmf _ hv)
    rw [hk] at hpmf
    refine ⟨i, w, pmf, ?_, hpmf, hv, ?_, hw, hwpos⟩
    · simp [Learner.predict, hk, hpmf, liftRng, hc]
    · have := (List.getElem?_eq_some_iff.mp hw).1; rw [hv.1] at this; exact this

theorem Learner.score_eq (val : Act → Rat) (L : Learner) (actions : List Act) (a : Act) (pmf : List Rat)
    (hpmf : L.kind.pmf val actions = .ok pmf) (hlen : pmf.length = actions.length) (ha : a ∈ actions) :
    ∃ p, L.score val actions a = .ok p ∧ pmf[actions.idxOf a]? = some p := by
  have hidx : actions.idxOf a < pmf.length := by rw [hlen]; exact List.idxOf_lt_length_of_mem ha
  have hsome : pmf[actions.idxOf a]? = some pmf[actions.idxOf a] := List.getElem?_eq_getElem hidx
  have hn : actions.length ≠ 0 := fun h => by
    have := List.length_eq_zero_iff.mp h; subst this; simp at ha
  cases hk : L.kind with
  | random =>
    rw [hk] at hpmf
    simp only [Kind.pmf, Except.ok.injEq] at hpmf
    subst hpmf
    refine ⟨1 / (actions.length : Rat), by simp [Learner.score, hk, hn], ?_⟩
    rw [hsome]; simp
  | eps st =>
    rw [hk] at hpmf
    exact ⟨pmf[actions.idxOf a], by simp [Learner.score, hk, hpmf, ha, hsome], hsome⟩
  | ucb st =>
    rw [hk] at hpmf
    exact ⟨pmf[actions.idxOf a], by simp [Learner.score, hk, hpmf, ha, hsome], hsome⟩
  | fixed p =>
    rw [hk] at hpmf
    exact ⟨pmf[actions.idxOf a], by simp [Learner.score, hk, hpmf, ha, hsome], hsome⟩

/-- the score vector over a duplicate-free action list IS the pmf -/
theorem Learner.scores_eq_pmf (val : Act → Rat) (L : Learner) (actions : List Act) (pmf : List Rat)
    (hpmf : L.kind.pmf val actions = .ok pmf) (hlen : pmf.length = actions.length) (hnd : actions.Nodup) :
    actions.map (fun a => L.score val actions a) = pmf.map Except.ok := by
  apply List.ext_getElem
  · simp [hlen]
  · intro i h1 h2
    simp only [List.getElem_map]
    have hi : i < actions.length := by simpa using h1
    obtain ⟨p, hs, hp⟩ := Learner.score_eq val L actions actions[i] pmf hpmf hlen (List.getElem_mem hi)
    rw [hs, hnd.idxOf_getElem i hi] at *
    have hi2 : i < pmf.length := by rw [hlen]; exact hi
    rw [List.getElem?_eq_getElem hi2] at hp
    simp at hp
    rw [hp]

theorem Learner.learn_ok (fl : Rat → Rat) (L : Learner) (a : Act) (r : Rat) (hinv : L.kind.Inv) :
    ∃ L', L.learn fl a r = .ok L' ∧ L'.kind.Inv ∧ L'.kind.arity = L.kind.arity := by
  cases hk : L.kind with
  | eps st =>
    rw [hk] at hinv
    refine ⟨{ L with kind := .eps (st.learn fl a (misguide fl L.mis r)) }, by simp [Learner.learn, hk], ?_, by simp [Kind.arity]⟩
    simpa [Kind.Inv, Eps.learn] using hinv
  | ucb st =>
    rw [hk] at hinv
    obtain ⟨st', hs, hi⟩ := Ucb.learn_total fl st a (misguide fl L.mis r) hinv
    exact ⟨{ L with kind := .ucb st' }, by simp [Learner.learn, hk, hs], hi, by simp [Kind.arity]⟩
  | fixed p =>
    rw [hk] at hinv
    exact ⟨L, by simp [Learner.learn, hk], by rw [hk]; exact hinv, by rw [hk]⟩
  | random =>
    exact ⟨L, by simp [Learner.learn, hk], by rw [hk]; trivial, by rw [hk]⟩

open Coba.C05 (choicew next)

/-! ### histories -/

/-- a call inside the property's quantifier: non-empty duplicate-free action set (of the size a
FixedLearner was built for); scores are asked for offered actions -/
def OpOk (ar : Option Nat) : Op → Prop
  | .predict actions => actions ≠ [] ∧ actions.Nodup ∧ Fits ar actions.length
  | .score actions a => actions ≠ [] ∧ actions.Nodup ∧ Fits ar actions.length ∧ a ∈ actions
  | .learn _ _ => True

/-- what the property demands of the answer to a call -/
def OutOk : Op → Out → Prop
  | .predict actions, .pred i p pmf => Valid pmf actions.length ∧ i < actions.length ∧ pmf[i]? = some p ∧ 0 < p
  | .score _ _, .score p => 0 ≤ p
  | .learn _ _, .learned => True
  | _, _ => False

theorem stepL_ok (fl : Rat → Rat) (val : Act → Rat) (L : Learner) (op : Op) (hinv : L.kind.Inv)
    (hop : OpOk L.kind.arity op) :
    ∃ L' o, stepL fl val L op = (L', o) ∧ OutOk op o ∧ (∀ e, o ≠ .err e) ∧ L'.kind.Inv ∧ L'.kind.arity = L.kind.arity := by
  cases op with
  | predict actions =>
    obtain ⟨hne, hnd, hfit⟩ := hop
    obtain ⟨i, p, pmf, hp, _, hv, hi, hpi, hpos⟩ := Learner.predict_ok val L actions hinv hne hnd hfit
    exact ⟨{ L with rng := next L.rng }, .pred i p pmf, by simp [stepL, hp], ⟨hv, hi, hpi, hpos⟩, by intro e; simp, hinv, rfl⟩
  | score actions a =>
    obtain ⟨hne, hnd, hfit, ha⟩ := hop
    obtain ⟨pmf, hpmf, hv⟩ := Kind.pmf_valid val L.kind actions hinv hne hnd hfit
    obtain ⟨p, hs, hp⟩ := Learner.score_eq val L actions a pmf hpmf hv.1 ha
    refine ⟨L, .score p, by simp [stepL, hs], ?_, by intro e; simp, hinv, rfl⟩
    exact hv.2.1 p (List.mem_of_getElem? hp)
  | learn a r =>
    obtain ⟨L', hl, hi, har⟩ := Learner.learn_ok fl L a r hinv
    exact ⟨L', .learned, by simp [stepL, hl], trivial, by intro e; simp, hi, har⟩

theorem runL_valid (fl : Rat → Rat) (val : Nat → Act → Rat) (ops : List Op) :
    ∀ (k : Nat) (L : Learner), L.kind.Inv → (∀ op ∈ ops, OpOk L.kind.arity op) →
      List.Forall₂ OutOk ops (runL fl val k L ops) := by
  induction ops with
  | nil => intro k L _ _; simp [runL]
  | cons op ops ih =>
    intro k L hinv hops
    obtain ⟨L', o, hs, hok, hne, hi, har⟩ := stepL_ok fl (val k) L op hinv (hops op (by simp))
    have hrest := ih (k + 1) L' hi (by intro op' h'; rw [har]; exact hops op' (by simp [h']))
    cases o with
    | err e => exact absurd rfl (hne e)
    | pred i p pmf => simp only [runL, hs]; exact List.Forall₂.cons hok hrest
    | score p => simp only [runL, hs]; exact List.Forall₂.cons hok hrest
    | learned => simp only [runL, hs]; exact List.Forall₂.cons hok hrest

open Coba.C05 (choicew next)

/-! ### Corral: the mixture pmf -/

theorem mixAt_nil_left (bs : List Act) (a : Act) : mixAt [] bs a = 0 := by
  cases bs <;> simp [mixAt]

theorem mixAt_nil_right (ps : List Rat) (a : Act) : mixAt ps [] a = 0 := by
  cases ps <;> simp [mixAt]

theorem mixAt_nonneg (pbars : List Rat) (bacts : List Act) (a : Act) (h : ∀ p ∈ pbars, 0 ≤ p) :
    0 ≤ mixAt pbars bacts a := by
  induction pbars generalizing bacts with
  | nil => rw [mixAt_nil_left]
  | cons pb pbs ih =>
    cases bacts with
    | nil => rw [mixAt_nil_right]
    | cons b bs =>
      simp only [mixAt]
      have h1 : 0 ≤ pb := h pb (by simp)
      have h2 := ih bs (fun p hp => h p (by simp [hp]))
      split <;> linarith

theorem sum_ite_single (actions : List Act) (b : Act) (pb : Rat) (hnd : actions.Nodup) (hb : b ∈ actions) :
    (actions.map (fun a => if a = b then pb else 0)).sum = pb := by
  induction actions with
  | nil => simp at hb
  | cons x xs ih =>
    have ⟨hx, hxs⟩ := List.nodup_cons.mp hnd
    simp only [List.map_cons, List.sum_cons]
    rcases List.mem_cons.mp hb with rfl | hb'
    · have : (xs.map (fun a => if a = b then pb else 0)).sum = 0 := by
        apply List.sum_eq_zero
        intro y hy
        obtain ⟨a, ha, rfl⟩ := List.mem_map.mp hy
        have : a ≠ b := fun e => hx (e ▸ ha)
        simp [this]
      simp [this]
    · have hne : x ≠ b := fun e => hx (e ▸ hb')
      simp [hne, ih hxs hb']

theorem corralPmf_sum (pbars : List Rat) (bacts actions : List Act) (hnd : actions.Nodup)
    (hlen : bacts.length = pbars.length) (hb : ∀ b ∈ bacts, b ∈ actions) :
    (corralPmf pbars bacts actions).sum = pbars.sum := by
  unfold corralPmf
  induction pbars generalizing bacts with
  | nil =>
    have : (actions.map (mixAt [] bacts)) = actions.map (fun _ => (0 : Rat)) := by
      apply List.map_congr_left; intro a _; exact mixAt_nil_left bacts a
    rw [this]; simp
  | cons pb pbs ih =>
    cases bacts with
    | nil => simp at hlen
    | cons b bs =>
      have h1 : actions.map (mixAt (pb :: pbs) (b :: bs)) =
          actions.map (fun a => (if a = b then pb else 0) + mixAt pbs bs a) := by
        apply List.map_congr_left; intro a _; simp [mixAt]
      rw [h1, List.sum_map_add, sum_ite_single actions b pb hnd (hb b (by simp)),
        ih bs (by simpa using hlen) (fun x hx => hb x (by simp [hx]))]
      simp

theorem corralPmf_valid (pbars : List Rat) (bacts actions : List Act) (hnd : actions.Nodup)
    (hlen : bacts.length = pbars.length) (hb : ∀ b ∈ bacts, b ∈ actions)
    (hpos : ∀ p ∈ pbars, 0 ≤ p) (hsum : pbars.sum = 1) :
    Valid (corralPmf pbars bacts actions) actions.length := by
  refine ⟨by simp [corralPmf], ?_, by rw [corralPmf_sum pbars bacts actions hnd hlen hb, hsum]⟩
  intro p hp
  obtain ⟨a, _, rfl⟩ := List.mem_map.mp hp
  exact mixAt_nonneg pbars bacts a hpos

/-! ### Corral: the log-barrier update -/

theorem omdDenoms_length (ps etas losses : List Rat) (lam : Rat) (h1 : etas.length = ps.length)
    (h2 : losses.length = ps.length) : (omdDenoms ps etas losses lam).length = ps.length := by
  induction ps generalizing etas losses with
  | nil => simp [omdDenoms]
  | cons p ps ih =>
    cases etas with
    | nil => simp at h1
    | cons e es =>
      cases losses with
      | nil => simp at h2
      | cons l ls =>
        simp only [omdDenoms, List.length_cons]
        rw [ih es ls (by simpa using h1) (by simpa using h2)]

/-- at or left of every loss all denominators are positive: the search's starting point is valid -/
theorem omdDenoms_pos_of_le (ps etas losses : List Rat) (lam : Rat) (hp : ∀ p ∈ ps, 0 < p)
    (he : ∀ e ∈ etas, 0 ≤ e) (hl : ∀ l ∈ losses, lam ≤ l) :
    ∀ d ∈ omdDenoms ps etas losses lam, 0 < d := by
  induction ps generalizing etas losses with
  | nil => simp [omdDenoms]
  | cons p ps ih =>
    cases etas with
    | nil => simp [omdDenoms]
    | cons e es =>
      cases losses with
      | nil => simp [omdDenoms]
      | cons l ls =>
        intro d hd
        simp only [omdDenoms, List.mem_cons] at hd
        rcases hd with rfl | hd
        · have h1 : 0 < p := hp p (by simp)
          have h2 : 0 ≤ e := he e (by simp)
          have h3 : lam ≤ l := hl l (by simp)
          have : 0 ≤ e * (l - lam) := mul_nonneg h2 (by linarith)
          have : 0 < 1 / p := by positivity
          linarith
        · exact ih es ls (fun q hq => hp q (by simp [hq])) (fun q hq => he q (by simp [hq]))
            (fun q hq => hl q (by simp [hq])) d hd

theorem omdRaw_some (ps etas losses : List Rat) (lam : Rat) (raw : List Rat)
    (h : omdRaw ps etas losses lam = some raw) :
    raw = (omdDenoms ps etas losses lam).map (fun d => 1 / d) ∧ ∀ d ∈ omdDenoms ps etas losses lam, 0 < d := by
  unfold omdRaw at h
  by_cases hall : (omdDenoms ps etas losses lam).all (fun d => decide (0 < d)) = true
  · simp only [hall, if_true, Option.some.injEq] at h
    refine ⟨h.symm, ?_⟩
    intro d hd
    have := List.all_eq_true.mp hall d hd
    simpa using this
  · simp [hall] at h

theorem omdRaw_of_pos (ps etas losses : List Rat) (lam : Rat)
    (h : ∀ d ∈ omdDenoms ps etas losses lam, 0 < d) :
    omdRaw ps etas losses lam = some ((omdDenoms ps etas losses lam).map (fun d => 1 / d)) := by
  unfold omdRaw
  have hall : (omdDenoms ps etas losses lam).all (fun d => decide (0 < d)) = true := by
    apply List.all_eq_true.mpr; intro d hd; simpa using h d hd
  simp [hall]

theorem omdRaw_pos (ps etas losses : List Rat) (lam : Rat) (raw : List Rat)
    (h : omdRaw ps etas losses lam = some raw) : ∀ x ∈ raw, 0 < x := by
  obtain ⟨hr, hd⟩ := omdRaw_some ps etas losses lam raw h
  intro x hx
  rw [hr] at hx
  obtain ⟨d, hdm, rfl⟩ := List.mem_map.mp hx
  have := hd d hdm
  positivity

theorem omdRaw_length (ps etas losses : List Rat) (lam : Rat) (raw : List Rat)
    (h : omdRaw ps etas losses lam = some raw) (h1 : etas.length = ps.length) (h2 : losses.length = ps.length) :
    raw.length = ps.length := by
  obtain ⟨hr, _⟩ := omdRaw_some ps etas losses lam raw h
  rw [hr, List.length_map, omdDenoms_length ps etas losses lam h1 h2]

theorem normalise_valid (xs : List Rat) (hne : xs ≠ []) (hpos : ∀ x ∈ xs, 0 < x) :
    (normalise xs).length = xs.length ∧ (∀ x ∈ normalise xs, 0 < x) ∧ (normalise xs).sum = 1 := by
  have hs : 0 < xs.sum := sum_pos_of_pos xs hne hpos
  refine ⟨by simp [normalise], ?_, ?_⟩
  · intro x hx
    obtain ⟨y, hy, rfl⟩ := List.mem_map.mp hx
    have := hpos y hy
    positivity
  · unfold normalise
    rw [sum_map_div]
    exact div_self (ne_of_gt hs)

/-- whatever the carrier, midpoint, exit test and decision rule: the pair the loop holds is always
`(l, probe l)` for some probed `l` -/
theorem bisect_inv {F α} [DecidableEq F] (mid : F → F → F) (done : α → Bool) (probe : F → Option α) (tooBig : α → Bool)
    (fuel : Nat) : ∀ (l r : F) (cur : α), probe l = some cur →
      probe (bisect mid done probe tooBig fuel l r cur).1.1 = some (bisect mid done probe tooBig fuel l r cur).1.2 := by
  induction fuel with
  | zero => intro l r cur h; simpa [bisect] using h
  | succ n ih =>
    intro l r cur h
    simp only [bisect]
    split
    · exact h
    · split
      · exact h
      · split
        · exact ih l _ cur h
        · rename_i xs hxs
          split
          · exact ih l _ cur h
          · exact ih _ r xs hxs

/-- the loop invariant of the repaired search: the multiplier it holds is always one for which
`update` is defined (every new weight positive) -/
theorem omdSearch_valid (ps etas losses : List Rat) (fuel : Nat) :
    ∀ (l r : Rat) (cur : List Rat), omdRaw ps etas losses l = some cur →
      omdRaw ps etas losses (omdSearch ps etas losses fuel l r cur).1 = some (omdSearch ps etas losses fuel l r cur).2 := by
  intro l r cur h
  exact bisect_inv _ _ _ _ fuel l r cur h

/-- **termination**: over any linearly ordered carrier with a strictly monotone rank into ℕ (IEEE
doubles ordered by value: the number of doubles below), with ANY midpoint function that stays in
the bracket, ANY exit test, probe and decision rule, the loop leaves through one of its own exits
within `rank r - rank l + 1` iterations: a midpoint that is neither end lies strictly between them,
so the number of carrier values inside the bracket strictly decreases. -/
theorem bisect_halts {F α} [LinearOrder F] (mid : F → F → F) (done : α → Bool) (probe : F → Option α) (tooBig : α → Bool)
    (rank : F → Nat) (hrank : StrictMono rank) (hmid : ∀ l r, l ≤ r → l ≤ mid l r ∧ mid l r ≤ r) (fuel : Nat) :
    ∀ (l r : F) (cur : α), l ≤ r → rank r - rank l < fuel → (bisect mid done probe tooBig fuel l r cur).2 = true := by
  induction fuel with
  | zero => intro l r cur _ h; omega
  | succ n ih =>
    intro l r cur hlr hfuel
    simp only [bisect]
    split
    · rfl
    · split
      · rfl
      · rename_i hx
        have hx' : ¬ (mid l r = l) ∧ ¬ (mid l r = r) := by
          constructor
          · intro h; exact hx (Or.inl h)
          · intro h; exact hx (Or.inr h)
        obtain ⟨h1, h2⟩ := hmid l r hlr
        have hl : l < mid l r := lt_of_le_of_ne h1 (Ne.symm hx'.1)
        have hr : mid l r < r := lt_of_le_of_ne h2 hx'.2
        have rl := hrank hl
        have rr := hrank hr
        split
        · exact ih l _ cur h1 (by omega)
        · split
          · exact ih l _ cur h1 (by omega)
          · exact ih _ r _ h2 (by omega)

theorem omdLambda_valid (ps etas losses : List Rat) (hp : ∀ p ∈ ps, 0 < p) (he : ∀ e ∈ etas, 0 ≤ e) :
    ∃ raw, omdRaw ps etas losses (omdLambda ps etas losses) = some raw := by
  unfold omdLambda
  cases losses with
  | nil =>
    refine ⟨_, omdRaw_of_pos ps etas [] 0 ?_⟩
    intro d hd
    cases ps <;> cases etas <;> simp [omdDenoms] at hd
  | cons l0 ls =>
    have hlo : omdRaw ps etas (l0 :: ls) (minOf l0 ls) = some ((omdDenoms ps etas (l0 :: ls) (minOf l0 ls)).map (fun d => 1 / d)) := by
      apply omdRaw_of_pos
      apply omdDenoms_pos_of_le ps etas (l0 :: ls) _ hp he
      intro l hl
      rcases List.mem_cons.mp hl with rfl | hl
      · exact minOf_le_init _ _
      · exact minOf_le _ _ l hl
    simp only [hlo]
    exact ⟨_, omdSearch_valid ps etas (l0 :: ls) searchFuel _ _ _ hlo⟩

open Coba.C05 (choicew next)

/-! ### Corral: the state invariant -/

/-- Corral's weights (raw and smoothed) are strictly positive distributions over its base
learners, the learning rates stay positive -/
structure Corral.Inv (c : Corral) : Prop where
  ne : c.ps ≠ []
  len_pbars : c.pbars.length = c.ps.length
  len_etas : c.etas.length = c.ps.length
  len_rhos : c.rhos.length = c.ps.length
  ps_pos : ∀ p ∈ c.ps, 0 < p
  ps_sum : c.ps.sum = 1
  pbars_pos : ∀ p ∈ c.pbars, 0 < p
  pbars_sum : c.pbars.sum = 1
  etas_pos : ∀ e ∈ c.etas, 0 < e
  gamma0 : 0 ≤ c.gamma
  gamma1 : c.gamma ≤ 1
  beta_pos : 0 < c.beta

theorem etaRho_spec (beta : Rat) (hb : 0 < beta) (pbars etas rhos : List Rat)
    (h1 : etas.length = pbars.length) (h2 : rhos.length = pbars.length) (he : ∀ e ∈ etas, 0 < e) :
    (etaRho beta pbars etas rhos).1.length = pbars.length ∧ (etaRho beta pbars etas rhos).2.length = pbars.length ∧
      ∀ e ∈ (etaRho beta pbars etas rhos).1, 0 < e := by
  induction pbars generalizing etas rhos with
  | nil =>
    have : etas = [] := List.length_eq_zero_iff.mp (by simpa using h1)
    have : rhos = [] := List.length_eq_zero_iff.mp (by simpa using h2)
    subst_vars; simp [etaRho]
  | cons pb pbs ih =>
    cases etas with
    | nil => simp at h1
    | cons e es =>
      cases rhos with
      | nil => simp at h2
      | cons rh rhs =>
        obtain ⟨i1, i2, i3⟩ := ih es rhs (by simpa using h1) (by simpa using h2) (fun x hx => he x (by simp [hx]))
        have he0 : 0 < e := he e (by simp)
        simp only [etaRho]
        split
        · refine ⟨by simp [i1], by simp [i2], ?_⟩
          intro x hx
          rcases List.mem_cons.mp hx with rfl | hx
          · positivity
          · exact i3 x hx
        · refine ⟨by simp [i1], by simp [i2], ?_⟩
          intro x hx
          rcases List.mem_cons.mp hx with rfl | hx
          · exact he0
          · exact i3 x hx

theorem Corral.init_inv (fl : Rat → Rat) (M : Nat) (eta gamma beta : Rat) (imp : Bool) (rng : Nat)
    (hM : M ≠ 0) (hfl : fl (1 / (M : Rat)) = 1 / (M : Rat)) (heta : 0 < eta) (hg0 : 0 ≤ gamma) (hg1 : gamma ≤ 1) (hb : 0 < beta) :
    (Corral.init fl M eta gamma beta imp rng).Inv := by
  have hq : (0 : Rat) < (M : Rat) := by exact_mod_cast Nat.pos_of_ne_zero hM
  have hv := replicate_valid M hM
  have hpos : ∀ p ∈ List.replicate M (1 / (M : Rat)), 0 < p := by
    intro p hp; rw [(List.mem_replicate.mp hp).2]; positivity
  exact {
    ne := by simp only [Corral.init, hfl]; intro h; exact hM (by simpa using congrArg List.length h)
    len_pbars := by simp [Corral.init]
    len_etas := by simp [Corral.init]
    len_rhos := by simp [Corral.init]
    ps_pos := by simp only [Corral.init, hfl]; exact hpos
    ps_sum := by simp only [Corral.init, hfl]; exact hv.2.2
    pbars_pos := by simp only [Corral.init, hfl]; exact hpos
    pbars_sum := by simp only [Corral.init, hfl]; exact hv.2.2
    etas_pos := by
      simp only [Corral.init]; intro e he; rw [(List.mem_replicate.mp he).2]; exact heta
    gamma0 := hg0
    gamma1 := hg1
    beta_pos := hb }

theorem Corral.predict_ok (c : Corral) (actions bacts : List Act) (hinv : c.Inv)
    (hnd : actions.Nodup) (hlen : bacts.length = c.ps.length) (hb : ∀ b ∈ bacts, b ∈ actions) :
    ∃ i p, c.predict actions bacts = .ok ({ c with rng := next c.rng }, i, p, corralPmf c.pbars bacts actions) ∧
      Valid (corralPmf c.pbars bacts actions) actions.length ∧ i < actions.length ∧
      (corralPmf c.pbars bacts actions)[i]? = some p ∧ 0 < p := by
  have hv := corralPmf_valid c.pbars bacts actions hnd (by rw [hlen, hinv.len_pbars]) hb
    (fun p hp => le_of_lt (hinv.pbars_pos p hp)) hinv.pbars_sum
  obtain ⟨i, w, hc, hw, hwpos⟩ := Coba.C05.choicew_weight' c.rng actions.length _ hv.1 hv.2.1 (valid_sum_pos _ _ hv)
  refine ⟨i, w, by simp [Corral.predict, liftRng, hc], hv, ?_, hw, hwpos⟩
  have := (List.getElem?_eq_some_iff.mp hw).1; rw [hv.1] at this; exact this

theorem smooth_valid (ps : List Rat) (gamma : Rat) (M : Nat) (hM : ps.length = M) (hne : ps ≠ [])
    (hpos : ∀ p ∈ ps, 0 < p) (hsum : ps.sum = 1) (hg0 : 0 ≤ gamma) (hg1 : gamma ≤ 1) :
    (∀ q ∈ ps.map (fun q => (1 - gamma) * q + gamma * 1 / (M : Rat)), 0 < q) ∧
      (ps.map (fun q => (1 - gamma) * q + gamma * 1 / (M : Rat))).sum = 1 := by
  have hMpos : 0 < M := by rw [← hM]; exact List.length_pos_iff.mpr hne
  have hq : (0 : Rat) < (M : Rat) := by exact_mod_cast hMpos
  constructor
  · intro q hq'
    obtain ⟨p, hp, rfl⟩ := List.mem_map.mp hq'
    have hp0 := hpos p hp
    have h1 : 0 ≤ (1 - gamma) * p := mul_nonneg (by linarith) (le_of_lt hp0)
    have h2 : 0 ≤ gamma * 1 / (M : Rat) := by positivity
    by_cases hg : gamma = 1
    · subst hg; simp; positivity
    · have : 0 < 1 - gamma := by
        rcases lt_or_eq_of_le hg1 with h | h
        · linarith
        · exact absurd h hg
      have : 0 < (1 - gamma) * p := mul_pos this hp0
      linarith
  · have : (ps.map (fun q => (1 - gamma) * q + gamma * 1 / (M : Rat))) = ps.map (fun q => (1 - gamma) * q + gamma * 1 / (M : Rat)) := rfl
    rw [sum_map_affine ps (1 - gamma) (gamma * 1 / (M : Rat)), hsum, hM]
    field_simp
    ring

/-- one update with ANY multiplier for which `update` is defined keeps the invariant -/
theorem Corral.learnWith_ok (c : Corral) (bacts : List Act) (a : Act) (r p lam : Rat) (hinv : c.Inv)
    (hlen : bacts.length = c.ps.length) (hr0 : 0 ≤ r) (hr1 : r ≤ 1) (hp : p ≠ 0)
    (hlam : ∃ raw, omdRaw c.ps c.etas (corralLosses bacts a r p) lam = some raw) :
    ∃ c', c.learnWith bacts a r p lam = .ok c' ∧ c'.Inv ∧ c'.ps.length = c.ps.length := by
  obtain ⟨raw, hraw⟩ := hlam
  have hll : (corralLosses bacts a r p).length = c.ps.length := by simp [corralLosses, hlen]
  have hrl := omdRaw_length _ _ _ _ _ hraw hinv.len_etas hll
  have hrne : raw ≠ [] := by
    intro h; rw [h] at hrl; exact hinv.ne (List.length_eq_zero_iff.mp hrl.symm)
  obtain ⟨nl, npos, nsum⟩ := normalise_valid raw hrne (omdRaw_pos _ _ _ _ _ hraw)
  have nne : normalise raw ≠ [] := by
    intro h; rw [h] at nl; exact hrne (List.length_eq_zero_iff.mp nl.symm)
  obtain ⟨spos, ssum⟩ := smooth_valid (normalise raw) c.gamma c.ps.length (by rw [nl, hrl]) nne npos nsum hinv.gamma0 hinv.gamma1
  have slen : ((normalise raw).map (fun q => (1 - c.gamma) * q + c.gamma * 1 / (c.ps.length : Rat))).length = c.ps.length := by
    simp [nl, hrl]
  obtain ⟨e1, e2, e3⟩ := etaRho_spec c.beta hinv.beta_pos _ c.etas c.rhos (by rw [slen, hinv.len_etas]) (by rw [slen, hinv.len_rhos]) hinv.etas_pos
  refine ⟨{ c with ps := normalise raw,
                   pbars := (normalise raw).map (fun q => (1 - c.gamma) * q + c.gamma * 1 / (c.ps.length : Rat)),
                   etas := (etaRho c.beta ((normalise raw).map (fun q => (1 - c.gamma) * q + c.gamma * 1 / (c.ps.length : Rat))) c.etas c.rhos).1,
                   rhos := (etaRho c.beta ((normalise raw).map (fun q => (1 - c.gamma) * q + c.gamma * 1 / (c.ps.length : Rat))) c.etas c.rhos).2 },
    by simp [Corral.learnWith, hr0, hr1, hp, hraw], ?_, by simp [nl, hrl]⟩
  exact {
    ne := nne
    len_pbars := by simp
    len_etas := by simp only []; rw [e1, slen, nl, hrl]
    len_rhos := by simp only []; rw [e2, slen, nl, hrl]
    ps_pos := npos
    ps_sum := nsum
    pbars_pos := spos
    pbars_sum := ssum
    etas_pos := e3
    gamma0 := hinv.gamma0
    gamma1 := hinv.gamma1
    beta_pos := hinv.beta_pos }

/-- `learn` (with the multiplier the repaired search returns) never raises and keeps the invariant -/
theorem Corral.learn_ok (c : Corral) (bacts : List Act) (a : Act) (r p : Rat) (hinv : c.Inv)
    (hlen : bacts.length = c.ps.length) (hr0 : 0 ≤ r) (hr1 : r ≤ 1) (hp : p ≠ 0) :
    ∃ c', c.learn bacts a r p = .ok c' ∧ c'.Inv ∧ c'.ps.length = c.ps.length := by
  unfold Corral.learn
  exact Corral.learnWith_ok c bacts a r p _ hinv hlen hr0 hr1 hp
    (omdLambda_valid c.ps c.etas _ hinv.ps_pos (fun e he => le_of_lt (hinv.etas_pos e he)))


/-! ### Corral: histories -/

/-- what the property demands of Corral's answer to a call -/
def OutOkC : COp → Out → Prop
  | .predict actions _, .pred i p pmf => Valid pmf actions.length ∧ i < actions.length ∧ pmf[i]? = some p ∧ 0 < p
  | .score _ _ _, .score p => 0 ≤ p
  | .learn _ _ _ _, .learned => True
  | _, _ => False

/-- a call inside the quantifier: duplicate-free action set, every base learner chose an offered
action (proved for the built-in base learners by `Learner.predict_ok`), reward in [0,1],
positive probability -/
def COpOk (M : Nat) : COp → Prop
  | .predict actions bacts => actions.Nodup ∧ bacts.length = M ∧ ∀ b ∈ bacts, b ∈ actions
  | .score actions bacts a => actions.Nodup ∧ bacts.length = M ∧ (∀ b ∈ bacts, b ∈ actions) ∧ a ∈ actions
  | .learn bacts _ r p => bacts.length = M ∧ 0 ≤ r ∧ r ≤ 1 ∧ 0 < p

theorem stepC_ok (c : Corral) (op : COp) (hinv : c.Inv) (hop : COpOk c.ps.length op) :
    ∃ c' o, stepC c op = (c', o) ∧ OutOkC op o ∧ c'.Inv ∧ c'.ps.length = c.ps.length := by
  cases op with
  | predict actions bacts =>
    obtain ⟨hnd, hlen, hb⟩ := hop
    obtain ⟨i, p, hp, hv, hi, hpi, hpos⟩ := Corral.predict_ok c actions bacts hinv hnd hlen hb
    exact ⟨{ c with rng := next c.rng }, .pred i p _, by simp [stepC, hp], ⟨hv, hi, hpi, hpos⟩,
      { hinv with }, rfl⟩
  | score actions bacts a =>
    obtain ⟨hnd, hlen, hb, ha⟩ := hop
    have hv := corralPmf_valid c.pbars bacts actions hnd (by rw [hlen, hinv.len_pbars]) hb
      (fun p hp => le_of_lt (hinv.pbars_pos p hp)) hinv.pbars_sum
    have hidx : actions.idxOf a < (corralPmf c.pbars bacts actions).length := by
      rw [hv.1]; exact List.idxOf_lt_length_of_mem ha
    refine ⟨c, .score (corralPmf c.pbars bacts actions)[actions.idxOf a], ?_, ?_, hinv, rfl⟩
    · simp [stepC, Corral.score, ha, List.getElem?_eq_getElem hidx]
    · exact hv.2.1 _ (List.getElem_mem hidx)
  | learn bacts a r p =>
    obtain ⟨hlen, hr0, hr1, hp⟩ := hop
    obtain ⟨c', hl, hi, hlen'⟩ := Corral.learn_ok c bacts a r p hinv hlen hr0 hr1 (ne_of_gt hp)
    exact ⟨c', .learned, by simp [stepC, hl], trivial, hi, hlen'⟩

theorem runC_valid (ops : List COp) : ∀ (c : Corral), c.Inv → (∀ op ∈ ops, COpOk c.ps.length op) →
    List.Forall₂ (fun op co => co.1.Inv ∧ OutOkC op co.2) ops (runC c ops) := by
  induction ops with
  | nil => intro c _ _; simp [runC]
  | cons op ops ih =>
    intro c hinv hops
    obtain ⟨c', o, hs, hok, hi, hlen⟩ := stepC_ok c op hinv (hops op (by simp))
    have hrest := ih c' hi (by intro op' h'; rw [hlen]; exact hops op' (by simp [h']))
    simp only [runC, hs]
    exact List.Forall₂.cons ⟨hi, hok⟩ hrest

/-! ### the bracket of the search, and why the unrepaired shortcut was wrong -/

/-- left of every loss the new weights are termwise at most the old ones … -/
theorem omd_sum_le_of_le (ps etas losses : List Rat) (lam : Rat) (hp : ∀ p ∈ ps, 0 < p)
    (he : ∀ e ∈ etas, 0 ≤ e) (hl : ∀ l ∈ losses, lam ≤ l) (h1 : etas.length = ps.length) (h2 : losses.length = ps.length) :
    ((omdDenoms ps etas losses lam).map (fun d => 1 / d)).sum ≤ ps.sum := by
  induction ps generalizing etas losses with
  | nil => simp [omdDenoms]
  | cons p ps ih =>
    cases etas with
    | nil => simp at h1
    | cons e es =>
      cases losses with
      | nil => simp at h2
      | cons l ls =>
        simp only [omdDenoms, List.map_cons, List.sum_cons]
        have hp0 : 0 < p := hp p (by simp)
        have h3 : 0 ≤ e * (l - lam) := mul_nonneg (he e (by simp)) (by have := hl l (by simp); linarith)
        have hinv : 0 < 1 / p := by positivity
        have : 1 / (1 / p + e * (l - lam)) ≤ p := by
          rw [div_le_iff₀ (by linarith)]
          have : p * (1 / p) = 1 := by field_simp
          nlinarith
        have := ih es ls (fun q hq => hp q (by simp [hq])) (fun q hq => he q (by simp [hq]))
          (fun q hq => hl q (by simp [hq])) (by simpa using h1) (by simpa using h2)
        linarith

/-- … and right of every loss, as long as `update` is defined, at least the old ones: the root
of `sum = 1` with all weights positive lies between the smallest and the largest loss -/
theorem omd_sum_ge_of_ge (ps etas losses : List Rat) (lam : Rat) (hp : ∀ p ∈ ps, 0 < p)
    (he : ∀ e ∈ etas, 0 ≤ e) (hl : ∀ l ∈ losses, l ≤ lam) (hd : ∀ d ∈ omdDenoms ps etas losses lam, 0 < d)
    (h1 : etas.length = ps.length) (h2 : losses.length = ps.length) :
    ps.sum ≤ ((omdDenoms ps etas losses lam).map (fun d => 1 / d)).sum := by
  induction ps generalizing etas losses with
  | nil => simp [omdDenoms]
  | cons p ps ih =>
    cases etas with
    | nil => simp at h1
    | cons e es =>
      cases losses with
      | nil => simp at h2
      | cons l ls =>
        simp only [omdDenoms, List.map_cons, List.sum_cons]
        have hp0 : 0 < p := hp p (by simp)
        have h3 : e * (l - lam) ≤ 0 := mul_nonpos_of_nonneg_of_nonpos (he e (by simp)) (by have := hl l (by simp); linarith)
        have hd0 : 0 < 1 / p + e * (l - lam) := hd _ (by simp [omdDenoms])
        have : p ≤ 1 / (1 / p + e * (l - lam)) := by
          rw [le_div_iff₀ hd0]
          have : p * (1 / p) = 1 := by field_simp
          nlinarith
        have := ih es ls (fun q hq => hp q (by simp [hq])) (fun q hq => he q (by simp [hq]))
          (fun q hq => hl q (by simp [hq])) (fun d hd' => hd d (by simp [omdDenoms, hd'])) (by simpa using h1) (by simpa using h2)
        linarith

/-- the unrepaired code's `lmbda = max_loss` shortcut only tested `round(f(max_loss),4) == 1`.
Weights (0.99999, 0.000005, 0.000005), losses (1e9, 0, 1e9), eta 1: at `max_loss` the sum rounds to
1 but the middle weight is negative (max_loss lies beyond its pole). -/
theorem omd_shortcut_witness :
    let ps : List Rat := [99999 / 100000, 1 / 200000, 1 / 200000]
    let etas : List Rat := [1, 1, 1]
    let losses : List Rat := [1000000000, 0, 1000000000]
    let new := (omdDenoms ps etas losses 1000000000).map (fun d => 1 / d)
    (∀ p ∈ ps, 0 < p) ∧ ps.sum = 1 ∧ rounds1 new.sum = true ∧ (∃ x ∈ new, x < 0) ∧
      omdRaw ps etas losses 1000000000 = none := by
  simp only [omdDenoms, omdRaw, rounds1]
  norm_num

theorem Corral.Inv.sum_tol (c : Corral) (h : c.Inv) :
    |c.ps.sum - 1| ≤ 1 / 10000 ∧ |c.pbars.sum - 1| ≤ 1 / 10000 := by
  rw [h.ps_sum, h.pbars_sum]; norm_num

open Coba.C05 (next)

/-! ### nested compositions -/

/-- what a base learner guarantees to the Corral above it -/
structure Base.Laws (B : Base) where
  inv : B.σ → Prop
  /-- it can be offered `n` actions (a FixedLearner anywhere below has `n` entries) -/
  fits : B.σ → Nat → Prop
  /-- it holds the kwargs of a prediction (a Corral below has predicted at least once) -/
  ready : B.σ → Prop
  /-- the feedback (action, reward, probability) is acceptable: every Corral at or below this learner
  is handed a reward in [0,1] and a non-zero probability — THE FORCED HYPOTHESIS of nesting -/
  accepts : B.σ → Act → Rat → Rat → Prop
  predict_ok : ∀ s actions, inv s → actions ≠ [] → actions.Nodup → fits s actions.length →
    ∃ s' a p, B.predict s actions = .ok (s', a, p) ∧ inv s' ∧ ready s' ∧ a ∈ actions ∧ 0 < p ∧ (∀ n, fits s n → fits s' n)
  learn_ok : ∀ s a r p, inv s → ready s → accepts s a r p →
    ∃ s', B.learn s a r p = .ok s' ∧ inv s' ∧ (∀ n, fits s n → fits s' n)

def leafLaws (fl : Rat → Rat) : (leafBase fl).Laws where
  inv := fun s => s.L.kind.Inv
  fits := fun s n => Fits s.L.kind.arity n
  ready := fun _ => True
  accepts := fun _ _ _ _ => True
  predict_ok := by
    intro s actions hinv hne hnd hfit
    obtain ⟨i, p, pmf, hp, _, _, hi, _, hpos⟩ := Learner.predict_ok (s.val s.k) s.L actions hinv hne hnd hfit
    refine ⟨{ s with L := { s.L with rng := next s.L.rng }, k := s.k + 1 }, actions[i], p, ?_, hinv, trivial,
      List.getElem_mem hi, hpos, fun n h => h⟩
    simp [leafBase, hp, List.getElem?_eq_getElem hi]
  learn_ok := by
    intro s a r p hinv _ _
    obtain ⟨L', hl, hi, har⟩ := Learner.learn_ok fl s.L a r hinv
    refine ⟨{ s with L := L' }, by simp [leafBase, hl], hi, ?_⟩
    intro n h; simpa [har] using h

/-- zip-wise acceptance of the feedback by the base learners -/
def allAccept {B : Base} (h : B.Laws) : List B.σ → List (Act × Rat × Rat) → Prop
  | s :: ss, (a, r, p) :: fs => h.accepts s a r p ∧ allAccept h ss fs
  | _, _ => True

theorem predictAll_ok {B : Base} (h : B.Laws) (actions : List Act) (hne : actions ≠ []) (hnd : actions.Nodup) :
    ∀ ss : List B.σ, (∀ s ∈ ss, h.inv s) → (∀ s ∈ ss, h.fits s actions.length) →
      ∃ ss' as ps, predictAll B ss actions = .ok (ss', as, ps) ∧ (∀ s ∈ ss', h.inv s) ∧ (∀ s ∈ ss', h.ready s) ∧
        ss'.length = ss.length ∧ as.length = ss.length ∧ ps.length = ss.length ∧ (∀ a ∈ as, a ∈ actions) ∧
        (∀ n, (∀ s ∈ ss, h.fits s n) → ∀ s ∈ ss', h.fits s n) := by
  intro ss
  induction ss with
  | nil => intro _ _; exact ⟨[], [], [], rfl, by simp, by simp, rfl, rfl, rfl, by simp, by simp⟩
  | cons s ss ih =>
    intro hinv hfit
    obtain ⟨s', a, p, hp, hi, hr, ha, _, hf⟩ := h.predict_ok s actions (hinv s (by simp)) hne hnd (hfit s (by simp))
    obtain ⟨ss', as, ps, hps, i1, i2, i3, i4, i5, i6, i7⟩ := ih (fun t ht => hinv t (by simp [ht])) (fun t ht => hfit t (by simp [ht]))
    refine ⟨s' :: ss', a :: as, p :: ps, by simp [predictAll, hp, hps], ?_, ?_, by simp [i3], by simp [i4], by simp [i5], ?_, ?_⟩
    · intro t ht; rcases List.mem_cons.mp ht with rfl | ht; exacts [hi, i1 t ht]
    · intro t ht; rcases List.mem_cons.mp ht with rfl | ht; exacts [hr, i2 t ht]
    · intro b hb; rcases List.mem_cons.mp hb with rfl | hb; exacts [ha, i6 b hb]
    · intro n hn t ht
      rcases List.mem_cons.mp ht with rfl | ht
      · exact hf n (hn s (by simp))
      · exact i7 n (fun u hu => hn u (by simp [hu])) t ht

theorem learnAll_ok {B : Base} (h : B.Laws) : ∀ (ss : List B.σ) (fs : List (Act × Rat × Rat)),
    (∀ s ∈ ss, h.inv s) → (∀ s ∈ ss, h.ready s) → allAccept h ss fs →
      ∃ ss', learnAll B ss fs = .ok ss' ∧ (∀ s ∈ ss', h.inv s) ∧ ss'.length = ss.length ∧
        (∀ n, (∀ s ∈ ss, h.fits s n) → ∀ s ∈ ss', h.fits s n) := by
  intro ss
  induction ss with
  | nil => intro fs _ _ _; exact ⟨[], by cases fs <;> simp [learnAll], by simp, rfl, by simp⟩
  | cons s ss ih =>
    intro fs hinv hready hacc
    cases fs with
    | nil => exact ⟨s :: ss, by simp [learnAll], hinv, rfl, fun n hn => hn⟩
    | cons f fs =>
      obtain ⟨a, r, p⟩ := f
      obtain ⟨ha, hrest⟩ := hacc
      obtain ⟨s', hl, hi, hf⟩ := h.learn_ok s a r p (hinv s (by simp)) (hready s (by simp)) ha
      obtain ⟨ss', hls, i1, i2, i3⟩ := ih fs (fun t ht => hinv t (by simp [ht])) (fun t ht => hready t (by simp [ht])) hrest
      refine ⟨s' :: ss', by simp [learnAll, hl, hls], ?_, by simp [i2], ?_⟩
      · intro t ht; rcases List.mem_cons.mp ht with rfl | ht; exacts [hi, i1 t ht]
      · intro n hn t ht
        rcases List.mem_cons.mp ht with rfl | ht
        · exact hf n (hn s (by simp))
        · exact i3 n (fun u hu => hn u (by simp [hu])) t ht

/-- **Corral over valid base learners is a valid base learner** -/
def corralLaws (fl : Rat → Rat) {B : Base} (h : B.Laws) : (corralOver fl B).Laws where
  inv := fun s => s.c.Inv ∧ s.bases.length = s.c.ps.length ∧ ∀ b ∈ s.bases, h.inv b
  fits := fun s n => ∀ b ∈ s.bases, h.fits b n
  ready := fun s => s.lastActs.length = s.c.ps.length ∧ ∀ b ∈ s.bases, h.ready b
  accepts := fun s a r p =>
    0 ≤ misguide fl s.mis r ∧ misguide fl s.mis r ≤ 1 ∧ p ≠ 0 ∧
      allAccept h s.bases (corralFeedback s.c.importance s.lastActs s.lastProbs a (misguide fl s.mis r) p)
  predict_ok := by
    intro s actions ⟨hc, hlen, hb⟩ hne hnd hfit
    obtain ⟨ss', as, ps, hps, i1, i2, i3, i4, _, i6, i7⟩ := predictAll_ok h actions hne hnd s.bases hb hfit
    obtain ⟨i, p, hp, _, hi, _, hpos⟩ := Corral.predict_ok s.c actions as hc hnd (by rw [i4, hlen]) i6
    refine ⟨{ s with c := { s.c with rng := next s.c.rng }, lastActs := as, lastProbs := ps, bases := ss' }, actions[i], p, ?_,
      ⟨{ hc with }, by simp [i3, hlen], i1⟩, ⟨by simp [i4, hlen], i2⟩, List.getElem_mem hi, hpos, fun n hn => i7 n hn⟩
    simp [corralOver, hps, hp, List.getElem?_eq_getElem hi]
  learn_ok := by
    intro s a r p ⟨hc, hlen, hb⟩ ⟨hla, hrb⟩ ⟨hr0, hr1, hp, hacc⟩
    obtain ⟨ss', hls, i1, i2, i3⟩ := learnAll_ok h s.bases _ hb hrb hacc
    obtain ⟨c', hcl, hci, hcl'⟩ := Corral.learn_ok s.c s.lastActs a (misguide fl s.mis r) p hc hla hr0 hr1 hp
    refine ⟨{ s with c := c', bases := ss' }, ?_, ⟨hci, by simp [i2, hlen, hcl'], i1⟩, fun n hn => i3 n hn⟩
    simp [corralOver, hr0, hr1, hp, hls, hcl]

def sumLaws {B1 B2 : Base} (h1 : B1.Laws) (h2 : B2.Laws) : (sumBase B1 B2).Laws where
  inv := fun s => match s with | .inl s => h1.inv s | .inr s => h2.inv s
  fits := fun s n => match s with | .inl s => h1.fits s n | .inr s => h2.fits s n
  ready := fun s => match s with | .inl s => h1.ready s | .inr s => h2.ready s
  accepts := fun s a r p => match s with | .inl s => h1.accepts s a r p | .inr s => h2.accepts s a r p
  predict_ok := by
    intro s actions hinv hne hnd hfit
    cases s with
    | inl s =>
      obtain ⟨s', a, p, hp, i1, i2, i3, i4, i5⟩ := h1.predict_ok s actions hinv hne hnd hfit
      exact ⟨.inl s', a, p, by simp [sumBase, hp], i1, i2, i3, i4, i5⟩
    | inr s =>
      obtain ⟨s', a, p, hp, i1, i2, i3, i4, i5⟩ := h2.predict_ok s actions hinv hne hnd hfit
      exact ⟨.inr s', a, p, by simp [sumBase, hp], i1, i2, i3, i4, i5⟩
  learn_ok := by
    intro s a r p hinv hready hacc
    cases s with
    | inl s =>
      obtain ⟨s', hl, i1, i2⟩ := h1.learn_ok s a r p hinv hready hacc
      exact ⟨.inl s', by simp [sumBase, hl], i1, i2⟩
    | inr s =>
      obtain ⟨s', hl, i1, i2⟩ := h2.learn_ok s a r p hinv hready hacc
      exact ⟨.inr s', by simp [sumBase, hl], i1, i2⟩

/-- the guarantees at every nesting depth -/
def towerLaws (fl : Rat → Rat) : (n : Nat) → (tower fl n).Laws
  | 0 => leafLaws fl
  | n + 1 => sumLaws (leafLaws fl) (corralLaws fl (towerLaws fl n))

/-- importance-weighted feedback is not bounded by 1: reward 1 at probability 1/2 reaches the base
learner that chose the played action as 2, and a Corral rejects it -/
theorem importance_feedback_unbounded :
    corralFeedback true [0] [1] 0 1 (1 / 2) = [(0, 2, 1)] ∧
      ∀ (c : Corral) (bacts : List Act) (a : Act) (p : Rat), c.learn bacts a 2 p = .error .assertion := by
  constructor
  · simp [corralFeedback]
  · intro c bacts a p
    simp [Corral.learn, Corral.learnWith]

theorem maxOf_ge_init (m : Rat) (xs : List Rat) : m ≤ maxOf m xs := by
  induction xs generalizing m with
  | nil => simp [maxOf]
  | cons x xs ih =>
    simp only [maxOf]
    by_cases h : m < x
    · simp only [h, if_true]; have := ih x; linarith
    · simp only [h, if_false]; exact ih m

theorem maxOf_ge (m : Rat) (xs : List Rat) : ∀ x ∈ xs, x ≤ maxOf m xs := by
  induction xs generalizing m with
  | nil => simp
  | cons y ys ih =>
    intro x hx
    simp only [maxOf]
    rcases List.mem_cons.mp hx with rfl | hx
    · by_cases h : m < x
      · simp only [h, if_true]; exact maxOf_ge_init x ys
      · simp only [h, if_false]; have := maxOf_ge_init m ys; have h := not_lt.mp h; linarith
    · exact ih _ x hx

/-- epsilon-greedy puts `(1-ε)/k + ε/n` on each of the `k` greedy (maximal-value) actions and `ε/n`
on every other one -/
theorem Eps.pmf_shape (st : Eps) (actions : List Act) (hne : actions ≠ []) :
    ∃ (M : Rat) (k : Nat), (∀ a ∈ actions, st.q a ≤ M) ∧ (∃ a ∈ actions, st.q a = M) ∧
      k = (actions.filter (fun a => decide (st.q a = M))).length ∧ 0 < k ∧
      st.pmf actions = actions.map (fun a =>
        if st.q a = M then (1 - st.eps) / (k : Rat) + st.eps / (actions.length : Rat) else st.eps / (actions.length : Rat)) := by
  obtain ⟨a0, rest, rfl⟩ := List.exists_cons_of_ne_nil hne
  set M := maxOf (st.q a0) (rest.map st.q) with hM
  have hmem : ∃ a ∈ a0 :: rest, st.q a = M := by
    rcases maxOf_mem (st.q a0) (rest.map st.q) with h | h
    · exact ⟨a0, by simp, h.symm⟩
    · obtain ⟨b, hb, hbv⟩ := List.mem_map.mp h
      exact ⟨b, by simp [hb], hbv⟩
  have hfl : ((a0 :: rest).map st.q).filter (fun q => decide (q = M)) = ((a0 :: rest).filter (fun a => decide (st.q a = M))).map st.q := by
    rw [List.filter_map]; rfl
  refine ⟨M, ((a0 :: rest).filter (fun a => decide (st.q a = M))).length, ?_, hmem, rfl, ?_, ?_⟩
  · intro a ha
    rcases List.mem_cons.mp ha with rfl | ha
    · exact maxOf_ge_init _ _
    · exact maxOf_ge _ _ _ (List.mem_map.mpr ⟨a, ha, rfl⟩)
  · obtain ⟨a, ha, hq⟩ := hmem
    exact List.length_pos_of_mem (a := a) (by simp [List.mem_filter, ha, hq])
  · simp only [Eps.pmf, epsPmfVals, List.map_cons, ← hM]
    have hk : ((st.q a0 :: rest.map st.q).filter (fun q => decide (q = M))).length
        = ((a0 :: rest).filter (fun a => decide (st.q a = M))).length := by
      have := congrArg List.length hfl
      simpa using this
    rw [hk]
    have key : ∀ a : Act,
        1 / (((a0 :: rest).map st.q).length : Rat) * st.eps +
          (if st.q a = M then 1 / (((a0 :: rest).filter (fun a => decide (st.q a = M))).length : Rat) else 0) * (1 - st.eps)
        = if st.q a = M then (1 - st.eps) / (((a0 :: rest).filter (fun a => decide (st.q a = M))).length : Rat) + st.eps / ((a0 :: rest).length : Rat)
          else st.eps / ((a0 :: rest).length : Rat) := by
      intro a
      rw [List.length_map]
      split <;> ring
    refine congrArg₂ List.cons (key a0) ?_
    rw [List.map_map]
    exact List.map_congr_left (fun a _ => key a)

/-- UCB1 initialisation: while an offered action has never been observed, exactly the never-observed
actions carry probability (uniformly), whatever the index values -/
theorem Ucb.pmf_never_first (val : Act → Rat) (st : Ucb) (actions : List Act) (hnd : actions.Nodup)
    (h : ∃ a ∈ actions, dhas st.m a = false) :
    st.pmf val actions = .ok (actions.map (fun a =>
      if dhas st.m a = false then 1 / ((actions.filter (fun a => !dhas st.m a)).length : Rat) else 0)) := by
  unfold Ucb.pmf
  have hnever : actions.filter (fun a => !dhas st.m a) ≠ [] := by
    obtain ⟨a, ha, hq⟩ := h
    intro he
    have : a ∈ actions.filter (fun a => !dhas st.m a) := by simp [List.mem_filter, ha, hq]
    rw [he] at this; simp at this
  rw [if_pos hnever, distinct_of_nodup _ (hnd.filter _)]
  congr 1
  simp only [uniformOn]
  apply List.map_congr_left
  intro a ha
  by_cases hq : dhas st.m a = false
  · simp [List.mem_filter, ha, hq]
  · simp [List.mem_filter, hq]

open Coba.C05 (next)

/-! ### Misguided wrappers and PMFInfoPredictor -/

/-- `MisguidedLearner.learn`: one wrapper (shifter, scaler) around a learner teaches the wrapped
learner `shifter + scaler*reward`, nothing else changes -/
theorem Learner.learn_misguided (fl : Rat → Rat) (L : Learner) (sh sc : Rat) (a : Act) (r : Rat) :
    ({ L with mis := (sh, sc) :: L.mis }).learn fl a r =
      (match L.learn fl a (fl (sh + fl (sc * r))) with
       | .ok L' => .ok { L' with mis := (sh, sc) :: L'.mis }
       | .error e => .error e) := by
  cases hk : L.kind with
  | eps st => simp [Learner.learn, hk, misguide]
  | ucb st =>
    simp only [Learner.learn, hk, misguide]
    cases st.learn fl a (misguide fl L.mis (fl (sh + fl (sc * r)))) <;> rfl
  | fixed p => simp [Learner.learn, hk]
  | random => simp [Learner.learn, hk]

/-- `MisguidedLearner.predict/score` delegate: the wrappers do not influence predictions -/
theorem Learner.predict_misguided (val : Act → Rat) (L : Learner) (m : List (Rat × Rat)) (actions : List Act) :
    ({ L with mis := m }).predict val actions =
      (match L.predict val actions with
       | .ok (L', i, p, pmf) => .ok ({ L' with mis := m }, i, p, pmf)
       | .error e => .error e) := by
  cases hk : L.kind with
  | random =>
    simp only [Learner.predict, hk]
    cases liftRng (Coba.C05.choicew L.rng actions.length none) with
    | error e => rfl
    | ok v => obtain ⟨s', i, w⟩ := v; rfl
  | eps st =>
    simp only [Learner.predict, hk, Kind.pmf]
    cases liftRng (Coba.C05.choicew L.rng actions.length (some (st.pmf actions))) with
    | error e => rfl
    | ok v => obtain ⟨s', i, w⟩ := v; rfl
  | ucb st =>
    simp only [Learner.predict, hk, Kind.pmf]
    cases st.pmf val actions with
    | error e => rfl
    | ok pmf =>
      simp only []
      cases liftRng (Coba.C05.choicew L.rng actions.length (some pmf)) with
      | error e => rfl
      | ok v => obtain ⟨s', i, w⟩ := v; rfl
  | fixed p =>
    simp only [Learner.predict, hk, Kind.pmf]
    cases liftRng (Coba.C05.choicew L.rng actions.length (some p)) with
    | error e => rfl
    | ok v => obtain ⟨s', i, w⟩ := v; rfl

theorem Learner.score_misguided (val : Act → Rat) (L : Learner) (m : List (Rat × Rat)) (actions : List Act) (a : Act) :
    ({ L with mis := m }).score val actions a = L.score val actions a := by
  cases hk : L.kind <;> simp [Learner.score, hk]

/-- `PMFInfoPredictor.score` indexes the same mixture pmf `predict` draws from -/
theorem Corral.score_eq (c : Corral) (actions bacts : List Act) (a : Act) (ha : a ∈ actions) :
    ∃ p, c.score actions bacts a = .ok p ∧ (corralPmf c.pbars bacts actions)[actions.idxOf a]? = some p := by
  have hidx : actions.idxOf a < (corralPmf c.pbars bacts actions).length := by
    simp only [corralPmf, List.length_map]; exact List.idxOf_lt_length_of_mem ha
  exact ⟨_, by simp [Corral.score, ha, List.getElem?_eq_getElem hidx], List.getElem?_eq_getElem hidx⟩

/-- termination on a sub-carrier `D` of `F` (the doubles inside the rationals): `mid` maps `D` into
`D` and stays in the bracket, `rank` is strictly monotone on `D` -/
theorem bisect_halts_on {F α} [LinearOrder F] (mid : F → F → F) (done : α → Bool) (probe : F → Option α) (tooBig : α → Bool)
    (D : F → Prop) (rank : F → Nat) (hrank : ∀ x y, D x → D y → x < y → rank x < rank y)
    (hmid : ∀ l r, D l → D r → l ≤ r → D (mid l r) ∧ l ≤ mid l r ∧ mid l r ≤ r) (fuel : Nat) :
    ∀ (l r : F) (cur : α), D l → D r → l ≤ r → rank r - rank l < fuel → (bisect mid done probe tooBig fuel l r cur).2 = true := by
  induction fuel with
  | zero => intro l r cur _ _ _ h; omega
  | succ n ih =>
    intro l r cur hl hr hlr hfuel
    simp only [bisect]
    split
    · rfl
    · split
      · rfl
      · rename_i hx
        have hx' : ¬ (mid l r = l) ∧ ¬ (mid l r = r) := ⟨fun h => hx (Or.inl h), fun h => hx (Or.inr h)⟩
        obtain ⟨hd, h1, h2⟩ := hmid l r hl hr hlr
        have rl := hrank _ _ hl hd (lt_of_le_of_ne h1 (Ne.symm hx'.1))
        have rr := hrank _ _ hd hr (lt_of_le_of_ne h2 hx'.2)
        split
        · exact ih l _ cur hl hd h1 (by omega)
        · split
          · exact ih l _ cur hl hd h1 (by omega)
          · exact ih _ r _ hd hr h2 (by omega)

theorem minOf_le_maxOf (m : Rat) (xs : List Rat) : minOf m xs ≤ maxOf m xs :=
  le_trans (minOf_le_init m xs) (maxOf_ge_init m xs)

/-- the float-faithful `_log_barrier_omd`: whatever `fl` is, the weights it returns are
`fl(w / total)` of an `update(λ)` that is defined: every (rounded) denominator at λ is positive -/
theorem omdF_from_probed (fl : Rat → Rat) (fuel : Nat) (ps etas losses : List Rat) (ws : List Rat) (h : Bool)
    (hne : losses ≠ []) (hres : omdF fl fuel ps etas losses = some (ws, h)) :
    ∃ lam cur, omdRawF fl ps etas losses lam = some cur ∧ ws = cur.map (fun p => fl (p / pySum fl cur)) := by
  cases losses with
  | nil => exact absurd rfl hne
  | cons l0 ls =>
    unfold omdF at hres
    cases hlo : omdRawF fl ps etas (l0 :: ls) (minOf l0 ls) with
    | none => simp [hlo] at hres
    | some cur =>
      simp only [hlo, Option.some.injEq, Prod.mk.injEq] at hres
      have := bisect_inv (fun l r => fl (fl (l + r) / 2)) (fun cur => rounds1 (pySum fl cur)) (omdRawF fl ps etas (l0 :: ls))
        (fun xs => decide (1 < pySum fl xs)) fuel (minOf l0 ls) (maxOf l0 ls) cur hlo
      exact ⟨_, _, this, hres.1.symm⟩

/-- … and on the doubles `D` (closed under the rounded midpoint, which stays in the bracket; `rank`
= position among the doubles) the loop leaves by its own exits within `rank(max ℓ) - rank(min ℓ) + 1`
iterations -/
theorem omdF_halts (fl : Rat → Rat) (fuel : Nat) (ps etas : List Rat) (l0 : Rat) (ls : List Rat)
    (D : Rat → Prop) (rank : Rat → Nat) (hrank : ∀ x y, D x → D y → x < y → rank x < rank y)
    (hmid : ∀ l r, D l → D r → l ≤ r → D (fl (fl (l + r) / 2)) ∧ l ≤ fl (fl (l + r) / 2) ∧ fl (fl (l + r) / 2) ≤ r)
    (hlo : D (minOf l0 ls)) (hhi : D (maxOf l0 ls)) (hfuel : rank (maxOf l0 ls) - rank (minOf l0 ls) < fuel) :
    ∀ ws h, omdF fl fuel ps etas (l0 :: ls) = some (ws, h) → h = true := by
  intro ws hh hres
  unfold omdF at hres
  cases h : omdRawF fl ps etas (l0 :: ls) (minOf l0 ls) with
  | none => simp [h] at hres
  | some cur =>
    have := bisect_halts_on (fun l r => fl (fl (l + r) / 2)) (fun cur => rounds1 (pySum fl cur)) (omdRawF fl ps etas (l0 :: ls))
      (fun xs => decide (1 < pySum fl xs)) D rank hrank hmid fuel (minOf l0 ls) (maxOf l0 ls) cur hlo hhi (minOf_le_maxOf l0 ls) hfuel
    simp only [h, Option.some.injEq, Prod.mk.injEq] at hres
    rw [← hres.2, this]

/-- Welford's update over exact arithmetic keeps `M2 ≥ 0` (each increment is `δ²(1 - 1/n)`), so the
variance it reports is never negative — what `BanditUCBLearner._Avg_R_UCB` needs under its `sqrt` -/
theorem Welford.update_inv (w : Welford) (v : Rat) (hc : 0 ≤ w.count) (hm : 0 ≤ w.m2)
    (hv : ∀ x, w.var = some x → 0 ≤ x) :
    0 ≤ (w.update (fun x => x) v).count ∧ 0 ≤ (w.update (fun x => x) v).m2 ∧
      ∀ x, (w.update (fun x => x) v).var = some x → 0 ≤ x := by
  have hc1 : 0 < w.count + 1 := by linarith
  have hinc : 0 ≤ (v - w.mean) * (v - (w.mean + (v - w.mean) / (w.count + 1))) := by
    have : v - (w.mean + (v - w.mean) / (w.count + 1)) = (v - w.mean) * (w.count / (w.count + 1)) := by
      field_simp; ring
    rw [this]
    have h2 : 0 ≤ w.count / (w.count + 1) := div_nonneg hc hc1.le
    nlinarith [mul_self_nonneg (v - w.mean)]
  refine ⟨by simp only [Welford.update]; linarith, by simp only [Welford.update]; linarith, ?_⟩
  intro x hx
  simp only [Welford.update] at hx
  split at hx
  · simp only [Option.some.injEq] at hx
    rw [← hx]
    apply div_nonneg
    · linarith
    · linarith
  · exact hv x hx

theorem Welford.run_inv (vs : List Rat) : ∀ w : Welford, 0 ≤ w.count → 0 ≤ w.m2 → (∀ x, w.var = some x → 0 ≤ x) →
    0 ≤ (vs.foldl (Welford.update (fun x => x)) w).m2 ∧ ∀ x, (vs.foldl (Welford.update (fun x => x)) w).var = some x → 0 ≤ x := by
  induction vs with
  | nil => intro w _ hm hv; exact ⟨hm, hv⟩
  | cons v vs ih =>
    intro w hc hm hv
    obtain ⟨h1, h2, h3⟩ := Welford.update_inv w v hc hm hv
    exact ih _ h1 h2 h3

theorem Welford.var_nonneg (vs : List Rat) :
    0 ≤ (Welford.run (fun x => x) vs).m2 ∧ ∀ x, (Welford.run (fun x => x) vs).var = some x → 0 ≤ x :=
  Welford.run_inv vs {} (le_refl _) (le_refl _) (by intro x h; simp at h)

/-! ### Phase 3: the float weights sum to 1 within the rounding of their construction -/

/-- the standard model of floating point: every operation result is rounded with relative error ≤ u -/
def FlRel (u : Rat) (fl : Rat → Rat) : Prop := ∀ x, |fl x - x| ≤ u * |x|

theorem FlRel.bounds {u : Rat} {fl : Rat → Rat} (h : FlRel u fl) (x : Rat) (hx : 0 ≤ x) :
    (1 - u) * x ≤ fl x ∧ fl x ≤ (1 + u) * x := by
  have := h x
  rw [abs_of_nonneg hx] at this
  have := abs_le.mp this
  constructor <;> linarith [this.1, this.2]

/-- a value known within `[lo·x, hi·x]` stays within `[(1-u)·lo·x, (1+u)·hi·x]` after rounding -/
theorem FlRel.step {u : Rat} {fl : Rat → Rat} (h : FlRel u fl) (hu : u ≤ 1) (x y lo hi : Rat) (hx : 0 ≤ x) (hlo : 0 ≤ lo)
    (h1 : lo * x ≤ y) (h2 : y ≤ hi * x) : (1 - u) * lo * x ≤ fl y ∧ fl y ≤ (1 + u) * hi * x := by
  have hy : 0 ≤ y := le_trans (mul_nonneg hlo hx) h1
  obtain ⟨b1, b2⟩ := h.bounds y hy
  have hu0 : 0 ≤ u := by
    have := h 1; simp at this
    by_contra hc; have hc := not_le.mp hc
    have : |fl 1 - 1| < 0 := lt_of_le_of_lt this hc
    exact absurd (abs_nonneg _) (not_le.mpr this)
  constructor
  · calc (1 - u) * lo * x = (1 - u) * (lo * x) := by ring
      _ ≤ (1 - u) * y := mul_le_mul_of_nonneg_left h1 (by linarith)
      _ ≤ fl y := b1
  · calc fl y ≤ (1 + u) * y := b2
      _ ≤ (1 + u) * (hi * x) := mul_le_mul_of_nonneg_left h2 (by linarith)
      _ = (1 + u) * hi * x := by ring

theorem FlRel.u_nonneg {u : Rat} {fl : Rat → Rat} (h : FlRel u fl) : 0 ≤ u := by
  have := h 1; simp at this
  by_contra hc; have hc := not_le.mp hc
  have : |fl 1 - 1| < 0 := lt_of_le_of_lt this hc
  exact absurd (abs_nonneg _) (not_le.mpr this)

theorem sum_map_between {α} (l : List α) (g gt : α → Rat) (c1 c2 : Rat)
    (h : ∀ x ∈ l, c1 * g x ≤ gt x ∧ gt x ≤ c2 * g x) :
    c1 * (l.map g).sum ≤ (l.map gt).sum ∧ (l.map gt).sum ≤ c2 * (l.map g).sum := by
  induction l with
  | nil => simp
  | cons x xs ih =>
    obtain ⟨a1, a2⟩ := h x (by simp)
    obtain ⟨b1, b2⟩ := ih (fun y hy => h y (by simp [hy]))
    simp only [List.map_cons, List.sum_cons]
    constructor <;> nlinarith

/-- one entry of the epsilon-greedy pmf: four roundings deep -/
theorem eps_entry_bounds {u : Rat} {fl : Rat → Rat} (h : FlRel u fl) (hu : u ≤ 1) (n k : Nat) (hn : 0 < n) (hk : 0 < k)
    (eps : Rat) (h0 : 0 ≤ eps) (h1 : eps ≤ 1) (ind : Rat) (hind : 0 ≤ ind) :
    let p := 1 / (n : Rat) * eps + ind / (k : Rat) * (1 - eps)
    let pt := fl (fl (fl (1 / (n : Rat)) * eps) + fl (fl (ind / (k : Rat)) * fl (1 - eps)))
    (1 - u) ^ 4 * p ≤ pt ∧ pt ≤ (1 + u) ^ 4 * p := by
  intro p pt
  have hu0 := h.u_nonneg
  have hnq : (0 : Rat) < n := by exact_mod_cast hn
  have hkq : (0 : Rat) < k := by exact_mod_cast hk
  have hA : 0 ≤ 1 / (n : Rat) := by positivity
  have hC : 0 ≤ ind / (k : Rat) := by positivity
  have hE : 0 ≤ 1 - eps := by linarith
  have lo0 : 0 ≤ 1 - u := by linarith
  -- a = fl (fl (1/n) * eps)
  obtain ⟨a1, a2⟩ := h.bounds _ hA
  have hAe : 0 ≤ 1 / (n : Rat) * eps := mul_nonneg hA h0
  obtain ⟨a3, a4⟩ := h.step hu (1 / (n : Rat) * eps) (fl (1 / (n : Rat)) * eps) (1 - u) (1 + u) hAe lo0
    (by nlinarith) (by nlinarith)
  -- b = fl (fl (ind/k) * fl (1-eps))
  obtain ⟨c1, c2⟩ := h.bounds _ hC
  obtain ⟨e1, e2⟩ := h.bounds _ hE
  have hCE : 0 ≤ ind / (k : Rat) * (1 - eps) := mul_nonneg hC hE
  have hflC : 0 ≤ fl (ind / (k : Rat)) := le_trans (mul_nonneg lo0 hC) c1
  have hflE : 0 ≤ fl (1 - eps) := le_trans (mul_nonneg lo0 hE) e1
  have hprod1 : (1 - u) ^ 2 * (ind / (k : Rat) * (1 - eps)) ≤ fl (ind / (k : Rat)) * fl (1 - eps) := by
    calc (1 - u) ^ 2 * (ind / (k : Rat) * (1 - eps)) = ((1 - u) * (ind / (k : Rat))) * ((1 - u) * (1 - eps)) := by ring
      _ ≤ fl (ind / (k : Rat)) * fl (1 - eps) := mul_le_mul c1 e1 (mul_nonneg lo0 hE) hflC
  have hprod2 : fl (ind / (k : Rat)) * fl (1 - eps) ≤ (1 + u) ^ 2 * (ind / (k : Rat) * (1 - eps)) := by
    calc fl (ind / (k : Rat)) * fl (1 - eps) ≤ ((1 + u) * (ind / (k : Rat))) * ((1 + u) * (1 - eps)) :=
          mul_le_mul c2 e2 hflE (by positivity)
      _ = (1 + u) ^ 2 * (ind / (k : Rat) * (1 - eps)) := by ring
  obtain ⟨b3, b4⟩ := h.step hu (ind / (k : Rat) * (1 - eps)) (fl (ind / (k : Rat)) * fl (1 - eps)) ((1 - u) ^ 2) ((1 + u) ^ 2)
    hCE (by positivity) hprod1 hprod2
  -- the sum
  have hp : 0 ≤ p := add_nonneg hAe hCE
  have lo_le : (1 - u) ^ 3 ≤ (1 - u) ^ 2 := by
    have : (1 - u) ^ 3 = (1 - u) ^ 2 * (1 - u) := by ring
    rw [this]; nlinarith [sq_nonneg (1 - u)]
  have hi_le : (1 + u) ^ 2 ≤ (1 + u) ^ 3 := by
    have : (1 + u) ^ 3 = (1 + u) ^ 2 * (1 + u) := by ring
    rw [this]; nlinarith [sq_nonneg (1 + u)]
  have s1 : (1 - u) ^ 3 * p ≤ fl (fl (1 / (n : Rat)) * eps) + fl (fl (ind / (k : Rat)) * fl (1 - eps)) := by
    have : (1 - u) ^ 3 * (1 / (n : Rat) * eps) ≤ (1 - u) * (1 - u) * (1 / (n : Rat) * eps) := by
      have : (1 - u) * (1 - u) = (1 - u) ^ 2 := by ring
      rw [this]; exact mul_le_mul_of_nonneg_right lo_le hAe
    have e3 : (1 - u) ^ 3 * p = (1 - u) ^ 3 * (1 / (n : Rat) * eps) + (1 - u) ^ 3 * (ind / (k : Rat) * (1 - eps)) := by ring
    have : (1 - u) * (1 - u) ^ 2 = (1 - u) ^ 3 := by ring
    nlinarith
  have s2 : fl (fl (1 / (n : Rat)) * eps) + fl (fl (ind / (k : Rat)) * fl (1 - eps)) ≤ (1 + u) ^ 3 * p := by
    have : (1 + u) * (1 + u) * (1 / (n : Rat) * eps) ≤ (1 + u) ^ 3 * (1 / (n : Rat) * eps) := by
      have : (1 + u) * (1 + u) = (1 + u) ^ 2 := by ring
      rw [this]; exact mul_le_mul_of_nonneg_right hi_le hAe
    have e3 : (1 + u) ^ 3 * p = (1 + u) ^ 3 * (1 / (n : Rat) * eps) + (1 + u) ^ 3 * (ind / (k : Rat) * (1 - eps)) := by ring
    have : (1 + u) * (1 + u) ^ 2 = (1 + u) ^ 3 := by ring
    nlinarith
  obtain ⟨f1, f2⟩ := h.step hu p _ ((1 - u) ^ 3) ((1 + u) ^ 3) hp (by positivity) s1 s2
  constructor
  · have : (1 - u) ^ 4 = (1 - u) * (1 - u) ^ 3 := by ring
    rw [this]; exact f1
  · have : (1 + u) ^ 4 = (1 + u) * (1 + u) ^ 3 := by ring
    rw [this]; exact f2

theorem pow_lo_le_one {u : Rat} (h0 : 0 ≤ u) (h1 : u ≤ 1) (m : Nat) : (1 - u) ^ m ≤ 1 :=
  pow_le_one₀ (by linarith) (by linarith)

theorem one_le_pow_hi {u : Rat} (h0 : 0 ≤ u) (m : Nat) : 1 ≤ (1 + u) ^ m :=
  one_le_pow₀ (by linarith)

theorem epsPmfValsF_sum {u : Rat} {fl : Rat → Rat} (h : FlRel u fl) (hu : u ≤ 1) (eps : Rat) (vals : List Rat)
    (h0 : 0 ≤ eps) (h1 : eps ≤ 1) (hne : vals ≠ []) :
    (epsPmfValsF fl eps vals).length = vals.length ∧ (∀ p ∈ epsPmfValsF fl eps vals, 0 ≤ p) ∧
      (1 - u) ^ 4 ≤ (epsPmfValsF fl eps vals).sum ∧ (epsPmfValsF fl eps vals).sum ≤ (1 + u) ^ 4 := by
  have hv := epsPmfVals_valid eps vals h0 h1 hne
  have hu0 := h.u_nonneg
  cases vals with
  | nil => exact absurd rfl hne
  | cons v vs =>
    have hmem : maxOf v vs ∈ v :: vs := by
      rcases maxOf_mem v vs with hm | hm <;> simp [hm]
    have hk : 0 < ((v :: vs).filter (fun q => decide (q = maxOf v vs))).length :=
      List.length_pos_of_mem (a := maxOf v vs) (by simp [List.mem_filter, hmem])
    have hn : 0 < (v :: vs).length := by simp
    have key : ∀ q ∈ v :: vs,
        (1 - u) ^ 4 * (1 / ((v :: vs).length : Rat) * eps + (if q = maxOf v vs then 1 / (((v :: vs).filter (fun q => decide (q = maxOf v vs))).length : Rat) else 0) * (1 - eps))
          ≤ fl (fl (fl (1 / ((v :: vs).length : Rat)) * eps) + fl (fl ((if q = maxOf v vs then 1 else 0) / (((v :: vs).filter (fun q => decide (q = maxOf v vs))).length : Rat)) * fl (1 - eps))) ∧
        fl (fl (fl (1 / ((v :: vs).length : Rat)) * eps) + fl (fl ((if q = maxOf v vs then 1 else 0) / (((v :: vs).filter (fun q => decide (q = maxOf v vs))).length : Rat)) * fl (1 - eps)))
          ≤ (1 + u) ^ 4 * (1 / ((v :: vs).length : Rat) * eps + (if q = maxOf v vs then 1 / (((v :: vs).filter (fun q => decide (q = maxOf v vs))).length : Rat) else 0) * (1 - eps)) := by
      intro q _
      have e := eps_entry_bounds h hu (v :: vs).length _ hn hk eps h0 h1 (if q = maxOf v vs then 1 else 0) (by split <;> norm_num)
      have : (if q = maxOf v vs then (1 : Rat) / (((v :: vs).filter (fun q => decide (q = maxOf v vs))).length : Rat) else 0)
          = (if q = maxOf v vs then 1 else 0) / (((v :: vs).filter (fun q => decide (q = maxOf v vs))).length : Rat) := by
        split <;> simp
      rw [this]
      exact e
    obtain ⟨s1, s2⟩ := sum_map_between (v :: vs) _ _ _ _ key
    have hsum : (epsPmfVals eps (v :: vs)).sum = 1 := hv.2.2
    simp only [epsPmfVals] at hsum
    rw [hsum] at s1 s2
    refine ⟨by simp [epsPmfValsF], ?_, by simpa [epsPmfValsF] using s1, by simpa [epsPmfValsF] using s2⟩
    intro p hp
    simp only [epsPmfValsF, List.mem_map] at hp
    obtain ⟨q, hq, rfl⟩ := hp
    have := (key q hq).1
    have hnonneg := hv.2.1 _ (by simp only [epsPmfVals]; exact List.mem_map.mpr ⟨q, hq, rfl⟩)
    have : 0 ≤ (1 - u) ^ 4 * (1 / ((v :: vs).length : Rat) * eps + (if q = maxOf v vs then 1 / (((v :: vs).filter (fun q => decide (q = maxOf v vs))).length : Rat) else 0) * (1 - eps)) :=
      mul_nonneg (by have : 0 ≤ 1 - u := by linarith
                     positivity) hnonneg
    linarith [(key q hq).1]

theorem uniformOnF_sum {u : Rat} {fl : Rat → Rat} (h : FlRel u fl) (hu : u ≤ 1) (S : List Act) (k : Nat) (actions : List Act) :
    (∀ p ∈ uniformOnF fl S k actions, 0 ≤ p) ∧ (1 - u) * (uniformOn S k actions).sum ≤ (uniformOnF fl S k actions).sum ∧
      (uniformOnF fl S k actions).sum ≤ (1 + u) * (uniformOn S k actions).sum := by
  have hu0 := h.u_nonneg
  have key : ∀ a ∈ actions, (1 - u) * (if a ∈ S then 1 / (k : Rat) else 0) ≤ fl ((if a ∈ S then 1 else 0) / (k : Rat)) ∧
      fl ((if a ∈ S then 1 else 0) / (k : Rat)) ≤ (1 + u) * (if a ∈ S then 1 / (k : Rat) else 0) := by
    intro a _
    have e : (if a ∈ S then (1 : Rat) / (k : Rat) else 0) = (if a ∈ S then 1 else 0) / (k : Rat) := by split <;> simp
    rw [e]
    exact h.bounds _ (by split <;> positivity)
  obtain ⟨s1, s2⟩ := sum_map_between actions _ _ _ _ key
  refine ⟨?_, by simpa [uniformOn, uniformOnF] using s1, by simpa [uniformOn, uniformOnF] using s2⟩
  intro p hp
  simp only [uniformOnF, List.mem_map] at hp
  obtain ⟨a, ha, rfl⟩ := hp
  have h1 := (key a ha).1
  have : 0 ≤ (1 - u) * (if a ∈ S then 1 / (k : Rat) else 0) := mul_nonneg (by linarith) (by split <;> positivity)
  linarith

/-- every built-in pmf as the implementation computes it: entries ≥ 0 and the (real) sum of the
float entries is within the rounding of its four-operation construction of 1 -/
theorem Kind.pmfF_sum {u : Rat} {fl : Rat → Rat} (h : FlRel u fl) (hu : u ≤ 1) (val : Act → Rat) (k : Kind) (actions : List Act)
    (hinv : k.Inv) (hne : actions ≠ []) (hnd : actions.Nodup) (hfit : Fits k.arity actions.length) :
    (∀ p ∈ k.pmfF fl val actions, 0 ≤ p) ∧ (1 - u) ^ 4 ≤ (k.pmfF fl val actions).sum ∧ (k.pmfF fl val actions).sum ≤ (1 + u) ^ 4 := by
  have hu0 := h.u_nonneg
  have lo4 : (1 - u) ^ 4 ≤ 1 - u := by
    have : (1 - u) ^ 4 = (1 - u) * (1 - u) ^ 3 := by ring
    rw [this]
    have := pow_lo_le_one hu0 hu 3
    nlinarith
  have hi4 : 1 + u ≤ (1 + u) ^ 4 := by
    have : (1 + u) ^ 4 = (1 + u) * (1 + u) ^ 3 := by ring
    rw [this]
    have := one_le_pow_hi hu0 3
    nlinarith
  cases k with
  | eps st =>
    obtain ⟨_, a, b, c⟩ := epsPmfValsF_sum h hu st.eps (actions.map st.q) hinv.1 hinv.2 (by simpa using hne)
    exact ⟨a, b, c⟩
  | fixed p =>
    refine ⟨hinv.1, ?_, ?_⟩
    · simp only [Kind.pmfF]; rw [hinv.2]; exact pow_lo_le_one hu0 hu 4
    · simp only [Kind.pmfF]; rw [hinv.2]; exact one_le_pow_hi hu0 4
  | random =>
    have hn : (0 : Rat) < (actions.length : Rat) := by
      have : 0 < actions.length := List.length_pos_iff.mpr hne
      exact_mod_cast this
    obtain ⟨b1, b2⟩ := h.bounds (1 / (actions.length : Rat)) (by positivity)
    have hs : (List.replicate actions.length (fl (1 / (actions.length : Rat)))).sum = (actions.length : Rat) * fl (1 / (actions.length : Rat)) := by
      rw [List.sum_replicate, nsmul_eq_mul]
    refine ⟨?_, ?_, ?_⟩
    · intro p hp
      simp only [Kind.pmfF] at hp
      rw [(List.mem_replicate.mp hp).2]
      have : 0 ≤ (1 - u) * (1 / (actions.length : Rat)) := mul_nonneg (by linarith) (by positivity)
      linarith
    · simp only [Kind.pmfF]; rw [hs]
      have : (actions.length : Rat) * ((1 - u) * (1 / (actions.length : Rat))) = 1 - u := by field_simp
      nlinarith
    · simp only [Kind.pmfF]; rw [hs]
      have : (actions.length : Rat) * ((1 + u) * (1 / (actions.length : Rat))) = 1 + u := by field_simp
      nlinarith
  | ucb st =>
    obtain ⟨pmf, hpmf, hv⟩ := Ucb.pmf_valid val st actions hinv hne hnd
    simp only [Kind.pmfF, Ucb.pmfF]
    unfold Ucb.pmf at hpmf
    by_cases hnever : actions.filter (fun a => !dhas st.m a) ≠ []
    · rw [if_pos hnever] at hpmf ⊢
      simp only [Except.ok.injEq] at hpmf
      obtain ⟨a, b, c⟩ := uniformOnF_sum h hu (actions.filter (fun a => !dhas st.m a)) (distinct (actions.filter (fun a => !dhas st.m a))).length actions
      rw [hpmf, hv.2.2] at b c
      exact ⟨a, by linarith, by linarith⟩
    · rw [if_neg hnever] at hpmf ⊢
      obtain ⟨a0, rest, rfl⟩ := List.exists_cons_of_ne_nil hne
      simp only at hpmf ⊢
      split at hpmf
      · simp at hpmf
      · split at hpmf
        · simp at hpmf
        · split at hpmf
          · simp at hpmf
          · simp only [Except.ok.injEq] at hpmf
            obtain ⟨a, b, c⟩ := uniformOnF_sum h hu ((a0 :: rest).filter (fun a => decide (val a = maxOf (val a0) (rest.map val))))
              ((a0 :: rest).filter (fun a => decide (val a = maxOf (val a0) (rest.map val)))).length (a0 :: rest)
            rw [hpmf, hv.2.2] at b c
            exact ⟨a, by linarith, by linarith⟩

/-- binary64: u = 2^-53; the four roundings are far inside coba's own validity tolerance -/
theorem double_tol : (1 : Rat) - 1 / 10000 ≤ (1 - 1 / 2 ^ 53) ^ 4 ∧ (1 + 1 / 2 ^ 53 : Rat) ^ 4 ≤ 1 + 1 / 10000 := by
  norm_num

/-- Corral's normalisation `[p/total for p in new_ps]`: if `total` is within relative `τ` of the true
sum, the float weights sum to 1 within `(1+u)/(1-τ)` -/
theorem normaliseF_sum {u τ : Rat} {fl : Rat → Rat} (h : FlRel u fl) (hu : u ≤ 1) (cur : List Rat) (total : Rat)
    (hpos : ∀ x ∈ cur, 0 < x) (hne : cur ≠ []) (hτ0 : 0 ≤ τ) (hτ1 : τ < 1) (htot : |total - cur.sum| ≤ τ * cur.sum) :
    (∀ w ∈ cur.map (fun p => fl (p / total)), 0 ≤ w) ∧
      (1 - u) / (1 + τ) ≤ (cur.map (fun p => fl (p / total))).sum ∧ (cur.map (fun p => fl (p / total))).sum ≤ (1 + u) / (1 - τ) := by
  have hu0 := h.u_nonneg
  have hS : 0 < cur.sum := sum_pos_of_pos cur hne hpos
  obtain ⟨t1, t2⟩ := abs_le.mp htot
  have ht : 0 < total := by nlinarith
  have key : ∀ x ∈ cur, (1 - u) * (x / total) ≤ fl (x / total) ∧ fl (x / total) ≤ (1 + u) * (x / total) := by
    intro x hx
    exact h.bounds _ (div_nonneg (le_of_lt (hpos x hx)) ht.le)
  obtain ⟨s1, s2⟩ := sum_map_between cur (fun x => x / total) (fun x => fl (x / total)) _ _ key
  rw [sum_map_div] at s1 s2
  refine ⟨?_, ?_, ?_⟩
  · intro w hw
    obtain ⟨x, hx, rfl⟩ := List.mem_map.mp hw
    have := (key x hx).1
    have : 0 ≤ (1 - u) * (x / total) := mul_nonneg (by linarith) (div_nonneg (le_of_lt (hpos x hx)) ht.le)
    linarith [(key x hx).1]
  · have : 1 / (1 + τ) ≤ cur.sum / total := by
      rw [div_le_div_iff₀ (by linarith) ht]; nlinarith
    calc (1 - u) / (1 + τ) = (1 - u) * (1 / (1 + τ)) := by ring
      _ ≤ (1 - u) * (cur.sum / total) := mul_le_mul_of_nonneg_left this (by linarith)
      _ ≤ _ := s1
  · have : cur.sum / total ≤ 1 / (1 - τ) := by
      rw [div_le_div_iff₀ ht (by linarith)]; nlinarith
    calc _ ≤ (1 + u) * (cur.sum / total) := s2
      _ ≤ (1 + u) * (1 / (1 - τ)) := mul_le_mul_of_nonneg_left this (by linarith)
      _ = (1 + u) / (1 - τ) := by ring

/-- the key depends on the contents only: same key ⇔ equal contents, for every container flavour -/
theorem makeHashable_contents (a b : PyAct) : Key.same (makeHashable a) (makeHashable b) = contentsEq a b := by
  cases a <;> cases b <;> rfl

/-- Python `==` of two offered objects implies one key (what `actions.index`, `a == b_a` and the
dictionaries rely on) -/
theorem pyEq_imp_same_key (a b : PyAct) (h : pyEq a b = true) : Key.same (makeHashable a) (makeHashable b) = true := by
  rw [makeHashable_contents]
  cases a with
  | scalar x => cases b <;> simp_all [pyEq, contentsEq]
  | dense f xs =>
    cases b with
    | dense g ys =>
      simp only [pyEq, contentsEq] at h ⊢
      split at h
      · simp at h
      · exact h
    | _ => simp_all [pyEq]
  | sparse f kv =>
    cases b with
    | sparse g kw =>
      simp only [pyEq, contentsEq] at h ⊢
      split at h
      · simp only [beq_iff_eq] at h
        subst h
        simp [sameItems]
      · exact h
    | _ => simp_all [pyEq]

/-- the converse holds except for exactly two flavour pairs -/
theorem same_key_imp_pyEq (a b : PyAct) (h : Key.same (makeHashable a) (makeHashable b) = true) :
    pyEq a b = true ∨
      (∃ xs ys, (a = .dense .list xs ∧ b = .dense .tuple ys) ∨ (a = .dense .tuple xs ∧ b = .dense .list ys)) ∨
      (∃ kv kw, a = .sparse .odict kv ∧ b = .sparse .odict kw) := by
  rw [makeHashable_contents] at h
  cases a with
  | scalar x => cases b <;> simp_all [pyEq, contentsEq]
  | dense f xs =>
    cases b with
    | dense g ys =>
      simp only [contentsEq] at h
      by_cases hc : (f = .list ∧ g = .tuple) ∨ (f = .tuple ∧ g = .list)
      · right; left
        rcases hc with ⟨rfl, rfl⟩ | ⟨rfl, rfl⟩
        · exact ⟨xs, ys, Or.inl ⟨rfl, rfl⟩⟩
        · exact ⟨xs, ys, Or.inr ⟨rfl, rfl⟩⟩
      · left; simp [pyEq, hc, h]
    | _ => simp_all [contentsEq]
  | sparse f kv =>
    cases b with
    | sparse g kw =>
      simp only [contentsEq] at h
      by_cases hc : f = .odict ∧ g = .odict
      · right; right; obtain ⟨rfl, rfl⟩ := hc; exact ⟨kv, kw, rfl, rfl⟩
      · left; simp [pyEq, hc, h]
    | _ => simp_all [contentsEq]

/-- the two exceptions are real: `[1,2] == (1,2)` is `False` in Python yet both get the key
`HashableDense((1,2))`; two OrderedDicts with the same items in different order likewise -/
theorem same_key_not_pyEq_witness :
    (Key.same (makeHashable (.dense .list [.num 1, .num 2])) (makeHashable (.dense .tuple [.num 1, .num 2])) = true ∧
      pyEq (.dense .list [.num 1, .num 2]) (.dense .tuple [.num 1, .num 2]) = false) ∧
    (Key.same (makeHashable (.sparse .odict [(.str "a", .num 1), (.str "b", .num 2)]))
        (makeHashable (.sparse .odict [(.str "b", .num 2), (.str "a", .num 1)])) = true ∧
      pyEq (.sparse .odict [(.str "a", .num 1), (.str "b", .num 2)]) (.sparse .odict [(.str "b", .num 2), (.str "a", .num 1)]) = false) := by
  decide

theorem Kind.pmfF_tol {fl : Rat → Rat} (h : FlRel (1 / 2 ^ 53) fl) (val : Act → Rat) (k : Kind) (actions : List Act)
    (hinv : k.Inv) (hne : actions ≠ []) (hnd : actions.Nodup) (hfit : Fits k.arity actions.length) :
    (∀ p ∈ k.pmfF fl val actions, 0 ≤ p) ∧ |(k.pmfF fl val actions).sum - 1| ≤ 1 / 10000 := by
  obtain ⟨a, b, c⟩ := Kind.pmfF_sum h (by norm_num) val k actions hinv hne hnd hfit
  obtain ⟨d1, d2⟩ := double_tol
  refine ⟨a, abs_le.mpr ⟨by linarith, by linarith⟩⟩

theorem flRel_example : FlRel (1 / 2 ^ 53) (fun x => x * (1 + 1 / 2 ^ 53)) := by
  intro x
  have : x * (1 + 1 / 2 ^ 53) - x = (1 / 2 ^ 53) * x := by ring
  rw [this, abs_mul, abs_of_pos (by positivity : (0 : Rat) < 1 / 2 ^ 53)]

end Coba.C16
