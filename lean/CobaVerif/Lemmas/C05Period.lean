/-
C05 — the period of the uniform stream (Hull–Dobell for m = 2^k, proved directly).

`next s = (A*s + C) % M` with `A % 4 = 1`, `C` odd, `M = 2^30`.
  * closed form of the n-fold iterate: `next^[n] s = (A^n*s + C*G n) % M`, `G n = 1 + A + … + A^(n-1)`;
  * `2^k ∣ G n ↔ 2^k ∣ n` (binary descent: `G (2j) = G j * (A^j+1)`, `A^j+1 = 2*odd`, `G` of an odd number is odd);
  * hence `next^[n] s = s ↔ 2^30 ∣ n`: the period of EVERY seed is exactly 2^30, the first 2^30 states of a
    stream are pairwise different and (pigeonhole on `Fin M`) every state is visited.
-/
import CobaVerif.Lemmas.C05
import Mathlib.Logic.Function.Iterate
import Mathlib.Data.Fintype.Card
import Mathlib.Data.Fintype.EquivFin
import Mathlib.Data.Nat.Prime.Basic
import Mathlib.Data.Nat.GCD.Basic
import Mathlib.Tactic.Ring
import Mathlib.Tactic.Linarith

namespace Coba.C05

/-- `1 + a + … + a^(n-1)`, in the shape the iteration produces it -/
def geo (a : Nat) : Nat → Nat
  | 0 => 0
  | n+1 => a * geo a n + 1

theorem geo_add (a m : Nat) : ∀ n, geo a (m + n) = a ^ n * geo a m + geo a n
  | 0 => by simp [geo]
  | n+1 => by
    have ih := geo_add a m n
    show a * geo a (m + n) + 1 = a ^ (n+1) * geo a m + (a * geo a n + 1)
    rw [ih]; ring

theorem geo_double (a j : Nat) : geo a (j + j) = geo a j * (a ^ j + 1) := by
  rw [geo_add]; ring

/-- `a^n = (a-1)*G n + 1`, written without subtraction: `a^n + G n = a * G n + 1` -/
theorem pow_geo (a : Nat) : ∀ n, a ^ n + geo a n = a * geo a n + 1
  | 0 => by simp [geo]
  | n+1 => by
    have ih := pow_geo a n
    show a ^ (n+1) + (a * geo a n + 1) = a * (a * geo a n + 1) + 1
    have : a ^ (n+1) = a * a ^ n := by ring
    rw [this]
    nlinarith [ih]

theorem geo_parity (a : Nat) (ha : a % 2 = 1) : ∀ n, geo a n % 2 = n % 2
  | 0 => by simp [geo]
  | n+1 => by
    have ih := geo_parity a ha n
    show (a * geo a n + 1) % 2 = (n + 1) % 2
    have h1 : (a * geo a n) % 2 = geo a n % 2 := by
      rw [Nat.mul_mod, ha]; simp
    omega

theorem pow_mod_four (a : Nat) (ha : a % 4 = 1) (j : Nat) : a ^ j % 4 = 1 := by
  rw [Nat.pow_mod, ha]; simp

/-- the 2-adic valuation of `1 + a + … + a^(n-1)` is that of `n` when `a ≡ 1 (mod 4)` -/
theorem two_pow_dvd_geo (a : Nat) (ha : a % 4 = 1) : ∀ k n, 2 ^ k ∣ geo a n ↔ 2 ^ k ∣ n
  | 0, n => by simp
  | k+1, n => by
    have ha2 : a % 2 = 1 := by omega
    rcases Nat.even_or_odd' n with ⟨j, rfl | rfl⟩
    · -- n = 2j
      have hd : geo a (2 * j) = geo a j * (a ^ j + 1) := by
        have : 2 * j = j + j := by ring
        rw [this, geo_double]
      have h4 := pow_mod_four a ha j
      obtain ⟨q, hq⟩ : ∃ q, a ^ j + 1 = 2 * (2 * q + 1) := ⟨a ^ j / 4, by omega⟩
      have hcop : Nat.Coprime (2 ^ k) (2 * q + 1) :=
        (Nat.coprime_two_left.2 ⟨q, rfl⟩).pow_left k
      rw [hd, hq]
      have e1 : geo a j * (2 * (2 * q + 1)) = 2 * (geo a j * (2 * q + 1)) := by ring
      rw [e1, pow_succ, Nat.mul_comm (2 ^ k) 2,
        Nat.mul_dvd_mul_iff_left (by norm_num : 0 < 2), Nat.mul_dvd_mul_iff_left (by norm_num : 0 < 2)]
      rw [hcop.dvd_mul_right]
      exact two_pow_dvd_geo a ha k j
    · -- n = 2j+1 : both sides are false
      have hg : geo a (2 * j + 1) % 2 = 1 := by rw [geo_parity a ha2]; omega
      constructor
      · intro h
        have : 2 ∣ geo a (2 * j + 1) := Dvd.dvd.trans (Dvd.intro_left (2 ^ k) (by ring)) h
        omega
      · intro h
        have : 2 ∣ 2 * j + 1 := Dvd.dvd.trans (Dvd.intro_left (2 ^ k) (by ring)) h
        omega

/-- closed form of the n-fold iterate of the LCG step -/
theorem iterate_next (s : Nat) (hs : s < M) : ∀ n, next^[n] s = (A ^ n * s + C * geo A n) % M
  | 0 => by simp [geo, Nat.mod_eq_of_lt hs]
  | n+1 => by
    rw [Function.iterate_succ_apply', iterate_next s hs n]
    unfold next
    show (A * ((A ^ n * s + C * geo A n) % M) + C) % M = (A ^ (n+1) * s + C * (A * geo A n + 1)) % M
    have : A ^ (n+1) * s + C * (A * geo A n + 1) = A * (A ^ n * s + C * geo A n) + C := by ring
    rw [this, Nat.add_mod, Nat.mul_mod, Nat.mod_mod, ← Nat.mul_mod, ← Nat.add_mod]

theorem iterate_next_lt (s : Nat) (hs : s < M) (n : Nat) : next^[n] s < M := by
  cases n with
  | zero => simpa using hs
  | succ n => rw [Function.iterate_succ_apply']; exact next_lt _

/-- **the period of every seed is exactly 2^30** -/
theorem period' (s : Nat) (hs : s < M) (n : Nat) : next^[n] s = s ↔ M ∣ n := by
  rw [iterate_next s hs n]
  have hA : A % 4 = 1 := by decide
  -- A^n*s + C*G = s + G*((A-1)*s + C)   (with A-1 written as the literal)
  have hpow := pow_geo A n
  have key : A ^ n * s + C * geo A n = s + geo A n * ((A - 1) * s + C) := by
    have h1 : A ^ n = (A - 1) * geo A n + 1 := by
      have h2 : A * geo A n = (A - 1) * geo A n + geo A n := by
        have : (A - 1 + 1) * geo A n = (A - 1) * geo A n + geo A n := by ring
        exact this
      omega
    rw [h1]; ring
  rw [key]
  have hodd : ((A - 1) * s + C) % 2 = 1 := by
    have : (A - 1) % 2 = 0 := by decide
    have hc : C % 2 = 1 := by decide
    rw [Nat.add_mod, Nat.mul_mod, this]; simp [hc]
  have hcop : Nat.Coprime M ((A - 1) * s + C) := by
    have : M = 2 ^ 30 := by decide
    rw [this]
    exact (Nat.coprime_two_left.2 (Nat.odd_iff.2 hodd)).pow_left 30
  have hM : M = 2 ^ 30 := by decide
  constructor
  · intro h
    have h1 : (s + geo A n * ((A - 1) * s + C)) ≡ s [MOD M] := by
      unfold Nat.ModEq; rw [h, Nat.mod_eq_of_lt hs]
    have h2 : M ∣ geo A n * ((A - 1) * s + C) := by
      have h3 : s + geo A n * ((A - 1) * s + C) ≡ s + 0 [MOD M] := by simpa using h1
      have h4 := Nat.ModEq.add_left_cancel' s h3
      exact (Nat.modEq_zero_iff_dvd).1 h4
    have h5 : M ∣ geo A n := hcop.dvd_of_dvd_mul_right h2
    rw [hM] at h5 ⊢
    exact (two_pow_dvd_geo A hA 30 n).1 h5
  · intro h
    rw [hM] at h
    have h5 : 2 ^ 30 ∣ geo A n := (two_pow_dvd_geo A hA 30 n).2 h
    rw [← hM] at h5
    obtain ⟨q, hq⟩ := h5
    rw [hq]
    have : s + M * q * ((A - 1) * s + C) = s + M * (q * ((A - 1) * s + C)) := by ring
    rw [this, Nat.add_mul_mod_self_left, Nat.mod_eq_of_lt hs]

/-- iterates of an injective-on-states step can be cancelled -/
theorem iterate_next_inj (i : Nat) : ∀ s t, s < M → t < M → next^[i] s = next^[i] t → s = t := by
  induction i with
  | zero => intro s t _ _ h; simpa using h
  | succ i ih =>
    intro s t hs ht h
    rw [Function.iterate_succ_apply', Function.iterate_succ_apply'] at h
    exact ih s t hs ht (next_injective' _ _ (iterate_next_lt s hs i) (iterate_next_lt t ht i) h)

/-- the first 2^30 states of a stream are pairwise different -/
theorem states_distinct' (s : Nat) (hs : s < M) (i j : Nat) (hi : i < M) (hj : j < M)
    (h : next^[i] s = next^[j] s) : i = j := by
  wlog hij : i ≤ j generalizing i j
  · exact (this j i hj hi h.symm (by omega)).symm
  obtain ⟨d, rfl⟩ := Nat.exists_eq_add_of_le hij
  rw [Function.iterate_add_apply] at h
  -- next^[i] s = next^[i] (next^[d] s)
  have h2 : s = next^[d] s := iterate_next_inj i s (next^[d] s) hs (iterate_next_lt s hs d) h
  have h3 : M ∣ d := (period' s hs d).1 h2.symm
  have : d = 0 := by
    rcases h3 with ⟨q, hq⟩
    rcases q with _ | q
    · simpa using hq
    · exfalso
      have : M ≤ d := by rw [hq]; exact Nat.le_mul_of_pos_right M (Nat.succ_pos q)
      omega
  omega

/-- every state is visited within the first 2^30 draws of every seed (pigeonhole on `Fin M`) -/
theorem visits_every_state' (s : Nat) (hs : s < M) (t : Nat) (ht : t < M) : ∃ i, i < M ∧ next^[i] s = t := by
  let f : Fin M → Fin M := fun i => ⟨next^[i.val] s, iterate_next_lt s hs i.val⟩
  have hinj : Function.Injective f := by
    intro i j h
    have h' : next^[i.val] s = next^[j.val] s := by simpa [f] using congrArg Fin.val h
    exact Fin.ext (states_distinct' s hs i.val j.val i.isLt j.isLt h')
  have hsurj : Function.Surjective f := Finite.surjective_of_injective hinj
  obtain ⟨i, hi⟩ := hsurj ⟨t, ht⟩
  exact ⟨i.val, i.isLt, by simpa [f] using congrArg Fin.val hi⟩

/-- over one period every uniform numerator `k` (the draw is `k/2^30`) is produced exactly once -/
theorem uniform_each_once' (s : Nat) (hs : s < M) (k : Nat) (hk : k < M) :
    ∃ i, i < M ∧ unum (next^[i] s) = k ∧ ∀ j, j < M → unum (next^[j] s) = k → j = i := by
  have hM : 0 < M := by decide
  have huniq : ∀ i j, i < M → j < M → unum (next^[i] s) = unum (next^[j] s) → i = j := by
    intro i j hi hj h
    unfold unum at h
    exact states_distinct' s hs i j hi hj
      (next_injective' _ _ (iterate_next_lt s hs i) (iterate_next_lt s hs j) h)
  obtain ⟨j, hj, hjk⟩ := visits_every_state' s hs k hk
  rcases j with _ | j
  · -- k = s : the draw before the stream returns to its seed
    refine ⟨M - 1, by omega, ?_, ?_⟩
    · have h1 : unum (next^[M - 1] s) = next^[M] s := by
        unfold unum
        rw [← Function.iterate_succ_apply' next (M - 1) s]
        congr 1
      rw [h1, (period' s hs M).2 (dvd_refl M)]; simpa using hjk
    · intro j hj' hjk'
      apply huniq j (M - 1) hj' (by omega)
      rw [hjk']
      have h1 : unum (next^[M - 1] s) = next^[M] s := by
        unfold unum
        rw [← Function.iterate_succ_apply' next (M - 1) s]
        congr 1
      rw [h1, (period' s hs M).2 (dvd_refl M)]; simpa using hjk.symm
  · refine ⟨j, by omega, ?_, ?_⟩
    · unfold unum; rw [← Function.iterate_succ_apply' next j s]; exact hjk
    · intro j' hj' hjk'
      apply huniq j' j hj' (by omega)
      rw [hjk']; unfold unum; rw [← Function.iterate_succ_apply' next j s]; exact hjk.symm

end Coba.C05
