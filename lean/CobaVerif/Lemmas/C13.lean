import CobaVerif.Model.C13

/-!
C13 helper lemmas (core Lean only).  Part 1: lists, `sequence`, `compress`, `posOf`, header maps.
-/

namespace Coba.C13

theorem load_idempotent' {α} (c : Cell α) :
    c.touch.loadOrGet = (c.get, c.touch) := by
  cases c <;> rfl

theorem cell_get_touch {α} (c : Cell α) : c.touch.get = c.get := by
  cases c <;> rfl

/-! ### idx / sequence -/

theorem idx_ok_iff {α} (l : List α) (i : Nat) (x : α) : idx l i = .ok x ↔ l[i]? = some x := by
  unfold idx; cases h : l[i]? <;> simp

theorem idx_of_some {α} {l : List α} {i : Nat} {x : α} (h : l[i]? = some x) : idx l i = .ok x := by
  unfold idx; rw [h]

theorem idx_of_none {α} {l : List α} {i : Nat} (h : l[i]? = none) : idx l i = .error .indexError := by
  unfold idx; rw [h]

theorem sequence_map_ok {α} (xs : List α) : sequence (xs.map (Except.ok (ε := Err))) = .ok xs := by
  induction xs with
  | nil => rfl
  | cons x t ih => simp [sequence, ih]

theorem sequence_ok {α} {rs : List (Res α)} {xs : List α} (h : sequence rs = .ok xs) : rs = xs.map .ok := by
  induction rs generalizing xs with
  | nil => simp [sequence] at h; subst h; rfl
  | cons r t ih =>
    cases r with
    | error e => simp [sequence] at h
    | ok x =>
      simp only [sequence] at h
      cases ht : sequence t with
      | error e => rw [ht] at h; simp at h
      | ok ys =>
        rw [ht] at h
        simp at h
        subst h
        rw [ih ht]; rfl

theorem sequence_length {α} {rs : List (Res α)} {xs : List α} (h : sequence rs = .ok xs) : xs.length = rs.length := by
  rw [sequence_ok h]; simp

theorem mapMRes_ok {α β} {f : α → Res β} {l : List α} {ys : List β} (h : mapMRes f l = .ok ys) :
    l.map f = ys.map .ok := by
  induction l generalizing ys with
  | nil => simp [mapMRes] at h; subst h; rfl
  | cons a t ih =>
    simp only [mapMRes] at h
    cases ha : f a with
    | error e => rw [ha] at h; simp at h
    | ok b =>
      rw [ha] at h
      cases ht : mapMRes f t with
      | error e => rw [ht] at h; simp at h
      | ok bs =>
        rw [ht] at h; simp at h; subst h
        simp [ha, ih ht]

theorem mapMRes_of_map {α β} {f : α → Res β} {l : List α} {ys : List β} (h : l.map f = ys.map .ok) :
    mapMRes f l = .ok ys := by
  induction l generalizing ys with
  | nil => cases ys <;> simp_all [mapMRes]
  | cons a t ih =>
    cases ys with
    | nil => simp at h
    | cons y ys =>
      simp at h
      simp [mapMRes, h.1, ih h.2]

/-! ### compress -/

theorem compress_map_self {α} (l : List α) (p : α → Bool) : compress l (l.map p) = l.filter p := by
  induction l with
  | nil => rfl
  | cons x t ih => simp [compress, List.filter_cons, ih]

theorem compress_sublist {α} (l : List α) (bs : List Bool) : (compress l bs).Sublist l := by
  induction l generalizing bs with
  | nil => cases bs <;> simp [compress]
  | cons x t ih =>
    cases bs with
    | nil => simp [compress]
    | cons b bt =>
      simp only [compress]
      split
      · exact (ih bt).cons_cons x
      · exact (ih bt).cons x

theorem mem_filter_range' {s n i : Nat} {p : Nat → Bool} (h : i ∈ (List.range' s n).filter p) : s ≤ i ∧ i < s + n := by
  have := (List.mem_filter.1 h).1
  rw [List.mem_range'] at this
  obtain ⟨k, hk, rfl⟩ := this
  omega

/-- the kept cells are the cells at the kept indices -/
theorem compress_range'_map {α} (xs : List α) (s : Nat) (p : Nat → Bool) :
    compress xs ((List.range' s xs.length).map p) = ((List.range' s xs.length).filter p).filterMap (fun i => xs[i - s]?) := by
  induction xs generalizing s with
  | nil => simp [compress]
  | cons x t ih =>
    have hcongr : ∀ l : List Nat, (∀ i ∈ l, s + 1 ≤ i) →
        l.filterMap (fun i => (x :: t)[i - s]?) = l.filterMap (fun i => t[i - (s + 1)]?) := by
      intro l hl
      induction l with
      | nil => rfl
      | cons a l ihl =>
        have ha := hl a (by simp)
        have : a - s = (a - (s + 1)) + 1 := by omega
        simp only [List.filterMap_cons, this, List.getElem?_cons_succ]
        rw [ihl (fun i hi => hl i (by simp [hi]))]
    simp only [List.length_cons, List.range'_succ, List.map_cons, compress, List.filter_cons]
    have hrest : ∀ i ∈ (List.range' (s + 1) t.length).filter p, s + 1 ≤ i := fun i hi => (mem_filter_range' hi).1
    split
    · simp only [List.filterMap_cons, Nat.sub_self, List.getElem?_cons_zero]
      rw [ih (s + 1), hcongr _ hrest]
    · rw [ih (s + 1), hcongr _ hrest]

theorem compress_range_map {α} (xs : List α) (p : Nat → Bool) :
    compress xs ((List.range xs.length).map p) = ((List.range xs.length).filter p).filterMap (fun i => xs[i]?) := by
  have := compress_range'_map xs 0 p
  simpa [List.range_eq_range'] using this

/-- `filterMap` over indices that are all in range does not skip -/
theorem getElem?_filterMap_inrange {α} (xs : List α) (l : List Nat) (h : ∀ i ∈ l, i < xs.length) (k : Nat) :
    (l.filterMap (fun i => xs[i]?))[k]? = (l[k]?).bind (fun i => xs[i]?) := by
  induction l generalizing k with
  | nil => simp
  | cons a l ih =>
    have ha : a < xs.length := h a (by simp)
    have hl : ∀ i ∈ l, i < xs.length := fun i hi => h i (by simp [hi])
    have hs : xs[a]? = some xs[a] := by simp [ha]
    simp only [List.filterMap_cons, hs]
    cases k with
    | zero => simp [hs]
    | succ k => simp [ih hl k]

theorem length_filterMap_inrange {α} (xs : List α) (l : List Nat) (h : ∀ i ∈ l, i < xs.length) :
    (l.filterMap (fun i => xs[i]?)).length = l.length := by
  induction l with
  | nil => rfl
  | cons a l ih =>
    have ha : a < xs.length := h a (by simp)
    have hs : xs[a]? = some xs[a] := by simp [ha]
    simp [hs, ih (fun i hi => h i (by simp [hi]))]

/-! ### posOf / dget on header maps -/

theorem posOf_some_getElem? {α} [DecidableEq α] {l : List α} {a : α} {k : Nat} (h : posOf l a = some k) : l[k]? = some a := by
  induction l generalizing k with
  | nil => simp [posOf] at h
  | cons x t ih =>
    simp only [posOf] at h
    split at h
    · simp at h; subst h; simp_all
    · cases ht : posOf t a with
      | none => rw [ht] at h; simp at h
      | some j => rw [ht] at h; simp at h; subst h; simpa using ih ht

theorem posOf_lt {α} [DecidableEq α] {l : List α} {a : α} {k : Nat} (h : posOf l a = some k) : k < l.length := by
  have := posOf_some_getElem? h
  exact (List.getElem?_eq_some_iff.1 this).1

theorem posOf_of_nodup {α} [DecidableEq α] {l : List α} {a : α} {k : Nat} (hn : l.Nodup) (h : l[k]? = some a) : posOf l a = some k := by
  induction l generalizing k with
  | nil => simp at h
  | cons x t ih =>
    rw [List.nodup_cons] at hn
    cases k with
    | zero => simp at h; simp [posOf, h]
    | succ k =>
      simp at h
      have hmem : a ∈ t := List.mem_iff_getElem?.2 ⟨k, h⟩
      have : x ≠ a := fun hx => hn.1 (hx ▸ hmem)
      simp [posOf, this, ih hn.2 h]

theorem posOf_none_of_not_mem {α} [DecidableEq α] {l : List α} {a : α} (h : a ∉ l) : posOf l a = none := by
  induction l with
  | nil => rfl
  | cons x t ih =>
    simp at h
    have : x ≠ a := fun hx => h.1 hx.symm
    simp [posOf, this, ih h.2]

theorem posOf_append_of_not_mem {α} [DecidableEq α] {pre l : List α} {a : α} (h : a ∉ pre) :
    posOf (pre ++ l) a = (posOf l a).map (· + pre.length) := by
  induction pre with
  | nil => simp
  | cons x t ih =>
    simp at h
    have : x ≠ a := fun hx => h.1 hx.symm
    simp only [List.cons_append, posOf, this, if_false, ih h.2, List.length_cons]
    cases posOf l a <;> simp; omega

theorem dget_zipIdx (ns : List String) (k : Nat) (s : String) :
    dget (ns.zipIdx k) s = (posOf ns s).map (· + k) := by
  induction ns generalizing k with
  | nil => rfl
  | cons x t ih =>
    simp only [List.zipIdx_cons, dget, posOf]
    split
    · simp
    · rw [ih (k + 1)]; cases posOf t s <;> simp; omega

theorem dget_zipNames (ns : List String) (s : String) : dget (zipNames ns) s = posOf ns s := by
  simp [zipNames, dget_zipIdx]

/-! ### header maps after dropping columns -/

theorem ext_hdr_aux (ns : List String) (s : Nat) (pre : List Nat) (p : Nat → Bool) (hpre : ∀ i ∈ pre, i < s) :
    (ns.zipIdx s).filterMap (fun q => (posOf (pre ++ (List.range' s ns.length).filter p) q.2).map (fun e => (q.1, e)))
    = (((List.range' s ns.length).filter p).filterMap (fun i => ns[i - s]?)).zipIdx pre.length := by
  induction ns generalizing s pre with
  | nil => simp
  | cons x t ih =>
    have hs : s ∉ pre := fun h => Nat.lt_irrefl _ (hpre s h)
    have hrest : ∀ i ∈ (List.range' (s + 1) t.length).filter p, s + 1 ≤ i := fun i hi => (mem_filter_range' hi).1
    have hcongr : ∀ l : List Nat, (∀ i ∈ l, s + 1 ≤ i) →
        l.filterMap (fun i => (x :: t)[i - s]?) = l.filterMap (fun i => t[i - (s + 1)]?) := by
      intro l hl
      induction l with
      | nil => rfl
      | cons a l ihl =>
        have ha := hl a (by simp)
        have : a - s = (a - (s + 1)) + 1 := by omega
        simp only [List.filterMap_cons, this, List.getElem?_cons_succ]
        rw [ihl (fun i hi => hl i (by simp [hi]))]
    simp only [List.length_cons, List.range'_succ, List.zipIdx_cons, List.filter_cons, List.filterMap_cons]
    by_cases hp : p s = true
    · simp only [hp, if_true]
      have h0 : posOf (pre ++ s :: (List.range' (s + 1) t.length).filter p) s = some pre.length := by
        rw [posOf_append_of_not_mem hs]; simp [posOf]
      simp only [h0, Option.map_some, List.filterMap_cons, Nat.sub_self, List.getElem?_cons_zero, List.zipIdx_cons]
      have hpre' : ∀ i ∈ pre ++ [s], i < s + 1 := by
        intro i hi
        rcases List.mem_append.1 hi with h | h
        · exact Nat.lt_succ_of_lt (hpre i h)
        · simp at h; omega
      have := ih (s + 1) (pre ++ [s]) hpre'
      simp only [List.append_assoc, List.singleton_append, List.length_append, List.length_singleton] at this
      rw [this, hcongr _ hrest]
    · simp only [hp]
      have hnot : s ∉ (List.range' (s + 1) t.length).filter p := fun h => by have := hrest s h; omega
      have h0 : posOf (pre ++ (List.range' (s + 1) t.length).filter p) s = none :=
        posOf_none_of_not_mem (by simp [hs, hnot])
      simp only [h0, Option.map_none, Bool.false_eq_true, if_false]
      have hpre' : ∀ i ∈ pre, i < s + 1 := fun i hi => Nat.lt_succ_of_lt (hpre i hi)
      rw [ih (s + 1) pre hpre', hcongr _ hrest]

/-- the external header map computed by `make_drop_row_args` names the kept columns in order -/
theorem ext_hdr (ns : List String) (p : Nat → Bool) :
    (zipNames ns).filterMap (fun q => (posOf ((List.range ns.length).filter p) q.2).map (fun e => (q.1, e)))
    = zipNames (((List.range ns.length).filter p).filterMap (fun i => ns[i]?)) := by
  have := ext_hdr_aux ns 0 [] p (by simp)
  simpa [zipNames, List.range_eq_range'] using this

theorem shift_above (t : List String) (k ind : Nat) (h : ind < k) :
    DRow.shiftHdr ind (t.zipIdx k) = t.zipIdx (k - 1) := by
  induction t generalizing k with
  | nil => rfl
  | cons x t ih =>
    have h1 : ¬ k = ind := by omega
    have h2 : ¬ k < ind := by omega
    have h3 : k + 1 - 1 = k - 1 + 1 := by omega
    simp only [DRow.shiftHdr, List.zipIdx_cons, List.filterMap_cons, h1, h2, if_false]
    have := ih (k + 1) (by omega)
    simp only [DRow.shiftHdr] at this
    rw [this, h3]

theorem shift_zipIdx (ns : List String) (k ind : Nat) (h : k ≤ ind) :
    DRow.shiftHdr ind (ns.zipIdx k) = (ns.eraseIdx (ind - k)).zipIdx k := by
  induction ns generalizing k with
  | nil => rfl
  | cons x t ih =>
    by_cases hk : k = ind
    · subst hk
      have := shift_above t (k + 1) k (by omega)
      simp only [DRow.shiftHdr] at this
      simp [DRow.shiftHdr, List.zipIdx_cons, this]
    · have h1 : k < ind := by omega
      have h2 : ind - k = (ind - (k + 1)) + 1 := by omega
      have := ih (k + 1) (by omega)
      simp only [DRow.shiftHdr] at this
      simp only [DRow.shiftHdr, List.zipIdx_cons, List.filterMap_cons, hk, h1, if_true, if_false, h2, List.eraseIdx_cons_succ]
      rw [this]

theorem shift_zipNames (ns : List String) (ind : Nat) :
    DRow.shiftHdr ind (zipNames ns) = zipNames (ns.eraseIdx ind) := by
  simpa [zipNames] using shift_zipIdx ns 0 ind (Nat.zero_le _)

theorem sel_aux {β} (ns : List String) (a b : Nat) (f : Nat → Option String → β) :
    ((ns.zipIdx a).zipIdx b).map (fun p => f p.2 (some p.1.1)) = (List.range' b ns.length).map (fun j => f j (ns[j - b]?)) := by
  induction ns generalizing a b with
  | nil => rfl
  | cons x t ih =>
    simp only [List.zipIdx_cons, List.map_cons, List.length_cons, List.range'_succ, Nat.sub_self, List.getElem?_cons_zero]
    rw [ih (a + 1) (b + 1)]
    congr 1
    apply List.map_congr_left
    intro j hj
    rw [List.mem_range'] at hj
    obtain ⟨i, _, rfl⟩ := hj
    have : b + 1 + 1 * i - b = (b + 1 + 1 * i - (b + 1)) + 1 := by omega
    rw [this, List.getElem?_cons_succ]


/-! ## dense refinement -/

/-- well-formed eager dense row: a header names every column once, the label column exists -/
structure WFD (e : EagerD) : Prop where
  names : ∀ ns, e.names = some ns → namesOK ns e.cells.length
  lab : ∀ i t, e.lab = some (i, t) → i < e.cells.length

/-- the lazy row `r` is indistinguishable from the eager row `e` (label part apart) -/
structure RefD (r : DRow) (e : EagerD) : Prop where
  iter : r.iter = .ok e.cells
  len : r.len = e.cells.length
  pos : ∀ i, r.getPos i = idx e.cells i
  hdr : r.headers.toOption = e.names.map zipNames
  name : ∀ s v, e.byName s = some v → r.getName s = .ok v
  miss : r.missing.toOption = e.miss

theorem toOption_eq_some {α} {x : Res α} {a : α} (h : x.toOption = some a) : x = .ok a := by
  cases x <;> simp [Except.toOption] at h; subst h; rfl

theorem toOption_eq_none {α} {x : Res α} (h : x.toOption = none) : ∃ e, x = .error e := by
  cases x with
  | error e => exact ⟨e, rfl⟩
  | ok a => simp [Except.toOption] at h

/-- a by-name lookup on the eager row, seen through a header map that matches its names -/
theorem byName_via_hdr {e : EagerD} {hd : Res Hdr} (hh : hd.toOption = e.names.map zipNames) {s : String} {v : Val}
    (hb : e.byName s = some v) : ∃ h i, hd = .ok h ∧ dget h s = some i ∧ e.cells[i]? = some v := by
  unfold EagerD.byName EagerD.colOf at hb
  cases hn : e.names with
  | none => simp [hn] at hb
  | some ns =>
    simp only [hn] at hb
    cases hp : posOf ns s with
    | none => simp [hp] at hb
    | some i =>
      simp only [hp] at hb
      rw [hn] at hh
      exact ⟨zipNames ns, i, toOption_eq_some hh, by rw [dget_zipNames, hp], hb⟩

theorem RefD.get {r : DRow} {e : EagerD} (h : RefD r e) (k : Key) (v : Val) (hk : e.get k = some v) : r.get k = .ok v := by
  cases k with
  | pos i => simp only [EagerD.get] at hk; simp only [DRow.get, h.pos i]; exact idx_of_some hk
  | name s => exact h.name s v hk

theorem refD_plain (v : List Val) (lab) : RefD (.plain v) ⟨v, none, lab, none⟩ where
  iter := rfl
  len := rfl
  pos := fun _ => rfl
  hdr := rfl
  name := by intro s v h; simp [EagerD.byName, EagerD.colOf] at h
  miss := rfl

theorem mkCell_get {α} (b : Bool) (v : α) : (mkCell b v).get = v := by
  cases b <;> rfl

theorem zipWith_getElem?_of_map_ok {α β} {f : α → β → Res β} {es : List α} {v cells : List β}
    (h : List.zipWith f es v = cells.map .ok) (i : Nat) (e : α) (x : β) (he : es[i]? = some e) (hx : v[i]? = some x) :
    ∃ c, cells[i]? = some c ∧ f e x = .ok c := by
  have := congrArg (fun l => l[i]?) h
  simp only [List.getElem?_zipWith, he, hx, List.getElem?_map] at this
  cases hc : cells[i]? with
  | none => rw [hc] at this; simp at this
  | some c => rw [hc] at this; simp at this; exact ⟨c, rfl, this⟩

/-- LazyDense with encoders -/
theorem refD_lazy_enc (c : Cell (List Val)) (es : List Enc) (v cells : List Val) (ns : Option (List String)) (m : Bool) (lab)
    (hc : c.get = v) (hl : es.length = v.length) (hs : sequence (List.zipWith lazyApply es v) = .ok cells) :
    RefD (.lazy c (some es) (ns.map zipNames) m) ⟨cells, ns, lab, some m⟩ := by
  have hz := sequence_ok hs
  have hlen : cells.length = v.length := by
    have := sequence_length hs; simp [List.length_zipWith, hl] at this; exact this
  have hpos : ∀ i, (DRow.lazy c (some es) (ns.map zipNames) m).getPos i = idx cells i := by
    intro i
    simp only [DRow.getPos, hc]
    by_cases hi : i < v.length
    · have hx : v[i]? = some v[i] := by simp [hi]
      have he : es[i]? = some es[i] := by simp [hl, hi]
      obtain ⟨cc, hcc, hf⟩ := zipWith_getElem?_of_map_ok hz i _ _ he hx
      rw [idx_of_some hx, idx_of_some hcc]
      cases es with
      | nil => simp at he
      | cons e0 et => simp only [he, hf]
    · have hx : v[i]? = none := by simp; omega
      have hcc : cells[i]? = none := by simp; omega
      rw [idx_of_none hx, idx_of_none hcc]
  refine ⟨?_, ?_, hpos, ?_, ?_, rfl⟩
  · simp only [DRow.iter, hc]
    cases es with
    | nil =>
      have : v = [] := by cases v <;> simp_all
      subst this; simp [sequence] at hs; subst hs; rfl
    | cons e0 et => exact hs
  · simp [DRow.len, hc, hlen]
  · cases ns <;> rfl
  · intro s x hb
    obtain ⟨h, i, hh, hd, hci⟩ := byName_via_hdr (e := ⟨cells, ns, lab, some m⟩) (hd := (DRow.lazy c (some es) (ns.map zipNames) m).headers) (by cases ns <;> rfl) hb
    cases ns with
    | none => simp [DRow.headers] at hh
    | some nn =>
      simp only [DRow.headers, Option.map] at hh
      cases hh
      simp only [DRow.getName, Option.map, hd]
      have := hpos i
      simp only [Option.map] at this
      rw [this, idx_of_some hci]

/-- LazyDense without encoders -/
theorem refD_lazy_plain (c : Cell (List Val)) (enc : Option (List Enc)) (v : List Val) (ns : Option (List String)) (m : Bool) (lab)
    (hc : c.get = v) (he : enc = none ∨ enc = some []) :
    RefD (.lazy c enc (ns.map zipNames) m) ⟨v, ns, lab, some m⟩ := by
  have hpos : ∀ i, (DRow.lazy c enc (ns.map zipNames) m).getPos i = idx v i := by
    intro i
    rcases he with rfl | rfl <;> simp only [DRow.getPos, hc] <;> cases idx v i <;> rfl
  refine ⟨?_, ?_, hpos, ?_, ?_, rfl⟩
  · rcases he with rfl | rfl <;> simp [DRow.iter, hc]
  · simp [DRow.len, hc]
  · cases ns <;> rfl
  · intro s x hb
    obtain ⟨h, i, hh, hd, hci⟩ := byName_via_hdr (e := ⟨v, ns, lab, some m⟩) (hd := (DRow.lazy c enc (ns.map zipNames) m).headers) (by cases ns <;> rfl) hb
    cases ns with
    | none => simp [DRow.headers] at hh
    | some nn =>
      simp only [DRow.headers, Option.map] at hh
      cases hh
      simp only [DRow.getName, Option.map, hd]
      have := hpos i
      simp only [Option.map] at this
      rw [this, idx_of_some hci]


theorem refD_head {r : DRow} {e : EagerD} (h : RefD r e) (ns : List String) :
    RefD (.head r (zipNames ns)) { e with names := some ns } where
  iter := h.iter
  len := h.len
  pos := h.pos
  hdr := rfl
  name := by
    intro s v hb
    simp only [EagerD.byName, EagerD.colOf] at hb
    cases hp : posOf ns s with
    | none => simp [hp] at hb
    | some i =>
      simp only [hp] at hb
      simp only [DRow.getName, dget_zipNames, hp, h.pos i]
      exact idx_of_some hb
  miss := h.miss

theorem headMap_zip (m : List (String × Key)) (k : Nat) (h : m.map (·.2) = (List.range' k m.length).map Key.pos) :
    m.filterMap hdrEntry = (m.map (·.1)).zipIdx k := by
  induction m generalizing k with
  | nil => rfl
  | cons a t ih =>
    simp only [List.map_cons, List.length_cons, List.range'_succ, List.cons.injEq] at h
    obtain ⟨ha, ht⟩ := h
    obtain ⟨nm, key⟩ := a
    simp only at ha
    subst ha
    simp only [List.filterMap_cons, hdrEntry, List.map_cons, List.zipIdx_cons]
    rw [ih (k + 1) ht]

theorem refD_label {r : DRow} {e : EagerD} (h : RefD r e) (i : Nat) (t : Option String) (lab) :
    RefD (.label r i t) { e with lab := lab } where
  iter := h.iter
  len := h.len
  pos := h.pos
  hdr := h.hdr
  name := h.name
  miss := h.miss

theorem zipWith_range'_map {α β γ} (f : α → β → γ) (g : Nat → α) (xs : List β) (k : Nat) :
    List.zipWith f ((List.range' k xs.length).map g) xs = (xs.zipIdx k).map (fun p => f (g p.2) p.1) := by
  induction xs generalizing k with
  | nil => rfl
  | cons x t ih => simp [List.range'_succ, List.zipIdx_cons, ih (k + 1)]

theorem refD_encode {r : DRow} {e : EagerD} (h : RefD r e) (es : List Enc) (cells : List Val)
    (hl : es.length = e.cells.length) (hs : sequence (List.zipWith Enc.apply es e.cells) = .ok cells) :
    RefD (.encode r es) { e with cells := cells } := by
  have hz := sequence_ok hs
  have hlen : cells.length = e.cells.length := by
    have := sequence_length hs; simp [List.length_zipWith, hl] at this; exact this
  have hpos : ∀ i, (DRow.encode r es).getPos i = idx cells i := by
    intro i
    simp only [DRow.getPos, h.pos i]
    by_cases hi : i < e.cells.length
    · have hx : e.cells[i]? = some e.cells[i] := by simp [hi]
      have he : es[i]? = some es[i] := by simp [hl, hi]
      obtain ⟨cc, hcc, hf⟩ := zipWith_getElem?_of_map_ok hz i _ _ he hx
      rw [idx_of_some he, idx_of_some hx, idx_of_some hcc]; exact hf
    · have he : es[i]? = none := by simp; omega
      have hcc : cells[i]? = none := by simp; omega
      rw [idx_of_none he, idx_of_none hcc]
  refine ⟨?_, ?_, hpos, h.hdr, ?_, h.miss⟩
  · simp only [DRow.iter, h.iter]; exact hs
  · simp [DRow.len, hl, hlen]
  · intro s x hb
    obtain ⟨hd, i, hh, hdg, hci⟩ := byName_via_hdr (e := { e with cells := cells }) (hd := r.headers) h.hdr hb
    simp only [DRow.getName, hh, hdg]
    rw [hpos i]; exact idx_of_some hci

theorem refD_dropOne {r : DRow} {e : EagerD} (h : RefD r e) (ind : Nat) (hi : ind < e.cells.length) :
    RefD (.dropOne r ind) ⟨e.cells.eraseIdx ind, e.names.map (·.eraseIdx ind), none, e.miss⟩ := by
  have hpos : ∀ i, (DRow.dropOne r ind).getPos i = idx (e.cells.eraseIdx ind) i := by
    intro i
    simp only [DRow.getPos, h.pos, idx, List.getElem?_eraseIdx]
    by_cases hlt : i < ind
    · have : ¬ i ≥ ind := by omega
      simp [hlt, this]
    · have : i ≥ ind := by omega
      simp [hlt, this]
  have hhdr : (DRow.dropOne r ind).headers.toOption = (e.names.map (·.eraseIdx ind)).map zipNames := by
    have := h.hdr
    simp only [DRow.headers]
    cases hn : e.names with
    | none =>
      rw [hn] at this
      obtain ⟨er, her⟩ := toOption_eq_none this
      simp [her, Except.toOption]
    | some ns =>
      rw [hn] at this
      rw [toOption_eq_some this]
      simp [Except.toOption, shift_zipNames]
  refine ⟨?_, ?_, hpos, hhdr, ?_, h.miss⟩
  · simp only [DRow.iter, h.iter, List.eraseIdx_eq_take_drop_succ]
  · simp [DRow.len, h.len, List.length_eraseIdx, hi]
  · intro s x hb
    obtain ⟨hd, i, hh, hdg, hci⟩ := byName_via_hdr
      (e := ⟨e.cells.eraseIdx ind, e.names.map (·.eraseIdx ind), none, e.miss⟩) (hd := (DRow.dropOne r ind).headers) hhdr hb
    simp only [DRow.getName, hh, hdg]
    rw [hpos i]; exact idx_of_some hci


theorem keptIdx_lt {e : EagerD} {cols : List Key} {i : Nat} (h : i ∈ keptIdx e cols) : i < e.cells.length := by
  unfold keptIdx at h
  have := (List.mem_filter.1 h).1
  simpa using this

/-- what `make_drop_row_args` computes for a row that refines `e` -/
theorem makeDropArgs_eq {r : DRow} {e : EagerD} (h : RefD r e) (hw : WFD e) (cols : List Key) :
    ∃ names sel hdr,
      dropArgsOf r cols = (keptIdx e cols, names, sel, (keptIdx e cols).length, hdr) ∧
      sel = (List.range e.cells.length).map (fun i => keepCol cols i (e.nameAt i)) ∧
      (match e.names with | some ns => names = zipNames ns | none => True) ∧
      (DRow.keep r (keptIdx e cols) names sel (keptIdx e cols).length hdr).headers.toOption
        = (e.names.map (fun ns => (keptIdx e cols).filterMap (fun i => ns[i]?))).map zipNames := by
  have hh := h.hdr
  cases hn : e.names with
  | none =>
    rw [hn] at hh
    obtain ⟨er, her⟩ := toOption_eq_none hh
    have hna : ∀ i, e.nameAt i = none := by intro i; simp [EagerD.nameAt, hn]
    refine ⟨[], _, none, ?_, rfl, trivial, ?_⟩
    · simp only [dropArgsOf, her, makeDropArgs, h.len, compress_map_self, keptIdx, hna]
    · simp [DRow.headers, her, Except.toOption]
  | some ns =>
    rw [hn] at hh
    have hok := toOption_eq_some hh
    have hnl : ns.length = e.cells.length := (hw.names ns hn).1
    have hna : ∀ i, e.nameAt i = ns[i]? := by intro i; simp [EagerD.nameAt, hn]
    have hsel : (zipNames ns).zipIdx.map (fun p => keepCol cols p.2 (some p.1.1))
        = (List.range e.cells.length).map (fun i => keepCol cols i (e.nameAt i)) := by
      have := sel_aux ns 0 0 (keepCol cols)
      simp only [zipNames]
      rw [this, List.range_eq_range', hnl]
      simp [hna]
    have hidx : compress (List.range e.cells.length) ((List.range e.cells.length).map (fun i => keepCol cols i (e.nameAt i)))
        = keptIdx e cols := by rw [compress_map_self]; rfl
    have hext : (zipNames ns).filterMap (fun p => (posOf (keptIdx e cols) p.2).map (fun e => (p.1, e)))
        = zipNames ((keptIdx e cols).filterMap (fun i => ns[i]?)) := by
      have := ext_hdr ns (fun i => keepCol cols i (e.nameAt i))
      simpa [keptIdx, hnl] using this
    refine ⟨zipNames ns, _, if (zipNames ns).isEmpty then none else some (zipNames ((keptIdx e cols).filterMap (fun i => ns[i]?))), ?_, rfl, rfl, ?_⟩
    · simp only [dropArgsOf, hok, makeDropArgs, h.len, hsel, hidx, hext]
    · by_cases hem : (zipNames ns).isEmpty = true
      · simp only [hem, if_true, DRow.headers, hok, Except.toOption, Option.map]
        have : ns = [] := by cases ns <;> simp_all [zipNames]
        subst this; simp [zipNames]
      · simp [hem, DRow.headers, Except.toOption]

theorem refD_keep {r : DRow} {e : EagerD} (h : RefD r e) (hw : WFD e) (cols : List Key) (names : Hdr) (sel : List Bool)
    (hdr : Option Hdr) (lab)
    (hsel : sel = (List.range e.cells.length).map (fun i => keepCol cols i (e.nameAt i)))
    (hnames : match e.names with | some ns => names = zipNames ns | none => True)
    (hhdr : (DRow.keep r (keptIdx e cols) names sel (keptIdx e cols).length hdr).headers.toOption
        = (e.names.map (fun ns => (keptIdx e cols).filterMap (fun i => ns[i]?))).map zipNames) :
    RefD (.keep r (keptIdx e cols) names sel (keptIdx e cols).length hdr)
      ⟨(keptIdx e cols).filterMap (fun i => e.cells[i]?), e.names.map (fun ns => (keptIdx e cols).filterMap (fun i => ns[i]?)), lab, e.miss⟩ := by
  have hin : ∀ i ∈ keptIdx e cols, i < e.cells.length := fun i hi => keptIdx_lt hi
  have hget := getElem?_filterMap_inrange e.cells (keptIdx e cols) hin
  have hpos : ∀ i, (DRow.keep r (keptIdx e cols) names sel (keptIdx e cols).length hdr).getPos i
      = idx ((keptIdx e cols).filterMap (fun i => e.cells[i]?)) i := by
    intro i
    simp only [DRow.getPos, idx, hget i]
    cases hk : (keptIdx e cols)[i]? with
    | none => simp
    | some j => simp [h.pos j, idx]
  refine ⟨?_, ?_, hpos, hhdr, ?_, h.miss⟩
  · simp only [DRow.iter, h.iter, hsel]
    rw [compress_range_map]; rfl
  · simp [DRow.len, length_filterMap_inrange e.cells _ hin]
  · intro s v hb
    simp only [EagerD.byName, EagerD.colOf] at hb
    cases hn : e.names with
    | none => simp [hn] at hb
    | some ns =>
      rw [hn] at hnames
      simp only [hn, Option.map] at hb
      have hnl : ns.length = e.cells.length := (hw.names ns hn).1
      have hnd : ns.Nodup := (hw.names ns hn).2
      have hin' : ∀ i ∈ keptIdx e cols, i < ns.length := fun i hi => hnl ▸ hin i hi
      cases hp : posOf ((keptIdx e cols).filterMap (fun i => ns[i]?)) s with
      | none => simp [hp] at hb
      | some k =>
        simp only [hp] at hb
        have h1 := posOf_some_getElem? hp
        rw [getElem?_filterMap_inrange ns _ hin' k] at h1
        rw [hget k] at hb
        cases hk : (keptIdx e cols)[k]? with
        | none => simp [hk] at h1
        | some j =>
          simp only [hk, Option.bind] at h1 hb
          have hj : posOf ns s = some j := posOf_of_nodup hnd h1
          simp only [DRow.getName, hnames, dget_zipNames, hj, h.pos j]
          exact idx_of_some hb

theorem wfD_keep {e : EagerD} (hw : WFD e) (cols : List Key) (lab : Option (Nat × Option String))
    (hlab : ∀ i t, lab = some (i, t) → i < (keptIdx e cols).length) :
    WFD ⟨(keptIdx e cols).filterMap (fun i => e.cells[i]?), e.names.map (fun ns => (keptIdx e cols).filterMap (fun i => ns[i]?)), lab, e.miss⟩ := by
  have hin : ∀ i ∈ keptIdx e cols, i < e.cells.length := fun i hi => keptIdx_lt hi
  constructor
  · intro ns' hns'
    cases hn : e.names with
    | none => simp [hn] at hns'
    | some ns =>
      simp only [hn, Option.map, Option.some.injEq] at hns'
      subst hns'
      have hnl : ns.length = e.cells.length := (hw.names ns hn).1
      have hin' : ∀ i ∈ keptIdx e cols, i < ns.length := fun i hi => hnl ▸ hin i hi
      refine ⟨?_, ?_⟩
      · simp [length_filterMap_inrange e.cells _ hin, length_filterMap_inrange ns _ hin']
      · have := compress_range_map ns (fun i => keepCol cols i (e.nameAt i))
        have hk : keptIdx e cols = (List.range ns.length).filter (fun i => keepCol cols i (e.nameAt i)) := by
          simp [keptIdx, hnl]
        rw [hk, ← this]
        exact (compress_sublist _ _).nodup (hw.names ns hn).2
  · intro i t hl
    simp only [length_filterMap_inrange e.cells _ hin]
    exact hlab i t hl


theorem colOf_via_hdr {e : EagerD} {hd : Res Hdr} (hh : hd.toOption = e.names.map zipNames) {s : String} {i : Nat}
    (hc : e.colOf s = some i) : ∃ h, hd = .ok h ∧ dget h s = some i := by
  unfold EagerD.colOf at hc
  cases hn : e.names with
  | none => simp [hn] at hc
  | some ns =>
    simp only [hn] at hc
    rw [hn] at hh
    exact ⟨zipNames ns, toOption_eq_some hh, by rw [dget_zipNames, hc]⟩

theorem evalPredD_of_eager {r : DRow} {e : EagerD} (h : RefD r e) (pred : Option Pred) (b : Bool)
    (hp : evalPredE pred e.miss e.get = .ok b) : evalPredD pred r = .ok b := by
  cases pred with
  | none => simpa [evalPredE, evalPredD] using hp
  | some p =>
    cases p with
    | missing =>
      simp only [evalPredE] at hp
      cases hm : e.miss with
      | none => simp [hm] at hp
      | some m =>
        simp only [hm] at hp
        have := h.miss; rw [hm] at this
        simp only [evalPredD, toOption_eq_some this]; exact hp
    | cellEq k v =>
      simp only [evalPredE] at hp
      cases hg : e.get k with
      | none => simp [hg] at hp
      | some x =>
        simp only [hg] at hp
        simp only [evalPredD, h.get k x hg]; exact hp

/-- one stage: if the eager stage is defined, the lazy stage builds a row that refines its result -/
theorem stageD_refines (st : Stage) {r : DRow} {e : EagerD} (h : RefD r e) (hw : WFD e) :
    (∀ e', eagerStageD st e = .ok (some e') → ∃ r', applyD st r = .ok (some r') ∧ RefD r' e' ∧ WFD e') ∧
    (eagerStageD st e = .ok none → applyD st r = .ok none) := by
  cases st with
  | headNames ns =>
    simp only [eagerStageD, applyD]
    refine ⟨?_, by split <;> simp⟩
    intro e' he
    split at he
    · rename_i hok
      simp at he; subst he
      exact ⟨_, rfl, refD_head h ns, ⟨by intro ns' h'; simp at h'; subst h'; exact hok, hw.lab⟩⟩
    · simp at he
  | headMap m =>
    simp only [eagerStageD, applyD]
    refine ⟨?_, by split <;> simp⟩
    intro e' he
    split at he
    · rename_i hok
      simp at he; subst he
      have hz : m.filterMap hdrEntry = (m.map (·.1)).zipIdx 0 := headMap_zip m 0 (by
        have := hok.1
        have hl : m.length = e.cells.length := by simpa using congrArg List.length this
        rw [this, List.range_eq_range', hl])
      refine ⟨_, rfl, ?_, ⟨by intro ns' h'; simp at h'; subst h'; exact hok.2, hw.lab⟩⟩
      rw [hz]; exact refD_head h _
    · simp at he
  | encodeSeq es =>
    simp only [eagerStageD, applyD]
    refine ⟨?_, by split <;> (try split) <;> simp⟩
    intro e' he
    split at he
    · rename_i hl
      cases hs : sequence (List.zipWith Enc.apply es e.cells) with
      | error er => simp [hs] at he
      | ok cells =>
        simp [hs] at he; subst he
        have hlen : cells.length = e.cells.length := by
          have := sequence_length hs; simp [List.length_zipWith, hl] at this; exact this
        exact ⟨_, rfl, refD_encode h es cells hl hs, ⟨fun ns hn => by simpa [hlen] using hw.names ns hn, fun i t hl' => by simpa [hlen] using hw.lab i t hl'⟩⟩
    · simp at he
  | encodeMap m =>
    simp only [eagerStageD, applyD]
    refine ⟨?_, by split <;> simp⟩
    intro e' he
    have hencs : encsOf m r = (List.range e.cells.length).map (fun i => encFor m (e.nameAt i) i) := by
      have hh := h.hdr
      unfold encsOf
      cases hn : e.names with
      | none =>
        rw [hn] at hh
        obtain ⟨er, her⟩ := toOption_eq_none hh
        simp only [her, h.len]
        apply List.map_congr_left; intro i _; simp [EagerD.nameAt, hn]
      | some ns =>
        rw [hn] at hh
        have hnl : ns.length = e.cells.length := (hw.names ns hn).1
        simp only [toOption_eq_some hh, zipNames]
        rw [sel_aux ns 0 0 (fun j nm => encFor m nm j), List.range_eq_range', hnl]
        apply List.map_congr_left; intro i _; simp [EagerD.nameAt, hn]
    have hzip : List.zipWith Enc.apply ((List.range e.cells.length).map (fun i => encFor m (e.nameAt i) i)) e.cells
        = e.cells.zipIdx.map (fun p => (encFor m (e.nameAt p.2) p.2).apply p.1) := by
      have := zipWith_range'_map Enc.apply (fun i => encFor m (e.nameAt i) i) e.cells 0
      simpa [List.range_eq_range'] using this
    cases hs : sequence (e.cells.zipIdx.map (fun p => (encFor m (e.nameAt p.2) p.2).apply p.1)) with
    | error er => simp [hs] at he
    | ok cells =>
      simp [hs] at he; subst he
      rw [← hzip] at hs
      have hl : ((List.range e.cells.length).map (fun i => encFor m (e.nameAt i) i)).length = e.cells.length := by simp
      have hlen : cells.length = e.cells.length := by
        have := sequence_length hs; simp [List.length_zipWith] at this; exact this
      refine ⟨_, by rw [hencs], refD_encode h _ cells hl hs, ⟨fun ns hn => by simpa [hlen] using hw.names ns hn, fun i t hl' => by simpa [hlen] using hw.lab i t hl'⟩⟩
  | drop cols pred =>
    simp only [eagerStageD, applyD]
    cases hp : evalPredE pred e.miss e.get with
    | error er => simp
    | ok b =>
      rw [evalPredD_of_eager h pred b hp]
      cases b with
      | false => simp
      | true =>
        simp only
        by_cases hc : cols.isEmpty = true
        · simp only [hc, if_true]
          refine ⟨?_, by simp⟩
          intro e' he; simp at he; subst he; exact ⟨r, rfl, h, hw⟩
        · have hc' : cols.isEmpty = false := by simpa using hc
          simp only [hc', Bool.false_eq_true, if_false]
          refine ⟨?_, by intro he; split at he <;> simp at he⟩
          intro e' he
          obtain ⟨names, sel, hdr, hargs, hsel, hnames, hhdr⟩ := makeDropArgs_eq h hw cols
          split at he
          · simp at he
          · rename_i lab hlab
            simp at he; subst he
            refine ⟨_, by simp only [hargs], refD_keep h hw cols names sel hdr lab hsel hnames hhdr, wfD_keep hw cols lab ?_⟩
            intro i t hl
            subst hl
            cases hel : e.lab with
            | none => simp [hel] at hlab
            | some it =>
              obtain ⟨i0, t0⟩ := it
              simp only [hel] at hlab
              cases hpo : posOf (keptIdx e cols) i0 with
              | none => simp [hpo] at hlab
              | some j =>
                simp [hpo] at hlab
                rw [← hlab.1]; exact posOf_lt hpo
  | label k t =>
    simp only [eagerStageD, applyD]
    refine ⟨?_, by split <;> (try split) <;> simp⟩
    intro e' he
    cases k with
    | pos i =>
      simp only at he
      split at he
      · rename_i hi
        simp at he; subst he
        exact ⟨_, rfl, refD_label h i t _, ⟨hw.names, by intro i' t' hl; simp at hl; obtain ⟨rfl, _⟩ := hl; exact hi⟩⟩
      · simp at he
    | name s =>
      simp only at he
      cases hc : e.colOf s with
      | none => simp [hc] at he
      | some i =>
        simp only [hc] at he
        split at he
        · rename_i hi
          simp at he; subst he
          obtain ⟨hd, hh, hdg⟩ := colOf_via_hdr h.hdr hc
          simp only [hh, hdg]
          exact ⟨_, rfl, refD_label h i t _, ⟨hw.names, by intro i' t' hl; simp at hl; obtain ⟨rfl, _⟩ := hl; exact hi⟩⟩
        · simp at he
  | enccat t =>
    cases t with
    | none =>
      simp only [eagerStageD, applyD]
      exact ⟨by intro e' he; simp at he; subst he; exact ⟨r, rfl, h, hw⟩, by simp⟩
    | some m =>
      simp only [eagerStageD, applyD, h.iter]
      refine ⟨?_, by split <;> simp⟩
      intro e' he
      split at he
      · rename_i hcat
        simp at he; subst he
        exact ⟨_, by simp [hcat], refD_plain _ _, ⟨by simp, by simp⟩⟩
      · rename_i hcat
        simp at he; subst he
        exact ⟨r, by simp [hcat], h, hw⟩

theorem buildD_refines (stages : List Stage) {r : DRow} {e : EagerD} (h : RefD r e) (hw : WFD e) :
    (∀ e', eagerD stages e = .ok (some e') → ∃ r', buildD stages r = .ok (some r') ∧ RefD r' e' ∧ WFD e') ∧
    (eagerD stages e = .ok none → buildD stages r = .ok none) := by
  induction stages generalizing r e with
  | nil =>
    simp only [eagerD, buildD]
    exact ⟨by intro e' he; simp at he; subst he; exact ⟨r, rfl, h, hw⟩, by simp⟩
  | cons st rest ih =>
    obtain ⟨h1, h2⟩ := stageD_refines st h hw
    simp only [eagerD, buildD]
    cases hs : eagerStageD st e with
    | error er => simp
    | ok o =>
      cases o with
      | none => rw [h2 hs]; simp
      | some e1 =>
        obtain ⟨r1, hr1, href, hwf⟩ := h1 e1 hs
        rw [hr1]
        exact ih href hwf


theorem hdrOK_names {hdr : Option (List String)} {n : Nat} (h : hdrOK hdr n = true) : ∀ ns, hdr = some ns → namesOK ns n := by
  intro ns hn; subst hn; simpa [hdrOK] using h

/-- the base rows: LazyDense (with or without loader / encoders / headers), ArffReader's rows, plain lists -/
theorem baseD_refines (b : DBase) (e : EagerD) (hb : eagerBaseD b = .ok e) : RefD (baseD b) e ∧ WFD e := by
  cases b with
  | plain v =>
    simp [eagerBaseD] at hb; subst hb
    exact ⟨refD_plain v none, ⟨by simp, by simp⟩⟩
  | lazy v loader enc hdr miss =>
    simp only [eagerBaseD] at hb
    split at hb
    · rename_i hok
      have hnames := hdrOK_names hok
      split at hb
      · simp at hb; subst hb
        exact ⟨refD_lazy_plain _ none v hdr miss none (mkCell_get _ _) (Or.inl rfl), ⟨hnames, by simp⟩⟩
      · simp at hb; subst hb
        exact ⟨refD_lazy_plain _ (some []) v hdr miss none (mkCell_get _ _) (Or.inr rfl), ⟨hnames, by simp⟩⟩
      · rename_i es _
        split at hb
        · rename_i hl
          cases hs : sequence (List.zipWith lazyApply es v) with
          | error er => simp [hs] at hb
          | ok cells =>
            simp [hs] at hb; subst hb
            have hlen : cells.length = v.length := by
              have := sequence_length hs; simp [List.length_zipWith, hl] at this; exact this
            exact ⟨refD_lazy_enc _ es v cells hdr miss none (mkCell_get _ _) hl hs,
              ⟨fun ns hn => by simpa [hlen] using hnames ns hn, by simp⟩⟩
        · simp at hb
    · simp at hb
  | arff cols raw miss =>
    simp only [eagerBaseD] at hb
    split at hb
    · rename_i hok
      cases hs : sequence (List.zipWith lazyApply (cols.map (Col.enc false)) raw) with
      | error er => simp [hs] at hb
      | ok cells =>
        simp [hs] at hb; subst hb
        have hl : (cols.map (Col.enc false)).length = raw.length := by simp [hok.1]
        have hlen : cells.length = raw.length := by
          have := sequence_length hs; simp [List.length_zipWith, hok.1] at this; exact this
        have := refD_lazy_enc (.pending raw) (cols.map (Col.enc false)) raw cells (some (cols.map (·.name))) miss none rfl hl hs
        exact ⟨this, ⟨by intro ns hn; simp at hn; subst hn; simpa [hlen] using hok.2, by simp⟩⟩
    · simp at hb

/-- the lazy pipeline refines the eager pipeline (dense) -/
theorem dense_refines (b : DBase) (stages : List Stage) (e0 : EagerD) (hb : eagerBaseD b = .ok e0) :
    (∀ e, eagerD stages e0 = .ok (some e) → ∃ r, buildD stages (baseD b) = .ok (some r) ∧ RefD r e ∧ WFD e) ∧
    (eagerD stages e0 = .ok none → buildD stages (baseD b) = .ok none) := by
  obtain ⟨h, hw⟩ := baseD_refines b e0 hb
  exact buildD_refines stages h hw

theorem eqList_of_ref {r : DRow} {e : EagerD} (h : RefD r e) (o : List Val) :
    r.eqList o = (e.cells.length == o.length && (List.zipWith pyEq e.cells o).all id) := by
  simp only [DRow.eqList, h.len, h.iter]
  by_cases hl : e.cells.length = o.length <;> simp [hl]

/-- every access for which the eager row defines a result (a value, or "must raise" for a position
beyond the end / a missing header map) gives that result on the lazy row -/
theorem obsD_of_ref {r : DRow} {e : EagerD} (h : RefD r e) (a : Acc)
    (hna : match a with | .label => False | .tipe => False | .feats _ => False | _ => True)
    (hdef : eagerObsD e a ≠ .undef) : obsD r a = eagerObsD e a := by
  cases a with
  | pos i =>
    simp only [obsD, eagerObsD, h.pos i, idx]
    cases e.cells[i]? <;> rfl
  | name k =>
    simp only [eagerObsD] at hdef
    simp only [obsD, eagerObsD]
    cases hg : e.get k with
    | none => simp [hg] at hdef
    | some v => simp [h.get k v hg, ofRes]
  | iter => simp [obsD, eagerObsD, h.iter, ofRes]
  | copy => simp [obsD, eagerObsD, h.iter, ofRes]
  | len => simp [obsD, eagerObsD, h.len]
  | headers =>
    simp only [obsD, eagerObsD]
    have := h.hdr
    cases hn : e.names with
    | none => rw [hn] at this; obtain ⟨er, her⟩ := toOption_eq_none this; simp [her, ofRes]
    | some ns => rw [hn] at this; simp [toOption_eq_some this, ofRes]
  | eq o =>
    cases o with
    | list l => simp [obsD, eagerObsD, eqList_of_ref h]
    | dict d => simp [eagerObsD] at hdef
  | keys => simp [eagerObsD] at hdef
  | items => simp [eagerObsD] at hdef
  | label => exact absurd hna id
  | tipe => exact absurd hna id
  | feats s => exact absurd hna id


theorem eagerD_append (s1 s2 : List Stage) (e : EagerD) :
    eagerD (s1 ++ s2) e = (match eagerD s1 e with
      | .ok (some e1) => eagerD s2 e1
      | .ok none => .ok none
      | .error er => .error er) := by
  induction s1 generalizing e with
  | nil => simp [eagerD]
  | cons st rest ih =>
    simp only [List.cons_append, eagerD]
    cases eagerStageD st e with
    | error er => rfl
    | ok o => cases o with
      | none => rfl
      | some e1 => exact ih e1

theorem buildD_append (s1 s2 : List Stage) (r : DRow) :
    buildD (s1 ++ s2) r = (match buildD s1 r with
      | .ok (some r1) => buildD s2 r1
      | .ok none => .ok none
      | .error er => .error er) := by
  induction s1 generalizing r with
  | nil => simp [buildD]
  | cons st rest ih =>
    simp only [List.cons_append, buildD]
    cases applyD st r with
    | error er => rfl
    | ok o => cases o with
      | none => rfl
      | some r1 => exact ih r1

/-- LabelRows as the last stage: feats / label / tipe of the lazy row are those of the eager row -/
theorem labelD_last {r0 : DRow} {e0 : EagerD} (h : RefD r0 e0) (k : Key) (t : Option String) (e : EagerD)
    (he : eagerStageD (.label k t) e0 = .ok (some e)) :
    ∃ r f ef v, applyD (.label k t) r0 = .ok (some r) ∧ RefD r e ∧
      r.feats = .ok f ∧ e.feats = some ef ∧ RefD f ef ∧
      r.labelVal = .ok v ∧ e.labelVal = some v ∧ r.tipe = .ok t ∧ e.lab.map (·.2) = some t := by
  have key : ∀ i, i < e0.cells.length → e = { e0 with lab := some (i, t) } →
      applyD (.label k t) r0 = .ok (some (.label r0 i t)) →
      ∃ r f ef v, applyD (.label k t) r0 = .ok (some r) ∧ RefD r e ∧
        r.feats = .ok f ∧ e.feats = some ef ∧ RefD f ef ∧
        r.labelVal = .ok v ∧ e.labelVal = some v ∧ r.tipe = .ok t ∧ e.lab.map (·.2) = some t := by
    intro i hi hee happ
    subst hee
    have hv : e0.cells[i]? = some e0.cells[i] := by simp [hi]
    refine ⟨_, _, _, e0.cells[i], happ, refD_label h i t _, rfl, rfl, refD_dropOne h i hi, ?_, ?_, rfl, rfl⟩
    · simp only [DRow.labelVal, DRow.labelOf, h.pos i]; exact idx_of_some hv
    · simp [EagerD.labelVal, hv]
  simp only [eagerStageD] at he
  cases k with
  | pos i =>
    simp only at he
    split at he
    · rename_i hi
      simp at he
      exact key i hi he.symm rfl
    · simp at he
  | name s =>
    simp only at he
    cases hc : e0.colOf s with
    | none => simp [hc] at he
    | some i =>
      simp only [hc] at he
      split at he
      · rename_i hi
        simp at he
        obtain ⟨hd, hh, hdg⟩ := colOf_via_hdr h.hdr hc
        exact key i hi he.symm (by simp only [applyD, hh, hdg])
      · simp at he

/-! ### the load-once cell is the only state: observations do not depend on it -/

theorem touch_headers (r : DRow) : r.touch.headers = r.headers := by
  induction r with
  | plain v => rfl
  | lazy c e h m => cases h <;> rfl
  | head r h ih => rfl
  | encode r es ih => simpa [DRow.touch, DRow.headers] using ih
  | keep r a b c d e ih => cases e <;> simp [DRow.touch, DRow.headers, ih]
  | label r i t ih => simpa [DRow.touch, DRow.headers] using ih
  | dropOne r i ih => simp [DRow.touch, DRow.headers, ih]

theorem touch_missing (r : DRow) : r.touch.missing = r.missing := by
  induction r <;> simp_all [DRow.touch, DRow.missing]

theorem touch_len (r : DRow) : r.touch.len = r.len := by
  induction r <;> simp_all [DRow.touch, DRow.len, cell_get_touch]

theorem touch_getPos (r : DRow) (i : Nat) : r.touch.getPos i = r.getPos i := by
  induction r generalizing i <;> simp_all [DRow.touch, DRow.getPos, cell_get_touch]

theorem touch_getName (r : DRow) (s : String) : r.touch.getName s = r.getName s := by
  induction r with
  | plain v => rfl
  | lazy c e h m =>
    cases h with
    | none => rfl
    | some h =>
      have hp : ∀ i, (DRow.lazy c.touch e (some h) m).getPos i = (DRow.lazy c e (some h) m).getPos i := fun i => touch_getPos (.lazy c e (some h) m) i
      simp only [DRow.touch, DRow.getName, hp]
  | head r h ih => simp [DRow.touch, DRow.getName, touch_getPos]
  | encode r es ih =>
    have hp : ∀ i, (DRow.encode r.touch es).getPos i = (DRow.encode r es).getPos i := fun i => touch_getPos (.encode r es) i
    simp only [DRow.touch, DRow.getName, touch_headers, hp]
  | keep r a b c d e ih => simp [DRow.touch, DRow.getName, touch_getPos]
  | label r i t ih => simpa [DRow.touch, DRow.getName] using ih
  | dropOne r ind ih =>
    have hh := touch_headers (.dropOne r ind)
    simp only [DRow.touch] at hh
    have hp : ∀ i, (DRow.dropOne r.touch ind).getPos i = (DRow.dropOne r ind).getPos i := fun i => touch_getPos (.dropOne r ind) i
    simp only [DRow.touch, DRow.getName, hh, hp]

theorem touch_iter (r : DRow) : r.touch.iter = r.iter := by
  induction r <;> simp_all [DRow.touch, DRow.iter, cell_get_touch]

theorem touch_labelOf (r : DRow) : r.touch.labelOf = r.labelOf.map (fun p => (p.1.touch, p.2)) := by
  induction r <;> simp_all [DRow.touch, DRow.labelOf]

theorem touch_obsD (r : DRow) (a : Acc) : obsD r.touch a = obsD r a := by
  induction a generalizing r with
  | pos i => simp [obsD, touch_getPos]
  | name k => cases k <;> simp [obsD, DRow.get, touch_getPos, touch_getName]
  | iter => simp [obsD, touch_iter]
  | copy => simp [obsD, touch_iter]
  | len => simp [obsD, touch_len]
  | headers => simp [obsD, touch_headers]
  | keys => rfl
  | items => rfl
  | eq o => cases o <;> simp [obsD, DRow.eqList, touch_len, touch_iter]
  | label =>
    simp only [obsD, DRow.labelVal, touch_labelOf]
    cases r.labelOf with
    | none => rfl
    | some p => simp [touch_getPos]
  | tipe =>
    simp only [obsD, DRow.tipe, touch_labelOf]
    cases r.labelOf <;> rfl
  | feats s ih =>
    simp only [obsD, DRow.feats, touch_labelOf]
    cases r.labelOf with
    | none => rfl
    | some p => exact ih (.dropOne p.1 p.2.1)

/-- any history of accesses on one row object returns what the same accesses return on fresh rows -/
theorem runD_eq_map (r : DRow) (as : List Acc) : runD r as = as.map (obsD r) := by
  induction as generalizing r with
  | nil => rfl
  | cons a t ih =>
    simp only [runD, stepD, List.map_cons, ih]
    congr 1
    apply List.map_congr_left
    intro b _
    exact touch_obsD r b


/-! ## property-level statements (dense), referenced from Props/C13.lean -/

theorem dense_ref' (b : DBase) (stages : List Stage) (e0 e : EagerD) (r : DRow)
    (hb : eagerBaseD b = .ok e0) (he : eagerD stages e0 = .ok (some e))
    (hr : buildD stages (baseD b) = .ok (some r)) : RefD r e := by
  obtain ⟨r', hr', href, _⟩ := (dense_refines b stages e0 hb).1 e he
  rw [hr] at hr'; cases hr'; exact href

theorem dense_defined' (b : DBase) (stages : List Stage) (e0 e : EagerD)
    (hb : eagerBaseD b = .ok e0) (he : eagerD stages e0 = .ok (some e)) :
    ∃ r, buildD stages (baseD b) = .ok (some r) := by
  obtain ⟨r', hr', _, _⟩ := (dense_refines b stages e0 hb).1 e he
  exact ⟨r', hr'⟩

theorem dense_dropped' (b : DBase) (stages : List Stage) (e0 : EagerD)
    (hb : eagerBaseD b = .ok e0) (he : eagerD stages e0 = .ok none) :
    buildD stages (baseD b) = .ok none := (dense_refines b stages e0 hb).2 he

theorem feats_label_dense' (b : DBase) (stages : List Stage) (k : Key) (t : Option String) (e0 e : EagerD)
    (hb : eagerBaseD b = .ok e0) (he : eagerD (stages ++ [.label k t]) e0 = .ok (some e)) :
    ∃ r f ef v, buildD (stages ++ [.label k t]) (baseD b) = .ok (some r) ∧
      r.feats = .ok f ∧ e.feats = some ef ∧ RefD f ef ∧
      r.labelVal = .ok v ∧ e.labelVal = some v ∧ r.tipe = .ok t ∧ e.lab.map (·.2) = some t := by
  rw [eagerD_append] at he
  cases h1 : eagerD stages e0 with
  | error er => simp [h1] at he
  | ok o =>
    cases o with
    | none => simp [h1] at he
    | some e1 =>
      simp only [h1, eagerD] at he
      obtain ⟨r1, hr1, href, _⟩ := (dense_refines b stages e0 hb).1 e1 h1
      cases h2 : eagerStageD (.label k t) e1 with
      | error er => simp [h2] at he
      | ok o2 =>
        cases o2 with
        | none => simp [h2] at he
        | some e2 =>
          simp [h2] at he; subst he
          obtain ⟨r, f, ef, v, happ, _, hf, hef, hreff, hl, hel, ht, helab⟩ := labelD_last href k t e2 h2
          refine ⟨r, f, ef, v, ?_, hf, hef, hreff, hl, hel, ht, helab⟩
          rw [buildD_append, hr1]
          simp [buildD, happ]

/-- the forced hypothesis of `feats_label` is necessary: `EncodeRows` after `LabelRows` -/
def cexBase : DBase := .plain [.int 1, .int 2, .int 3]
def cexStages : List Stage := [.label (.pos 1) (some "c"), .encodeSeq [.inc, .inc, .inc]]

theorem feats_label_dense_cex' :
    ∃ r e, buildD cexStages (baseD cexBase) = .ok (some r) ∧
      (match eagerBaseD cexBase with | .ok e0 => eagerD cexStages e0 | .error er => .error er) = .ok (some e) ∧
      r.iter = .ok e.cells ∧
      r.labelVal = .ok (.int 2) ∧ e.labelVal = some (.int 3) := by
  refine ⟨_, _, rfl, rfl, rfl, rfl, rfl⟩

/-- a concrete pipeline used by the non-vacuity `example` in Props -/
def exBase : DBase := .lazy [.str "1", .str "2", .str "3"] true none none false
def exStages : List Stage :=
  [.headNames ["a", "b", "c"], .encodeSeq [.toInt, .toInt, .toInt], .drop [.name "b"] none, .label (.name "c") (some "r")]


/-! ## finite maps as association lists -/

section fm
variable {κ ν : Type} [DecidableEq κ]

theorem dget_append (a b : List (κ × ν)) (k : κ) :
    dget (a ++ b) k = match dget a k with | some v => some v | none => dget b k := by
  induction a with
  | nil => rfl
  | cons p t ih =>
    obtain ⟨x, y⟩ := p
    simp only [List.cons_append, dget]
    split <;> simp_all

theorem dget_isSome_iff_mem (d : List (κ × ν)) (k : κ) : (dget d k).isSome ↔ k ∈ d.map (·.1) := by
  induction d with
  | nil => simp [dget]
  | cons p t ih =>
    obtain ⟨x, y⟩ := p
    simp only [dget, List.map_cons, List.mem_cons]
    split
    · rename_i h; simp [h]
    · rename_i h
      rw [ih]
      constructor
      · intro hm; exact Or.inr hm
      · intro hm; rcases hm with hm | hm
        · exact absurd hm.symm h
        · exact hm

theorem dget_none_iff_not_mem (d : List (κ × ν)) (k : κ) : dget d k = none ↔ k ∉ d.map (·.1) := by
  rw [← dget_isSome_iff_mem]; cases dget d k <;> simp

theorem dget_some_mem {d : List (κ × ν)} {k : κ} {v : ν} (h : dget d k = some v) : (k, v) ∈ d := by
  induction d with
  | nil => simp [dget] at h
  | cons p t ih =>
    obtain ⟨x, y⟩ := p
    simp only [dget] at h
    split at h
    · rename_i hx; simp at h; subst hx; subst h; simp
    · exact List.mem_cons_of_mem _ (ih h)

theorem dget_of_mem_nodup {d : List (κ × ν)} {k : κ} {v : ν} (hn : (d.map (·.1)).Nodup) (h : (k, v) ∈ d) : dget d k = some v := by
  induction d with
  | nil => simp at h
  | cons p t ih =>
    obtain ⟨x, y⟩ := p
    simp only [List.map_cons, List.nodup_cons] at hn
    simp only [List.mem_cons, Prod.mk.injEq] at h
    simp only [dget]
    rcases h with ⟨rfl, rfl⟩ | h
    · simp
    · have : x ≠ k := by
        intro hx; subst hx
        exact hn.1 (List.mem_map.2 ⟨(x, v), h, rfl⟩)
      simp [this, ih hn.2 h]

theorem dget_filter_key (d : List (κ × ν)) (q : κ → Bool) (k : κ) :
    dget (d.filter (fun p => q p.1)) k = if q k then dget d k else none := by
  induction d with
  | nil => simp [dget]
  | cons p t ih =>
    obtain ⟨x, y⟩ := p
    simp only [List.filter_cons]
    by_cases hq : q x = true
    · simp only [hq, if_true, dget]
      by_cases hx : x = k
      · subst hx; simp [hq]
      · simp [hx, ih]
    · simp only [hq, dget]
      by_cases hx : x = k
      · subst hx; simp [hq, ih]
      · simp [hx, ih]

/-- `dict(pairs)` of pairs with distinct keys is the list itself -/
theorem foldl_dset_append (acc its : List (κ × ν))
    (h : (its.map (·.1)).Nodup) (hd : ∀ k ∈ its.map (·.1), k ∉ acc.map (·.1)) :
    its.foldl (fun d p => dset d p.1 p.2) acc = acc ++ its := by
  induction its generalizing acc with
  | nil => simp
  | cons p t ih =>
    obtain ⟨x, y⟩ := p
    simp only [List.map_cons, List.nodup_cons] at h
    have hx : x ∉ acc.map (·.1) := hd x (by simp)
    have hset : dset acc x y = acc ++ [(x, y)] := by
      clear ih hd
      induction acc with
      | nil => rfl
      | cons q u ihu =>
        obtain ⟨a, b⟩ := q
        simp only [List.map_cons, List.mem_cons, not_or] at hx
        have : a ≠ x := fun h' => hx.1 h'.symm
        simp [dset, this, ihu hx.2]
    simp only [List.foldl_cons, hset]
    rw [ih (acc ++ [(x, y)]) h.2]
    · simp
    · intro k hk
      simp only [List.map_append, List.map_cons, List.map_nil, List.mem_append, List.mem_singleton, not_or]
      refine ⟨hd k (by simp [hk]), ?_⟩
      intro hkx; subst hkx; exact h.1 hk

end fm

theorem toDict_of_nodup (its : Dict) (h : (its.map (·.1)).Nodup) : SRow.toDict its = its := by
  have := foldl_dset_append ([] : Dict) its h (by simp)
  simpa [SRow.toDict] using this

/-! ### dedup / kdiff / kunion -/

theorem mem_dedup {α} [DecidableEq α] (l : List α) (a : α) : a ∈ dedup l ↔ a ∈ l := by
  induction l with
  | nil => simp [dedup]
  | cons x t ih =>
    simp only [dedup]
    split
    · rename_i hx
      rw [ih]; constructor
      · exact fun h => List.mem_cons_of_mem _ h
      · intro h; rcases List.mem_cons.1 h with rfl | h
        · exact hx
        · exact h
    · simp [ih]

theorem nodup_dedup {α} [DecidableEq α] (l : List α) : (dedup l).Nodup := by
  induction l with
  | nil => simp [dedup]
  | cons x t ih =>
    simp only [dedup]
    split
    · exact ih
    · rename_i hx
      exact List.nodup_cons.2 ⟨by rwa [mem_dedup], ih⟩

theorem mem_kdiff (b a : List Key) (k : Key) : k ∈ kdiff b a ↔ k ∈ b ∧ k ∉ a := by
  simp [kdiff, mem_dedup, List.mem_filter]

theorem nodup_kdiff (b a : List Key) : (kdiff b a).Nodup := nodup_dedup _

theorem mem_kunion (a b : List Key) (k : Key) : k ∈ kunion a b ↔ k ∈ a ∨ k ∈ b := by
  simp only [kunion, List.mem_append, mem_kdiff]
  by_cases h : k ∈ a <;> simp [h]

theorem nodup_kunion (a b : List Key) (ha : a.Nodup) : (kunion a b).Nodup := by
  simp only [kunion]
  rw [List.nodup_append]
  refine ⟨ha, nodup_kdiff _ _, ?_⟩
  intro x hx y hy hxy
  subst hxy
  exact ((mem_kdiff _ _ _).1 hy).2 hx

/-- two duplicate-free lists with the same members have the same length -/
theorem length_eq_of_same_members {α} (l1 l2 : List α) (h1 : l1.Nodup) (h2 : l2.Nodup) (h : ∀ a, a ∈ l1 ↔ a ∈ l2) :
    l1.length = l2.length :=
  ((List.perm_ext_iff_of_nodup h1 h2).2 h).length_eq

theorem kdiff_congr (b a a' : List Key) (h : ∀ k, k ∈ a ↔ k ∈ a') : kdiff b a = kdiff b a' := by
  simp only [kdiff]
  congr 1
  apply List.filter_congr
  intro k _
  have := h k
  by_cases hk : k ∈ a
  · simp [hk, this.1 hk]
  · have hk' : k ∉ a' := fun h' => hk (this.2 h')
    simp [hk, hk']


end Coba.C13
