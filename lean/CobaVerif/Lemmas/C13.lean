import CobaVerif.Model.C13

/-!
C13 helper lemmas (core Lean only).  Part 1: lists, `sequence`, `compress`, `posOf`, header maps.
-/

namespace Coba.C13

theorem load_idempotent' {α} (c : Cell α) :
    c.touch.loadOrGet = (c.get, c.touch) := by
  cases c <;> rfl

theorem cell_get_touch {α} (c : Cell α) : c.touch.get = c.get := by
  cases c <;> rfl

/-! ### idx / sequence -/

theorem idx_ok_iff {α} (l : List α) (i : Nat) (x : α) : idx l i = .ok x ↔ l[i]? = some x := by
  unfold idx; cases h : l[i]? <;> simp

theorem idx_of_some {α} {l : List α} {i : Nat} {x : α} (h : l[i]? = some x) : idx l i = .ok x := by
  unfold idx; rw [h]

theorem idx_of_none {α} {l : List α} {i : Nat} (h : l[i]? = none) : idx l i = .error .indexError := by
  unfold idx; rw [h]

theorem sequence_map_ok {α} (xs : List α) : sequence (xs.map (Except.ok (ε := Err))) = .ok xs := by
  induction xs with
  | nil => rfl
  | cons x t ih => simp [sequence, ih]

theorem sequence_ok {α} {rs : List (Res α)} {xs : List α} (h : sequence rs = .ok xs) : rs = xs.map .ok := by
  induction rs generalizing xs with
  | nil => simp [sequence] at h; subst h; rfl
  | cons r t ih =>
    cases r with
    | error e => simp [sequence] at h
    | ok x =>
      simp only [sequence] at h
      cases ht : sequence t with
      | error e => rw [ht] at h; simp at h
      | ok ys =>
        rw [ht] at h
        simp at h
        subst h
        rw [ih ht]; rfl

theorem sequence_length {α} {rs : List (Res α)} {xs : List α} (h : sequence rs = .ok xs) : xs.length = rs.length := by
  rw [sequence_ok h]; simp

theorem mapMRes_ok {α β} {f : α → Res β} {l : List α} {ys : List β} (h : mapMRes f l = .ok ys) :
    l.map f = ys.map .ok := by
  induction l generalizing ys with
  | nil => simp [mapMRes] at h; subst h; rfl
  | cons a t ih =>
    simp only [mapMRes] at h
    cases ha : f a with
    | error e => rw [ha] at h; simp at h
    | ok b =>
      rw [ha] at h
      cases ht : mapMRes f t with
      | error e => rw [ht] at h; simp at h
      | ok bs =>
        rw [ht] at h; simp at h; subst h
        simp [ha, ih ht]

theorem mapMRes_of_map {α β} {f : α → Res β} {l : List α} {ys : List β} (h : l.map f = ys.map .ok) :
    mapMRes f l = .ok ys := by
  induction l generalizing ys with
  | nil => cases ys <;> simp_all [mapMRes]
  | cons a t ih =>
    cases ys with
    | nil => simp at h
    | cons y ys =>
      simp at h
      simp [mapMRes, h.1, ih h.2]

/-! ### compress -/

theorem compress_map_self {α} (l : List α) (p : α → Bool) : compress l (l.map p) = l.filter p := by
  induction l with
  | nil => rfl
  | cons x t ih => simp [compress, List.filter_cons, ih]

theorem compress_sublist {α} (l : List α) (bs : List Bool) : (compress l bs).Sublist l := by
  induction l generalizing bs with
  | nil => cases bs <;> simp [compress]
  | cons x t ih =>
    cases bs with
    | nil => simp [compress]
    | cons b bt =>
      simp only [compress]
      split
      · exact (ih bt).cons_cons x
      · exact (ih bt).cons x

theorem mem_filter_range' {s n i : Nat} {p : Nat → Bool} (h : i ∈ (List.range' s n).filter p) : s ≤ i ∧ i < s + n := by
  have := (List.mem_filter.1 h).1
  rw [List.mem_range'] at this
  obtain ⟨k, hk, rfl⟩ := this
  omega

/-- the kept cells are the cells at the kept indices -/
theorem compress_range'_map {α} (xs : List α) (s : Nat) (p : Nat → Bool) :
    compress xs ((List.range' s xs.length).map p) = ((List.range' s xs.length).filter p).filterMap (fun i => xs[i - s]?) := by
  induction xs generalizing s with
  | nil => simp [compress]
  | cons x t ih =>
    have hcongr : ∀ l : List Nat, (∀ i ∈ l, s + 1 ≤ i) →
        l.filterMap (fun i => (x :: t)[i - s]?) = l.filterMap (fun i => t[i - (s + 1)]?) := by
      intro l hl
      induction l with
      | nil => rfl
      | cons a l ihl =>
        have ha := hl a (by simp)
        have : a - s = (a - (s + 1)) + 1 := by omega
        simp only [List.filterMap_cons, this, List.getElem?_cons_succ]
        rw [ihl (fun i hi => hl i (by simp [hi]))]
    simp only [List.length_cons, List.range'_succ, List.map_cons, compress, List.filter_cons]
    have hrest : ∀ i ∈ (List.range' (s + 1) t.length).filter p, s + 1 ≤ i := fun i hi => (mem_filter_range' hi).1
    split
    · simp only [List.filterMap_cons, Nat.sub_self, List.getElem?_cons_zero]
      rw [ih (s + 1), hcongr _ hrest]
    · rw [ih (s + 1), hcongr _ hrest]

theorem compress_range_map {α} (xs : List α) (p : Nat → Bool) :
    compress xs ((List.range xs.length).map p) = ((List.range xs.length).filter p).filterMap (fun i => xs[i]?) := by
  have := compress_range'_map xs 0 p
  simpa [List.range_eq_range'] using this

/-- `filterMap` over indices that are all in range does not skip -/
theorem getElem?_filterMap_inrange {α} (xs : List α) (l : List Nat) (h : ∀ i ∈ l, i < xs.length) (k : Nat) :
    (l.filterMap (fun i => xs[i]?))[k]? = (l[k]?).bind (fun i => xs[i]?) := by
  induction l generalizing k with
  | nil => simp
  | cons a l ih =>
    have ha : a < xs.length := h a (by simp)
    have hl : ∀ i ∈ l, i < xs.length := fun i hi => h i (by simp [hi])
    have hs : xs[a]? = some xs[a] := by simp [ha]
    simp only [List.filterMap_cons, hs]
    cases k with
    | zero => simp [hs]
    | succ k => simp [ih hl k]

theorem length_filterMap_inrange {α} (xs : List α) (l : List Nat) (h : ∀ i ∈ l, i < xs.length) :
    (l.filterMap (fun i => xs[i]?)).length = l.length := by
  induction l with
  | nil => rfl
  | cons a l ih =>
    have ha : a < xs.length := h a (by simp)
    have hs : xs[a]? = some xs[a] := by simp [ha]
    simp [hs, ih (fun i hi => h i (by simp [hi]))]

/-! ### posOf / dget on header maps -/

theorem posOf_some_getElem? {α} [DecidableEq α] {l : List α} {a : α} {k : Nat} (h : posOf l a = some k) : l[k]? = some a := by
  induction l generalizing k with
  | nil => simp [posOf] at h
  | cons x t ih =>
    simp only [posOf] at h
    split at h
    · simp at h; subst h; simp_all
    · cases ht : posOf t a with
      | none => rw [ht] at h; simp at h
      | some j => rw [ht] at h; simp at h; subst h; simpa using ih ht

theorem posOf_lt {α} [DecidableEq α] {l : List α} {a : α} {k : Nat} (h : posOf l a = some k) : k < l.length := by
  have := posOf_some_getElem? h
  exact (List.getElem?_eq_some_iff.1 this).1

theorem posOf_of_nodup {α} [DecidableEq α] {l : List α} {a : α} {k : Nat} (hn : l.Nodup) (h : l[k]? = some a) : posOf l a = some k := by
  induction l generalizing k with
  | nil => simp at h
  | cons x t ih =>
    rw [List.nodup_cons] at hn
    cases k with
    | zero => simp at h; simp [posOf, h]
    | succ k =>
      simp at h
      have hmem : a ∈ t := List.mem_iff_getElem?.2 ⟨k, h⟩
      have : x ≠ a := fun hx => hn.1 (hx ▸ hmem)
      simp [posOf, this, ih hn.2 h]

theorem posOf_none_of_not_mem {α} [DecidableEq α] {l : List α} {a : α} (h : a ∉ l) : posOf l a = none := by
  induction l with
  | nil => rfl
  | cons x t ih =>
    simp at h
    have : x ≠ a := fun hx => h.1 hx.symm
    simp [posOf, this, ih h.2]

theorem posOf_append_of_not_mem {α} [DecidableEq α] {pre l : List α} {a : α} (h : a ∉ pre) :
    posOf (pre ++ l) a = (posOf l a).map (· + pre.length) := by
  induction pre with
  | nil => simp
  | cons x t ih =>
    simp at h
    have : x ≠ a := fun hx => h.1 hx.symm
    simp only [List.cons_append, posOf, this, if_false, ih h.2, List.length_cons]
    cases posOf l a <;> simp; omega

theorem dget_zipIdx (ns : List String) (k : Nat) (s : String) :
    dget (ns.zipIdx k) s = (posOf ns s).map (· + k) := by
  induction ns generalizing k with
  | nil => rfl
  | cons x t ih =>
    simp only [List.zipIdx_cons, dget, posOf]
    split
    · simp
    · rw [ih (k + 1)]; cases posOf t s <;> simp; omega

theorem dget_zipNames (ns : List String) (s : String) : dget (zipNames ns) s = posOf ns s := by
  simp [zipNames, dget_zipIdx]

/-! ## finite maps as association lists -/

section fm
variable {κ ν : Type} [DecidableEq κ]

theorem dget_append (a b : List (κ × ν)) (k : κ) :
    dget (a ++ b) k = match dget a k with | some v => some v | none => dget b k := by
  induction a with
  | nil => rfl
  | cons p t ih =>
    obtain ⟨x, y⟩ := p
    simp only [List.cons_append, dget]
    split <;> simp_all

theorem dget_isSome_iff_mem (d : List (κ × ν)) (k : κ) : (dget d k).isSome ↔ k ∈ d.map (·.1) := by
  induction d with
  | nil => simp [dget]
  | cons p t ih =>
    obtain ⟨x, y⟩ := p
    simp only [dget, List.map_cons, List.mem_cons]
    split
    · rename_i h; simp [h]
    · rename_i h
      rw [ih]
      constructor
      · intro hm; exact Or.inr hm
      · intro hm; rcases hm with hm | hm
        · exact absurd hm.symm h
        · exact hm

theorem dget_none_iff_not_mem (d : List (κ × ν)) (k : κ) : dget d k = none ↔ k ∉ d.map (·.1) := by
  rw [← dget_isSome_iff_mem]; cases dget d k <;> simp

theorem dget_some_mem {d : List (κ × ν)} {k : κ} {v : ν} (h : dget d k = some v) : (k, v) ∈ d := by
  induction d with
  | nil => simp [dget] at h
  | cons p t ih =>
    obtain ⟨x, y⟩ := p
    simp only [dget] at h
    split at h
    · rename_i hx; simp at h; subst hx; subst h; simp
    · exact List.mem_cons_of_mem _ (ih h)

theorem dget_of_mem_nodup {d : List (κ × ν)} {k : κ} {v : ν} (hn : (d.map (·.1)).Nodup) (h : (k, v) ∈ d) : dget d k = some v := by
  induction d with
  | nil => simp at h
  | cons p t ih =>
    obtain ⟨x, y⟩ := p
    simp only [List.map_cons, List.nodup_cons] at hn
    simp only [List.mem_cons, Prod.mk.injEq] at h
    simp only [dget]
    rcases h with ⟨rfl, rfl⟩ | h
    · simp
    · have : x ≠ k := by
        intro hx; subst hx
        exact hn.1 (List.mem_map.2 ⟨(x, v), h, rfl⟩)
      simp [this, ih hn.2 h]

theorem dget_filter_key (d : List (κ × ν)) (q : κ → Bool) (k : κ) :
    dget (d.filter (fun p => q p.1)) k = if q k then dget d k else none := by
  induction d with
  | nil => simp [dget]
  | cons p t ih =>
    obtain ⟨x, y⟩ := p
    simp only [List.filter_cons]
    by_cases hq : q x = true
    · simp only [hq, if_true, dget]
      by_cases hx : x = k
      · subst hx; simp [hq]
      · simp [hx, ih]
    · simp only [hq, dget]
      by_cases hx : x = k
      · subst hx; simp [hq, ih]
      · simp [hx, ih]

/-- `dict(pairs)` of pairs with distinct keys is the list itself -/
theorem foldl_dset_append (acc its : List (κ × ν))
    (h : (its.map (·.1)).Nodup) (hd : ∀ k ∈ its.map (·.1), k ∉ acc.map (·.1)) :
    its.foldl (fun d p => dset d p.1 p.2) acc = acc ++ its := by
  induction its generalizing acc with
  | nil => simp
  | cons p t ih =>
    obtain ⟨x, y⟩ := p
    simp only [List.map_cons, List.nodup_cons] at h
    have hx : x ∉ acc.map (·.1) := hd x (by simp)
    have hset : dset acc x y = acc ++ [(x, y)] := by
      clear ih hd
      induction acc with
      | nil => rfl
      | cons q u ihu =>
        obtain ⟨a, b⟩ := q
        simp only [List.map_cons, List.mem_cons, not_or] at hx
        have : a ≠ x := fun h' => hx.1 h'.symm
        simp [dset, this, ihu hx.2]
    simp only [List.foldl_cons, hset]
    rw [ih (acc ++ [(x, y)]) h.2]
    · simp
    · intro k hk
      simp only [List.map_append, List.map_cons, List.map_nil, List.mem_append, List.mem_singleton, not_or]
      refine ⟨hd k (by simp [hk]), ?_⟩
      intro hkx; subst hkx; exact h.1 hk

end fm

theorem toDict_of_nodup (its : Dict) (h : (its.map (·.1)).Nodup) : SRow.toDict its = its := by
  have := foldl_dset_append ([] : Dict) its h (by simp)
  simpa [SRow.toDict] using this

/-! ### dedup / kdiff / kunion -/

theorem mem_dedup {α} [DecidableEq α] (l : List α) (a : α) : a ∈ dedup l ↔ a ∈ l := by
  induction l with
  | nil => simp [dedup]
  | cons x t ih =>
    simp only [dedup]
    split
    · rename_i hx
      rw [ih]; constructor
      · exact fun h => List.mem_cons_of_mem _ h
      · intro h; rcases List.mem_cons.1 h with rfl | h
        · exact hx
        · exact h
    · simp [ih]

theorem nodup_dedup {α} [DecidableEq α] (l : List α) : (dedup l).Nodup := by
  induction l with
  | nil => simp [dedup]
  | cons x t ih =>
    simp only [dedup]
    split
    · exact ih
    · rename_i hx
      exact List.nodup_cons.2 ⟨by rwa [mem_dedup], ih⟩

theorem mem_kdiff (b a : List Key) (k : Key) : k ∈ kdiff b a ↔ k ∈ b ∧ k ∉ a := by
  simp [kdiff, mem_dedup, List.mem_filter]

theorem nodup_kdiff (b a : List Key) : (kdiff b a).Nodup := nodup_dedup _

theorem mem_kunion (a b : List Key) (k : Key) : k ∈ kunion a b ↔ k ∈ a ∨ k ∈ b := by
  simp only [kunion, List.mem_append, mem_kdiff]
  by_cases h : k ∈ a <;> simp [h]

theorem nodup_kunion (a b : List Key) (ha : a.Nodup) : (kunion a b).Nodup := by
  simp only [kunion]
  rw [List.nodup_append]
  refine ⟨ha, nodup_kdiff _ _, ?_⟩
  intro x hx y hy hxy
  subst hxy
  exact ((mem_kdiff _ _ _).1 hy).2 hx

/-- two duplicate-free lists with the same members have the same length -/
theorem length_eq_of_same_members {α} (l1 l2 : List α) (h1 : l1.Nodup) (h2 : l2.Nodup) (h : ∀ a, a ∈ l1 ↔ a ∈ l2) :
    l1.length = l2.length :=
  ((List.perm_ext_iff_of_nodup h1 h2).2 h).length_eq

theorem kdiff_congr (b a a' : List Key) (h : ∀ k, k ∈ a ↔ k ∈ a') : kdiff b a = kdiff b a' := by
  simp only [kdiff]
  congr 1
  apply List.filter_congr
  intro k _
  have := h k
  by_cases hk : k ∈ a
  · simp [hk, this.1 hk]
  · have hk' : k ∉ a' := fun h' => hk (this.2 h')
    simp [hk, hk']




/-! ### header maps (name → column, any order, possibly partial) -/

theorem hdrWF_iff (h : Hdr) (n : Nat) :
    hdrWF h n = true ↔ (h.map (·.1)).Nodup ∧ (h.map (·.2)).Nodup ∧ ∀ p ∈ h, p.2 < n := by
  simp [hdrWF, List.all_eq_true, and_assoc]

theorem dget_swap_nameOf (h : Hdr) (i : Nat) : dget (h.map (fun p => (p.2, p.1))) i = nameOf h i := by
  induction h with
  | nil => rfl
  | cons p t ih =>
    simp only [List.map_cons, dget, nameOf, List.find?_cons]
    by_cases hp : p.2 = i
    · simp [hp]
    · simp only [hp, if_false, decide_false]
      simpa [nameOf] using ih

/-- with distinct columns, the `{i:h}` dict EncodeRows / DropRows build names column `i` as the header map does -/
theorem posName_eq_nameOf (h : Hdr) (hn : (h.map (·.2)).Nodup) (i : Nat) : posName h i = nameOf h i := by
  have h1 : posNames h = h.map (fun p => (p.2, p.1)) := by
    have := foldl_dset_append ([] : List (Nat × String)) (h.map (fun p => (p.2, p.1)))
      (by simpa [Function.comp_def] using hn) (by simp)
    simp only [List.nil_append] at this
    rw [← this]
    simp only [posNames, List.foldl_map]
  simp only [posName, h1, dget_swap_nameOf]

theorem extHdr_names_sublist (idxs : List Nat) (h : Hdr) : ((extHdr idxs h).map (·.1)).Sublist (h.map (·.1)) := by
  induction h with
  | nil => simp [extHdr]
  | cons p t ih =>
    simp only [extHdr, List.filterMap_cons] at ih ⊢
    cases hp : posOf idxs p.2 with
    | none => simp only [Option.map_none]; exact ih.cons _
    | some j => simp only [Option.map_some, List.map_cons]; exact ih.cons_cons _

theorem mem_extHdr {idxs : List Nat} {h : Hdr} {q : String × Nat} (hq : q ∈ extHdr idxs h) :
    ∃ b, (q.1, b) ∈ h ∧ posOf idxs b = some q.2 := by
  simp only [extHdr, List.mem_filterMap] at hq
  obtain ⟨p, hp, hpe⟩ := hq
  cases hpo : posOf idxs p.2 with
  | none => simp [hpo] at hpe
  | some j => simp [hpo] at hpe; subst hpe; exact ⟨p.2, hp, hpo⟩

theorem dget_extHdr (idxs : List Nat) (h : Hdr) (hn : (h.map (·.1)).Nodup) (s : String) :
    dget (extHdr idxs h) s = (dget h s).bind (posOf idxs) := by
  induction h with
  | nil => rfl
  | cons p t ih =>
    obtain ⟨a, b⟩ := p
    simp only [List.map_cons, List.nodup_cons] at hn
    have ih' := ih hn.2
    simp only [extHdr, List.filterMap_cons] at ih' ⊢
    by_cases ha : a = s
    · subst ha
      simp only [dget, if_true, Option.bind]
      cases hp : posOf idxs b with
      | some j => simp [dget]
      | none =>
        simp only [Option.map_none]
        rw [dget_none_iff_not_mem]
        intro hm
        exact hn.1 ((extHdr_names_sublist idxs t).subset hm)
    · simp only [dget, ha, if_false]
      cases hp : posOf idxs b with
      | some j => simp only [Option.map_some, dget, ha, if_false]; exact ih'
      | none => simp only [Option.map_none]; exact ih'

theorem extHdr_wf (idxs : List Nat) (h : Hdr) (hn : (h.map (·.1)).Nodup) (hp : (h.map (·.2)).Nodup) :
    hdrWF (extHdr idxs h) idxs.length = true := by
  rw [hdrWF_iff]
  refine ⟨(extHdr_names_sublist idxs h).nodup hn, ?_, ?_⟩
  · induction h with
    | nil => simp [extHdr]
    | cons p t ih =>
      simp only [List.map_cons, List.nodup_cons] at hn hp
      have iht := ih hn.2 hp.2
      simp only [extHdr, List.filterMap_cons] at iht ⊢
      cases hpo : posOf idxs p.2 with
      | none => simpa using iht
      | some j =>
        simp only [Option.map_some, List.map_cons, List.nodup_cons]
        refine ⟨?_, iht⟩
        intro hm
        obtain ⟨q, hq, hqe⟩ := List.mem_map.1 hm
        obtain ⟨b, hb, hbo⟩ := mem_extHdr (idxs := idxs) (h := t) hq
        rw [hqe] at hbo
        have e1 := posOf_some_getElem? hpo
        have e2 := posOf_some_getElem? hbo
        rw [e1] at e2
        have : p.2 = b := Option.some.inj e2
        exact hp.1 (List.mem_map.2 ⟨(q.1, b), hb, this.symm⟩)
  · intro q hq
    obtain ⟨b, _, hbo⟩ := mem_extHdr hq
    exact posOf_lt hbo


/-! ## dense refinement -/

/-- well-formed eager dense row: the header map has distinct names and distinct, existing columns; the label column exists -/
structure WFD (e : EagerD) : Prop where
  hdr : ∀ h, e.hdr = some h → hdrWF h e.cells.length = true
  lab : ∀ i t, e.lab = some (i, t) → i < e.cells.length

/-- the lazy row `r` is indistinguishable from the eager row `e` (label part apart) -/
structure RefD (r : DRow) (e : EagerD) : Prop where
  iter : r.iter = .ok e.cells
  len : r.len = e.cells.length
  pos : ∀ i, r.getPos i = idx e.cells i
  hdr : r.headers.toOption = e.hdr
  name : ∀ s v, e.byName s = some v → r.getName s = .ok v
  miss : r.missing.toOption = e.miss

theorem toOption_eq_some {α} {x : Res α} {a : α} (h : x.toOption = some a) : x = .ok a := by
  cases x <;> simp [Except.toOption] at h; subst h; rfl

theorem toOption_eq_none {α} {x : Res α} (h : x.toOption = none) : ∃ e, x = .error e := by
  cases x with
  | error e => exact ⟨e, rfl⟩
  | ok a => simp [Except.toOption] at h

/-- a by-name lookup on the eager row, seen through the row's header map -/
theorem byName_via_hdr {e : EagerD} {hd : Res Hdr} (hh : hd.toOption = e.hdr) {s : String} {v : Val}
    (hb : e.byName s = some v) : ∃ h i, hd = .ok h ∧ dget h s = some i ∧ e.cells[i]? = some v := by
  unfold EagerD.byName EagerD.colOf at hb
  cases hn : e.hdr with
  | none => simp [hn] at hb
  | some h =>
    simp only [hn] at hb
    cases hp : dget h s with
    | none => simp [hp] at hb
    | some i =>
      simp only [hp] at hb
      rw [hn] at hh
      exact ⟨h, i, toOption_eq_some hh, hp, hb⟩

theorem colOf_via_hdr {e : EagerD} {hd : Res Hdr} (hh : hd.toOption = e.hdr) {s : String} {i : Nat}
    (hc : e.colOf s = some i) : ∃ h, hd = .ok h ∧ dget h s = some i := by
  unfold EagerD.colOf at hc
  cases hn : e.hdr with
  | none => simp [hn] at hc
  | some h =>
    simp only [hn] at hc
    rw [hn] at hh
    exact ⟨h, toOption_eq_some hh, hc⟩

theorem RefD.get {r : DRow} {e : EagerD} (h : RefD r e) (k : Key) (v : Val) (hk : e.get k = some v) : r.get k = .ok v := by
  cases k with
  | pos i => simp only [EagerD.get] at hk; simp only [DRow.get, h.pos i]; exact idx_of_some hk
  | name s => exact h.name s v hk

theorem refD_plain (v : List Val) (lab) : RefD (.plain v) ⟨v, none, lab, none⟩ where
  iter := rfl
  len := rfl
  pos := fun _ => rfl
  hdr := rfl
  name := by intro s v h; simp [EagerD.byName, EagerD.colOf] at h
  miss := rfl

theorem mkCell_get {α} (b : Bool) (v : α) : (mkCell b v).get = v := by
  cases b <;> rfl

theorem zipWith_getElem?_of_map_ok {α β} {f : α → β → Res β} {es : List α} {v cells : List β}
    (h : List.zipWith f es v = cells.map .ok) (i : Nat) (e : α) (x : β) (he : es[i]? = some e) (hx : v[i]? = some x) :
    ∃ c, cells[i]? = some c ∧ f e x = .ok c := by
  have := congrArg (fun l => l[i]?) h
  simp only [List.getElem?_zipWith, he, hx, List.getElem?_map] at this
  cases hc : cells[i]? with
  | none => rw [hc] at this; simp at this
  | some c => rw [hc] at this; simp at this; exact ⟨c, rfl, this⟩

/-- LazyDense with encoders -/
theorem refD_lazy_enc (c : Cell (List Val)) (es : List Enc) (v cells : List Val) (hd : Option Hdr) (m : Bool) (lab)
    (hc : c.get = v) (hl : es.length = v.length) (hs : sequence (List.zipWith lazyApply es v) = .ok cells) :
    RefD (.lazy c (some es) hd m) ⟨cells, hd, lab, some m⟩ := by
  have hz := sequence_ok hs
  have hlen : cells.length = v.length := by
    have := sequence_length hs; simp [List.length_zipWith, hl] at this; exact this
  have hpos : ∀ i, (DRow.lazy c (some es) hd m).getPos i = idx cells i := by
    intro i
    simp only [DRow.getPos, hc]
    by_cases hi : i < v.length
    · have hx : v[i]? = some v[i] := by simp [hi]
      have he : es[i]? = some es[i] := by simp [hl, hi]
      obtain ⟨cc, hcc, hf⟩ := zipWith_getElem?_of_map_ok hz i _ _ he hx
      rw [idx_of_some hx, idx_of_some hcc]
      cases es with
      | nil => simp at he
      | cons e0 et => simp only [he, hf]
    · have hx : v[i]? = none := by simp; omega
      have hcc : cells[i]? = none := by simp; omega
      rw [idx_of_none hx, idx_of_none hcc]
  refine ⟨?_, ?_, hpos, ?_, ?_, rfl⟩
  · simp only [DRow.iter, hc]
    cases es with
    | nil =>
      have : v = [] := by cases v <;> simp_all
      subst this; simp [sequence] at hs; subst hs; rfl
    | cons e0 et => exact hs
  · simp [DRow.len, hc, hlen]
  · cases hd <;> rfl
  · intro s x hb
    obtain ⟨h, i, hh, hdg, hci⟩ := byName_via_hdr (e := ⟨cells, hd, lab, some m⟩) (hd := (DRow.lazy c (some es) hd m).headers) (by cases hd <;> rfl) hb
    cases hd with
    | none => simp [DRow.headers] at hh
    | some nn =>
      simp only [DRow.headers] at hh
      cases hh
      simp only [DRow.getName, hdg]
      rw [hpos i, idx_of_some hci]

/-- LazyDense without encoders -/
theorem refD_lazy_plain (c : Cell (List Val)) (enc : Option (List Enc)) (v : List Val) (hd : Option Hdr) (m : Bool) (lab)
    (hc : c.get = v) (he : enc = none ∨ enc = some []) :
    RefD (.lazy c enc hd m) ⟨v, hd, lab, some m⟩ := by
  have hpos : ∀ i, (DRow.lazy c enc hd m).getPos i = idx v i := by
    intro i
    rcases he with rfl | rfl <;> simp only [DRow.getPos, hc] <;> cases idx v i <;> rfl
  refine ⟨?_, ?_, hpos, ?_, ?_, rfl⟩
  · rcases he with rfl | rfl <;> simp [DRow.iter, hc]
  · simp [DRow.len, hc]
  · cases hd <;> rfl
  · intro s x hb
    obtain ⟨h, i, hh, hdg, hci⟩ := byName_via_hdr (e := ⟨v, hd, lab, some m⟩) (hd := (DRow.lazy c enc hd m).headers) (by cases hd <;> rfl) hb
    cases hd with
    | none => simp [DRow.headers] at hh
    | some nn =>
      simp only [DRow.headers] at hh
      cases hh
      simp only [DRow.getName, hdg]
      rw [hpos i, idx_of_some hci]


theorem refD_head {r : DRow} {e : EagerD} (h : RefD r e) (hd : Hdr) :
    RefD (.head r hd) { e with hdr := some hd } where
  iter := h.iter
  len := h.len
  pos := h.pos
  hdr := rfl
  name := by
    intro s v hb
    simp only [EagerD.byName, EagerD.colOf] at hb
    cases hp : dget hd s with
    | none => simp [hp] at hb
    | some i =>
      simp only [hp] at hb
      simp only [DRow.getName, hp, h.pos i]
      exact idx_of_some hb
  miss := h.miss

theorem refD_label {r : DRow} {e : EagerD} (h : RefD r e) (i : Nat) (t : Option String) (lab) :
    RefD (.label r i t) { e with lab := lab } where
  iter := h.iter
  len := h.len
  pos := h.pos
  hdr := h.hdr
  name := h.name
  miss := h.miss

theorem zipWith_range'_map {α β γ} (f : α → β → γ) (g : Nat → α) (xs : List β) (k : Nat) :
    List.zipWith f ((List.range' k xs.length).map g) xs = (xs.zipIdx k).map (fun p => f (g p.2) p.1) := by
  induction xs generalizing k with
  | nil => rfl
  | cons x t ih => simp [List.range'_succ, List.zipIdx_cons, ih (k + 1)]

theorem refD_encode {r : DRow} {e : EagerD} (h : RefD r e) (es : List Enc) (cells : List Val)
    (hl : es.length = e.cells.length) (hs : sequence (List.zipWith Enc.apply es e.cells) = .ok cells) :
    RefD (.encode r es) { e with cells := cells } := by
  have hz := sequence_ok hs
  have hlen : cells.length = e.cells.length := by
    have := sequence_length hs; simp [List.length_zipWith, hl] at this; exact this
  have hpos : ∀ i, (DRow.encode r es).getPos i = idx cells i := by
    intro i
    simp only [DRow.getPos, h.pos i]
    by_cases hi : i < e.cells.length
    · have hx : e.cells[i]? = some e.cells[i] := by simp [hi]
      have he : es[i]? = some es[i] := by simp [hl, hi]
      obtain ⟨cc, hcc, hf⟩ := zipWith_getElem?_of_map_ok hz i _ _ he hx
      rw [idx_of_some he, idx_of_some hx, idx_of_some hcc]; exact hf
    · have he : es[i]? = none := by simp; omega
      have hcc : cells[i]? = none := by simp; omega
      rw [idx_of_none he, idx_of_none hcc]
  refine ⟨?_, ?_, hpos, h.hdr, ?_, h.miss⟩
  · simp only [DRow.iter, h.iter]; exact hs
  · simp [DRow.len, hl, hlen]
  · intro s x hb
    obtain ⟨hd, i, hh, hdg, hci⟩ := byName_via_hdr (e := { e with cells := cells }) (hd := r.headers) h.hdr hb
    simp only [DRow.getName, hh, hdg]
    rw [hpos i]; exact idx_of_some hci

theorem refD_dropOne {r : DRow} {e : EagerD} (h : RefD r e) (ind : Nat) (hi : ind < e.cells.length) :
    RefD (.dropOne r ind) ⟨e.cells.eraseIdx ind, e.hdr.map (DRow.shiftHdr ind), none, e.miss⟩ := by
  have hpos : ∀ i, (DRow.dropOne r ind).getPos i = idx (e.cells.eraseIdx ind) i := by
    intro i
    simp only [DRow.getPos, h.pos, idx, List.getElem?_eraseIdx]
    by_cases hlt : i < ind
    · have : ¬ i ≥ ind := by omega
      simp [hlt, this]
    · have : i ≥ ind := by omega
      simp [hlt, this]
  have hhdr : (DRow.dropOne r ind).headers.toOption = e.hdr.map (DRow.shiftHdr ind) := by
    have := h.hdr
    simp only [DRow.headers]
    cases hn : e.hdr with
    | none =>
      rw [hn] at this
      obtain ⟨er, her⟩ := toOption_eq_none this
      simp [her, Except.toOption]
    | some hd =>
      rw [hn] at this
      rw [toOption_eq_some this]
      simp [Except.toOption]
  refine ⟨?_, ?_, hpos, hhdr, ?_, h.miss⟩
  · simp only [DRow.iter, h.iter, List.eraseIdx_eq_take_drop_succ]
  · simp [DRow.len, h.len, List.length_eraseIdx, hi]
  · intro s x hb
    obtain ⟨hd, i, hh, hdg, hci⟩ := byName_via_hdr
      (e := ⟨e.cells.eraseIdx ind, e.hdr.map (DRow.shiftHdr ind), none, e.miss⟩) (hd := (DRow.dropOne r ind).headers) hhdr hb
    simp only [DRow.getName, hh, hdg]
    rw [hpos i]; exact idx_of_some hci


theorem keptIdx_lt {e : EagerD} {cols : List Key} {i : Nat} (h : i ∈ keptIdx e cols) : i < e.cells.length := by
  unfold keptIdx at h
  have := (List.mem_filter.1 h).1
  simpa using this

/-- what `make_drop_row_args` computes for a row that refines `e` (any header map) -/
theorem makeDropArgs_eq {r : DRow} {e : EagerD} (h : RefD r e) (hw : WFD e) (cols : List Key) :
    ∃ names sel hdr,
      dropArgsOf r cols = (keptIdx e cols, names, sel, (keptIdx e cols).length, hdr) ∧
      sel = (List.range e.cells.length).map (fun i => keepCol cols i (e.nameAt i)) ∧
      (match e.hdr with | some hd => names = hd | none => True) ∧
      (DRow.keep r (keptIdx e cols) names sel (keptIdx e cols).length hdr).headers.toOption
        = e.hdr.map (extHdr (keptIdx e cols)) := by
  have hh := h.hdr
  have hidx : compress (List.range e.cells.length) ((List.range e.cells.length).map (fun i => keepCol cols i (e.nameAt i)))
      = keptIdx e cols := by rw [compress_map_self]; rfl
  cases hn : e.hdr with
  | none =>
    rw [hn] at hh
    obtain ⟨er, her⟩ := toOption_eq_none hh
    have hna : ∀ i, e.nameAt i = none := by intro i; simp [EagerD.nameAt, hn]
    refine ⟨[], _, none, ?_, rfl, trivial, ?_⟩
    · simp only [dropArgsOf, her, makeDropArgs, h.len, compress_map_self, keptIdx, hna]
    · simp [DRow.headers, her, Except.toOption]
  | some hd =>
    rw [hn] at hh
    have hok := toOption_eq_some hh
    obtain ⟨_, hpn, _⟩ := (hdrWF_iff hd _).1 (hw.hdr hd hn)
    have hsel : (List.range e.cells.length).map (fun i => keepCol cols i (posName hd i))
        = (List.range e.cells.length).map (fun i => keepCol cols i (e.nameAt i)) := by
      apply List.map_congr_left
      intro i _
      simp [EagerD.nameAt, hn, posName_eq_nameOf hd hpn i]
    refine ⟨hd, _, if hd.isEmpty then none else some (extHdr (keptIdx e cols) hd), ?_, rfl, rfl, ?_⟩
    · simp only [dropArgsOf, hok, makeDropArgs, h.len, hsel, hidx, extHdr]
    · by_cases hem : hd.isEmpty = true
      · simp only [hem, if_true, DRow.headers, hok, Except.toOption, Option.map]
        have : hd = [] := by cases hd <;> simp_all
        subst this; simp [extHdr]
      · simp [hem, DRow.headers, Except.toOption]

theorem refD_keep {r : DRow} {e : EagerD} (h : RefD r e) (hw : WFD e) (cols : List Key) (names : Hdr) (sel : List Bool)
    (hdr : Option Hdr) (lab)
    (hsel : sel = (List.range e.cells.length).map (fun i => keepCol cols i (e.nameAt i)))
    (hnames : match e.hdr with | some hd => names = hd | none => True)
    (hhdr : (DRow.keep r (keptIdx e cols) names sel (keptIdx e cols).length hdr).headers.toOption
        = e.hdr.map (extHdr (keptIdx e cols))) :
    RefD (.keep r (keptIdx e cols) names sel (keptIdx e cols).length hdr)
      ⟨(keptIdx e cols).filterMap (fun i => e.cells[i]?), e.hdr.map (extHdr (keptIdx e cols)), lab, e.miss⟩ := by
  have hin : ∀ i ∈ keptIdx e cols, i < e.cells.length := fun i hi => keptIdx_lt hi
  have hget := getElem?_filterMap_inrange e.cells (keptIdx e cols) hin
  have hpos : ∀ i, (DRow.keep r (keptIdx e cols) names sel (keptIdx e cols).length hdr).getPos i
      = idx ((keptIdx e cols).filterMap (fun i => e.cells[i]?)) i := by
    intro i
    simp only [DRow.getPos, idx, hget i]
    cases hk : (keptIdx e cols)[i]? with
    | none => simp
    | some j => simp [h.pos j, idx]
  refine ⟨?_, ?_, hpos, hhdr, ?_, h.miss⟩
  · simp only [DRow.iter, h.iter, hsel]
    rw [compress_range_map]; rfl
  · simp [DRow.len, length_filterMap_inrange e.cells _ hin]
  · intro s v hb
    simp only [EagerD.byName, EagerD.colOf] at hb
    cases hn : e.hdr with
    | none => simp [hn] at hb
    | some hd =>
      rw [hn] at hnames
      simp only [hn, Option.map] at hb
      obtain ⟨hnn, _, _⟩ := (hdrWF_iff hd _).1 (hw.hdr hd hn)
      rw [dget_extHdr _ hd hnn s] at hb
      cases hj : dget hd s with
      | none => simp [hj] at hb
      | some j =>
        simp only [hj, Option.bind] at hb
        cases hk : posOf (keptIdx e cols) j with
        | none => simp [hk] at hb
        | some k =>
          simp only [hk] at hb
          rw [hget k, posOf_some_getElem? hk] at hb
          simp only [Option.bind] at hb
          simp only [DRow.getName, hnames, hj, h.pos j]
          exact idx_of_some hb

theorem wfD_keep {e : EagerD} (hw : WFD e) (cols : List Key) (lab : Option (Nat × Option String))
    (hlab : ∀ i t, lab = some (i, t) → i < (keptIdx e cols).length) :
    WFD ⟨(keptIdx e cols).filterMap (fun i => e.cells[i]?), e.hdr.map (extHdr (keptIdx e cols)), lab, e.miss⟩ := by
  have hin : ∀ i ∈ keptIdx e cols, i < e.cells.length := fun i hi => keptIdx_lt hi
  constructor
  · intro h' hh'
    cases hn : e.hdr with
    | none => simp [hn] at hh'
    | some hd =>
      simp only [hn, Option.map, Option.some.injEq] at hh'
      subst hh'
      obtain ⟨hnn, hpn, _⟩ := (hdrWF_iff hd _).1 (hw.hdr hd hn)
      simp only [length_filterMap_inrange e.cells _ hin]
      exact extHdr_wf _ hd hnn hpn
  · intro i t hl
    simp only [length_filterMap_inrange e.cells _ hin]
    exact hlab i t hl


theorem evalPredD_of_eager {r : DRow} {e : EagerD} (h : RefD r e) (pred : Option Pred) (b : Bool)
    (hp : evalPredE pred e.miss e.get = .ok b) : evalPredD pred r = .ok b := by
  cases pred with
  | none => simpa [evalPredE, evalPredD] using hp
  | some p =>
    cases p with
    | missing =>
      simp only [evalPredE] at hp
      cases hm : e.miss with
      | none => simp [hm] at hp
      | some m =>
        simp only [hm] at hp
        have := h.miss; rw [hm] at this
        simp only [evalPredD, toOption_eq_some this]; exact hp
    | cellEq k v =>
      simp only [evalPredE] at hp
      cases hg : e.get k with
      | none => simp [hg] at hp
      | some x =>
        simp only [hg] at hp
        simp only [evalPredD, h.get k x hg]; exact hp

/-- one stage: if the eager stage is defined, the lazy stage builds a row that refines its result -/
theorem stageD_refines (st : Stage) {r : DRow} {e : EagerD} (h : RefD r e) (hw : WFD e) :
    (∀ e', eagerStageD st e = .ok (some e') → ∃ r', applyD st r = .ok (some r') ∧ RefD r' e' ∧ WFD e') ∧
    (eagerStageD st e = .ok none → applyD st r = .ok none) := by
  cases st with
  | headNames ns =>
    simp only [eagerStageD, applyD]
    refine ⟨?_, by split <;> simp⟩
    intro e' he
    split at he
    · rename_i hok
      simp at he; subst he
      exact ⟨_, rfl, refD_head h (zipNames ns), ⟨by intro h' hh'; simp at hh'; subst hh'; exact hok, hw.lab⟩⟩
    · simp at he
  | headMap m =>
    simp only [eagerStageD, applyD]
    refine ⟨?_, by split <;> simp⟩
    intro e' he
    split at he
    · rename_i hok
      simp at he; subst he
      exact ⟨_, rfl, refD_head h (m.filterMap hdrEntry), ⟨by intro h' hh'; simp at hh'; subst hh'; exact hok.2, hw.lab⟩⟩
    · simp at he
  | encodeSeq es =>
    simp only [eagerStageD, applyD]
    refine ⟨?_, by split <;> (try split) <;> simp⟩
    intro e' he
    split at he
    · rename_i hl
      cases hs : sequence (List.zipWith Enc.apply es e.cells) with
      | error er => simp [hs] at he
      | ok cells =>
        simp [hs] at he; subst he
        have hlen : cells.length = e.cells.length := by
          have := sequence_length hs; simp [List.length_zipWith, hl] at this; exact this
        exact ⟨_, rfl, refD_encode h es cells hl hs, ⟨fun hd hn => by simpa [hlen] using hw.hdr hd hn, fun i t hl' => by simpa [hlen] using hw.lab i t hl'⟩⟩
    · simp at he
  | encodeMap m =>
    simp only [eagerStageD, applyD]
    refine ⟨?_, by split <;> simp⟩
    intro e' he
    have hencs : encsOf m r = (List.range e.cells.length).map (fun i => encFor m (e.nameAt i) i) := by
      have hh := h.hdr
      unfold encsOf
      cases hn : e.hdr with
      | none =>
        rw [hn] at hh
        obtain ⟨er, her⟩ := toOption_eq_none hh
        simp only [her, h.len]
        apply List.map_congr_left; intro i _; simp [EagerD.nameAt, hn]
      | some hd =>
        rw [hn] at hh
        obtain ⟨_, hpn, _⟩ := (hdrWF_iff hd _).1 (hw.hdr hd hn)
        simp only [toOption_eq_some hh, h.len]
        apply List.map_congr_left; intro i _; simp [EagerD.nameAt, hn, posName_eq_nameOf hd hpn i]
    have hzip : List.zipWith Enc.apply ((List.range e.cells.length).map (fun i => encFor m (e.nameAt i) i)) e.cells
        = e.cells.zipIdx.map (fun p => (encFor m (e.nameAt p.2) p.2).apply p.1) := by
      have := zipWith_range'_map Enc.apply (fun i => encFor m (e.nameAt i) i) e.cells 0
      simpa [List.range_eq_range'] using this
    cases hs : sequence (e.cells.zipIdx.map (fun p => (encFor m (e.nameAt p.2) p.2).apply p.1)) with
    | error er => simp [hs] at he
    | ok cells =>
      simp [hs] at he; subst he
      rw [← hzip] at hs
      have hl : ((List.range e.cells.length).map (fun i => encFor m (e.nameAt i) i)).length = e.cells.length := by simp
      have hlen : cells.length = e.cells.length := by
        have := sequence_length hs; simp [List.length_zipWith] at this; exact this
      refine ⟨_, by rw [hencs], refD_encode h _ cells hl hs, ⟨fun hd hn => by simpa [hlen] using hw.hdr hd hn, fun i t hl' => by simpa [hlen] using hw.lab i t hl'⟩⟩
  | drop cols pred =>
    simp only [eagerStageD, applyD]
    cases hp : evalPredE pred e.miss e.get with
    | error er => simp
    | ok b =>
      rw [evalPredD_of_eager h pred b hp]
      cases b with
      | false => simp
      | true =>
        simp only
        by_cases hc : cols.isEmpty = true
        · simp only [hc, if_true]
          refine ⟨?_, by simp⟩
          intro e' he; simp at he; subst he; exact ⟨r, rfl, h, hw⟩
        · have hc' : cols.isEmpty = false := by simpa using hc
          simp only [hc', Bool.false_eq_true, if_false]
          refine ⟨?_, by intro he; split at he <;> simp at he⟩
          intro e' he
          obtain ⟨names, sel, hdr, hargs, hsel, hnames, hhdr⟩ := makeDropArgs_eq h hw cols
          split at he
          · simp at he
          · rename_i lab hlab
            simp at he; subst he
            refine ⟨_, by simp only [hargs], refD_keep h hw cols names sel hdr lab hsel hnames hhdr, wfD_keep hw cols lab ?_⟩
            intro i t hl
            subst hl
            cases hel : e.lab with
            | none => simp [hel] at hlab
            | some it =>
              obtain ⟨i0, t0⟩ := it
              simp only [hel] at hlab
              cases hpo : posOf (keptIdx e cols) i0 with
              | none => simp [hpo] at hlab
              | some j =>
                simp [hpo] at hlab
                rw [← hlab.1]; exact posOf_lt hpo
  | label k t =>
    simp only [eagerStageD, applyD]
    refine ⟨?_, by split <;> (try split) <;> simp⟩
    intro e' he
    cases k with
    | pos i =>
      simp only at he
      split at he
      · rename_i hi
        simp at he; subst he
        exact ⟨_, rfl, refD_label h i t _, ⟨hw.hdr, by intro i' t' hl; simp at hl; obtain ⟨rfl, _⟩ := hl; exact hi⟩⟩
      · simp at he
    | name s =>
      simp only at he
      cases hc : e.colOf s with
      | none => simp [hc] at he
      | some i =>
        simp only [hc] at he
        split at he
        · rename_i hi
          simp at he; subst he
          obtain ⟨hd, hh, hdg⟩ := colOf_via_hdr h.hdr hc
          simp only [hh, hdg]
          exact ⟨_, rfl, refD_label h i t _, ⟨hw.hdr, by intro i' t' hl; simp at hl; obtain ⟨rfl, _⟩ := hl; exact hi⟩⟩
        · simp at he
  | enccat t =>
    cases t with
    | none =>
      simp only [eagerStageD, applyD]
      exact ⟨by intro e' he; simp at he; subst he; exact ⟨r, rfl, h, hw⟩, by simp⟩
    | some m =>
      simp only [eagerStageD, applyD, h.iter]
      refine ⟨?_, by split <;> simp⟩
      intro e' he
      split at he
      · rename_i hcat
        simp at he; subst he
        exact ⟨_, by simp [hcat], refD_plain _ _, ⟨by simp, by simp⟩⟩
      · rename_i hcat
        simp at he; subst he
        exact ⟨r, by simp [hcat], h, hw⟩

theorem buildD_refines (stages : List Stage) {r : DRow} {e : EagerD} (h : RefD r e) (hw : WFD e) :
    (∀ e', eagerD stages e = .ok (some e') → ∃ r', buildD stages r = .ok (some r') ∧ RefD r' e' ∧ WFD e') ∧
    (eagerD stages e = .ok none → buildD stages r = .ok none) := by
  induction stages generalizing r e with
  | nil =>
    simp only [eagerD, buildD]
    exact ⟨by intro e' he; simp at he; subst he; exact ⟨r, rfl, h, hw⟩, by simp⟩
  | cons st rest ih =>
    obtain ⟨h1, h2⟩ := stageD_refines st h hw
    simp only [eagerD, buildD]
    cases hs : eagerStageD st e with
    | error er => simp
    | ok o =>
      cases o with
      | none => rw [h2 hs]; simp
      | some e1 =>
        obtain ⟨r1, hr1, href, hwf⟩ := h1 e1 hs
        rw [hr1]
        exact ih href hwf


theorem hdrOK_wf {hdr : Option (List String)} {n : Nat} (h : hdrOK hdr n = true) :
    ∀ hd, hdr.map zipNames = some hd → hdrWF hd n = true := by
  intro hd hh
  cases hdr with
  | none => simp at hh
  | some ns => simp at hh; subst hh; simpa [hdrOK] using h

/-- the base rows: LazyDense (with or without loader / encoders / headers), ArffReader's rows, plain lists -/
theorem baseD_refines (b : DBase) (e : EagerD) (hb : eagerBaseD b = .ok e) : RefD (baseD b) e ∧ WFD e := by
  cases b with
  | plain v =>
    simp [eagerBaseD] at hb; subst hb
    exact ⟨refD_plain v none, ⟨by simp, by simp⟩⟩
  | lazy v loader enc hdr miss =>
    simp only [eagerBaseD] at hb
    split at hb
    · rename_i hok
      have hwf := hdrOK_wf hok
      split at hb
      · simp at hb; subst hb
        exact ⟨refD_lazy_plain _ none v (hdr.map zipNames) miss none (mkCell_get _ _) (Or.inl rfl), ⟨hwf, by simp⟩⟩
      · simp at hb; subst hb
        exact ⟨refD_lazy_plain _ (some []) v (hdr.map zipNames) miss none (mkCell_get _ _) (Or.inr rfl), ⟨hwf, by simp⟩⟩
      · rename_i es _
        split at hb
        · rename_i hl
          cases hs : sequence (List.zipWith lazyApply es v) with
          | error er => simp [hs] at hb
          | ok cells =>
            simp [hs] at hb; subst hb
            have hlen : cells.length = v.length := by
              have := sequence_length hs; simp [List.length_zipWith, hl] at this; exact this
            exact ⟨refD_lazy_enc _ es v cells (hdr.map zipNames) miss none (mkCell_get _ _) hl hs,
              ⟨fun hd hn => by simpa [hlen] using hwf hd hn, by simp⟩⟩
        · simp at hb
    · simp at hb
  | arff cols raw miss =>
    simp only [eagerBaseD] at hb
    split at hb
    · rename_i hok
      cases hs : sequence (List.zipWith lazyApply (cols.map (Col.enc false)) raw) with
      | error er => simp [hs] at hb
      | ok cells =>
        simp [hs] at hb; subst hb
        have hl : (cols.map (Col.enc false)).length = raw.length := by simp [hok.1]
        have hlen : cells.length = raw.length := by
          have := sequence_length hs; simp [List.length_zipWith, hok.1] at this; exact this
        have := refD_lazy_enc (.pending raw) (cols.map (Col.enc false)) raw cells (some (zipNames (cols.map (·.name)))) miss none rfl hl hs
        exact ⟨this, ⟨by intro hd hn; simp at hn; subst hn; simpa [hlen] using hok.2, by simp⟩⟩
    · simp at hb

theorem dense_refines (b : DBase) (stages : List Stage) (e0 : EagerD) (hb : eagerBaseD b = .ok e0) :
    (∀ e, eagerD stages e0 = .ok (some e) → ∃ r, buildD stages (baseD b) = .ok (some r) ∧ RefD r e ∧ WFD e) ∧
    (eagerD stages e0 = .ok none → buildD stages (baseD b) = .ok none) := by
  obtain ⟨h, hw⟩ := baseD_refines b e0 hb
  exact buildD_refines stages h hw

theorem eqList_of_ref {r : DRow} {e : EagerD} (h : RefD r e) (o : List Val) :
    r.eqList o = (e.cells.length == o.length && (List.zipWith pyEq e.cells o).all id) := by
  simp only [DRow.eqList, h.len, h.iter]
  by_cases hl : e.cells.length = o.length <;> simp [hl]

/-- every access for which the eager row defines a result (a value, or "must raise" for a position
beyond the end / a missing header map) gives that result on the lazy row -/
theorem obsD_of_ref {r : DRow} {e : EagerD} (h : RefD r e) (a : Acc)
    (hna : match a with | .label => False | .tipe => False | .feats _ => False | .clone _ => False | _ => True)
    (hdef : eagerObsD e a ≠ .undef) : obsD r a = eagerObsD e a := by
  cases a with
  | pos i =>
    simp only [obsD, eagerObsD, h.pos i, idx]
    cases e.cells[i]? <;> rfl
  | name k =>
    simp only [eagerObsD] at hdef
    simp only [obsD, eagerObsD]
    cases hg : e.get k with
    | none => simp [hg] at hdef
    | some v => simp [h.get k v hg, ofRes]
  | iter => simp [obsD, eagerObsD, h.iter, ofRes]
  | copy => simp [obsD, eagerObsD, h.iter, ofRes]
  | len => simp [obsD, eagerObsD, h.len]
  | headers =>
    simp only [obsD, eagerObsD]
    have := h.hdr
    cases hn : e.hdr with
    | none => rw [hn] at this; obtain ⟨er, her⟩ := toOption_eq_none this; simp [her, ofRes]
    | some hd => rw [hn] at this; simp [toOption_eq_some this, ofRes]
  | eq o =>
    cases o with
    | list l => simp [obsD, eagerObsD, eqList_of_ref h]
    | dict d => simp [eagerObsD] at hdef
  | keys => simp [eagerObsD] at hdef
  | items => simp [eagerObsD] at hdef
  | label => exact absurd hna id
  | tipe => exact absurd hna id
  | feats s => exact absurd hna id
  | clone s => exact absurd hna id


theorem eagerD_append (s1 s2 : List Stage) (e : EagerD) :
    eagerD (s1 ++ s2) e = (match eagerD s1 e with
      | .ok (some e1) => eagerD s2 e1
      | .ok none => .ok none
      | .error er => .error er) := by
  induction s1 generalizing e with
  | nil => simp [eagerD]
  | cons st rest ih =>
    simp only [List.cons_append, eagerD]
    cases eagerStageD st e with
    | error er => rfl
    | ok o => cases o with
      | none => rfl
      | some e1 => exact ih e1

theorem buildD_append (s1 s2 : List Stage) (r : DRow) :
    buildD (s1 ++ s2) r = (match buildD s1 r with
      | .ok (some r1) => buildD s2 r1
      | .ok none => .ok none
      | .error er => .error er) := by
  induction s1 generalizing r with
  | nil => simp [buildD]
  | cons st rest ih =>
    simp only [List.cons_append, buildD]
    cases applyD st r with
    | error er => rfl
    | ok o => cases o with
      | none => rfl
      | some r1 => exact ih r1

/-- LabelRows as the last stage: feats / label / tipe of the lazy row are those of the eager row -/
theorem labelD_last {r0 : DRow} {e0 : EagerD} (h : RefD r0 e0) (k : Key) (t : Option String) (e : EagerD)
    (he : eagerStageD (.label k t) e0 = .ok (some e)) :
    ∃ r f ef v, applyD (.label k t) r0 = .ok (some r) ∧ RefD r e ∧
      r.feats = .ok f ∧ e.feats = some ef ∧ RefD f ef ∧
      r.labelVal = .ok v ∧ e.labelVal = some v ∧ r.tipe = .ok t ∧ e.lab.map (·.2) = some t := by
  have key : ∀ i, i < e0.cells.length → e = { e0 with lab := some (i, t) } →
      applyD (.label k t) r0 = .ok (some (.label r0 i t)) →
      ∃ r f ef v, applyD (.label k t) r0 = .ok (some r) ∧ RefD r e ∧
        r.feats = .ok f ∧ e.feats = some ef ∧ RefD f ef ∧
        r.labelVal = .ok v ∧ e.labelVal = some v ∧ r.tipe = .ok t ∧ e.lab.map (·.2) = some t := by
    intro i hi hee happ
    subst hee
    have hv : e0.cells[i]? = some e0.cells[i] := by simp [hi]
    refine ⟨_, _, _, e0.cells[i], happ, refD_label h i t _, rfl, rfl, refD_dropOne h i hi, ?_, ?_, rfl, rfl⟩
    · simp only [DRow.labelVal, DRow.labelOf, h.pos i]; exact idx_of_some hv
    · simp [EagerD.labelVal, hv]
  simp only [eagerStageD] at he
  cases k with
  | pos i =>
    simp only at he
    split at he
    · rename_i hi
      simp at he
      exact key i hi he.symm rfl
    · simp at he
  | name s =>
    simp only at he
    cases hc : e0.colOf s with
    | none => simp [hc] at he
    | some i =>
      simp only [hc] at he
      split at he
      · rename_i hi
        simp at he
        obtain ⟨hd, hh, hdg⟩ := colOf_via_hdr h.hdr hc
        exact key i hi he.symm (by simp only [applyD, hh, hdg])
      · simp at he

/-! ### the load-once cell is the only state: observations do not depend on it -/

theorem touch_headers (r : DRow) : r.touch.headers = r.headers := by
  induction r with
  | plain v => rfl
  | lazy c e h m => cases h <;> rfl
  | head r h ih => rfl
  | encode r es ih => simpa [DRow.touch, DRow.headers] using ih
  | keep r a b c d e ih => cases e <;> simp [DRow.touch, DRow.headers, ih]
  | label r i t ih => simpa [DRow.touch, DRow.headers] using ih
  | dropOne r i ih => simp [DRow.touch, DRow.headers, ih]

theorem touch_missing (r : DRow) : r.touch.missing = r.missing := by
  induction r <;> simp_all [DRow.touch, DRow.missing]

theorem touch_len (r : DRow) : r.touch.len = r.len := by
  induction r <;> simp_all [DRow.touch, DRow.len, cell_get_touch]

theorem touch_getPos (r : DRow) (i : Nat) : r.touch.getPos i = r.getPos i := by
  induction r generalizing i <;> simp_all [DRow.touch, DRow.getPos, cell_get_touch]

theorem touch_getName (r : DRow) (s : String) : r.touch.getName s = r.getName s := by
  induction r with
  | plain v => rfl
  | lazy c e h m =>
    cases h with
    | none => rfl
    | some h =>
      have hp : ∀ i, (DRow.lazy c.touch e (some h) m).getPos i = (DRow.lazy c e (some h) m).getPos i := fun i => touch_getPos (.lazy c e (some h) m) i
      simp only [DRow.touch, DRow.getName, hp]
  | head r h ih => simp [DRow.touch, DRow.getName, touch_getPos]
  | encode r es ih =>
    have hp : ∀ i, (DRow.encode r.touch es).getPos i = (DRow.encode r es).getPos i := fun i => touch_getPos (.encode r es) i
    simp only [DRow.touch, DRow.getName, touch_headers, hp]
  | keep r a b c d e ih => simp [DRow.touch, DRow.getName, touch_getPos]
  | label r i t ih => simpa [DRow.touch, DRow.getName] using ih
  | dropOne r ind ih =>
    have hh := touch_headers (.dropOne r ind)
    simp only [DRow.touch] at hh
    have hp : ∀ i, (DRow.dropOne r.touch ind).getPos i = (DRow.dropOne r ind).getPos i := fun i => touch_getPos (.dropOne r ind) i
    simp only [DRow.touch, DRow.getName, hh, hp]

theorem touch_iter (r : DRow) : r.touch.iter = r.iter := by
  induction r <;> simp_all [DRow.touch, DRow.iter, cell_get_touch]

theorem touch_labelOf (r : DRow) : r.touch.labelOf = r.labelOf.map (fun p => (p.1.touch, p.2)) := by
  induction r <;> simp_all [DRow.touch, DRow.labelOf]

theorem touch_obsD (r : DRow) (a : Acc) : obsD r.touch a = obsD r a := by
  induction a generalizing r with
  | pos i => simp [obsD, touch_getPos]
  | name k => cases k <;> simp [obsD, DRow.get, touch_getPos, touch_getName]
  | iter => simp [obsD, touch_iter]
  | copy => simp [obsD, touch_iter]
  | len => simp [obsD, touch_len]
  | headers => simp [obsD, touch_headers]
  | keys => rfl
  | items => rfl
  | eq o => cases o <;> simp [obsD, DRow.eqList, touch_len, touch_iter]
  | label =>
    simp only [obsD, DRow.labelVal, touch_labelOf]
    cases r.labelOf with
    | none => rfl
    | some p => simp [touch_getPos]
  | tipe =>
    simp only [obsD, DRow.tipe, touch_labelOf]
    cases r.labelOf <;> rfl
  | feats s ih =>
    simp only [obsD, DRow.feats, touch_labelOf]
    cases r.labelOf with
    | none => rfl
    | some p => exact ih (.dropOne p.1 p.2.1)
  | clone s ih => simpa [obsD] using ih r

/-- any history of accesses on one row object returns what the same accesses return on fresh rows -/
theorem runD_eq_map (r : DRow) (as : List Acc) : runD r as = as.map (obsD r) := by
  induction as generalizing r with
  | nil => rfl
  | cons a t ih =>
    simp only [runD, stepD, List.map_cons, ih]
    congr 1
    apply List.map_congr_left
    intro b _
    exact touch_obsD r b


/-! ## property-level statements (dense), referenced from Props/C13.lean -/

theorem dense_ref' (b : DBase) (stages : List Stage) (e0 e : EagerD) (r : DRow)
    (hb : eagerBaseD b = .ok e0) (he : eagerD stages e0 = .ok (some e))
    (hr : buildD stages (baseD b) = .ok (some r)) : RefD r e := by
  obtain ⟨r', hr', href, _⟩ := (dense_refines b stages e0 hb).1 e he
  rw [hr] at hr'; cases hr'; exact href

theorem dense_defined' (b : DBase) (stages : List Stage) (e0 e : EagerD)
    (hb : eagerBaseD b = .ok e0) (he : eagerD stages e0 = .ok (some e)) :
    ∃ r, buildD stages (baseD b) = .ok (some r) := by
  obtain ⟨r', hr', _, _⟩ := (dense_refines b stages e0 hb).1 e he
  exact ⟨r', hr'⟩

theorem dense_dropped' (b : DBase) (stages : List Stage) (e0 : EagerD)
    (hb : eagerBaseD b = .ok e0) (he : eagerD stages e0 = .ok none) :
    buildD stages (baseD b) = .ok none := (dense_refines b stages e0 hb).2 he

theorem feats_label_dense' (b : DBase) (stages : List Stage) (k : Key) (t : Option String) (e0 e : EagerD)
    (hb : eagerBaseD b = .ok e0) (he : eagerD (stages ++ [.label k t]) e0 = .ok (some e)) :
    ∃ r f ef v, buildD (stages ++ [.label k t]) (baseD b) = .ok (some r) ∧
      r.feats = .ok f ∧ e.feats = some ef ∧ RefD f ef ∧
      r.labelVal = .ok v ∧ e.labelVal = some v ∧ r.tipe = .ok t ∧ e.lab.map (·.2) = some t := by
  rw [eagerD_append] at he
  cases h1 : eagerD stages e0 with
  | error er => simp [h1] at he
  | ok o =>
    cases o with
    | none => simp [h1] at he
    | some e1 =>
      simp only [h1, eagerD] at he
      obtain ⟨r1, hr1, href, _⟩ := (dense_refines b stages e0 hb).1 e1 h1
      cases h2 : eagerStageD (.label k t) e1 with
      | error er => simp [h2] at he
      | ok o2 =>
        cases o2 with
        | none => simp [h2] at he
        | some e2 =>
          simp [h2] at he; subst he
          obtain ⟨r, f, ef, v, happ, _, hf, hef, hreff, hl, hel, ht, helab⟩ := labelD_last href k t e2 h2
          refine ⟨r, f, ef, v, ?_, hf, hef, hreff, hl, hel, ht, helab⟩
          rw [buildD_append, hr1]
          simp [buildD, happ]

/-- the forced hypothesis of `feats_label` is necessary: `EncodeRows` after `LabelRows` -/
def cexBase : DBase := .plain [.int 1, .int 2, .int 3]
def cexStages : List Stage := [.label (.pos 1) (some "c"), .encodeSeq [.inc, .inc, .inc]]

theorem feats_label_dense_cex' :
    ∃ r e, buildD cexStages (baseD cexBase) = .ok (some r) ∧
      (match eagerBaseD cexBase with | .ok e0 => eagerD cexStages e0 | .error er => .error er) = .ok (some e) ∧
      r.iter = .ok e.cells ∧
      r.labelVal = .ok (.int 2) ∧ e.labelVal = some (.int 3) := by
  refine ⟨_, _, rfl, rfl, rfl, rfl, rfl⟩

/-- a concrete pipeline used by the non-vacuity `example` in Props -/
def exBase : DBase := .lazy [.str "1", .str "2", .str "3"] true none none false
def exStages : List Stage :=
  [.headNames ["a", "b", "c"], .encodeSeq [.toInt, .toInt, .toInt], .drop [.name "b"] none, .label (.name "c") (some "r")]
def exStagesMap : List Stage :=
  [.headMap [("z", .pos 2), ("x", .pos 0)], .encodeMap [(.name "z", .toInt)], .drop [.name "x"] none]



/-! ## sparse refinement -/

def optRes (o : Option Val) : Res Val :=
  match o with
  | some v => .ok v
  | none => .error .keyError

/-- well-formed eager sparse row: a dict (distinct keys); the label entry exists -/
structure WFS (e : EagerS) : Prop where
  nodup : (e.d.map (·.1)).Nodup
  lab : ∀ k t, e.lab = some (k, t) → (dget e.d k).isSome

/-- the lazy sparse row `r` is indistinguishable from the eager dict `e.d` (label part apart).
`r.leak` are the hidden raw keys a header-mapped LazySparse base additionally answers to: by-key access is
exact for every other key.  `items()` is the eager dict in the model's order (the code's order of the
"not sparse" extras is a set order; observations compare dicts as finite maps). -/
structure RefS (r : SRow) (e : EagerS) : Prop where
  get : ∀ k, k ∉ r.leak → r.get k = optRes (dget e.d k)
  items : r.items = .ok e.d
  keys : ∃ ks, r.keys = .ok ks ∧ ks.Nodup ∧ ∀ k, k ∈ ks ↔ (dget e.d k).isSome
  len : r.len = .ok e.d.length
  miss : r.missing.toOption = e.miss
  inv : r.invOf = e.inv
  leakPos : ∀ k ∈ r.leak, ∃ i, k = .pos i
  leakInv : ∀ k ∈ r.leak, ∃ n, dget e.inv k = some (.name n)
  leakAll : ∀ k, (dget e.inv k).isSome → r.leak ≠ [] → k ∈ r.leak

theorem contains_iff_mem (l : List Key) (k : Key) : l.contains k = true ↔ k ∈ l := by
  simp

theorem length_of_keys {ks : List Key} {d : Dict} (hk : ks.Nodup) (hd : (d.map (·.1)).Nodup)
    (h : ∀ k, k ∈ ks ↔ (dget d k).isSome) : ks.length = d.length := by
  have := length_eq_of_same_members ks (d.map (·.1)) hk hd (fun k => by rw [h k, dget_isSome_iff_mem])
  simpa using this

theorem refS_plain (d : Dict) (hn : (d.map (·.1)).Nodup) (lab) : RefS (.plain d) ⟨d, lab, none, []⟩ where
  get := by intro k _; simp only [SRow.get, optRes]; cases dget d k <;> rfl
  items := rfl
  keys := ⟨d.map (·.1), rfl, hn, fun k => (dget_isSome_iff_mem d k).symm⟩
  len := rfl
  miss := rfl
  inv := rfl
  leakPos := by intro k hk; simp [SRow.leak] at hk
  leakInv := by intro k hk; simp [SRow.leak] at hk
  leakAll := by intro k hk; simp [dget] at hk

theorem nodup_filter_keys {d : Dict} (q : Key → Bool) (hn : (d.map (·.1)).Nodup) :
    ((d.filter (fun p => q p.1)).map (·.1)).Nodup := by
  have : ((d.filter (fun p => q p.1)).map (·.1)).Sublist (d.map (·.1)) := (List.filter_sublist).map _
  exact this.nodup hn

theorem refS_drop {r : SRow} {e : EagerS} (h : RefS r e) (hw : WFS e) (ds : List Key) (lab) :
    RefS (.drop r ds) ⟨e.d.filter (fun p => !ds.contains p.1), lab, e.miss, e.inv⟩ := by
  obtain ⟨ks, hks, hknd, hkm⟩ := h.keys
  have hkeys : ∀ k, k ∈ ks.filter (fun k => !ds.contains k) ↔ (dget (e.d.filter (fun p => !ds.contains p.1)) k).isSome := by
    intro k
    rw [List.mem_filter, hkm k, dget_filter_key e.d (fun k => !ds.contains k) k]
    by_cases hc : k ∈ ds <;> simp [hc]
  have hknd' : (ks.filter (fun k => !ds.contains k)).Nodup := (List.filter_sublist).nodup hknd
  refine ⟨?_, by simp [SRow.items, h.items],
    ⟨ks.filter (fun k => !ds.contains k), by simp [SRow.keys, hks], hknd', hkeys⟩, ?_, h.miss, h.inv, h.leakPos, h.leakInv, h.leakAll⟩
  · intro k hk
    simp only [SRow.get, dget_filter_key e.d (fun k => !ds.contains k) k]
    by_cases hc : k ∈ ds
    · simp [hc, optRes]
    · simp [hc, h.get k hk]
  · simp only [SRow.len, SRow.keys, hks]
    exact congrArg Except.ok (length_of_keys hknd' (nodup_filter_keys (fun k => !ds.contains k) hw.nodup) hkeys)

/-- the eager dict after LabelRows: the label entry is made explicit (an absent label is 0) -/
def labelDict (d : Dict) (key : Key) : Dict := if (d.map (·.1)).contains key then d else d ++ [(key, .int 0)]

theorem dget_labelDict (d : Dict) (key k : Key) :
    dget (labelDict d key) k = match dget d k with | some v => some v | none => if k = key then some (.int 0) else none := by
  unfold labelDict
  by_cases hc : (d.map (·.1)).contains key = true
  · rw [if_pos hc]
    cases hd : dget d k with
    | some v => rfl
    | none =>
      have hk : k ∉ d.map (·.1) := (dget_none_iff_not_mem d k).1 hd
      have hkey : key ∈ d.map (·.1) := (contains_iff_mem _ _).1 hc
      have : k ≠ key := fun h => hk (h ▸ hkey)
      simp [this]
  · rw [if_neg hc, dget_append]
    cases hd : dget d k with
    | some v => rfl
    | none =>
      by_cases hk : k = key
      · subst hk; simp [dget]
      · have : ¬ key = k := fun h => hk h.symm
        simp [dget, hk, this]

theorem nodup_labelDict {d : Dict} (key : Key) (hn : (d.map (·.1)).Nodup) : ((labelDict d key).map (·.1)).Nodup := by
  unfold labelDict
  by_cases hc : (d.map (·.1)).contains key = true
  · rw [if_pos hc]; exact hn
  · have hkey : key ∉ d.map (·.1) := fun h => hc ((contains_iff_mem _ _).2 h)
    rw [if_neg hc]
    simp only [List.map_append, List.map_cons, List.map_nil]
    rw [List.nodup_append]
    refine ⟨hn, by simp, ?_⟩
    intro a ha b hb hab
    simp at hb; subst hb; subst hab; exact hkey ha

theorem refS_label {r : SRow} {e : EagerS} (h : RefS r e) (hw : WFS e) (key : Key) (t : Option String) (lab) :
    RefS (.label r key t) ⟨labelDict e.d key, lab, e.miss, e.inv⟩ := by
  obtain ⟨ks, hks, hknd, hkm⟩ := h.keys
  have hkeys : ∀ k, k ∈ kunion ks [key] ↔ (dget (labelDict e.d key) k).isSome := by
    intro k
    rw [mem_kunion, hkm k, dget_labelDict]
    cases hd : dget e.d k with
    | some v => simp
    | none => by_cases hk : k = key <;> simp [hk]
  have hknd' := nodup_kunion ks [key] hknd
  refine ⟨?_, ?_, ⟨kunion ks [key], by simp [SRow.keys, hks], hknd', hkeys⟩, ?_, h.miss, h.inv, h.leakPos, h.leakInv, h.leakAll⟩
  · intro k hk
    simp only [SRow.get, h.get k hk, dget_labelDict]
    cases hd : dget e.d k with
    | some v => rfl
    | none => by_cases hk : k = key <;> simp [optRes, hk]
  · simp only [SRow.items, h.items, labelDict]
    split <;> rfl
  · simp only [SRow.len, SRow.keys, hks]
    exact congrArg Except.ok (length_of_keys hknd' (nodup_labelDict key hw.nodup) hkeys)


theorem applyEntry_spec {f : Key → Val → Res Val} {d t : Dict} (h : mapMRes (applyEntry f) d = .ok t) :
    t.map (·.1) = d.map (·.1) ∧
    (∀ k, dget t k = match dget d k with | some v => (f k v).toOption | none => none) ∧
    (∀ p ∈ d, ∃ v', f p.1 p.2 = .ok v') := by
  induction d generalizing t with
  | nil => simp [mapMRes] at h; subst h; simp [dget]
  | cons p rest ih =>
    obtain ⟨x, y⟩ := p
    simp only [mapMRes, applyEntry] at h
    cases hf : f x y with
    | error er => simp [hf] at h
    | ok v' =>
      simp only [hf] at h
      cases hr : mapMRes (applyEntry f) rest with
      | error er => simp [hr] at h
      | ok t' =>
        simp [hr] at h; subst h
        obtain ⟨h1, h2, h3⟩ := ih hr
        refine ⟨by simp [h1], ?_, ?_⟩
        · intro k
          simp only [dget]
          by_cases hx : x = k
          · subst hx; simp [hf, Except.toOption]
          · simp [hx, h2 k]
        · intro p hp
          rcases List.mem_cons.1 hp with rfl | hp
          · exact ⟨v', hf⟩
          · exact h3 p hp

theorem applyEntry_total {f : Key → Val → Res Val} {d : Dict} (h : ∀ p ∈ d, ∃ v', f p.1 p.2 = .ok v') :
    ∃ t, mapMRes (applyEntry f) d = .ok t := by
  induction d with
  | nil => exact ⟨[], rfl⟩
  | cons p rest ih =>
    obtain ⟨v', hv⟩ := h p (by simp)
    obtain ⟨t, ht⟩ := ih (fun q hq => h q (by simp [hq]))
    exact ⟨(p.1, v') :: t, by simp [mapMRes, applyEntry, hv, ht]⟩

theorem zeroEntry_spec {g : Key → Val → Res Val} {ks : List Key} {t : Dict} (h : mapMRes (zeroEntry g) ks = .ok t) :
    t.map (·.1) = ks ∧
    (∀ k, dget t k = if k ∈ ks then (g k (.str "0")).toOption else none) ∧
    (∀ k ∈ ks, ∃ v, g k (.str "0") = .ok v) := by
  induction ks generalizing t with
  | nil => simp [mapMRes] at h; subst h; simp [dget]
  | cons x rest ih =>
    simp only [mapMRes, zeroEntry] at h
    cases hf : g x (.str "0") with
    | error er => simp [hf] at h
    | ok v' =>
      simp only [hf] at h
      cases hr : mapMRes (zeroEntry g) rest with
      | error er => simp [hr] at h
      | ok t' =>
        simp [hr] at h; subst h
        obtain ⟨h1, h2, h3⟩ := ih hr
        refine ⟨by simp [h1], ?_, ?_⟩
        · intro k
          simp only [dget, List.mem_cons]
          by_cases hx : x = k
          · subst hx; simp [hf, Except.toOption]
          · have : ¬ k = x := fun h' => hx h'.symm
            simp [hx, this, h2 k]
        · intro k hk
          rcases List.mem_cons.1 hk with rfl | hk
          · exact ⟨v', hf⟩
          · exact h3 k hk

theorem zeroEntry_congr {g g' : Key → Val → Res Val} {ks : List Key} (h : ∀ k ∈ ks, g k (.str "0") = g' k (.str "0")) :
    mapMRes (zeroEntry g) ks = mapMRes (zeroEntry g') ks := by
  induction ks with
  | nil => rfl
  | cons x rest ih =>
    simp only [mapMRes, zeroEntry, h x (by simp), ih (fun k hk => h k (by simp [hk]))]

theorem mem_nspOf {enc : List (Key × Enc)} {k : Key} (h : k ∈ nspOf enc) : ∃ e, dget enc k = some e := by
  simp only [nspOf, List.mem_map, List.mem_filter] at h
  obtain ⟨p, ⟨hp, _⟩, rfl⟩ := h
  have : p.1 ∈ enc.map (·.1) := List.mem_map.2 ⟨p, hp, rfl⟩
  have := (dget_isSome_iff_mem enc p.1).2 this
  cases hd : dget enc p.1 with
  | none => simp [hd] at this
  | some e => exact ⟨e, rfl⟩

theorem encZero_eq {enc : List (Key × Enc)} {k : Key} (h : k ∈ nspOf enc) (v : Val) :
    encZero enc k v = (encOf enc k).apply v := by
  obtain ⟨e, he⟩ := mem_nspOf h
  simp [encZero, encOf, he]

/-- the dict produced by the eager sparse encoding, as a finite map -/
theorem encodeDictN_spec {enc : List (Key × Enc)} {nsp : List Key} {app : Enc → Val → Res Val} {d d' : Dict}
    (hn : (d.map (·.1)).Nodup) (h : encodeDictN enc nsp app d = .ok d') :
    (d'.map (·.1)).Nodup ∧
    (∀ k, dget d' k = match dget d k with
      | some v => (app (encOf enc k) v).toOption
      | none => if k ∈ nsp then (app (encOf enc k) (.str "0")).toOption else none) ∧
    (∀ p ∈ d, ∃ v', app (encOf enc p.1) p.2 = .ok v') ∧
    (∀ k ∈ nsp, dget d k = none → ∃ v0, app (encOf enc k) (.str "0") = .ok v0) ∧
    ∃ t1 t2, mapMRes (applyEntry (fun k v => app (encOf enc k) v)) d = .ok t1 ∧
      mapMRes (zeroEntry (fun k v => app (encOf enc k) v)) (kdiff nsp (d.map (·.1))) = .ok t2 ∧ d' = t1 ++ t2 := by
  simp only [encodeDictN] at h
  cases h1 : mapMRes (applyEntry (fun k v => app (encOf enc k) v)) d with
  | error er => simp [h1] at h
  | ok t1 =>
    simp only [h1] at h
    cases h2 : mapMRes (zeroEntry (fun k v => app (encOf enc k) v)) (kdiff nsp (d.map (·.1))) with
    | error er => simp [h2] at h
    | ok t2 =>
      simp [h2] at h; subst h
      obtain ⟨a1, a2, a3⟩ := applyEntry_spec h1
      obtain ⟨b1, b2, b3⟩ := zeroEntry_spec h2
      refine ⟨?_, ?_, a3, ?_, t1, t2, rfl, rfl, rfl⟩
      · simp only [List.map_append, a1, b1]
        rw [List.nodup_append]
        refine ⟨hn, nodup_kdiff _ _, ?_⟩
        intro x hx y hy hxy; subst hxy
        exact ((mem_kdiff _ _ _).1 hy).2 hx
      · intro k
        rw [dget_append, a2 k]
        cases hd : dget d k with
        | some v =>
          obtain ⟨v', hv'⟩ := a3 (k, v) (dget_some_mem hd)
          simp only at hv'
          simp [hv', Except.toOption]
        | none =>
          have hk : k ∉ d.map (·.1) := (dget_none_iff_not_mem d k).1 hd
          simp only [b2 k, mem_kdiff]
          by_cases hm : k ∈ nsp <;> simp [hm, hk]
      · intro k hk hd
        have hk' : k ∉ d.map (·.1) := (dget_none_iff_not_mem d k).1 hd
        exact b3 k ((mem_kdiff _ _ _).2 ⟨hk, hk'⟩)



theorem refS_encode {r : SRow} {e : EagerS} (h : RefS r e) (hw : WFS e) (enc : List (Key × Enc)) (d' : Dict)
    (hd : encodeDictE enc Enc.apply e.d = .ok d') :
    RefS (.encode r enc (nspOf enc)) { e with d := d' } ∧ (d'.map (·.1)).Nodup := by
  obtain ⟨ks, hks, hknd, hkm⟩ := h.keys
  obtain ⟨hdn, hdg, hsucc, hzero, t1, t2, ht1, ht2, hdd⟩ := encodeDictN_spec hw.nodup hd
  have ht2' : mapMRes (zeroEntry (encZero enc)) (kdiff (nspOf enc) (e.d.map (·.1))) = .ok t2 := by
    rw [← ht2]
    apply zeroEntry_congr
    intro k hk
    exact encZero_eq ((mem_kdiff _ _ _).1 hk).1 _
  have hkeys : ∀ k, k ∈ kunion ks (nspOf enc) ↔ (dget d' k).isSome := by
    intro k
    rw [mem_kunion, hkm k, hdg k]
    cases hdk : dget e.d k with
    | some v =>
      obtain ⟨v', hv'⟩ := hsucc (k, v) (dget_some_mem hdk)
      simp only at hv'
      simp [hv', Except.toOption]
    | none =>
      by_cases hm : k ∈ nspOf enc
      · obtain ⟨v0, hv0⟩ := hzero k hm hdk
        simp [hm, hv0, Except.toOption]
      · simp [hm]
  have hknd' := nodup_kunion ks (nspOf enc) hknd
  refine ⟨⟨?_, ?_, ⟨kunion ks (nspOf enc), by simp [SRow.keys, hks], hknd', hkeys⟩, ?_, h.miss, h.inv, h.leakPos, h.leakInv, h.leakAll⟩, hdn⟩
  · intro k hk
    simp only [SRow.get, h.get k hk, hdg k]
    cases hdk : dget e.d k with
    | some v =>
      obtain ⟨v', hv'⟩ := hsucc (k, v) (dget_some_mem hdk)
      simp only at hv'
      simp [optRes, hv', Except.toOption]
    | none =>
      simp only [optRes]
      by_cases hm : k ∈ nspOf enc
      · obtain ⟨v0, hv0⟩ := hzero k hm hdk
        simp [hm, hv0, Except.toOption]
      · simp [hm]
  · simp only [SRow.items, h.items, ht1, ht2', hdd]
  · simp only [SRow.len, SRow.keys, hks]
    exact congrArg Except.ok (length_of_keys hknd' hdn hkeys)

/-! ### renaming keys through a bijective header map -/

def swapList (m : KMap) : KMap := m.map (fun p => (p.2, p.1))

theorem swapMap_eq (fwd : KMap) (h : (fwd.map (·.2)).Nodup) : swapMap fwd = swapList fwd := by
  have := foldl_dset_append ([] : KMap) (swapList fwd) (by simpa [swapList, Function.comp_def] using h) (by simp)
  simp only [List.nil_append] at this
  rw [← this]
  simp only [swapMap, swapList, List.foldl_map]

theorem snd_inj_of_nodup {l : KMap} (h : (l.map (·.2)).Nodup) {a b n : Key} (ha : (a, n) ∈ l) (hb : (b, n) ∈ l) : a = b := by
  induction l with
  | nil => simp at ha
  | cons p t ih =>
    simp only [List.map_cons, List.nodup_cons] at h
    rcases List.mem_cons.1 ha with rfl | ha'
    · rcases List.mem_cons.1 hb with hb' | hb'
      · exact (Prod.mk.inj hb').1.symm ▸ rfl
      · exact absurd (List.mem_map.2 ⟨(b, n), hb', rfl⟩) h.1
    · rcases List.mem_cons.1 hb with rfl | hb'
      · exact absurd (List.mem_map.2 ⟨(a, n), ha', rfl⟩) h.1
      · exact ih h.2 ha' hb'

structure Bij (inv : KMap) : Prop where
  keys : (inv.map (·.1)).Nodup
  vals : (inv.map (·.2)).Nodup

theorem Bij.inj {inv : KMap} (hb : Bij inv) {a b n : Key} (ha : dget inv a = some n) (hb' : dget inv b = some n) : a = b :=
  snd_inj_of_nodup hb.vals (dget_some_mem ha) (dget_some_mem hb')

theorem Bij.fwd_iff {inv : KMap} (hb : Bij inv) (n k : Key) : dget (swapList inv) n = some k ↔ dget inv k = some n := by
  have hk : ((swapList inv).map (·.1)).Nodup := by simpa [swapList, Function.comp_def] using hb.vals
  constructor
  · intro h
    have := dget_some_mem h
    simp only [swapList, List.mem_map] at this
    obtain ⟨p, hp, hpe⟩ := this
    obtain ⟨x, y⟩ := p
    simp only [Prod.mk.injEq] at hpe
    obtain ⟨rfl, rfl⟩ := hpe
    exact dget_of_mem_nodup hb.keys hp
  · intro h
    have := dget_some_mem h
    exact dget_of_mem_nodup hk (List.mem_map.2 ⟨(k, n), this, rfl⟩)

/-- renaming a dict through a bijective map: lookups go through the inverse map -/
theorem renameE_spec {inv : KMap} (hb : Bij inv) {d d' : Dict} (h : renameE inv d = .ok d') :
    d'.length = d.length ∧
    (∀ n, dget d' n = match dget (swapList inv) n with | some k => dget d k | none => none) ∧
    ((d.map (·.1)).Nodup → (d'.map (·.1)).Nodup) ∧
    (∀ k ∈ d.map (·.1), ∃ n, dget inv k = some n) := by
  induction d generalizing d' with
  | nil => simp [renameE, mapMRes] at h; subst h; simp [dget]; intro n; split <;> rfl
  | cons p rest ih =>
    obtain ⟨x, y⟩ := p
    simp only [renameE, mapMRes, renameEntry] at h
    cases hx : dget inv x with
    | none => simp [hx] at h
    | some nx =>
      simp only [hx] at h
      cases hr : mapMRes (renameEntry inv) rest with
      | error er => simp [hr] at h
      | ok t =>
        simp [hr] at h; subst h
        obtain ⟨h1, h2, h3, h4⟩ := ih (d' := t) (by simpa [renameE] using hr)
        refine ⟨by simp [h1], ?_, ?_, ?_⟩
        · intro n
          simp only [dget]
          by_cases hn : nx = n
          · subst hn
            have := (hb.fwd_iff nx x).2 hx
            simp [this]
          · simp only [hn, if_false, h2 n]
            cases hf : dget (swapList inv) n with
            | none => rfl
            | some k =>
              have hk := (hb.fwd_iff n k).1 hf
              have : x ≠ k := by
                intro hxk; subst hxk
                rw [hx] at hk; exact hn (Option.some.inj hk)
              simp [this]
        · intro hnd
          simp only [List.map_cons, List.nodup_cons] at hnd ⊢
          refine ⟨?_, h3 hnd.2⟩
          intro hmem
          have hs : (dget t nx).isSome := (dget_isSome_iff_mem t nx).2 hmem
          rw [h2 nx, (hb.fwd_iff nx x).2 hx] at hs
          exact hnd.1 ((dget_isSome_iff_mem rest x).1 hs)
        · intro k hk
          rcases List.mem_cons.1 hk with rfl | hk
          · exact ⟨nx, hx⟩
          · exact h4 k hk

theorem renameE_total {inv : KMap} {d : Dict} (h : ∀ k ∈ d.map (·.1), ∃ n, dget inv k = some n) :
    ∃ d', renameE inv d = .ok d' := by
  induction d with
  | nil => exact ⟨[], rfl⟩
  | cons p rest ih =>
    obtain ⟨n, hn⟩ := h p.1 (by simp)
    obtain ⟨t, ht⟩ := ih (fun k hk => h k (by simp [hk]))
    simp only [renameE] at ht
    exact ⟨(n, p.2) :: t, by simp [renameE, mapMRes, renameEntry, hn, ht]⟩

theorem renameKeys_spec {inv : KMap} (hb : Bij inv) {ks ks' : List Key} (h : mapMRes (renameKey inv) ks = .ok ks') :
    (∀ n, n ∈ ks' ↔ ∃ k, k ∈ ks ∧ dget inv k = some n) ∧ (ks.Nodup → ks'.Nodup) := by
  induction ks generalizing ks' with
  | nil => simp [mapMRes] at h; subst h; simp
  | cons x rest ih =>
    simp only [mapMRes, renameKey] at h
    cases hx : dget inv x with
    | none => simp [hx] at h
    | some nx =>
      simp only [hx] at h
      cases hr : mapMRes (renameKey inv) rest with
      | error er => simp [hr] at h
      | ok t =>
        simp [hr] at h; subst h
        obtain ⟨h1, h2⟩ := ih hr
        refine ⟨?_, ?_⟩
        · intro n
          simp only [List.mem_cons, h1 n]
          constructor
          · rintro (rfl | ⟨k, hk, hkn⟩)
            · exact ⟨x, Or.inl rfl, hx⟩
            · exact ⟨k, Or.inr hk, hkn⟩
          · rintro ⟨k, (rfl | hk), hkn⟩
            · rw [hx] at hkn; exact Or.inl (Option.some.inj hkn).symm
            · exact Or.inr ⟨k, hk, hkn⟩
        · intro hnd
          simp only [List.nodup_cons] at hnd ⊢
          refine ⟨?_, h2 hnd.2⟩
          intro hmem
          obtain ⟨k, hk, hkn⟩ := (h1 nx).1 hmem
          have := hb.inj hkn hx
          subst this
          exact hnd.1 hk

theorem renameKeys_total {inv : KMap} {ks : List Key} (h : ∀ k ∈ ks, ∃ n, dget inv k = some n) :
    ∃ ks', mapMRes (renameKey inv) ks = .ok ks' := by
  induction ks with
  | nil => exact ⟨[], rfl⟩
  | cons x rest ih =>
    obtain ⟨n, hn⟩ := h x (by simp)
    obtain ⟨t, ht⟩ := ih (fun k hk => h k (by simp [hk]))
    exact ⟨n :: t, by simp [mapMRes, renameKey, hn, ht]⟩


theorem swapList_swapList (m : KMap) : swapList (swapList m) = m := by
  simp [swapList, Function.comp_def]


/-- HeadSparse over a row; `hfree`: the header map does not name a hidden raw key of the row below -/
theorem refS_head {r : SRow} {e : EagerS} (h : RefS r e) (hw : WFS e) (inv : KMap) (hb : Bij inv) (d' : Dict)
    (hd : renameE inv e.d = .ok d') (lab) (hfree : ∀ p ∈ inv, p.1 ∉ r.leak) :
    RefS (.head r (swapList inv) (swapMap (swapList inv))) ⟨d', lab, e.miss, inv⟩ ∧ (d'.map (·.1)).Nodup := by
  obtain ⟨ks, hks, hknd, hkm⟩ := h.keys
  have hinv : swapMap (swapList inv) = inv := by
    rw [swapMap_eq _ (by simpa [swapList, Function.comp_def] using hb.keys), swapList_swapList]
  obtain ⟨hlen, hdg, hdn, hdom⟩ := renameE_spec hb hd
  have hdn' := hdn hw.nodup
  have hdom_ks : ∀ k ∈ ks, ∃ n, dget inv k = some n :=
    fun k hk => hdom k ((dget_isSome_iff_mem e.d k).1 ((hkm k).1 hk))
  obtain ⟨ks', hks'⟩ := renameKeys_total hdom_ks
  obtain ⟨hmem, hknd'⟩ := renameKeys_spec hb hks'
  have hkeys : ∀ n, n ∈ ks' ↔ (dget d' n).isSome := by
    intro n
    rw [hmem n, hdg n]
    constructor
    · rintro ⟨k, hk, hkn⟩
      rw [(hb.fwd_iff n k).2 hkn]
      exact (hkm k).1 hk
    · intro hs
      cases hf : dget (swapList inv) n with
      | none => simp [hf] at hs
      | some k =>
        simp only [hf] at hs
        exact ⟨k, (hkm k).2 hs, (hb.fwd_iff n k).1 hf⟩
  refine ⟨⟨?_, ?_, ⟨ks', ?_, hknd' hknd, hkeys⟩, ?_, h.miss, hinv, ?_, ?_, ?_⟩, hdn'⟩
  · intro n _
    simp only [SRow.get, hdg n]
    cases hf : dget (swapList inv) n with
    | none => rfl
    | some k =>
      have hk : k ∉ r.leak := hfree (k, n) (dget_some_mem ((hb.fwd_iff n k).1 hf))
      simp only [h.get k hk]
  · simp only [SRow.items, h.items, hinv]
    simpa [renameE] using hd
  · simp only [SRow.keys, hks, hinv, hks']
  · simp only [SRow.len, h.len, hlen]
  · intro k hk; simp [SRow.leak] at hk
  · intro k hk; simp [SRow.leak] at hk
  · intro k _ hne; simp [SRow.leak] at hne


theorem kdiff_nil (a : List Key) : kdiff [] a = [] := rfl

theorem kunion_nil (a : List Key) : kunion a [] = a := by simp [kunion, kdiff_nil]

theorem distinct_iff {α} [DecidableEq α] (l : List α) : distinct l = true ↔ l.Nodup := by simp [distinct]

theorem mapMRes_append {α β} (f : α → Res β) (a b : List α) :
    mapMRes f (a ++ b) = match mapMRes f a with
      | .error e => .error e
      | .ok xs => match mapMRes f b with | .error e => .error e | .ok ys => .ok (xs ++ ys) := by
  induction a with
  | nil => simp [mapMRes]; cases mapMRes f b <;> rfl
  | cons x t ih =>
    simp only [List.cons_append, mapMRes, ih]
    cases f x with
    | error e => rfl
    | ok y =>
      cases mapMRes f t with
      | error e => rfl
      | ok xs => cases mapMRes f b <;> rfl

theorem applyEntry_zero (g : Key → Val → Res Val) (ks : List Key) :
    mapMRes (applyEntry g) (ks.map (fun k => (k, Val.str "0"))) = mapMRes (zeroEntry g) ks := by
  induction ks with
  | nil => rfl
  | cons k t ih => simp only [List.map_cons, mapMRes, applyEntry, zeroEntry, ih]

theorem map_id_keys (its : Dict) :
    its.map (fun p => ((if ([] : KMap).isEmpty = true then p.1 else (dget ([] : KMap) p.1).getD p.1), p.2)) = its := by
  induction its with
  | nil => rfl
  | cons p t _ => simp

/-- what a LazySparse loads, as a finite map and as a key list -/
theorem lazyDictE_spec {enc : List (Key × Enc)} {nsp : List Key} {raw d1 : Dict}
    (hn : (raw.map (·.1)).Nodup) (hnsp : enc.isEmpty = true → nsp = []) (h : lazyDictE enc nsp raw = .ok d1) :
    (d1.map (·.1)).Nodup ∧ d1.map (·.1) = kunion (raw.map (·.1)) nsp ∧
    (∀ k, optRes (dget d1 k) = lazyValue enc raw nsp k) ∧
    (if enc.isEmpty then d1 = raw
     else mapMRes (applyEntry (fun k v => lazyApply (encOf enc k) v)) (raw ++ (kdiff nsp (raw.map (·.1))).map (fun k => (k, Val.str "0"))) = .ok d1) := by
  simp only [lazyDictE] at h
  by_cases hem : enc.isEmpty = true
  · have hn0 := hnsp hem
    subst hn0
    simp only [hem, if_true] at h
    simp at h; subst h
    refine ⟨hn, by simp [kunion_nil], ?_, by simp [hem]⟩
    intro k
    simp only [lazyValue, hem, if_true]
    cases dget raw k <;> simp [optRes]
  · have hem' : enc.isEmpty = false := by simpa using hem
    simp only [hem', Bool.false_eq_true, if_false] at h
    obtain ⟨hdn, hdg, hsucc, hzero, t1, t2, ht1, ht2, hdd⟩ := encodeDictN_spec hn h
    obtain ⟨a1, _, _⟩ := applyEntry_spec ht1
    obtain ⟨b1, _, _⟩ := zeroEntry_spec ht2
    refine ⟨hdn, by rw [hdd]; simp [a1, b1, kunion], ?_, ?_⟩
    · intro k
      simp only [lazyValue, hem', Bool.false_eq_true, if_false, hdg k]
      cases hdk : dget raw k with
      | some v =>
        obtain ⟨v', hv'⟩ := hsucc (k, v) (dget_some_mem hdk)
        simp only at hv'
        simp [optRes, hv', Except.toOption]
      | none =>
        by_cases hm : k ∈ nsp
        · obtain ⟨v0, hv0⟩ := hzero k hm hdk
          simp [optRes, hm, hv0, Except.toOption]
        · simp [optRes, hm]
    · simp only [hem', Bool.false_eq_true, if_false]
      rw [mapMRes_append, ht1, applyEntry_zero, ht2, hdd]

/-- LazySparse without a header map (any encoders, any "not sparse" set) -/
theorem refS_lazy_nohdr (c : Cell Dict) (raw : Dict) (enc : List (Key × Enc)) (nsp : List Key) (miss : Bool) (d1 : Dict) (lab)
    (hc : c.get = raw) (hn : (raw.map (·.1)).Nodup) (hnsp : enc.isEmpty = true → nsp = [])
    (h1 : lazyDictE enc nsp raw = .ok d1) :
    RefS (.lazy c enc nsp [] [] miss) ⟨d1, lab, some miss, []⟩ ∧ (d1.map (·.1)).Nodup := by
  obtain ⟨hdn, hkeys, hget, hitems⟩ := lazyDictE_spec hn hnsp h1
  have hkm : ∀ k, k ∈ kunion (raw.map (·.1)) nsp ↔ (dget d1 k).isSome := by
    intro k; rw [← hkeys, dget_isSome_iff_mem]
  refine ⟨⟨?_, ?_, ⟨kunion (raw.map (·.1)) nsp, by simp [SRow.keys, hc], hkeys ▸ hdn, hkm⟩, ?_, rfl, rfl, ?_, ?_, ?_⟩, hdn⟩
  · intro k _
    simp only [SRow.get, hc, dget, Option.getD]
    rw [hget k]
  · simp only [SRow.items, hc]
    by_cases hem : enc.isEmpty = true
    · simp only [hem, if_true] at hitems ⊢
      simp [hitems]
    · have hem' : enc.isEmpty = false := by simpa using hem
      simp only [hem', Bool.false_eq_true, if_false] at hitems ⊢
      simp only [hitems, map_id_keys]
  · simp only [SRow.len, hc, ← hkeys, List.length_map]
  · intro k hk; simp [SRow.leak] at hk
  · intro k hk; simp [SRow.leak] at hk
  · intro k hk; simp [dget] at hk


theorem rename_getD {inv : KMap} {d d' : Dict} (h : renameE inv d = .ok d') :
    d.map (fun p => ((dget inv p.1).getD p.1, p.2)) = d' := by
  induction d generalizing d' with
  | nil => simp [renameE, mapMRes] at h; subst h; rfl
  | cons p rest ih =>
    simp only [renameE, mapMRes, renameEntry] at h
    cases hx : dget inv p.1 with
    | none => simp [hx] at h
    | some n =>
      simp only [hx] at h
      cases hr : mapMRes (renameEntry inv) rest with
      | error er => simp [hr] at h
      | ok t =>
        simp [hr] at h; subst h
        simp [hx, ih (d' := t) (by simpa [renameE] using hr)]

/-- a header-mapped LazySparse row (LazySparse(row, enc, nsp, fwd, inv) as ArffReader builds it) -/
theorem refS_lazy_hdr (c : Cell Dict) (raw : Dict) (enc : List (Key × Enc)) (nsp : List Key) (inv : KMap) (miss : Bool)
    (d1 d2 : Dict) (lab)
    (hc : c.get = raw) (hn : (raw.map (·.1)).Nodup) (hnsp : enc.isEmpty = true → nsp = [])
    (h1 : lazyDictE enc nsp raw = .ok d1) (hb : Bij inv) (hne : inv.isEmpty = false)
    (h2 : renameE inv d1 = .ok d2) (hshape : ∀ p ∈ inv, ∃ i n, p = (Key.pos i, Key.name n)) :
    RefS (.lazy c enc nsp (swapList inv) inv miss) ⟨d2, lab, some miss, inv⟩ ∧ (d2.map (·.1)).Nodup := by
  obtain ⟨hin, hdn1⟩ := refS_lazy_nohdr c raw enc nsp miss d1 none hc hn hnsp h1
  have hw1 : WFS ⟨d1, none, some miss, []⟩ := ⟨hdn1, by simp⟩
  obtain ⟨H, hdn2⟩ := refS_head hin hw1 inv hb d2 h2 lab (by intro p _; simp [SRow.leak])
  obtain ⟨_, hkeys1, hget1, hitems1⟩ := lazyDictE_spec hn hnsp h1
  obtain ⟨_, hdg2, _, hdom⟩ := renameE_spec hb h2
  have hinv : swapMap (swapList inv) = inv := by
    rw [swapMap_eq _ (by simpa [swapList, Function.comp_def] using hb.keys), swapList_swapList]
  have hfne : (swapList inv).isEmpty = false := by
    cases inv with
    | nil => simp at hne
    | cons p t => simp [swapList]
  have hleak : (SRow.lazy c enc nsp (swapList inv) inv miss).leak = inv.map (·.1) := by simp [SRow.leak, hfne]
  refine ⟨⟨?_, ?_, ?_, ?_, rfl, rfl, ?_, ?_, ?_⟩, hdn2⟩
  · intro k hk
    rw [hleak] at hk
    have hH := H.get k (by simp [SRow.leak])
    simp only [SRow.get] at hH ⊢
    cases hf : dget (swapList inv) k with
    | some k' =>
      simp only [hf, dget, Option.getD, hc] at hH ⊢
      exact hH
    | none =>
      simp only [hf, Option.getD] at hH ⊢
      rw [hc, ← hget1 k, ← hH]
      have : dget d1 k = none := by
        rw [dget_none_iff_not_mem]
        intro hm
        obtain ⟨n, hn'⟩ := hdom k hm
        exact hk (List.mem_map.2 ⟨(k, n), dget_some_mem hn', rfl⟩)
      rw [this]; rfl
  · simp only [SRow.items, hc]
    by_cases hem : enc.isEmpty = true
    · simp only [hem, if_true] at hitems1 ⊢
      subst hitems1
      simp only [hne, Bool.false_eq_true, if_false, rename_getD h2]
    · have hem' : enc.isEmpty = false := by simpa using hem
      simp only [hem', Bool.false_eq_true, if_false] at hitems1 ⊢
      simp only [hitems1, hne, Bool.false_eq_true, if_false, rename_getD h2]
  · have hk := H.keys
    simp only [SRow.keys, hc, hinv, dget] at hk ⊢
    simp only [hne, Bool.false_eq_true, if_false]
    simpa using hk
  · have hl := H.len
    simp only [SRow.len, hc] at hl ⊢
    exact hl
  · intro k hk
    rw [hleak] at hk
    obtain ⟨p, hp, rfl⟩ := List.mem_map.1 hk
    obtain ⟨i, n, rfl⟩ := hshape p hp
    exact ⟨i, rfl⟩
  · intro k hk
    rw [hleak] at hk
    obtain ⟨p, hp, rfl⟩ := List.mem_map.1 hk
    obtain ⟨i, n, rfl⟩ := hshape p hp
    exact ⟨n, dget_of_mem_nodup hb.keys hp⟩
  · intro k hs _
    rw [hleak]
    exact (dget_isSome_iff_mem inv k).1 hs


/-! ### EncodeCatRows on a dict keeps the keys distinct -/

theorem nodup_dset {d : Dict} (k : Key) (v : Val) (h : (d.map (·.1)).Nodup) : ((dset d k v).map (·.1)).Nodup := by
  induction d with
  | nil => simp [dset]
  | cons p t ih =>
    obtain ⟨a, b⟩ := p
    simp only [List.map_cons, List.nodup_cons] at h
    simp only [dset]
    split
    · simpa [List.nodup_cons] using h
    · rename_i hne
      simp only [List.map_cons, List.nodup_cons]
      refine ⟨?_, ih h.2⟩
      intro hm
      have : ∀ (t : Dict), a ∈ (dset t k v).map (·.1) → a ∈ t.map (·.1) ∨ a = k := by
        intro t
        induction t with
        | nil => simp [dset]
        | cons q u ihu =>
          obtain ⟨x, y⟩ := q
          simp only [dset]
          split
          · intro h'; exact Or.inl h'
          · intro h'
            simp only [List.map_cons, List.mem_cons] at h' ⊢
            rcases h' with h' | h'
            · exact Or.inl (Or.inl h')
            · rcases ihu h' with h'' | h''
              · exact Or.inl (Or.inr h'')
              · exact Or.inr h''
      rcases this t hm with h' | h'
      · exact h.1 h'
      · exact hne h'

theorem nodup_ddel {d : Dict} (k : Key) (h : (d.map (·.1)).Nodup) : ((ddel d k).map (·.1)).Nodup := by
  have : ((ddel d k).map (·.1)).Sublist (d.map (·.1)) := (List.filter_sublist).map _
  exact this.nodup h

theorem nodup_flatSet (d : Dict) (k : Key) (hs : List Int) (h : (d.map (·.1)).Nodup) : ((flatSet d k hs).map (·.1)).Nodup := by
  simp only [flatSet]
  generalize (hs.zipIdx.drop 1) = l
  induction l generalizing d with
  | nil => exact h
  | cons p t ih => exact ih _ (nodup_dset _ _ h)

theorem nodup_catEncodeDict (m : CatMode) (d : Dict) (h : (d.map (·.1)).Nodup) : ((catEncodeDict m d).map (·.1)).Nodup := by
  simp only [catEncodeDict]
  have : ∀ (l o : Dict), (o.map (·.1)).Nodup → ((l.foldl (catStep m) o).map (·.1)).Nodup := by
    intro l
    induction l with
    | nil => intro o ho; exact ho
    | cons p t ih =>
      intro o ho
      simp only [List.foldl_cons]
      apply ih
      simp only [catStep]
      split
      · cases m
        · exact nodup_flatSet _ _ _ (nodup_ddel _ ho)
        · exact nodup_dset _ _ ho
        · exact nodup_dset _ _ ho
      · exact ho
  exact this d d h

/-! ### stages over rows with hidden raw keys -/

def predSafe (pred : Option Pred) (r : SRow) : Prop :=
  match pred with
  | some (.cellEq k _) => k ∉ r.leak
  | _ => True

theorem evalPredS_of_eager {r : SRow} {e : EagerS} (h : RefS r e) (pred : Option Pred) (b : Bool)
    (hp : evalPredE pred e.miss (dget e.d) = .ok b)
    (hfree : predSafe pred r) : evalPredS pred r = .ok b := by
  cases pred with
  | none => simpa [evalPredE, evalPredS] using hp
  | some p =>
    cases p with
    | missing =>
      simp only [evalPredE] at hp
      cases hm : e.miss with
      | none => simp [hm] at hp
      | some m =>
        simp only [hm] at hp
        have := h.miss; rw [hm] at this
        simp only [evalPredS, toOption_eq_some this]; exact hp
    | cellEq k v =>
      simp only [evalPredE] at hp
      cases hg : dget e.d k with
      | none => simp [hg] at hp
      | some x =>
        simp only [hg] at hp
        have hgk := h.get k hfree
        simp only [evalPredS, hgk, hg, optRes]; exact hp


theorem bij_of_distinct {inv : KMap} (h : (distinct (inv.map (·.1)) && distinct (inv.map (·.2))) = true) : Bij inv := by
  simp only [Bool.and_eq_true, distinct_iff] at h
  exact ⟨h.1, h.2⟩

theorem eagerHeadS_ne_none (inv : KMap) (e : EagerS) : eagerHeadS inv e ≠ .ok none := by
  simp only [eagerHeadS]
  split
  · split
    · simp
    · split <;> simp
  · simp

theorem nodup_zipIdx_pos {α} (es : List α) (k : Nat) : ((es.zipIdx k).map (fun p => Key.pos p.2)).Nodup := by
  induction es generalizing k with
  | nil => simp
  | cons x t ih =>
    simp only [List.zipIdx_cons, List.map_cons, List.nodup_cons]
    refine ⟨?_, ih (k + 1)⟩
    intro hm
    simp only [List.mem_map] at hm
    obtain ⟨p, hp, hpe⟩ := hm
    have := List.mem_zipIdx hp
    simp at hpe
    omega

/-- one stage on a sparse row (EncodeCatRows is not covered: see notes) -/

theorem not_leak_of_name {r : SRow} {e : EagerS} (h : RefS r e) {k : Key} (hk : isName k = true) : k ∉ r.leak := by
  intro hm
  obtain ⟨i, rfl⟩ := h.leakPos k hm
  simp [isName] at hk

theorem labelKey_not_leak {r : SRow} {e : EagerS} (h : RefS r e) (k : Key) : labelKey e.inv k ∉ r.leak := by
  cases k with
  | name s => exact not_leak_of_name h rfl
  | pos i =>
    simp only [labelKey]
    by_cases hl : Key.pos i ∈ r.leak
    · obtain ⟨n, hn⟩ := h.leakInv _ hl
      simp only [hn, Option.getD]
      exact not_leak_of_name h rfl
    · cases hd : dget e.inv (.pos i) with
      | none => simpa [Option.getD] using hl
      | some x =>
        by_cases hne : r.leak = []
        · simp [hne]
        · exact absurd (h.leakAll _ (by simp [hd]) hne) hl


/-- the header maps LazySparse gets from a list of column names -/
def invOfNames (ns : List String) : KMap := ns.zipIdx.map (fun p => (Key.pos p.2, Key.name p.1))
def fwdOfNames (ns : List String) : KMap := ns.zipIdx.map (fun p => (Key.name p.1, Key.pos p.2))

theorem fwd_swap (ns : List String) : fwdOfNames ns = swapList (invOfNames ns) := by
  simp [fwdOfNames, invOfNames, swapList, Function.comp_def]

theorem nodup_zipIdx_name (ns : List String) (k : Nat) (h : ns.Nodup) : ((ns.zipIdx k).map (fun p => Key.name p.1)).Nodup := by
  induction ns generalizing k with
  | nil => simp
  | cons x t ih =>
    rw [List.nodup_cons] at h
    simp only [List.zipIdx_cons, List.map_cons, List.nodup_cons]
    refine ⟨?_, ih (k + 1) h.2⟩
    intro hm
    simp only [List.mem_map] at hm
    obtain ⟨p, hp, hpe⟩ := hm
    have h1 : p.1 ∈ t := by
      have := List.mem_zipIdx hp
      obtain ⟨_, _, hx⟩ := this
      rw [hx]; exact List.getElem_mem _
    simp at hpe
    exact h.1 (hpe ▸ h1)

theorem bij_invOfNames (ns : List String) (h : ns.Nodup) : Bij (invOfNames ns) := by
  constructor
  · simpa [invOfNames, Function.comp_def] using nodup_zipIdx_pos ns 0
  · simpa [invOfNames, Function.comp_def] using nodup_zipIdx_name ns 0 h

theorem shape_invOfNames (ns : List String) : ∀ p ∈ invOfNames ns, ∃ i n, p = (Key.pos i, Key.name n) := by
  intro p hp
  simp only [invOfNames, List.mem_map] at hp
  obtain ⟨q, _, rfl⟩ := hp
  exact ⟨q.2, q.1, rfl⟩

theorem renameE_nil {d d' : Dict} (h : renameE [] d = .ok d') : d = [] ∧ d' = [] := by
  cases d with
  | nil => simp [renameE, mapMRes] at h; exact ⟨rfl, h⟩
  | cons p t => simp [renameE, mapMRes, renameEntry, dget] at h

/-- LazySparse as built from raw dict, encoders, "not sparse" set and (possibly no) column names -/
theorem refS_lazy_names (c : Cell Dict) (raw : Dict) (enc : List (Key × Enc)) (nsp : List Key) (ns : List String) (miss : Bool)
    (d1 d2 : Dict) (hc : c.get = raw) (hn : (raw.map (·.1)).Nodup) (hnsp : enc.isEmpty = true → nsp = [])
    (h1 : lazyDictE enc nsp raw = .ok d1) (hns : ns.Nodup) (h2 : renameE (invOfNames ns) d1 = .ok d2) :
    RefS (.lazy c enc nsp (fwdOfNames ns) (invOfNames ns) miss) ⟨d2, none, some miss, invOfNames ns⟩ ∧ (d2.map (·.1)).Nodup := by
  cases ns with
  | nil =>
    have hi : invOfNames [] = [] := rfl
    have hf : fwdOfNames [] = [] := rfl
    rw [hi] at h2 ⊢
    rw [hf]
    obtain ⟨rfl, rfl⟩ := renameE_nil h2
    exact refS_lazy_nohdr c raw enc nsp miss [] none hc hn hnsp h1
  | cons x t =>
    rw [fwd_swap]
    exact refS_lazy_hdr c raw enc nsp (invOfNames (x :: t)) miss d1 d2 none hc hn hnsp h1 (bij_invOfNames _ hns)
      (by simp [invOfNames]) h2 (shape_invOfNames _)

theorem zipIdx_map_name (cols : List Col) (k : Nat) :
    (cols.zipIdx k).map (fun p => (Key.pos p.2, Key.name p.1.name)) = ((cols.map (·.name)).zipIdx k).map (fun p => (Key.pos p.2, Key.name p.1)) := by
  induction cols generalizing k with
  | nil => rfl
  | cons c t ih => simp [List.zipIdx_cons, ih (k + 1)]

theorem zipIdx_map_name' (cols : List Col) (k : Nat) :
    (cols.zipIdx k).map (fun p => (Key.name p.1.name, Key.pos p.2)) = ((cols.map (·.name)).zipIdx k).map (fun p => (Key.name p.1, Key.pos p.2)) := by
  induction cols generalizing k with
  | nil => rfl
  | cons c t ih => simp [List.zipIdx_cons, ih (k + 1)]

theorem nspOf_nil_of_empty (enc : List (Key × Enc)) (h : enc.isEmpty = true) : nspOf enc = [] := by
  cases enc with
  | nil => rfl
  | cons p t => simp at h

/-- every sparse base row: dict, LazySparse (with or without loader / encoders / header map), ArffReader's rows -/
theorem baseS_refines (b : SBase) (e : EagerS) (hb : eagerBaseS b = .ok e) : RefS (baseS b) e ∧ WFS e := by
  cases b with
  | plain d =>
    simp only [eagerBaseS] at hb
    split at hb
    · rename_i hok
      simp at hb; subst hb
      have hn := (distinct_iff _).1 hok
      exact ⟨refS_plain d hn none, ⟨hn, by simp⟩⟩
    · simp at hb
  | lazy d loader enc hdr miss =>
    simp only [eagerBaseS] at hb
    split at hb
    · rename_i hok
      simp only [Bool.and_eq_true, distinct_iff] at hok
      cases h1 : lazyDictE enc [] d with
      | error er => simp [h1] at hb
      | ok d1 =>
        simp only [h1] at hb
        cases hdr with
        | none =>
          simp at hb; subst hb
          obtain ⟨href, hdn⟩ := refS_lazy_nohdr (mkCell loader d) d enc [] miss d1 none (mkCell_get _ _) hok.1 (fun _ => rfl) h1
          exact ⟨href, ⟨hdn, by simp⟩⟩
        | some ns =>
          simp only at hb
          split at hb
          · rename_i hns
            cases h2 : renameE (ns.zipIdx.map (fun p => (Key.pos p.2, Key.name p.1))) d1 with
            | error er => simp [h2] at hb
            | ok d2 =>
              simp [h2] at hb; subst hb
              obtain ⟨href, hdn⟩ := refS_lazy_names (mkCell loader d) d enc [] ns miss d1 d2 (mkCell_get _ _) hok.1 (fun _ => rfl) h1
                ((distinct_iff _).1 hns) h2
              exact ⟨href, ⟨hdn, by simp⟩⟩
          · simp at hb
    · simp at hb
  | arff cols raw miss =>
    simp only [eagerBaseS] at hb
    split at hb
    · rename_i hok
      simp only [Bool.and_eq_true, distinct_iff] at hok
      cases h1 : lazyDictE (cols.zipIdx.map (fun p => (Key.pos p.2, Col.enc true p.1))) (nspOf (cols.zipIdx.map (fun p => (Key.pos p.2, Col.enc true p.1)))) raw with
      | error er => simp [h1] at hb
      | ok d1 =>
        simp only [h1] at hb
        rw [zipIdx_map_name] at hb
        cases h2 : renameE (((cols.map (·.name)).zipIdx).map (fun p => (Key.pos p.2, Key.name p.1))) d1 with
        | error er => simp [h2] at hb
        | ok d2 =>
          simp [h2] at hb; subst hb
          obtain ⟨href, hdn⟩ := refS_lazy_names (.pending raw) raw _ _ (cols.map (fun (c : Col) => c.name)) miss d1 d2 rfl hok.1 (nspOf_nil_of_empty _) h1 hok.2 h2
          refine ⟨?_, ⟨hdn, by simp⟩⟩
          simp only [baseS, zipIdx_map_name, zipIdx_map_name']
          exact href
    · simp at hb


/-- what `leakSafe` demands of one stage, in terms of the row it is applied to -/
def stageSafe (st : Stage) (r : SRow) : Prop :=
  match st with
  | .headNames ns => ∀ q ∈ ns.zipIdx, Key.pos q.2 ∉ r.leak
  | .headMap m => ∀ q ∈ m, q.2 ∉ r.leak
  | .drop _ pred => predSafe pred r
  | _ => True

theorem headS_refines {r : SRow} {e : EagerS} (h : RefS r e) (hw : WFS e) (inv : KMap) (e' : EagerS)
    (he : eagerHeadS inv e = .ok (some e')) (hfree : ∀ p ∈ inv, p.1 ∉ r.leak) :
    RefS (.head r (swapList inv) (swapMap (swapList inv))) e' ∧ WFS e' := by
  simp only [eagerHeadS] at he
  split at he
  · rename_i hok
    have hb := bij_of_distinct hok
    cases hd : renameE inv e.d with
    | error er => simp [hd] at he
    | ok d' =>
      simp only [hd] at he
      split at he
      · simp at he
      · rename_i lab hlab
        simp at he; subst he
        obtain ⟨href, hdn⟩ := refS_head h hw inv hb d' hd lab hfree
        refine ⟨href, ⟨hdn, ?_⟩⟩
        intro k t hl
        subst hl
        obtain ⟨_, hdg, _, _⟩ := renameE_spec hb hd
        cases hel : e.lab with
        | none => simp [hel] at hlab
        | some kt =>
          obtain ⟨k0, t0⟩ := kt
          simp only [hel] at hlab
          cases hi : dget inv k0 with
          | none => simp [hi] at hlab
          | some n =>
            simp [hi] at hlab
            obtain ⟨rfl, rfl⟩ := hlab
            rw [hdg, (hb.fwd_iff _ k0).2 hi]
            exact hw.lab k0 _ hel
  · simp at he

/-- one stage on a sparse row: if the eager stage is defined, the lazy stage builds a row that refines its result -/
theorem stageS_refines (st : Stage) {r : SRow} {e : EagerS} (h : RefS r e) (hw : WFS e) (hsafe : stageSafe st r) :
    (∀ e', eagerStageS st e = .ok (some e') → ∃ r', applyS st r = .ok (some r') ∧ RefS r' e' ∧ WFS e') ∧
    (eagerStageS st e = .ok none → applyS st r = .ok none) := by
  cases st with
  | headNames ns =>
    simp only [eagerStageS, applyS]
    refine ⟨?_, fun he => absurd he (eagerHeadS_ne_none _ _)⟩
    intro e' he
    have := headS_refines h hw _ e' he (by
      intro p hp
      simp only [List.mem_map] at hp
      obtain ⟨q, hq, rfl⟩ := hp
      exact hsafe q hq)
    have hsw : swapList (ns.zipIdx.map (fun p => (Key.pos p.2, Key.name p.1))) = ns.zipIdx.map (fun p => (Key.name p.1, Key.pos p.2)) := by
      simp [swapList, Function.comp_def]
    rw [hsw] at this
    exact ⟨_, rfl, this.1, this.2⟩
  | headMap m =>
    simp only [eagerStageS, applyS]
    refine ⟨?_, fun he => absurd he (eagerHeadS_ne_none _ _)⟩
    intro e' he
    have := headS_refines h hw _ e' he (by
      intro p hp
      simp only [List.mem_map] at hp
      obtain ⟨q, hq, rfl⟩ := hp
      exact hsafe q hq)
    have hsw : swapList (m.map (fun p => (p.2, Key.name p.1))) = m.map (fun p => (Key.name p.1, p.2)) := by
      simp [swapList, Function.comp_def]
    rw [hsw] at this
    exact ⟨_, rfl, this.1, this.2⟩
  | encodeSeq es =>
    simp only [eagerStageS, applyS]
    refine ⟨?_, by intro he; split at he <;> simp at he⟩
    intro e' he
    cases hd : encodeDictE (es.zipIdx.map (fun p => (Key.pos p.2, p.1))) Enc.apply e.d with
    | error er => simp [hd] at he
    | ok d' =>
      simp [hd] at he; subst he
      obtain ⟨href, hdn⟩ := refS_encode h hw _ d' hd
      refine ⟨_, rfl, href, ⟨hdn, ?_⟩⟩
      intro k t hl
      obtain ⟨_, hdg, hsucc, _⟩ := encodeDictN_spec hw.nodup hd
      have hs := hw.lab k t hl
      rw [hdg k]
      cases hdk : dget e.d k with
      | none => simp [hdk] at hs
      | some v =>
        obtain ⟨v', hv'⟩ := hsucc (k, v) (dget_some_mem hdk)
        simp only at hv'
        simp [hv', Except.toOption]
  | encodeMap m =>
    simp only [eagerStageS, applyS]
    refine ⟨?_, by intro he; split at he <;> (try split at he) <;> simp at he⟩
    intro e' he
    split at he
    · cases hd : encodeDictE m Enc.apply e.d with
      | error er => simp [hd] at he
      | ok d' =>
        simp [hd] at he; subst he
        obtain ⟨href, hdn⟩ := refS_encode h hw _ d' hd
        refine ⟨_, rfl, href, ⟨hdn, ?_⟩⟩
        intro k t hl
        obtain ⟨_, hdg, hsucc, _⟩ := encodeDictN_spec hw.nodup hd
        have hs := hw.lab k t hl
        rw [hdg k]
        cases hdk : dget e.d k with
        | none => simp [hdk] at hs
        | some v =>
          obtain ⟨v', hv'⟩ := hsucc (k, v) (dget_some_mem hdk)
          simp only at hv'
          simp [hv', Except.toOption]
    · simp at he
  | drop cols pred =>
    simp only [eagerStageS, applyS]
    cases hp : evalPredE pred e.miss (dget e.d) with
    | error er => simp
    | ok b =>
      rw [evalPredS_of_eager h pred b hp hsafe]
      cases b with
      | false => simp
      | true =>
        simp only
        by_cases hc : cols.isEmpty = true
        · simp only [hc, if_true]
          exact ⟨by intro e' he; simp at he; subst he; exact ⟨r, rfl, h, hw⟩, by simp⟩
        · have hc' : cols.isEmpty = false := by simpa using hc
          simp only [hc', Bool.false_eq_true, if_false]
          refine ⟨?_, by intro he; split at he <;> (try split at he) <;> simp at he⟩
          intro e' he
          have hwf : ∀ lab : Option (Key × Option String), (∀ k t, lab = some (k, t) → e.lab = some (k, t) ∧ cols.contains k = false) →
              WFS ⟨e.d.filter (fun p => !cols.contains p.1), lab, e.miss, e.inv⟩ := by
            intro lab hl
            refine ⟨nodup_filter_keys (fun k => !cols.contains k) hw.nodup, ?_⟩
            intro k t hlk
            obtain ⟨h1, h2⟩ := hl k t hlk
            rw [dget_filter_key e.d (fun k => !cols.contains k) k]
            simp only [h2, Bool.not_false, if_true]
            exact hw.lab k t h1
          split at he
          · rename_i k t hel
            split at he
            · simp at he
            · rename_i hck
              simp only [Except.ok.injEq, Option.some.injEq] at he; subst he
              refine ⟨_, rfl, refS_drop h hw cols _, hwf _ ?_⟩
              intro k' t' hl
              injection hl with hl; injection hl with hk ht; subst hk; subst ht
              exact ⟨hel, by simpa using hck⟩
          · simp only [Except.ok.injEq, Option.some.injEq] at he; subst he
            exact ⟨_, rfl, refS_drop h hw cols _, hwf _ (by intro k t hl; cases hl)⟩
  | label k t =>
    simp only [eagerStageS, applyS]
    refine ⟨?_, by simp⟩
    intro e' he
    simp at he; subst he
    rw [h.inv]
    refine ⟨_, rfl, refS_label h hw (labelKey e.inv k) t _, ⟨nodup_labelDict (labelKey e.inv k) hw.nodup, ?_⟩⟩
    intro k' t' hl
    injection hl with hl; injection hl with hk ht; subst hk
    have := dget_labelDict e.d (labelKey e.inv k) (labelKey e.inv k)
    simp only [labelDict] at this
    rw [this]
    cases dget e.d (labelKey e.inv k) <;> simp
  | enccat t =>
    cases t with
    | none =>
      simp only [eagerStageS, applyS]
      exact ⟨by intro e' he; simp at he; subst he; exact ⟨r, rfl, h, hw⟩, by simp⟩
    | some m =>
      simp only [eagerStageS, applyS, h.items, toDict_of_nodup e.d hw.nodup]
      refine ⟨?_, by split <;> simp⟩
      intro e' he
      split at he
      · rename_i hcat
        simp at he; subst he
        have hn := nodup_catEncodeDict m e.d hw.nodup
        exact ⟨_, by simp [hcat], refS_plain _ hn none, ⟨hn, by simp⟩⟩
      · rename_i hcat
        simp at he; subst he
        exact ⟨r, by simp [hcat], h, hw⟩


theorem leakSafe_mono (stages : List Stage) (h : leakSafe true stages = true) : leakSafe false stages = true := by
  induction stages with
  | nil => rfl
  | cons st rest ih =>
    cases st with
    | headNames ns => simp [leakSafe] at h
    | headMap m => simp only [leakSafe, Bool.and_eq_true] at h ⊢; exact ⟨by simp, h.2⟩
    | drop cols pred =>
      cases pred with
      | none => simp only [leakSafe] at h ⊢; exact ih h
      | some p =>
        cases p with
        | missing => simp only [leakSafe] at h ⊢; exact ih h
        | cellEq k v => simp only [leakSafe, Bool.and_eq_true] at h ⊢; exact ⟨by simp, ih h.2⟩
    | encodeSeq es => simp only [leakSafe] at h ⊢; exact ih h
    | encodeMap m => simp only [leakSafe] at h ⊢; exact ih h
    | label k t => simp only [leakSafe] at h ⊢; exact ih h
    | enccat t => simp only [leakSafe] at h ⊢; exact ih h

/-- one step of the pipeline under `leakSafe`: the stage is safe for the row, and the rest is safe for the row it builds -/
theorem leakSafe_step (st : Stage) (rest : List Stage) {r r1 : SRow} {e : EagerS} (h : RefS r e)
    (happ : applyS st r = .ok (some r1)) (hs : leakSafe (!r.leak.isEmpty) (st :: rest) = true) :
    stageSafe st r ∧ leakSafe (!r1.leak.isEmpty) rest = true := by
  have hflag : ∀ l : List Key, (!l.isEmpty) = false → l = [] := by
    intro l hl; cases l <;> simp_all
  cases st with
  | headNames ns =>
    simp only [leakSafe, Bool.and_eq_true] at hs
    simp only [applyS] at happ
    simp at happ; subst happ
    refine ⟨?_, by simpa [SRow.leak] using hs.2⟩
    have : r.leak = [] := hflag _ (by simpa using hs.1)
    intro q _; simp [this]
  | headMap m =>
    simp only [leakSafe, Bool.and_eq_true] at hs
    simp only [applyS] at happ
    simp at happ; subst happ
    refine ⟨?_, by simpa [SRow.leak] using hs.2⟩
    intro q hq
    rcases (Bool.or_eq_true_iff.1 hs.1) with h1 | h1
    · have : r.leak = [] := hflag _ (by simpa using h1)
      simp [this]
    · exact not_leak_of_name h (List.all_eq_true.1 h1 q hq)
  | encodeSeq es =>
    simp only [applyS] at happ; simp at happ; subst happ
    exact ⟨trivial, by simpa [leakSafe, SRow.leak] using hs⟩
  | encodeMap m =>
    simp only [applyS] at happ; simp at happ; subst happ
    exact ⟨trivial, by simpa [leakSafe, SRow.leak] using hs⟩
  | label k t =>
    simp only [applyS] at happ; simp at happ; subst happ
    exact ⟨trivial, by simpa [leakSafe, SRow.leak] using hs⟩
  | drop cols pred =>
    have hleak : r1.leak = r.leak := by
      simp only [applyS] at happ
      cases hp : evalPredS pred r with
      | error er => simp [hp] at happ
      | ok b =>
        cases b with
        | false => simp [hp] at happ
        | true =>
          simp only [hp] at happ
          split at happ <;> (simp at happ; subst happ; rfl)
    rw [hleak]
    cases pred with
    | none => exact ⟨trivial, by simpa [leakSafe] using hs⟩
    | some p =>
      cases p with
      | missing => exact ⟨trivial, by simpa [leakSafe] using hs⟩
      | cellEq k v =>
        simp only [leakSafe, Bool.and_eq_true] at hs
        refine ⟨?_, hs.2⟩
        simp only [stageSafe, predSafe]
        rcases (Bool.or_eq_true_iff.1 hs.1) with h1 | h1
        · have : r.leak = [] := hflag _ (by simpa using h1)
          simp [this]
        · exact not_leak_of_name h h1
  | enccat t =>
    simp only [leakSafe] at hs
    refine ⟨trivial, ?_⟩
    cases t with
    | none => simp only [applyS] at happ; simp at happ; subst happ; exact hs
    | some m =>
      simp only [applyS] at happ
      cases hi : r.items with
      | error er => simp [hi] at happ
      | ok its =>
        simp only [hi] at happ
        split at happ
        · simp at happ; subst happ
          cases hle : r.leak.isEmpty with
          | true => simpa [SRow.leak, hle] using hs
          | false => simp only [hle, Bool.not_false] at hs; simpa [SRow.leak] using leakSafe_mono _ hs
        · simp at happ; subst happ; exact hs

theorem buildS_refines (stages : List Stage) {r : SRow} {e : EagerS} (h : RefS r e) (hw : WFS e)
    (hs : leakSafe (!r.leak.isEmpty) stages = true) :
    (∀ e', eagerS stages e = .ok (some e') → ∃ r', buildS stages r = .ok (some r') ∧ RefS r' e' ∧ WFS e') ∧
    (eagerS stages e = .ok none → buildS stages r = .ok none) := by
  induction stages generalizing r e with
  | nil =>
    simp only [eagerS, buildS]
    exact ⟨by intro e' he; simp at he; subst he; exact ⟨r, rfl, h, hw⟩, by simp⟩
  | cons st rest ih =>
    simp only [eagerS, buildS]
    cases hse : eagerStageS st e with
    | error er => simp
    | ok o =>
      -- the stage is safe: obtained from leakSafe once we know what the stage builds; the head/pred parts do not depend on it
      have hsafe : stageSafe st r := by
        cases st with
        | headNames ns =>
          exact (leakSafe_step (.headNames ns) rest h rfl hs).1
        | headMap m => exact (leakSafe_step (.headMap m) rest h rfl hs).1
        | encodeSeq es => trivial
        | encodeMap m => trivial
        | label k t => trivial
        | enccat t => trivial
        | drop cols pred =>
          cases pred with
          | none => trivial
          | some p =>
            cases p with
            | missing => trivial
            | cellEq k v =>
              simp only [leakSafe, Bool.and_eq_true] at hs
              simp only [stageSafe, predSafe]
              rcases (Bool.or_eq_true_iff.1 hs.1) with h1 | h1
              · have : r.leak = [] := by cases hl : r.leak <;> simp_all
                simp [this]
              · exact not_leak_of_name h h1
      obtain ⟨h1, h2⟩ := stageS_refines st h hw hsafe
      cases o with
      | none => rw [h2 hse]; simp
      | some e1 =>
        obtain ⟨r1, hr1, href, hwf⟩ := h1 e1 hse
        rw [hr1]
        exact ih href hwf (leakSafe_step st rest h hr1 hs).2

/-- the lazy pipeline refines the eager pipeline (sparse), for every base row -/
theorem sparse_refines (b : SBase) (stages : List Stage) (hs : leakSafe (!(baseS b).leak.isEmpty) stages = true) (e0 : EagerS)
    (he0 : eagerBaseS b = .ok e0) :
    (∀ e, eagerS stages e0 = .ok (some e) → ∃ r, buildS stages (baseS b) = .ok (some r) ∧ RefS r e ∧ WFS e) ∧
    (eagerS stages e0 = .ok none → buildS stages (baseS b) = .ok none) := by
  obtain ⟨h, hw⟩ := baseS_refines b e0 he0
  exact buildS_refines stages h hw hs

theorem sparse_ref' (b : SBase) (stages : List Stage) (hs : leakSafe (!(baseS b).leak.isEmpty) stages = true) (e0 e : EagerS) (r : SRow)
    (he0 : eagerBaseS b = .ok e0) (he : eagerS stages e0 = .ok (some e))
    (hr : buildS stages (baseS b) = .ok (some r)) : RefS r e ∧ WFS e := by
  obtain ⟨r', hr', href, hwf⟩ := (sparse_refines b stages hs e0 he0).1 e he
  rw [hr] at hr'; cases hr'; exact ⟨href, hwf⟩


/-! ### observations on sparse rows (key sets are compared as sets, dicts as finite maps) -/

/-- two observations agree: key sets as sets, dicts as finite maps, everything else literally -/
def Obs.agree : Obs → Obs → Prop
  | .keys a, .keys b => a.Nodup ∧ ∀ k, k ∈ a ↔ k ∈ b
  | .dict a, .dict b => (a.map (·.1)).Nodup ∧ ∀ k, dget a k = dget b k
  | .val a, .val b => a = b
  | .nat a, .nat b => a = b
  | .bool a, .bool b => a = b
  | .ostr a, .ostr b => a = b
  | .err, .err => True
  | _, _ => False


theorem obsS_of_ref {r : SRow} {e : EagerS} (h : RefS r e) (hw : WFS e) (a : Acc)
    (hna : match a with | .label => False | .tipe => False | .feats _ => False | .clone _ => False | .name k => k ∉ r.leak | _ => True)
    (hdef : eagerObsS e a ≠ .undef) : (obsS r a).agree (eagerObsS e a) := by
  obtain ⟨ks, hks, hknd, hkm⟩ := h.keys
  cases a with
  | pos i => simp [eagerObsS] at hdef
  | name k =>
    simp only [eagerObsS] at hdef
    simp only [obsS, eagerObsS, h.get k hna]
    cases hg : dget e.d k with
    | none => simp [hg] at hdef
    | some v => simp [optRes, ofRes, Obs.agree]
  | iter =>
    simp only [obsS, eagerObsS, hks, ofRes, Obs.agree]
    exact ⟨hknd, fun k => by rw [hkm k, dget_isSome_iff_mem]⟩
  | keys =>
    simp only [obsS, eagerObsS, hks, ofRes, Obs.agree]
    exact ⟨hknd, fun k => by rw [hkm k, dget_isSome_iff_mem]⟩
  | items =>
    simp only [obsS, eagerObsS, h.items, ofRes, Obs.agree]
    exact ⟨hw.nodup, fun _ => trivial⟩
  | copy =>
    simp only [obsS, eagerObsS, h.items, ofRes, Obs.agree, toDict_of_nodup e.d hw.nodup]
    exact ⟨hw.nodup, fun _ => trivial⟩
  | len => simp [obsS, eagerObsS, h.len, ofRes, Obs.agree]
  | headers => simp [eagerObsS] at hdef
  | eq o =>
    cases o with
    | list l => simp [eagerObsS] at hdef
    | dict d => simp [obsS, eagerObsS, SRow.eqDict, h.items, toDict_of_nodup e.d hw.nodup, Obs.agree]
  | label => exact absurd hna id
  | tipe => exact absurd hna id
  | feats s => exact absurd hna id
  | clone s => exact absurd hna id

theorem eagerS_append (s1 s2 : List Stage) (e : EagerS) :
    eagerS (s1 ++ s2) e = (match eagerS s1 e with
      | .ok (some e1) => eagerS s2 e1
      | .ok none => .ok none
      | .error er => .error er) := by
  induction s1 generalizing e with
  | nil => simp [eagerS]
  | cons st rest ih =>
    simp only [List.cons_append, eagerS]
    cases eagerStageS st e with
    | error er => rfl
    | ok o => cases o with
      | none => rfl
      | some e1 => exact ih e1

theorem buildS_append (s1 s2 : List Stage) (r : SRow) :
    buildS (s1 ++ s2) r = (match buildS s1 r with
      | .ok (some r1) => buildS s2 r1
      | .ok none => .ok none
      | .error er => .error er) := by
  induction s1 generalizing r with
  | nil => simp [buildS]
  | cons st rest ih =>
    simp only [List.cons_append, buildS]
    cases applyS st r with
    | error er => rfl
    | ok o => cases o with
      | none => rfl
      | some r1 => exact ih r1

theorem feats_filter_eq (d : Dict) (k : Key) :
    (labelDict d k).filter (fun p => decide (p.1 ≠ k)) = d.filter (fun p => !([k] : List Key).contains p.1) := by
  have hc : ∀ p : Key × Val, decide (p.1 ≠ k) = !([k] : List Key).contains p.1 := by
    intro p; by_cases h : p.1 = k <;> simp [h]
  unfold labelDict
  split
  · exact List.filter_congr (fun p _ => hc p)
  · rw [List.filter_append]
    simp only [List.filter_cons, List.filter_nil]
    simp

/-- LabelRows as the last stage of a sparse pipeline -/
theorem labelS_last {r0 : SRow} {e0 : EagerS} (h : RefS r0 e0) (hw : WFS e0) (k : Key) (t : Option String) (e : EagerS)
    (he : eagerStageS (.label k t) e0 = .ok (some e)) :
    ∃ r f ef v, applyS (.label k t) r0 = .ok (some r) ∧ RefS r e ∧
      r.feats = .ok f ∧ e.feats = some ef ∧ RefS f ef ∧
      r.labelVal = .ok v ∧ e.labelVal = some v ∧ r.tipe = .ok t ∧ e.lab.map (·.2) = some t := by
  simp only [eagerStageS] at he
  simp only [Except.ok.injEq, Option.some.injEq] at he
  subst he
  have hk : labelKey r0.invOf k = labelKey e0.inv k := by rw [h.inv]
  have hnl : labelKey e0.inv k ∉ r0.leak := labelKey_not_leak h k
  generalize labelKey e0.inv k = k' at hk hnl
  have href := refS_label h hw k' t (some (k', t))
  have hlv : ∃ v, dget (labelDict e0.d k') k' = some v := by
    rw [dget_labelDict]
    cases dget e0.d k' with
    | some v => exact ⟨v, rfl⟩
    | none => exact ⟨.int 0, by simp⟩
  obtain ⟨v, hv⟩ := hlv
  have hdrop := refS_drop h hw [k'] none
  refine ⟨.label r0 k' t, .drop r0 [k'], _, v, by simp only [applyS, hk], ?_, rfl, rfl, ?_, ?_, ?_, rfl, rfl⟩
  · exact href
  · have := feats_filter_eq e0.d k'
    simp only [labelDict] at this
    rw [this]
    exact hdrop
  · simp only [SRow.labelVal, SRow.labelOf]
    have := href.get k' hnl
    simp only [labelDict] at this hv
    rw [this, hv]; rfl
  · simp only [EagerS.labelVal]
    simpa [labelDict] using hv

theorem leakSafe_append_label (b : Bool) (stages : List Stage) (k : Key) (t : Option String)
    (h : leakSafe b (stages ++ [.label k t]) = true) : leakSafe b stages = true := by
  induction stages generalizing b with
  | nil => rfl
  | cons st rest ih =>
    cases st with
    | headNames ns => simp only [List.cons_append, leakSafe, Bool.and_eq_true] at h ⊢; exact ⟨h.1, ih _ h.2⟩
    | headMap m => simp only [List.cons_append, leakSafe, Bool.and_eq_true] at h ⊢; exact ⟨h.1, ih _ h.2⟩
    | drop cols pred =>
      cases pred with
      | none => simp only [List.cons_append, leakSafe] at h ⊢; exact ih _ h
      | some p =>
        cases p with
        | missing => simp only [List.cons_append, leakSafe] at h ⊢; exact ih _ h
        | cellEq k v => simp only [List.cons_append, leakSafe, Bool.and_eq_true] at h ⊢; exact ⟨h.1, ih _ h.2⟩
    | encodeSeq es => simp only [List.cons_append, leakSafe] at h ⊢; exact ih _ h
    | encodeMap m => simp only [List.cons_append, leakSafe] at h ⊢; exact ih _ h
    | label k t => simp only [List.cons_append, leakSafe] at h ⊢; exact ih _ h
    | enccat t => simp only [List.cons_append, leakSafe] at h ⊢; exact ih _ h

theorem feats_label_sparse' (b : SBase) (stages : List Stage) (k : Key) (t : Option String)
    (hs : leakSafe (!(baseS b).leak.isEmpty) (stages ++ [.label k t]) = true) (e0 e : EagerS)
    (he0 : eagerBaseS b = .ok e0) (he : eagerS (stages ++ [.label k t]) e0 = .ok (some e)) :
    ∃ r f ef v, buildS (stages ++ [.label k t]) (baseS b) = .ok (some r) ∧
      r.feats = .ok f ∧ e.feats = some ef ∧ RefS f ef ∧
      r.labelVal = .ok v ∧ e.labelVal = some v ∧ r.tipe = .ok t ∧ e.lab.map (·.2) = some t := by
  rw [eagerS_append] at he
  cases h1 : eagerS stages e0 with
  | error er => simp [h1] at he
  | ok o =>
    cases o with
    | none => simp [h1] at he
    | some e1 =>
      simp only [h1, eagerS] at he
      obtain ⟨r1, hr1, href, hwf⟩ := (sparse_refines b stages (leakSafe_append_label _ _ k t hs) e0 he0).1 e1 h1
      cases h2 : eagerStageS (.label k t) e1 with
      | error er => simp [h2] at he
      | ok o2 =>
        cases o2 with
        | none => simp [h2] at he
        | some e2 =>
          simp [h2] at he; subst he
          obtain ⟨r, f, ef, v, happ, _, hf, hef, hreff, hl, hel, ht, helab⟩ := labelS_last href hwf k t e2 h2
          refine ⟨r, f, ef, v, ?_, hf, hef, hreff, hl, hel, ht, helab⟩
          rw [buildS_append, hr1]
          simp [buildS, happ]

def cexBaseS : SBase := .plain [(.pos 0, .int 1), (.pos 1, .int 2)]
def cexStagesS : List Stage := [.label (.pos 1) (some "c"), .encodeMap [(.pos 0, .inc), (.pos 1, .inc)]]

theorem feats_label_sparse_cex' :
    ∃ r e, buildS cexStagesS (baseS cexBaseS) = .ok (some r) ∧
      (match eagerBaseS cexBaseS with | .ok e0 => eagerS cexStagesS e0 | .error er => .error er) = .ok (some e) ∧
      r.items = .ok e.d ∧
      r.labelVal = .ok (.int 2) ∧ e.labelVal = some (.int 3) := by
  refine ⟨_, _, rfl, rfl, rfl, rfl, rfl⟩

/-! ### the load-once cell (sparse) -/

theorem touchS_missing (r : SRow) : r.touch.missing = r.missing := by
  induction r <;> simp_all [SRow.touch, SRow.missing]

theorem touchS_keys (r : SRow) : r.touch.keys = r.keys := by
  induction r <;> simp_all [SRow.touch, SRow.keys, cell_get_touch]

theorem touchS_len (r : SRow) : r.touch.len = r.len := by
  induction r with
  | plain d => rfl
  | lazy c e n f i m => simp [SRow.touch, SRow.len, cell_get_touch]
  | head r f i ih => simpa [SRow.touch, SRow.len] using ih
  | encode r e n ih =>
    have := touchS_keys (.encode r e n)
    simp only [SRow.touch] at this
    simp only [SRow.touch, SRow.len, this]
  | drop r ds ih =>
    have := touchS_keys (.drop r ds)
    simp only [SRow.touch] at this
    simp only [SRow.touch, SRow.len, this]
  | label r k t ih =>
    have := touchS_keys (.label r k t)
    simp only [SRow.touch] at this
    simp only [SRow.touch, SRow.len, this]

theorem touchS_get (r : SRow) (k : Key) : r.touch.get k = r.get k := by
  induction r generalizing k <;> simp_all [SRow.touch, SRow.get, cell_get_touch]

theorem touchS_items (r : SRow) : r.touch.items = r.items := by
  induction r <;> simp_all [SRow.touch, SRow.items, cell_get_touch]

theorem touchS_labelOf (r : SRow) : r.touch.labelOf = r.labelOf.map (fun p => (p.1.touch, p.2)) := by
  induction r <;> simp_all [SRow.touch, SRow.labelOf]

theorem touch_obsS (r : SRow) (a : Acc) : obsS r.touch a = obsS r a := by
  induction a generalizing r with
  | pos i => rfl
  | name k => simp [obsS, touchS_get]
  | iter => simp [obsS, touchS_keys]
  | keys => simp [obsS, touchS_keys]
  | items => simp [obsS, touchS_items]
  | copy => simp [obsS, touchS_items]
  | len => simp [obsS, touchS_len]
  | headers => rfl
  | eq o => cases o <;> simp [obsS, SRow.eqDict, touchS_items]
  | label =>
    simp only [obsS, SRow.labelVal, touchS_labelOf]
    cases r.labelOf with
    | none => rfl
    | some p =>
      have := touchS_get (.label p.1 p.2.1 p.2.2) p.2.1
      simp only [SRow.touch] at this
      simp [this]
  | tipe =>
    simp only [obsS, SRow.tipe, touchS_labelOf]
    cases r.labelOf <;> rfl
  | feats s ih =>
    simp only [obsS, SRow.feats, touchS_labelOf]
    cases r.labelOf with
    | none => rfl
    | some p => exact ih (.drop p.1 [p.2.1])
  | clone s ih => simpa [obsS] using ih r

theorem runS_eq_map (r : SRow) (as : List Acc) : runS r as = as.map (obsS r) := by
  induction as generalizing r with
  | nil => rfl
  | cons a t ih =>
    simp only [runS, stepS, List.map_cons, ih]
    congr 1
    apply List.map_congr_left
    intro b _
    exact touch_obsS r b

/-- a header-mapped LazySparse row (as ArffReader builds them) also answers to its raw integer keys:
the two-sided by-key statement needs `simpleBase` -/
def cexLeakBase : SBase := .lazy [(.pos 0, .int 7)] false [] (some ["a"]) false

theorem sparse_get_leak_cex' :
    ∃ e, eagerBaseS cexLeakBase = .ok e ∧ dget e.d (.pos 0) = none ∧ dget e.d (.name "a") = some (.int 7) ∧
      (baseS cexLeakBase).get (.pos 0) = .ok (.int 7) ∧ (baseS cexLeakBase).get (.name "a") = .ok (.int 7) ∧
      Key.pos 0 ∈ (baseS cexLeakBase).leak :=
  ⟨_, rfl, rfl, rfl, rfl, rfl, by decide⟩

def exBaseS : SBase := .lazy [(.name "a", .str "1"), (.name "b", .str "2")] true [] none false
def exStagesS : List Stage :=
  [.encodeMap [(.name "a", .toInt), (.name "c", .toStr)], .drop [.name "b"] none, .label (.name "y") (some "c")]



/-- the sparse base is a dict or a LazySparse without header map -/
def simpleBase : SBase → Prop
  | .plain _ => True
  | .lazy _ _ _ hdr _ => hdr = none
  | .arff _ _ _ => False

theorem leakSafe_false (stages : List Stage) : leakSafe false stages = true := by
  induction stages with
  | nil => rfl
  | cons st rest ih =>
    cases st with
    | drop cols pred =>
      cases pred with
      | none => simpa [leakSafe] using ih
      | some p => cases p <;> simpa [leakSafe] using ih
    | _ => simpa [leakSafe] using ih

theorem simpleBase_leak (b : SBase) (h : simpleBase b) : (baseS b).leak = [] := by
  cases b with
  | plain d => rfl
  | lazy d loader enc hdr miss => simp only [simpleBase] at h; subst h; rfl
  | arff cols raw miss => exact absurd h id

/-- a base without header map has no hidden keys: every pipeline is `leakSafe` over it -/
theorem leakSafe_of_simpleBase (b : SBase) (h : simpleBase b) (stages : List Stage) :
    leakSafe (!(baseS b).leak.isEmpty) stages = true := by
  rw [simpleBase_leak b h]; exact leakSafe_false stages

/-- EncodeCatRows on a lazy dense row = EncodeCatRows on the eager list (all three modes) -/
theorem enccatD_eq' (m : CatMode) {r : DRow} {e : EagerD} (h : RefD r e) :
    applyD (.enccat (some m)) r = .ok (some (if hasCat e.cells then .plain (catEncodeList m e.cells) else r)) ∧
    eagerStageD (.enccat (some m)) e = .ok (some (if hasCat e.cells then ⟨catEncodeList m e.cells, none, none, none⟩ else e)) := by
  simp only [applyD, eagerStageD, h.iter]
  constructor <;> split <;> rfl

/-- EncodeCatRows on a lazy sparse row = EncodeCatRows on the eager dict (all three modes) -/
theorem enccatS_eq' (m : CatMode) {r : SRow} {e : EagerS} (h : RefS r e) (hw : WFS e) :
    applyS (.enccat (some m)) r = .ok (some (if hasCatD e.d then .plain (catEncodeDict m e.d) else r)) ∧
    eagerStageS (.enccat (some m)) e = .ok (some (if hasCatD e.d then ⟨catEncodeDict m e.d, none, none, []⟩ else e)) ∧
    ((catEncodeDict m e.d).map (·.1)).Nodup := by
  simp only [applyS, eagerStageS, h.items, toDict_of_nodup e.d hw.nodup]
  refine ⟨?_, ?_, nodup_catEncodeDict m e.d hw.nodup⟩ <;> split <;> rfl

def exArffS : SBase := .arff [⟨"a", .num⟩, ⟨"b", .cat ["p", "q"]⟩] [(.pos 0, .str "3")] false
def exArffStages : List Stage := [.enccat (some .onehotTuple), .label (.name "b") (some "c")]

end Coba.C13

namespace Coba.C13

/-- the filter objects carry nothing from one `filter()` call to the next: what a table yields in a session is what it yields alone -/
theorem session_eq_map (fs : List Stage) (ts : List Table) : session fs ts = ts.map (fun t => (runTable fs t).1) := by
  induction ts generalizing fs with
  | nil => rfl
  | cons t rest ih =>
    have : (runTable fs t).2 = fs := by cases t <;> rfl
    simp only [session, List.map_cons, this, ih]

theorem session_pair' (fs : List Stage) (A B : Table) : (session fs [A, B])[1]? = (session fs [B])[0]? := by
  rw [session_eq_map, session_eq_map]; rfl


theorem mem_catIdx_aux (vs : List Val) (k : Nat) (v : Val) (i : Nat) (h : (v, i) ∈ vs.zipIdx k) :
    i ∈ ((vs.zipIdx k).filter (fun p => isCat p.1)).map (·.2) ↔ isCat v = true := by
  induction vs generalizing k with
  | nil => simp at h
  | cons x t ih =>
    simp only [List.zipIdx_cons, List.mem_cons] at h
    simp only [List.zipIdx_cons, List.filter_cons]
    have hge : ∀ p ∈ t.zipIdx (k + 1), k + 1 ≤ p.2 := by
      intro p hp; have := List.mem_zipIdx hp; omega
    rcases h with h | h
    · obtain ⟨rfl, rfl⟩ := Prod.mk.inj h
      by_cases hc : isCat v = true
      · simp [hc]
      · simp only [hc, Bool.false_eq_true, if_false, iff_false]
        intro hm
        obtain ⟨p, hp, hpe⟩ := List.mem_map.1 hm
        have := hge p (List.mem_filter.1 hp).1
        omega
    · have hi := hge _ h
      have hne : i ≠ k := by simp at hi; omega
      by_cases hc : isCat x = true
      · simp only [hc, if_true, List.map_cons, List.mem_cons, hne, false_or]
        exact ih (k + 1) h
      · simp only [hc, Bool.false_eq_true, if_false]
        exact ih (k + 1) h

theorem encodeCatCell_not_cat (m : CatMode) (v : Val) (h : isCat v = false) : encodeCatCell m v = [v] := by
  cases v <;> simp_all [isCat, encodeCatCell]

/-- with the categorical positions of the row itself, the positional encoding is the per-row encoding -/
theorem catEncodeAt_self (m : CatMode) (vs : List Val) : catEncodeAt m (catIdx vs) vs = .ok (catEncodeList m vs) := by
  have hall : (catIdx vs).all (fun k => k < vs.length) = true := by
    simp only [List.all_eq_true, catIdx, List.mem_map, decide_eq_true_eq]
    rintro k ⟨p, hp, rfl⟩
    have := List.mem_zipIdx (List.mem_filter.1 hp).1
    omega
  have hparts : vs.zipIdx.map (fun p => if (catIdx vs).contains p.2 then encodeCell m p.1 else .ok [p.1])
      = (vs.zipIdx.map (fun p => encodeCatCell m p.1)).map .ok := by
    rw [List.map_map]
    apply List.map_congr_left
    intro p hp
    obtain ⟨v, i⟩ := p
    have hm := mem_catIdx_aux vs 0 v i hp
    simp only [Function.comp]
    by_cases hc : isCat v = true
    · have : (catIdx vs).contains i = true := by
        rw [List.contains_iff_mem]; exact hm.2 hc
      simp only [this, if_true, encodeCell, hc]
    · have hc' : isCat v = false := by simpa using hc
      have : (catIdx vs).contains i = false := by
        cases hcc : (catIdx vs).contains i with
        | false => rfl
        | true => exact absurd (hm.1 (List.contains_iff_mem.1 hcc)) hc
      simp only [this, Bool.false_eq_true, if_false, encodeCatCell_not_cat m v hc']
  have hfl : (vs.zipIdx.map (fun p => encodeCatCell m p.1)).flatten = vs.flatMap (encodeCatCell m) := by
    have : vs.zipIdx.map (fun p => encodeCatCell m p.1) = vs.map (encodeCatCell m) := by
      conv => rhs; rw [← List.zipIdx_map_fst 0 vs, List.map_map]
      rfl
    rw [this, List.flatMap_def]
  simp only [catEncodeAt, hall, if_true, hparts, sequence_map_ok, catEncodeList, hfl]

theorem catIdx_isEmpty (vs : List Val) : (catIdx vs).isEmpty = !hasCat vs := by
  have key : ∀ (l : List Val) (k : Nat), (((l.zipIdx k).filter (fun p => isCat p.1)).map (·.2)).isEmpty = !l.any isCat := by
    intro l
    induction l with
    | nil => intro k; rfl
    | cons y u ihu =>
      intro k
      simp only [List.zipIdx_cons, List.filter_cons, List.any_cons]
      by_cases hc : isCat y = true
      · simp [hc]
      · simp only [hc, Bool.false_eq_true, if_false, Bool.false_or]; exact ihu (k + 1)
  exact key vs 0


theorem headers_error (r : DRow) (e : Err) (h : r.headers = .error e) : e = .attrError := by
  induction r with
  | plain v => simp [DRow.headers] at h; exact h.symm
  | lazy c en hd m => cases hd <;> simp [DRow.headers] at h; exact h.symm
  | head r hd ih => simp [DRow.headers] at h
  | encode r es ih => exact ih h
  | keep r a b c d hd ih => cases hd with
    | none => exact ih h
    | some x => simp [DRow.headers] at h
  | label r i t ih => exact ih h
  | dropOne r i ih =>
    simp only [DRow.headers] at h
    cases hr : r.headers with
    | error e' => rw [hr] at h; simp at h; subst h; exact ih hr
    | ok x => rw [hr] at h; simp at h

/-- when the row looks like the first row, deriving the filter's arguments from the first row or from the row itself is the same -/
theorem applyD1_eq (st : Stage) (f r : DRow) (h : sameShape f r = true) : applyD1 st f r = applyD st r := by
  simp only [sameShape, Bool.and_eq_true] at h
  obtain ⟨⟨hlen, hhdr⟩, hit⟩ := h
  have hlen' : f.len = r.len := by simpa using hlen
  have hencs : ∀ m, encsOf m f = encsOf m r := by
    intro m
    simp only [encsOf, hlen']
    cases hf : f.headers <;> cases hr : r.headers <;> simp_all
  have hargs : ∀ cols, dropArgsOf f cols = dropArgsOf r cols := by
    intro cols
    simp only [dropArgsOf, hlen']
    cases hf : f.headers <;> cases hr : r.headers <;> simp_all
  cases st with
  | headNames ns => rfl
  | headMap m => rfl
  | encodeSeq es => rfl
  | encodeMap m => simp only [applyD1, applyD, hencs]
  | drop cols pred => simp only [applyD1, applyD, hargs]
  | label k t =>
    cases k with
    | pos i => rfl
    | name s =>
      simp only [applyD1, applyD]
      cases hf : f.headers with
      | error e1 =>
        cases hr : r.headers with
        | error e2 => rw [headers_error f e1 hf, headers_error r e2 hr]
        | ok b => simp [hf, hr] at hhdr
      | ok a =>
        cases hr : r.headers with
        | error e2 => simp [hf, hr] at hhdr
        | ok b => simp [hf, hr] at hhdr; subst hhdr; rfl
  | enccat t =>
    cases t with
    | none => rfl
    | some m =>
      simp only [applyD1, applyD]
      cases hf : f.iter with
      | error e => simp [hf] at hit
      | ok fv =>
        cases hr : r.iter with
        | error e => simp [hf, hr] at hit
        | ok vs =>
          simp only [hf, hr] at hit ⊢
          have hidx : catIdx fv = catIdx vs := by simpa using hit
          rw [hidx, catIdx_isEmpty, catEncodeAt_self]
          cases hasCat vs <;> simp

theorem mapMRes_congr {α β} {f g : α → Res β} {l : List α} (h : ∀ a ∈ l, f a = g a) : mapMRes f l = mapMRes g l := by
  induction l with
  | nil => rfl
  | cons a t ih => simp only [mapMRes, h a (by simp), ih (fun b hb => h b (by simp [hb]))]

theorem stageTable1_eq (st : Stage) (rows : List DRow)
    (h : (match rows with | [] => true | f :: _ => rows.all (sameShape f)) = true) :
    stageTable1 st rows = stageTable0 st rows := by
  cases rows with
  | nil => rfl
  | cons f t =>
    simp only [stageTable1, stageTable0]
    congr 1
    apply mapMRes_congr
    intro r hr
    exact applyD1_eq st f r (List.all_eq_true.1 h r hr)

/-- on a table whose rows look alike at every stage, looking at the first row (the code) or at each row (the theorems) is the same -/
theorem runStages1_eq (stages : List Stage) (rows : List DRow) (h : uniformRun stages rows = true) :
    runStages1 stages rows = runStages0 stages rows := by
  induction stages generalizing rows with
  | nil => rfl
  | cons st rest ih =>
    simp only [uniformRun, Bool.and_eq_true] at h
    have h1 := stageTable1_eq st rows h.1
    simp only [runStages1, runStages0, ← h1]
    cases hs : stageTable1 st rows with
    | error e => rfl
    | ok rows' =>
      have := h.2
      simp only [hs] at this
      exact ih rows' this

theorem collect_ok {α} {rs : Res (List (Option α))} {out : List α} (h : collect rs = .ok out) :
    ∃ os, rs = .ok os ∧ out = os.filterMap id := by
  cases rs with
  | error e => simp [collect] at h
  | ok os => simp [collect] at h; exact ⟨os, rfl, h.symm⟩

theorem mapMRes_cons_ok {α β} {f : α → Res β} {a : α} {t : List α} {b : β} {bs : List β}
    (h1 : f a = .ok b) (h2 : mapMRes f t = .ok bs) : mapMRes f (a :: t) = .ok (b :: bs) := by
  simp only [mapMRes, h1, h2]

theorem buildD_compose (st : Stage) (rest : List Stage) (rows : List DRow) (os1 os2 : List (Option DRow))
    (h1 : mapMRes (applyD st) rows = .ok os1) (h2 : mapMRes (buildD rest) (os1.filterMap id) = .ok os2) :
    ∃ os, mapMRes (buildD (st :: rest)) rows = .ok os ∧ os.filterMap id = os2.filterMap id := by
  induction rows generalizing os1 os2 with
  | nil =>
    simp [mapMRes] at h1; subst h1
    simp [mapMRes] at h2; subst h2
    exact ⟨[], rfl, rfl⟩
  | cons r t iht =>
    simp only [mapMRes] at h1
    cases ha : applyD st r with
    | error e => simp [ha] at h1
    | ok o =>
      simp only [ha] at h1
      cases ht : mapMRes (applyD st) t with
      | error e => simp [ht] at h1
      | ok ot =>
        simp [ht] at h1; subst h1
        cases o with
        | none =>
          simp only [List.filterMap_cons, id] at h2
          obtain ⟨os, hos, ho⟩ := iht ot os2 ht h2
          exact ⟨none :: os, mapMRes_cons_ok (by simp [buildD, ha]) hos, by simpa using ho⟩
        | some r1 =>
          simp only [List.filterMap_cons, id, mapMRes] at h2
          cases hb : buildD rest r1 with
          | error e => simp [hb] at h2
          | ok o1 =>
            simp only [hb] at h2
            cases ht2 : mapMRes (buildD rest) (ot.filterMap id) with
            | error e => simp [ht2] at h2
            | ok o2 =>
              simp [ht2] at h2; subst h2
              obtain ⟨os, hos, ho⟩ := iht ot o2 ht ht2
              refine ⟨o1 :: os, mapMRes_cons_ok (by simp [buildD, ha, hb]) hos, ?_⟩
              cases o1 <;> simp [ho]

/-- a table processed stage after stage is the table of the per-row pipelines (`buildD`, what the refinement theorems are about) -/
theorem runStages0_rows (stages : List Stage) (rows out : List DRow) (h : runStages0 stages rows = .ok out) :
    ∃ os, mapMRes (buildD stages) rows = .ok os ∧ out = os.filterMap id := by
  induction stages generalizing rows out with
  | nil =>
    simp [runStages0] at h; subst h
    refine ⟨rows.map some, ?_, by simp [List.filterMap_map]⟩
    apply mapMRes_of_map
    simp [buildD]
  | cons st rest ih =>
    simp only [runStages0] at h
    cases hs : stageTable0 st rows with
    | error e => simp [hs] at h
    | ok rows1 =>
      simp only [hs] at h
      obtain ⟨os1, hos1, hr1⟩ := collect_ok hs
      obtain ⟨os2, hos2, hout⟩ := ih rows1 out h
      subst hr1
      obtain ⟨os, hos, ho⟩ := buildD_compose st rest rows os1 os2 hos1 hos2
      exact ⟨os, hos, by rw [hout, ho]⟩

end Coba.C13

namespace Coba.C13

/-! ## copies of rows inside access histories -/

theorem obsD_strip (r : DRow) (a : Acc) : obsD r a = obsD r a.strip := by
  induction a generalizing r with
  | feats s ih =>
    simp only [obsD, Acc.strip]
    cases r.feats with
    | error e => rfl
    | ok f => exact ih f
  | clone s ih => simpa [obsD, Acc.strip] using ih r
  | _ => rfl

theorem obsS_strip (r : SRow) (a : Acc) : obsS r a = obsS r a.strip := by
  induction a generalizing r with
  | feats s ih =>
    simp only [obsS, Acc.strip]
    cases r.feats with
    | error e => rfl
    | ok f => exact ih f
  | clone s ih => simpa [obsS, Acc.strip] using ih r
  | _ => rfl

theorem eagerObsD_strip (e : EagerD) (a : Acc) : eagerObsD e a = eagerObsD e a.strip := by
  induction a generalizing e with
  | feats s ih =>
    simp only [eagerObsD, Acc.strip]
    cases e.feats with
    | none => rfl
    | some f => exact ih f
  | clone s ih => simpa [eagerObsD, Acc.strip] using ih e
  | _ => rfl

theorem eagerObsS_strip (e : EagerS) (a : Acc) : eagerObsS e a = eagerObsS e a.strip := by
  induction a generalizing e with
  | feats s ih =>
    simp only [eagerObsS, Acc.strip]
    cases e.feats with
    | none => rfl
    | some f => exact ih f
  | clone s ih => simpa [eagerObsS, Acc.strip] using ih e
  | _ => rfl

/-- a history with copies yields what the same history without the copy steps yields -/
theorem runD_strip (r : DRow) (as : List Acc) : runD r as = runD r (as.map Acc.strip) := by
  rw [runD_eq_map, runD_eq_map, List.map_map]
  apply List.map_congr_left
  intro a _
  exact obsD_strip r a

theorem runS_strip (r : SRow) (as : List Acc) : runS r as = runS r (as.map Acc.strip) := by
  rw [runS_eq_map, runS_eq_map, List.map_map]
  apply List.map_congr_left
  intro a _
  exact obsS_strip r a

/-- after an access on a copy, the original answers every later history as before -/
theorem runD_after_clone (r : DRow) (a : Acc) (bs : List Acc) : runD (stepD r (.clone a)).2 bs = runD r bs := by
  rw [runD_eq_map, runD_eq_map]
  apply List.map_congr_left
  intro b _
  exact touch_obsD r b

theorem runS_after_clone (r : SRow) (a : Acc) (bs : List Acc) : runS (stepS r (.clone a)).2 bs = runS r bs := by
  rw [runS_eq_map, runS_eq_map]
  apply List.map_congr_left
  intro b _
  exact touch_obsS r b

end Coba.C13

namespace Coba.C13

/-! ## the first dict of a sparse table -/

theorem dget_dset_ne (d : Dict) (k k' : Key) (v : Val) (h : k' ≠ k) : dget (dset d k v) k' = dget d k' := by
  induction d with
  | nil => simp [dset, dget, Ne.symm h]
  | cons p t ih =>
    obtain ⟨a, b⟩ := p
    simp only [dset]
    split
    · rename_i hak
      have : a ≠ k' := by intro e; exact h (e.symm.trans hak)
      simp [dget, this]
    · simp only [dget, ih]

theorem dget_ddel_ne (d : Dict) (k k' : Key) (h : k' ≠ k) : dget (ddel d k) k' = dget d k' := by
  induction d with
  | nil => rfl
  | cons p t ih =>
    obtain ⟨a, b⟩ := p
    have ih' : dget (t.filter (fun p => decide (p.1 ≠ k))) k' = dget t k' := ih
    by_cases hak : a = k
    · have hne : a ≠ k' := by intro e; exact h (e.symm.trans hak)
      have : ddel ((a, b) :: t) k = t.filter (fun p => decide (p.1 ≠ k)) := by simp [ddel, List.filter_cons, hak]
      rw [this, ih']
      simp [dget, hne]
    · have : ddel ((a, b) :: t) k = (a, b) :: t.filter (fun p => decide (p.1 ≠ k)) := by simp [ddel, List.filter_cons, hak]
      rw [this]
      simp only [dget, ih']

theorem dget_flatSet_ne (d : Dict) (k k' : Key) (hs : List Int) (h : k' ∉ genNames k hs) :
    dget (flatSet d k hs) k' = dget d k' := by
  simp only [flatSet, genNames] at *
  generalize (hs.zipIdx.drop 1) = l at h
  induction l generalizing d with
  | nil => rfl
  | cons p t ih =>
    simp only [List.map_cons, List.mem_cons, not_or] at h
    simp only [List.foldl_cons]
    rw [ih _ h.2, dget_dset_ne _ _ _ _ h.1]

theorem catKeysD_cons_cat (k : Key) (s : String) (lv : List String) (t : Dict) :
    catKeysD ((k, Val.cat s lv) :: t) = k :: catKeysD t := by
  simp [catKeysD, isCat]

theorem catKeysD_cons_not (p : Key × Val) (t : Dict) (h : isCat p.2 = false) : catKeysD (p :: t) = catKeysD t := by
  simp [catKeysD, h]

theorem catStep_not_cat (m : CatMode) (o : Dict) (p : Key × Val) (h : isCat p.2 = false) : catStep m o p = o := by
  obtain ⟨k, v⟩ := p
  cases v <;> simp_all [catStep, isCat]

theorem encodeAtKey_cat (m : CatMode) (o : Dict) (k : Key) (s : String) (lv : List String)
    (h : dget o k = some (Val.cat s lv)) : encodeAtKey m o k = .ok (catStep m o (k, Val.cat s lv)) := by
  cases m <;> simp [encodeAtKey, h, catStep, Enc.apply]

/-- taking the categorical keys of the dict itself, `catset` key by key does what the per-entry description says -/
theorem catEncodeAtD_fold (m : CatMode) (l o : Dict)
    (hget : ∀ p ∈ l, dget o p.1 = some p.2) (hn : (l.map (·.1)).Nodup)
    (hc : ∀ p ∈ l, ∀ s lv, p.2 = Val.cat s lv → ∀ q ∈ l, q.1 ∉ genNames p.1 (onehotOf s lv)) :
    catEncodeAtD m (catKeysD l) o = .ok (l.foldl (catStep m) o) := by
  induction l generalizing o with
  | nil => rfl
  | cons p t ih =>
    obtain ⟨k, v⟩ := p
    simp only [List.map_cons, List.nodup_cons] at hn
    have hc' : ∀ p ∈ t, ∀ s lv, p.2 = Val.cat s lv → ∀ q ∈ t, q.1 ∉ genNames p.1 (onehotOf s lv) :=
      fun p hp s lv e q hq => hc p (List.mem_cons_of_mem _ hp) s lv e q (List.mem_cons_of_mem _ hq)
    by_cases hcat : isCat v = true
    · cases v with
      | cat s lv =>
        rw [catKeysD_cons_cat]
        simp only [catEncodeAtD, List.foldl_cons]
        rw [encodeAtKey_cat m o k s lv (hget (k, _) (by simp))]
        apply ih _ _ hn.2 hc'
        intro q hq
        have hne : q.1 ≠ k := by
          intro e
          exact hn.1 (e ▸ List.mem_map_of_mem (f := (·.1)) hq)
        have hg : q.1 ∉ genNames k (onehotOf s lv) := hc (k, _) (by simp) s lv rfl q (List.mem_cons_of_mem _ hq)
        have hq0 := hget q (List.mem_cons_of_mem _ hq)
        cases m
        · simp only [catStep]; rw [dget_flatSet_ne _ _ _ _ hg, dget_ddel_ne _ _ _ hne]; exact hq0
        · simp only [catStep]; rw [dget_dset_ne _ _ _ _ hne]; exact hq0
        · simp only [catStep]; rw [dget_dset_ne _ _ _ _ hne]; exact hq0
      | _ => simp [isCat] at hcat
    · have hcat' : isCat v = false := by simpa using hcat
      rw [catKeysD_cons_not (k, v) t hcat']
      simp only [List.foldl_cons, catStep_not_cat m o (k, v) hcat']
      exact ih o (fun q hq => hget q (List.mem_cons_of_mem _ hq)) hn.2 hc'

theorem catEncodeAtD_self (m : CatMode) (d : Dict) (hn : (d.map (·.1)).Nodup) (hc : noClash d = true) :
    catEncodeAtD m (catKeysD d) d = .ok (catEncodeDict m d) := by
  apply catEncodeAtD_fold m d d (fun p hp => dget_of_mem_nodup hn hp) hn
  intro p hp s lv e q hq hmem
  simp only [noClash, List.all_eq_true] at hc
  have h1 := hc p hp
  rw [e] at h1
  simp only [List.all_eq_true] at h1
  have h2 := h1 _ hmem
  simp only [Bool.not_eq_true', List.contains_eq_mem, decide_eq_false_iff_not] at h2
  exact h2 (List.mem_map_of_mem (f := (·.1)) hq)

theorem catKeysD_isEmpty (d : Dict) : (catKeysD d).isEmpty = !hasCatD d := by
  induction d with
  | nil => rfl
  | cons p t ih =>
    obtain ⟨k, v⟩ := p
    cases v <;> simp_all [catKeysD, hasCatD, isCat]

/-- when the dict row looks like the first dict, deriving the filter's arguments from the first row or from the row itself is the same -/
theorem applyS1_eq (st : Stage) (f r : SRow) (h : sameShapeS f r = true) : applyS1 st f r = applyS st r := by
  simp only [sameShapeS, Bool.and_eq_true] at h
  obtain ⟨hinv, hit⟩ := h
  have hinv' : f.invOf = r.invOf := by simpa using hinv
  cases st with
  | headNames ns => rfl
  | headMap m => rfl
  | encodeSeq es => rfl
  | encodeMap m => rfl
  | drop cols pred => rfl
  | label k t => simp only [applyS1, applyS, hinv']
  | enccat t =>
    cases t with
    | none => rfl
    | some m =>
      simp only [applyS1, applyS]
      cases hf : f.items with
      | error e => simp [hf] at hit
      | ok fits =>
        cases hr : r.items with
        | error e => simp [hf, hr] at hit
        | ok its =>
          simp only [hf, hr, Bool.and_eq_true, decide_eq_true_eq] at hit ⊢
          obtain ⟨⟨hk, hn⟩, hc⟩ := hit
          have hk' : catKeysD (SRow.toDict fits) = catKeysD (SRow.toDict its) := by simpa using hk
          rw [hk', catKeysD_isEmpty, catEncodeAtD_self m _ hn hc]
          cases hasCatD (SRow.toDict its) <;> simp

theorem stageTableS1_eq (st : Stage) (rows : List SRow)
    (h : (match rows with | [] => true | f :: _ => rows.all (sameShapeS f)) = true) :
    stageTableS1 st rows = stageTableS0 st rows := by
  cases rows with
  | nil => rfl
  | cons f t =>
    simp only [stageTableS1, stageTableS0]
    congr 1
    apply mapMRes_congr
    intro r hr
    exact applyS1_eq st f r (List.all_eq_true.1 h r hr)

/-- on a sparse table whose rows look alike at every stage, looking at the first dict (the code) or at each row (the theorems) is the same -/
theorem runStagesS1_eq (stages : List Stage) (rows : List SRow) (h : uniformRunS stages rows = true) :
    runStagesS1 stages rows = runStagesS0 stages rows := by
  induction stages generalizing rows with
  | nil => rfl
  | cons st rest ih =>
    simp only [uniformRunS, Bool.and_eq_true] at h
    have h1 := stageTableS1_eq st rows h.1
    simp only [runStagesS1, runStagesS0, ← h1]
    cases hs : stageTableS1 st rows with
    | error e => rfl
    | ok rows' =>
      have := h.2
      simp only [hs] at this
      exact ih rows' this

theorem buildS_compose (st : Stage) (rest : List Stage) (rows : List SRow) (os1 os2 : List (Option SRow))
    (h1 : mapMRes (applyS st) rows = .ok os1) (h2 : mapMRes (buildS rest) (os1.filterMap id) = .ok os2) :
    ∃ os, mapMRes (buildS (st :: rest)) rows = .ok os ∧ os.filterMap id = os2.filterMap id := by
  induction rows generalizing os1 os2 with
  | nil =>
    simp [mapMRes] at h1; subst h1
    simp [mapMRes] at h2; subst h2
    exact ⟨[], rfl, rfl⟩
  | cons r t iht =>
    simp only [mapMRes] at h1
    cases ha : applyS st r with
    | error e => simp [ha] at h1
    | ok o =>
      simp only [ha] at h1
      cases ht : mapMRes (applyS st) t with
      | error e => simp [ht] at h1
      | ok ot =>
        simp [ht] at h1; subst h1
        cases o with
        | none =>
          simp only [List.filterMap_cons, id] at h2
          obtain ⟨os, hos, ho⟩ := iht ot os2 ht h2
          exact ⟨none :: os, mapMRes_cons_ok (by simp [buildS, ha]) hos, by simpa using ho⟩
        | some r1 =>
          simp only [List.filterMap_cons, id, mapMRes] at h2
          cases hb : buildS rest r1 with
          | error e => simp [hb] at h2
          | ok o1 =>
            simp only [hb] at h2
            cases ht2 : mapMRes (buildS rest) (ot.filterMap id) with
            | error e => simp [ht2] at h2
            | ok o2 =>
              simp [ht2] at h2; subst h2
              obtain ⟨os, hos, ho⟩ := iht ot o2 ht ht2
              refine ⟨o1 :: os, mapMRes_cons_ok (by simp [buildS, ha, hb]) hos, ?_⟩
              cases o1 <;> simp [ho]

/-- a sparse table processed stage after stage is the table of the per-row pipelines (`buildS`) -/
theorem runStagesS0_rows (stages : List Stage) (rows out : List SRow) (h : runStagesS0 stages rows = .ok out) :
    ∃ os, mapMRes (buildS stages) rows = .ok os ∧ out = os.filterMap id := by
  induction stages generalizing rows out with
  | nil =>
    simp [runStagesS0] at h; subst h
    refine ⟨rows.map some, ?_, by simp [List.filterMap_map]⟩
    apply mapMRes_of_map
    simp [buildS]
  | cons st rest ih =>
    simp only [runStagesS0] at h
    cases hs : stageTableS0 st rows with
    | error e => simp [hs] at h
    | ok rows1 =>
      simp only [hs] at h
      obtain ⟨os1, hos1, hr1⟩ := collect_ok hs
      obtain ⟨os2, hos2, hout⟩ := ih rows1 out h
      subst hr1
      obtain ⟨os, hos, ho⟩ := buildS_compose st rest rows os1 os2 hos1 hos2
      exact ⟨os, hos, by rw [hout, ho]⟩

theorem first_dict_cex' :
    (tableS1 [.enccat (some .string)] [.plain [(.name "a", .cat "p" ["p", "q"])], .plain [(.name "a", .str "x"), (.name "b", .cat "q" ["p", "q"])]]
        = .ok [.plain [(.name "a", .str "p")], .plain [(.name "a", .str "x"), (.name "b", .cat "q" ["p", "q"])]] ∧
      buildS [.enccat (some .string)] (baseS (.plain [(.name "a", .str "x"), (.name "b", .cat "q" ["p", "q"])]))
        = .ok (some (.plain [(.name "a", .str "x"), (.name "b", .str "q")]))) ∧
    (tableS1 [.enccat (some .string)] [.plain [(.name "a", .cat "p" ["p", "q"])], .plain [(.name "b", .int 1)]] = .error .keyError ∧
      buildS [.enccat (some .string)] (baseS (.plain [(.name "b", .int 1)])) = .ok (some (.plain [(.name "b", .int 1)]))) ∧
    (∃ r1 r2, applyS1 (.label (.pos 1) none) (.plain []) (.head (.plain [(.pos 1, .int 5)]) [(.name "b", .pos 1)] [(.pos 1, .name "b")]) = .ok (some r1) ∧
      applyS (.label (.pos 1) none) (.head (.plain [(.pos 1, .int 5)]) [(.name "b", .pos 1)] [(.pos 1, .name "b")]) = .ok (some r2) ∧
      r1.labelOf.map (·.2.1) = some (.pos 1) ∧ r2.labelOf.map (·.2.1) = some (.name "b")) :=
  ⟨⟨rfl, rfl⟩, ⟨rfl, rfl⟩, ⟨_, _, rfl, rfl, rfl, rfl⟩⟩

/-! ## Phase 4: exception classes -/

theorem errOf_idx {α} (l : List α) (i : Nat) : errOf (idx l i) = if i < l.length then none else some .indexError := by
  unfold idx
  by_cases h : i < l.length
  · simp [h, errOf]
  · have : l[i]? = none := by simp; omega
    simp [h, this, errOf]

theorem lazy_error_eq_eager_error' {r : DRow} {e : EagerD} (h : RefD r e) (a : Acc) (ha : a.listAccess = true) :
    errD r a = eagerErrD e a := by
  induction a with
  | pos i => simp only [errD, eagerErrD, h.pos i, errOf_idx]
  | iter => simp [errD, eagerErrD, h.iter, errOf]
  | copy => simp [errD, eagerErrD, h.iter, errOf]
  | len => simp [errD, eagerErrD]
  | eq o => simp [errD, eagerErrD]
  | clone sub ih => simp only [errD, eagerErrD]; exact ih (by simpa [Acc.listAccess] using ha)
  | _ => simp [Acc.listAccess] at ha

theorem lazy_error_eq_eager_error_sparse' {r : SRow} {e : EagerS} (h : RefS r e) (a : Acc) (ha : a.dictAccess (· ∉ r.leak)) :
    errS r a = eagerErrS e a := by
  induction a with
  | name k =>
    have hk : k ∉ r.leak := by simpa [Acc.dictAccess] using ha
    simp only [errS, eagerErrS, h.get k hk]
    cases dget e.d k <;> simp [optRes, errOf]
  | iter => obtain ⟨ks, hks, _⟩ := h.keys; simp [errS, eagerErrS, hks, errOf]
  | keys => obtain ⟨ks, hks, _⟩ := h.keys; simp [errS, eagerErrS, hks, errOf]
  | items => simp [errS, eagerErrS, h.items, errOf]
  | copy => simp [errS, eagerErrS, h.items, errOf]
  | len => simp [errS, eagerErrS, h.len, errOf]
  | eq o => simp [errS, eagerErrS]
  | clone sub ih => simp only [errS, eagerErrS]; exact ih (by simpa [Acc.dictAccess] using ha)
  | _ => simp [Acc.dictAccess] at ha

/-- out of range is an IndexError and nothing else; in range nothing is raised -/
theorem pos_error_class' {r : DRow} {e : EagerD} (h : RefD r e) (i : Nat) :
    (i < e.cells.length → errD r (.pos i) = none) ∧ (e.cells.length ≤ i → errD r (.pos i) = some .indexError) := by
  have := lazy_error_eq_eager_error' h (.pos i) rfl
  simp only [eagerErrD] at this
  constructor
  · intro hi; simp [this, hi]
  · intro hi; have : ¬ i < e.cells.length := by omega
    simp [*]

/-! ## Phase 5 -/

theorem headers_err_attr (r : DRow) : ∀ e, r.headers = .error e → e = .attrError := by
  induction r with
  | plain v => intro e h; simp [DRow.headers] at h; exact h.symm
  | «lazy» c en hd m => intro e h; cases hd <;> simp [DRow.headers] at h; exact h.symm
  | head r hh ih => intro e h; simp [DRow.headers] at h
  | encode r es ih => intro e h; simp only [DRow.headers] at h; exact ih e h
  | keep r a b c d hd ih => intro e h; cases hd with
    | none => simp only [DRow.headers] at h; exact ih e h
    | some x => simp [DRow.headers] at h
  | label r i t ih => intro e h; simp only [DRow.headers] at h; exact ih e h
  | dropOne r i ih =>
    intro e h; simp only [DRow.headers] at h
    cases hr : r.headers with
    | ok x => simp [hr] at h
    | error e' => simp [hr] at h; subst h; exact ih e' hr

theorem headers_error_class' {r : DRow} {e : EagerD} (h : RefD r e) (hn : e.hdr = none) : r.headers = .error .attrError := by
  have := h.hdr; rw [hn] at this
  obtain ⟨er, her⟩ := toOption_eq_none this
  rw [her, headers_err_attr r er her]

theorem dense_eq_length_sensitive' {r : DRow} {e : EagerD} (h : RefD r e) (o : List Val) (hl : o.length ≠ e.cells.length) :
    r.eqList o = false := by
  unfold DRow.eqList
  rw [h.len]
  have : ¬ e.cells.length = o.length := fun x => hl x.symm
  simp [this]

theorem wrapD_cons (w : DWrap) (ws : List DWrap) (r : DRow) : wrapD (w :: ws) r = wrapD ws (w.app r) := rfl
theorem wrapS_cons (w : SWrap) (ws : List SWrap) (r : SRow) : wrapS (w :: ws) r = wrapS ws (w.app r) := rfl

theorem wrapD_headers' (ws : List DWrap) : ∀ (r : DRow), (∀ w ∈ ws, w.transparent = true) → (wrapD ws r).headers = r.headers := by
  induction ws with
  | nil => intro r _; rfl
  | cons w ws ih =>
    intro r h
    rw [wrapD_cons, ih (w.app r) (fun x hx => h x (List.mem_cons_of_mem _ hx))]
    have hw := h w (List.mem_cons_self ..)
    cases w with
    | head _ => simp [DWrap.transparent] at hw
    | encode _ => rfl
    | keep a b c d hd => cases hd with
      | none => rfl
      | some _ => simp [DWrap.transparent] at hw
    | label _ _ => rfl
    | dropOne _ => simp [DWrap.transparent] at hw

theorem wrapD_missing' (ws : List DWrap) : ∀ (r : DRow), (wrapD ws r).missing = r.missing := by
  induction ws with
  | nil => intro r; rfl
  | cons w ws ih => intro r; rw [wrapD_cons, ih (w.app r)]; cases w <;> rfl

theorem wrapD_labelOf' (ws : List DWrap) : ∀ (r : DRow), (∀ w ∈ ws, ∀ i t, w ≠ .label i t) → (wrapD ws r).labelOf = r.labelOf := by
  induction ws with
  | nil => intro r _; rfl
  | cons w ws ih =>
    intro r h
    rw [wrapD_cons, ih (w.app r) (fun x hx => h x (List.mem_cons_of_mem _ hx))]
    have hw := h w (List.mem_cons_self ..)
    cases w with
    | label i t => exact absurd rfl (hw i t)
    | _ => rfl

theorem wrapS_inv' (ws : List SWrap) : ∀ (r : SRow), (∀ w ∈ ws, w.transparent = true) → (wrapS ws r).invOf = r.invOf := by
  induction ws with
  | nil => intro r _; rfl
  | cons w ws ih =>
    intro r h
    rw [wrapS_cons, ih (w.app r) (fun x hx => h x (List.mem_cons_of_mem _ hx))]
    have hw := h w (List.mem_cons_self ..)
    cases w with
    | head _ _ => simp [SWrap.transparent] at hw
    | _ => rfl

theorem wrapS_missing' (ws : List SWrap) : ∀ (r : SRow), (wrapS ws r).missing = r.missing := by
  induction ws with
  | nil => intro r; rfl
  | cons w ws ih => intro r; rw [wrapS_cons, ih (w.app r)]; cases w <;> rfl

theorem label_key_depth_independent' (ws : List SWrap) (r : SRow) (h : ∀ w ∈ ws, w.transparent = true) (k : Key) (t : Option String) :
    applyS (.label k t) (wrapS ws r) = .ok (some (.label (wrapS ws r) (labelKey r.invOf k) t)) := by
  simp only [applyS, wrapS_inv' ws r h]

theorem probeD_headers' : ∀ (d : Nat) (r : DRow), (probeD d r).headers = r.headers ∧ (probeD d r).missing = r.missing ∧ (probeD d r).len = r.len := by
  intro d
  induction d with
  | zero => intro r; exact ⟨rfl, rfl, rfl⟩
  | succ d ih =>
    intro r
    obtain ⟨h1, h2, h3⟩ := ih (.encode r (encsOf [] r))
    refine ⟨by rw [probeD, h1]; rfl, by rw [probeD, h2]; rfl, ?_⟩
    rw [probeD, h3]
    simp only [DRow.len, encsOf]
    cases r.headers <;> simp

theorem probeS_inv' : ∀ (d : Nat) (r : SRow), (probeS d r).invOf = r.invOf ∧ (probeS d r).missing = r.missing := by
  intro d
  induction d with
  | zero => intro r; exact ⟨rfl, rfl⟩
  | succ d ih =>
    intro r
    obtain ⟨h1, h2⟩ := ih (.encode r [] (nspOf []))
    exact ⟨by rw [probeS, h1]; rfl, by rw [probeS, h2]; rfl⟩

theorem drop_row_sees_original' (cols : List Key) (pred : Option Pred) (r : DRow) :
    applyD (.drop cols pred) r =
      (match evalPredD pred r with
       | .error e => .error e
       | .ok false => .ok none
       | .ok true => applyD (.drop cols none) r) := by
  simp only [applyD, evalPredD]
  cases evalPredD pred r with
  | error e => rfl
  | ok b => cases b <;> rfl

theorem drop_row_sees_original_sparse' (cols : List Key) (pred : Option Pred) (r : SRow) :
    applyS (.drop cols pred) r =
      (match evalPredS pred r with
       | .error e => .error e
       | .ok false => .ok none
       | .ok true => applyS (.drop cols none) r) := by
  simp only [applyS, evalPredS]
  cases evalPredS pred r with
  | error e => rfl
  | ok b => cases b <;> rfl

/-! ## Phase 6: iteration element by element -/


theorem sequence_ok_map {α} : ∀ (l : List (Res α)) (xs : List α), sequence l = .ok xs → l = xs.map .ok
  | [], xs, h => by simp [sequence] at h; subst h; rfl
  | .error e :: t, xs, h => by simp [sequence] at h
  | .ok x :: t, xs, h => by
    simp only [sequence] at h
    cases hs : sequence t with
    | error e => simp [hs] at h
    | ok ys =>
      simp [hs] at h
      subst h
      simp [sequence_ok_map t ys hs]

theorem compressS_map_ok : ∀ (xs : List Val) (sel : List Bool), compressS (xs.map .ok) sel = (compress xs sel).map .ok
  | [], sel => by simp [compressS, compress]
  | x :: xs, [] => by simp [compressS, compress]
  | x :: xs, b :: bs => by
    cases b <;> simp [compressS, compress, compressS_map_ok xs bs]

theorem dropOneS_map_ok (xs : List Val) (ind : Nat) :
    dropOneS (xs.map .ok) ind = (xs.take ind ++ xs.drop (ind + 1)).map .ok := by
  unfold dropOneS
  rw [← List.map_take, ← List.map_drop]
  cases h : xs.drop ind with
  | nil =>
    have : xs.drop (ind + 1) = [] := by
      have := List.drop_eq_nil_iff.mp h
      exact List.drop_eq_nil_iff.mpr (by omega)
    simp [this]
  | cons y t =>
    have : xs.drop (ind + 1) = t := by
      rw [← List.drop_drop, h]; rfl
    simp [this]

theorem zipWith_bind_map_ok : ∀ (es : List Enc) (ys : List Val),
    List.zipWith (fun e x => bindRes e.apply x) es (ys.map .ok) = List.zipWith Enc.apply es ys
  | [], _ => by simp
  | _ :: _, [] => by simp
  | e :: es, y :: ys => by
    have ih := zipWith_bind_map_ok es ys
    simp only [List.map_cons, List.zipWith_cons_cons, ih]
    rfl

theorem stream_of_iter_ok' (r : DRow) : ∀ xs, r.iter = .ok xs → r.stream = xs.map .ok := by
  induction r with
  | plain v => intro xs h; simp [DRow.iter] at h; subst h; rfl
  | lazy c enc hdr m =>
    intro xs h
    match enc with
    | none => simp [DRow.iter] at h; subst h; rfl
    | some [] => simp [DRow.iter] at h; subst h; rfl
    | some (e :: es) =>
      simp only [DRow.iter] at h
      simp only [DRow.stream]
      exact sequence_ok_map _ _ h
  | head r h ih => intro xs hx; exact ih xs (by simpa [DRow.iter] using hx)
  | encode r es ih =>
    intro xs hx
    simp only [DRow.iter] at hx
    cases hi : r.iter with
    | error e => simp [hi] at hx
    | ok ys =>
      simp only [hi] at hx
      simp only [DRow.stream, ih ys hi, zipWith_bind_map_ok]
      exact sequence_ok_map _ _ hx
  | keep r a b sel d e ih =>
    intro xs hx
    simp only [DRow.iter] at hx
    cases hi : r.iter with
    | error e => simp [hi] at hx
    | ok ys =>
      simp [hi] at hx
      subst hx
      simp only [DRow.stream, ih ys hi, compressS_map_ok]
  | label r i t ih => intro xs hx; exact ih xs (by simpa [DRow.iter] using hx)
  | dropOne r ind ih =>
    intro xs hx
    simp only [DRow.iter] at hx
    cases hi : r.iter with
    | error e => simp [hi] at hx
    | ok ys =>
      simp [hi] at hx
      subst hx
      simp only [DRow.stream, ih ys hi, dropOneS_map_ok]

theorem pull_map_ok : ∀ (n : Nat) (xs : List Val), pull n (xs.map .ok) = (xs.take n, none)
  | 0, xs => by simp [pull]
  | n + 1, [] => by simp [pull]
  | n + 1, x :: xs => by simp [pull, pull_map_ok n xs]

/-- stopping earlier shows a prefix of what stopping later shows -/
theorem pull_prefix : ∀ (m n : Nat) (s : List (Res Val)), m ≤ n →
    (pull m s).1 = (pull n s).1.take m ∧ ((pull m s).2 = none ∨ (pull m s).2 = (pull n s).2)
  | 0, n, s, _ => by simp [pull]
  | m + 1, 0, s, h => by omega
  | m + 1, n + 1, [], _ => by simp [pull]
  | m + 1, n + 1, .error e :: t, _ => by simp [pull]
  | m + 1, n + 1, .ok x :: t, h => by
    have := pull_prefix m n t (by omega)
    simp [pull, this.1]
    exact this.2

theorem touch_stream (r : DRow) : r.touch.stream = r.stream := by
  induction r <;> simp_all [DRow.touch, DRow.stream, cell_get_touch]

theorem takeN_of_iter_ok' (r : DRow) (xs : List Val) (h : r.iter = .ok xs) (n : Nat) : r.takeN n = (xs.take n, none) := by
  simp [DRow.takeN, stream_of_iter_ok' r xs h, pull_map_ok]

theorem partial_iteration' (b : DBase) (stages : List Stage) (e0 e : EagerD) (r : DRow)
    (hb : eagerBaseD b = .ok e0) (he : eagerD stages e0 = .ok (some e))
    (hr : buildD stages (baseD b) = .ok (some r)) (n : Nat) :
    r.takeN n = (e.cells.take n, none) :=
  takeN_of_iter_ok' r e.cells (dense_ref' b stages e0 e r hb he hr).iter n

theorem partial_iteration_feats' (b : DBase) (stages : List Stage) (k : Key) (t : Option String) (e0 e : EagerD)
    (hb : eagerBaseD b = .ok e0) (he : eagerD (stages ++ [.label k t]) e0 = .ok (some e)) :
    ∃ r f ef, buildD (stages ++ [.label k t]) (baseD b) = .ok (some r) ∧ r.feats = .ok f ∧ e.feats = some ef ∧
      ∀ n, f.takeN n = (ef.cells.take n, none) := by
  obtain ⟨r, f, ef, v, h1, h2, h3, h4, _⟩ := feats_label_dense' b stages k t e0 e hb he
  exact ⟨r, f, ef, h1, h2, h3, fun n => takeN_of_iter_ok' f ef.cells h4.iter n⟩

theorem whole_iteration_of_stream' (r : DRow) (xs : List Val) (h : r.iter = .ok xs) :
    r.takeN r.stream.length = (xs, none) := by
  have hs := stream_of_iter_ok' r xs h
  rw [takeN_of_iter_ok' r xs h, hs]; simp

theorem takeN_prefix' (r : DRow) (m n : Nat) (h : m ≤ n) :
    (r.takeN m).1 = (r.takeN n).1.take m ∧ ((r.takeN m).2 = none ∨ (r.takeN m).2 = (r.takeN n).2) :=
  pull_prefix m n r.stream h

theorem abandoned_iteration' (r : DRow) (n : Nat) (as : List Acc) :
    runD (stepTake r n).2 as = runD r as ∧ (stepTake r n).2.takeN = r.takeN := by
  constructor
  · simp only [stepTake, runD_eq_map]
    exact List.map_congr_left (fun a _ => touch_obsD r a)
  · funext k; simp [stepTake, DRow.takeN, touch_stream]


theorem pull_ok_append_error : ∀ (xs : List Val) (e : Err) (t : List (Res Val)) (n : Nat), xs.length < n →
    pull n (xs.map .ok ++ .error e :: t) = (xs, some e)
  | [], e, t, n + 1, _ => by simp [pull]
  | [], e, t, 0, h => by simp at h
  | x :: xs, e, t, 0, h => by simp at h
  | x :: xs, e, t, n + 1, h => by
    have ih := pull_ok_append_error xs e t n (by simpa using h)
    simp [pull, ih]

theorem dropOneS_take (s : List (Res Val)) (ind : Nat) : ∃ tl, dropOneS s ind = s.take ind ++ tl := ⟨_, rfl⟩

theorem dropOneS_first_error (xs : List Val) (e : Err) (t : List (Res Val)) (ind : Nat) (hl : xs.length ≤ ind) :
    ∃ t', dropOneS (xs.map .ok ++ .error e :: t) ind = xs.map .ok ++ .error e :: t' := by
  rcases Nat.lt_or_eq_of_le hl with hlt | heq
  · obtain ⟨k, hk⟩ : ∃ k, ind = xs.length + (k + 1) := ⟨ind - xs.length - 1, by omega⟩
    have : (xs.map (Except.ok : Val → Res Val) ++ Except.error e :: t).take ind = xs.map .ok ++ .error e :: t.take k := by
      rw [hk, List.take_append]; simp [List.take_of_length_le]
    obtain ⟨tl, htl⟩ := dropOneS_take (xs.map (Except.ok : Val → Res Val) ++ Except.error e :: t) ind
    rw [htl, this]
    exact ⟨t.take k ++ tl, by simp⟩
  · refine ⟨[], ?_⟩
    unfold dropOneS
    have h1 : (xs.map (Except.ok : Val → Res Val) ++ Except.error e :: t).take ind = xs.map .ok := by
      rw [← heq]; simp
    have h2 : (xs.map (Except.ok : Val → Res Val) ++ Except.error e :: t).drop ind = .error e :: t := by
      rw [← heq]; simp
    rw [h1, h2]

theorem feats_iteration_first_error' (r : DRow) (ind : Nat) (xs : List Val) (e : Err) (t : List (Res Val))
    (h : r.stream = xs.map .ok ++ .error e :: t) (hl : xs.length ≤ ind) (n : Nat) (hn : xs.length < n) :
    (DRow.dropOne r ind).takeN n = (xs, some e) := by
  obtain ⟨t', ht⟩ := dropOneS_first_error xs e t ind hl
  simp only [DRow.takeN, DRow.stream, h, ht]
  exact pull_ok_append_error xs e t' n hn

end Coba.C13
