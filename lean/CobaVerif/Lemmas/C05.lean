import CobaVerif.Model.C05
import Mathlib.Tactic.Linarith
import Mathlib.Tactic.Positivity
import Mathlib.Tactic.FieldSimp
import Mathlib.Tactic.Ring
import Mathlib.Algebra.Order.Field.Rat
import Mathlib.Data.Rat.Cast.Order
import Mathlib.Data.List.Perm.Basic
import Mathlib.Data.Nat.ModEq

namespace Coba.C05

theorem M_pos : 0 < M := by decide

theorem next_lt (s : Nat) : next s < M := Nat.mod_lt _ M_pos

theorem unum_lt (s : Nat) : unum s < M := next_lt s

theorem MQ_pos : (0 : Rat) < (M : Rat) := by exact_mod_cast M_pos

theorem u_nonneg (s : Nat) : 0 ≤ u s := by
  unfold u
  have := MQ_pos
  positivity

theorem u_lt_one (s : Nat) : u s < 1 := by
  unfold u
  rw [div_lt_one MQ_pos]
  exact_mod_cast unum_lt s

theorem redraw_nonzero' (s : Nat) (h : unum s = 0) : unum (next s) ≠ 0 := by
  unfold unum at *
  rw [h]
  decide

theorem random_mem' (s : Nat) (lo hi : Rat) (h : lo < hi) :
    lo ≤ (random s lo hi).2 ∧ (random s lo hi).2 < hi := by
  simp only [random]
  have h0 := u_nonneg s
  have h1 := u_lt_one s
  have hd : 0 < hi - lo := by linarith
  constructor
  · nlinarith
  · nlinarith

theorem randoms_mem' (s n : Nat) (lo hi : Rat) (h : lo < hi) :
    (randoms s n lo hi).2.length = n ∧ ∀ x ∈ (randoms s n lo hi).2, lo ≤ x ∧ x < hi := by
  induction n generalizing s with
  | zero => simp [randoms]
  | succ n ih =>
    simp only [randoms]
    have := ih (random s lo hi).1
    constructor
    · simp [this.1]
    · intro x hx
      simp only [List.mem_cons] at hx
      rcases hx with rfl | hx
      · exact random_mem' s lo hi h
      · exact this.2 x hx


theorem randint_mem' (s : Nat) (a b : Int) (h : a ≤ b) :
    a ≤ (randint s a b).2 ∧ (randint s a b).2 ≤ b := by
  simp only [randint]
  have hk : (unum s : Int) < (M : Int) := by exact_mod_cast unum_lt s
  have hk0 : (0 : Int) ≤ (unum s : Int) := by positivity
  have hM : (0 : Int) < (M : Int) := by exact_mod_cast M_pos
  have hn : (0 : Int) < b - a + 1 := by omega
  have h1 : 0 ≤ (b - a + 1) * (unum s : Int) / (M : Int) := Int.ediv_nonneg (by positivity) hM.le
  have h2 : (b - a + 1) * (unum s : Int) / (M : Int) < b - a + 1 := by
    apply Int.ediv_lt_of_lt_mul hM
    nlinarith
  omega

theorem randints_mem' (s n : Nat) (a b : Int) (h : a ≤ b) :
    (randints s n a b).2.length = n ∧ ∀ x ∈ (randints s n a b).2, a ≤ x ∧ x ≤ b := by
  induction n generalizing s with
  | zero => simp [randints]
  | succ n ih =>
    simp only [randints]
    have := ih (randint s a b).1
    constructor
    · simp [this.1]
    · intro x hx
      simp only [List.mem_cons] at hx
      rcases hx with rfl | hx
      · exact randint_mem' s a b h
      · exact this.2 x hx

theorem scaled_lt (s n : Nat) (hn : 0 < n) : scaled s n < n := by
  unfold scaled
  apply Nat.div_lt_of_lt_mul
  have := unum_lt s
  nlinarith


theorem perm_swap_head {α} (x z : α) (xs : List α) (j : Nat) (h : xs[j]? = some z) :
    (z :: xs.set j x).Perm (x :: xs) := by
  induction xs generalizing j with
  | nil => simp at h
  | cons y ys ih =>
    cases j with
    | zero =>
      simp at h
      subst h
      simp [List.set]
      exact List.Perm.swap _ _ _
    | succ j =>
      simp at h
      have := ih j h
      simp [List.set]
      calc (z :: y :: ys.set j x).Perm (y :: z :: ys.set j x) := List.Perm.swap _ _ _
        _ |>.Perm (y :: x :: ys) := List.Perm.cons _ this
        _ |>.Perm (x :: y :: ys) := List.Perm.swap _ _ _

theorem shuffle_perm' {α} (s : Nat) (xs : List α) : (shuffle s xs).2.Perm xs := by
  fun_induction shuffle s xs with
  | case1 => simp
  | case2 => simp
  | case3 s x y r xs j hj s' t heq ih =>
    simp only
    rw [heq] at ih
    exact List.Perm.cons _ ih
  | case4 s x y r xs j j' hj z hz s' t heq ih =>
    rw [heq] at ih
    simp only at ih
    exact (List.Perm.cons z ih).trans (perm_swap_head x z xs j' hz)
  | case5 s x y r xs j j' hj hz s' t heq ih =>
    rw [heq] at ih
    exact List.Perm.cons _ ih


theorem iterate_next_succ (n s : Nat) : Nat.iterate next (n+1) s = Nat.iterate next n (next s) := rfl

theorem shuffle_draws' {α} (s : Nat) (xs : List α) :
    (shuffle s xs).1 = Nat.iterate next (xs.length - 1) s := by
  fun_induction shuffle s xs with
  | case1 => simp
  | case2 => simp
  | case3 s x y r xs j hj s' t heq ih =>
    rw [heq] at ih
    simp only at ih ⊢
    rw [ih]
    simp [xs, iterate_next_succ]
  | case4 s x y r xs j j' hj z hz s' t heq ih =>
    rw [heq] at ih
    simp only at ih ⊢
    rw [ih]
    simp [xs, iterate_next_succ]
  | case5 s x y r xs j j' hj hz s' t heq ih =>
    rw [heq] at ih
    simp only at ih ⊢
    rw [ih]
    simp [xs, iterate_next_succ]

theorem seed_norm_int' (seed : Int) :
    ((next (normInt seed) : Nat) : Int) = ((A : Int) * seed + (C : Int)) % (M : Int) := by
  unfold next normInt
  have hM : (0 : Int) < (M : Int) := by exact_mod_cast M_pos
  have h0 : 0 ≤ seed % (M : Int) := Int.emod_nonneg _ hM.ne'
  push_cast
  rw [Int.toNat_of_nonneg h0]
  rw [Int.add_emod, Int.mul_emod, Int.emod_emod_of_dvd _ (dvd_refl _), ← Int.mul_emod, ← Int.add_emod]

theorem frame' (st : Nat → Gen) (h : Hist) (i : Nat) :
    ((run st h).filter (·.1 = i)).map (·.2) = runOne (st i) ((h.filter (·.1 = i)).map (·.2)) := by
  induction h generalizing st with
  | nil => simp [run, runOne]
  | cons p h ih =>
    obtain ⟨j, op⟩ := p
    simp only [run]
    by_cases hji : j = i
    · subst hji
      simp [runOne, ih]
    · have : (fun k => if k = j then (step (st j) op).1 else st k) i = st i := by
        simp [Ne.symm hji]
      simp [hji, ih, this]


theorem foldl_add_eq (acc : Rat) (ws : List Rat) : ws.foldl (· + ·) acc = acc + ws.sum := by
  induction ws generalizing acc with
  | nil => simp
  | cons w ws ih => simp [List.foldl, ih]; ring

theorem sum_eq (ws : List Rat) : sum ws = ws.sum := by
  unfold sum; rw [foldl_add_eq]; simp

theorem firstLt_spec (r acc : Rat) (ws : List Rat) (k : Nat) (hnn : ∀ w ∈ ws, 0 ≤ w)
    (h1 : acc ≤ r) (h2 : r < acc + ws.sum) :
    ∃ i w, firstLt r (accumulate acc ws) k = some (k + i) ∧ ws[i]? = some w ∧ 0 < w ∧ i < ws.length := by
  induction ws generalizing acc k with
  | nil => simp at h2; linarith
  | cons w ws ih =>
    simp only [accumulate, firstLt]
    by_cases hlt : r < acc + w
    · refine ⟨0, w, ?_, by simp, by linarith, by simp⟩
      simp [hlt]
    · have hnn' : ∀ w ∈ ws, 0 ≤ w := fun x hx => hnn x (List.mem_cons_of_mem _ hx)
      have h2' : r < (acc + w) + ws.sum := by simp at h2; linarith
      obtain ⟨i, w', hf, hw, hpos, hi⟩ := ih (acc + w) (k+1) hnn' (by linarith) h2'
      refine ⟨i+1, w', ?_, by simpa using hw, hpos, by simp; omega⟩
      simp [hlt, hf]; omega

theorem choice_pos_weight' (s n : Nat) (ws : List Rat) (hlen : ws.length = n)
    (hnn : ∀ w ∈ ws, 0 ≤ w) (hpos : 0 < sum ws) :
    ∃ i, choice s n (some ws) = .ok (next s, i) ∧ i < n ∧ ∃ w, ws[i]? = some w ∧ 0 < w := by
  have hs := sum_eq ws
  have h0 := u_nonneg s
  have h1 := u_lt_one s
  have hr0 : (0 : Rat) ≤ u s * sum ws := by positivity
  have hr1 : u s * sum ws < 0 + ws.sum := by rw [← hs]; nlinarith
  obtain ⟨i, w, hf, hw, hwpos, hi⟩ := firstLt_spec (u s * sum ws) 0 ws 0 hnn hr0 hr1
  refine ⟨i, ?_, by omega, w, hw, hwpos⟩
  unfold choice
  simp only [hlen, ne_eq, not_true_eq_false, and_false, ↓reduceIte]
  rw [if_neg (ne_of_gt hpos)]
  simp at hf
  simp [hf, ← hlen, hi]

theorem choice_uniform_mem' (s n : Nat) (hn : 0 < n) :
    ∃ i, choice s n none = .ok (next s, i) ∧ i < n := by
  refine ⟨scaled s n, ?_, scaled_lt s n hn⟩
  simp [choice, Nat.ne_of_gt hn]

theorem choicew_weight' (s n : Nat) (ws : List Rat) (hlen : ws.length = n)
    (hnn : ∀ w ∈ ws, 0 ≤ w) (hpos : 0 < sum ws) :
    ∃ i w, choicew s n (some ws) = .ok (next s, i, w) ∧ ws[i]? = some w ∧ 0 < w := by
  obtain ⟨i, hc, _, w, hw, hwpos⟩ := choice_pos_weight' s n ws hlen hnn hpos
  refine ⟨i, w, ?_, hw, hwpos⟩
  simp [choicew, hc, hw]

theorem choice_rejects' (s n : Nat) (ws : List Rat) :
    (ws ≠ [] ∧ ws.length ≠ n) ∨ sum ws = 0 → choice s n (some ws) = .error .valueError := by
  intro h
  unfold choice
  by_cases h1 : ws ≠ [] ∧ ws.length ≠ n
  · simp [h1]
  · rcases h with h | h
    · exact absurd h h1
    · simp only [h1, ↓reduceIte, h]

theorem skipZero_nonzero (s : Nat) : unum (skipZero s) ≠ 0 := by
  unfold skipZero
  split
  · next h => exact redraw_nonzero' s h
  · next h => exact h

theorem gauss_log_arg_pos' (g : Gen) (h : g.buf = none) : 0 < (gauss1 g).2.k1 ∧ (gauss1 g).2.k1 < M := by
  unfold gauss1
  rw [h]
  simp only
  exact ⟨Nat.pos_of_ne_zero (skipZero_nonzero g.s), unum_lt _⟩

theorem gauss_pair' (g : Gen) (h : g.buf = none) :
    let (g1, d1) := gauss1 g
    let (g2, d2) := gauss1 g1
    d1.isCos = true ∧ d2 = { d1 with isCos := false } ∧ g2.s = g1.s ∧ g2.buf = none := by
  unfold gauss1
  rw [h]
  simp


theorem swapAt_length {α} (l : List α) (i j : Nat) : (swapAt l i j).length = l.length := by
  unfold swapAt; split <;> simp

theorem swapAt_self {α} (l : List α) (i : Nat) : swapAt l i i = l := by
  unfold swapAt
  split
  · rename_i a b h1 h2
    rw [h1] at h2; cases h2
    obtain ⟨hlt, rfl⟩ := List.getElem?_eq_some_iff.mp h1
    simp
  · rfl

/-- swapping inside the suffix of `pre ++ rest` -/
theorem swapAt_append {α} (pre rest : List α) (a b : Nat) :
    swapAt (pre ++ rest) (pre.length + a) (pre.length + b) = pre ++ swapAt rest a b := by
  unfold swapAt
  simp only [List.getElem?_append_right (Nat.le_add_right _ _), Nat.add_sub_cancel_left]
  split
  · rename_i x y hx hy
    simp [hx, hy, List.set_append_right _ _ (Nat.le_add_right _ _)]
  · rfl


theorem swapAt_head_zero {α} (x : α) (xs : List α) : swapAt (x :: xs) 0 0 = x :: xs := swapAt_self _ 0

theorem swapAt_head_succ_some {α} (x z : α) (xs : List α) (j : Nat) (h : xs[j]? = some z) :
    swapAt (x :: xs) 0 (j+1) = z :: xs.set j x := by
  unfold swapAt
  simp [h]

theorem swapAt_head_succ_none {α} (x : α) (xs : List α) (j : Nat) (h : xs[j]? = none) :
    swapAt (x :: xs) 0 (j+1) = x :: xs := by
  unfold swapAt
  simp [h]

theorem loopGo_eq {α} (s : Nat) (rest : List α) :
    ∀ pre : List α, shuffleLoopGo s (pre ++ rest) pre.length (rest.length - 1)
      = ((shuffle s rest).1, pre ++ (shuffle s rest).2) := by
  fun_induction shuffle s rest with
  | case1 s => intro pre; simp [shuffleLoopGo]
  | case2 s x => intro pre; simp [shuffleLoopGo]
  | case3 s x y r xs j hj s' t heq ih =>
    intro pre
    have hk : (x :: y :: r).length - 1 = (xs.length - 1) + 1 := by simp [xs]
    rw [hk, shuffleLoopGo]
    have hlen : (pre ++ x :: y :: r).length - pre.length = xs.length + 1 := by simp [xs]
    simp only [hlen]
    have hj0 : scaled s (xs.length + 1) = 0 := hj
    rw [hj0, Nat.add_zero]
    have hsw : swapAt (pre ++ x :: y :: r) pre.length pre.length = pre ++ x :: y :: r := swapAt_self _ _
    rw [hsw]
    have := ih (pre ++ [x])
    simp only [List.append_assoc, List.singleton_append, List.length_append, List.length_singleton] at this
    rw [this, heq]
  | case4 s x y r xs j j' hj z hz s' t heq ih =>
    intro pre
    have hk : (x :: y :: r).length - 1 = ((xs.set j' x).length - 1) + 1 := by simp [xs]
    rw [hk, shuffleLoopGo]
    have hlen : (pre ++ x :: y :: r).length - pre.length = xs.length + 1 := by simp [xs]
    simp only [hlen]
    have hj1 : scaled s (xs.length + 1) = j' + 1 := hj
    rw [hj1]
    have hsw : swapAt (pre ++ x :: y :: r) (pre.length + 0) (pre.length + (j'+1)) = pre ++ swapAt (x :: xs) 0 (j'+1) :=
      swapAt_append pre (x :: xs) 0 (j'+1)
    rw [Nat.add_zero] at hsw
    rw [hsw, swapAt_head_succ_some x z xs j' hz]
    have := ih (pre ++ [z])
    simp only [List.append_assoc, List.singleton_append, List.length_append, List.length_singleton] at this
    rw [this, heq]
  | case5 s x y r xs j j' hj hz s' t heq ih =>
    intro pre
    have hk : (x :: y :: r).length - 1 = (xs.length - 1) + 1 := by simp [xs]
    rw [hk, shuffleLoopGo]
    have hlen : (pre ++ x :: y :: r).length - pre.length = xs.length + 1 := by simp [xs]
    simp only [hlen]
    have hj1 : scaled s (xs.length + 1) = j' + 1 := hj
    rw [hj1]
    have hsw : swapAt (pre ++ x :: y :: r) (pre.length + 0) (pre.length + (j'+1)) = pre ++ swapAt (x :: xs) 0 (j'+1) :=
      swapAt_append pre (x :: xs) 0 (j'+1)
    rw [Nat.add_zero] at hsw
    rw [hsw, swapAt_head_succ_none x xs j' hz]
    have := ih (pre ++ [x])
    simp only [List.append_assoc, List.singleton_append, List.length_append, List.length_singleton] at this
    rw [this, heq]

/-- the loop of `CobaRandom.shuffle` as written in Python (index arithmetic + swaps) computes
exactly the recursive model the other theorems are about -/
theorem shuffleLoop_eq_shuffle' {α} (s : Nat) (l : List α) : shuffleLoop s l = shuffle s l := by
  have := loopGo_eq s l []
  simpa [shuffleLoop] using this


theorem A_coprime_M : Nat.Coprime M A := by decide

/-- the LCG step is injective on states: two different states never merge, so every state has
exactly one predecessor (in particular exactly one state is followed by the zero uniform) -/
theorem next_injective' (s t : Nat) (hs : s < M) (ht : t < M) (h : next s = next t) : s = t := by
  unfold next at h
  have h1 : (A * s + C) ≡ (A * t + C) [MOD M] := h
  have h2 : A * s ≡ A * t [MOD M] := Nat.ModEq.add_right_cancel' C h1
  have h3 : s ≡ t [MOD M] := Nat.ModEq.cancel_left_of_coprime A_coprime_M h2
  exact Nat.ModEq.eq_of_lt_of_lt h3 hs ht

/-- the k-th state of the stream of an integer seed is the k-fold iterate of `next` -/
theorem zero_uniform_unique' (s t : Nat) (hs : s < M) (ht : t < M) (h1 : unum s = 0) (h2 : unum t = 0) : s = t :=
  next_injective' s t hs ht (by unfold unum at h1 h2; rw [h1, h2])


end Coba.C05
