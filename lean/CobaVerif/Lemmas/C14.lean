import CobaVerif.Model.C14
import CobaVerif.Props.C09
import CobaVerif.Props.C12
import CobaVerif.Lemmas.C13
import Mathlib.Data.String.Basic
import Mathlib.Algebra.Order.Field.Rat
import Mathlib.Tactic.Linarith
import Mathlib.Tactic.Ring
import Mathlib.Data.Finset.Card
import Mathlib.Data.List.Nodup

namespace Coba.C14

/-! ### Python's `<` on atoms of one kind is a strict total order -/

theorem Val.lt_str {a b : String} : Val.lt (.str a) (.str b) = true ↔ a < b := by
  simp only [Val.lt, decide_eq_true_eq]

theorem Val.lt_num {a b : Rat} : Val.lt (.num a) (.num b) = true ↔ a < b := by
  simp only [Val.lt, decide_eq_true_eq]

theorem Val.lt_str_num {a : String} {b : Rat} : Val.lt (.str a) (.num b) = false := rfl
theorem Val.lt_num_str {a : Rat} {b : String} : Val.lt (.num a) (.str b) = false := rfl

theorem Val.lt_trans' {a b c : Val} (h1 : Val.lt a b = true) (h2 : Val.lt b c = true) :
    Val.lt a c = true := by
  cases a with
  | str a =>
    cases b with
    | str b =>
      cases c with
      | str c => exact Val.lt_str.mpr (lt_trans (Val.lt_str.mp h1) (Val.lt_str.mp h2))
      | num c => rw [Val.lt_str_num] at h2; cases h2
    | num b => rw [Val.lt_str_num] at h1; cases h1
  | num a =>
    cases b with
    | str b => rw [Val.lt_num_str] at h1; cases h1
    | num b =>
      cases c with
      | str c => rw [Val.lt_num_str] at h2; cases h2
      | num c => exact Val.lt_num.mpr (lt_trans (Val.lt_num.mp h1) (Val.lt_num.mp h2))

theorem Val.lt_irrefl' (a : Val) : Val.lt a a = false := by
  cases a with
  | str a => exact Bool.eq_false_iff.mpr (fun h => lt_irrefl a (Val.lt_str.mp h))
  | num a => exact Bool.eq_false_iff.mpr (fun h => lt_irrefl a (Val.lt_num.mp h))

theorem Val.lt_tri {a b : Val} (hk : Val.sameKind a b = true) (hne : a ≠ b) (hn : Val.lt a b = false) :
    Val.lt b a = true := by
  cases a with
  | str a =>
    cases b with
    | str b =>
      have h1 : ¬ a < b := fun h => by rw [Val.lt_str.mpr h] at hn; cases hn
      have h2 : a ≠ b := fun h => hne (by rw [h])
      exact Val.lt_str.mpr (lt_of_le_of_ne (not_lt.mp h1) (Ne.symm h2))
    | num b => cases hk
  | num a =>
    cases b with
    | str b => cases hk
    | num b =>
      have h1 : ¬ a < b := fun h => by rw [Val.lt_num.mpr h] at hn; cases hn
      have h2 : a ≠ b := fun h => hne (by rw [h])
      exact Val.lt_num.mpr (lt_of_le_of_ne (not_lt.mp h1) (Ne.symm h2))

theorem Val.sameKind_iff {a b : Val} : Val.sameKind a b = true ↔ a.isNum = b.isNum := by
  cases a <;> cases b <;> simp [Val.sameKind, Val.isNum]

theorem homogeneous_pairs {l : List Val} (h : homogeneous l = true) :
    ∀ a ∈ l, ∀ b ∈ l, Val.sameKind a b = true := by
  cases l with
  | nil => intro a ha; cases ha
  | cons v vs =>
    have hv : ∀ y ∈ v :: vs, v.isNum = y.isNum := by
      intro y hy
      rcases List.mem_cons.mp hy with rfl | hy
      · rfl
      · simp only [homogeneous, List.all_eq_true] at h
        exact Val.sameKind_iff.mp (h y hy)
    intro a ha b hb
    rw [Val.sameKind_iff, ← hv a ha, ← hv b hb]

/-! ### `sorted(set(l))` -/

theorem mem_insertSD {x v : Val} {l : List Val} : v ∈ insertSD x l ↔ v = x ∨ v ∈ l := by
  induction l with
  | nil => simp [insertSD]
  | cons y ys ih =>
    unfold insertSD
    split
    · rename_i h; subst h; simp
    · split
      · simp
      · simp only [List.mem_cons, ih]; tauto

theorem insertSD_sorted {x : Val} {l : List Val} (hs : Sorted l)
    (hk : ∀ y ∈ l, Val.sameKind x y = true) : Sorted (insertSD x l) := by
  induction l with
  | nil => simp [insertSD, Sorted]
  | cons y ys ih =>
    unfold Sorted at hs
    rw [List.pairwise_cons] at hs
    unfold insertSD
    split
    · exact List.pairwise_cons.mpr hs
    · rename_i hne
      split
      · rename_i hlt
        refine List.pairwise_cons.mpr ⟨?_, List.pairwise_cons.mpr hs⟩
        intro z hz
        rcases List.mem_cons.mp hz with rfl | hz
        · exact hlt
        · exact Val.lt_trans' hlt (hs.1 z hz)
      · rename_i hnlt
        have hyx : Val.lt y x = true :=
          Val.lt_tri (hk y (List.mem_cons_self)) hne (by simpa using hnlt)
        refine List.pairwise_cons.mpr ⟨?_, ih hs.2 (fun z hz => hk z (List.mem_cons_of_mem _ hz))⟩
        intro z hz
        rcases mem_insertSD.mp hz with rfl | hz
        · exact hyx
        · exact hs.1 z hz

theorem sortDedup_cons (x : Val) (l : List Val) : sortDedup (x :: l) = insertSD x (sortDedup l) := rfl

theorem mem_sortDedup {v : Val} {l : List Val} : v ∈ sortDedup l ↔ v ∈ l := by
  induction l with
  | nil => simp [sortDedup]
  | cons x xs ih => rw [sortDedup_cons, mem_insertSD, ih, List.mem_cons]

theorem sortDedup_sorted {l : List Val} (hk : ∀ a ∈ l, ∀ b ∈ l, Val.sameKind a b = true) :
    Sorted (sortDedup l) := by
  induction l with
  | nil => simp [sortDedup, Sorted]
  | cons x xs ih =>
    rw [sortDedup_cons]
    refine insertSD_sorted (ih fun a ha b hb => hk a (List.mem_cons_of_mem _ ha) b (List.mem_cons_of_mem _ hb)) ?_
    intro y hy
    exact hk x List.mem_cons_self y (List.mem_cons_of_mem _ (mem_sortDedup.mp hy))

theorem sortedSet_ok {l acts : List Val} (h : sortedSet l = .ok acts) :
    Sorted acts ∧ ∀ v, v ∈ acts ↔ v ∈ l := by
  unfold sortedSet at h
  split at h
  · rename_i hh
    injection h with h
    subst h
    exact ⟨sortDedup_sorted (homogeneous_pairs hh), fun v => mem_sortDedup⟩
  · cases h

theorem sortedSet_of_homogeneous {l : List Val} (h : homogeneous l = true) :
    sortedSet l = .ok (sortDedup l) := by
  simp [sortedSet, h]

theorem Sorted.nodup {l : List Val} (h : Sorted l) : l.Nodup := by
  unfold Sorted at h
  refine List.Pairwise.imp ?_ h
  intro a b hab heq
  subst heq
  rw [Val.lt_irrefl'] at hab
  cases hab

/-- two ascending duplicate-free lists with the same members are equal: the "fixed order" is
determined by the label *set* alone -/
theorem Sorted.ext {l₁ l₂ : List Val} (h₁ : Sorted l₁) (h₂ : Sorted l₂) (hm : ∀ v, v ∈ l₁ ↔ v ∈ l₂) :
    l₁ = l₂ := by
  induction l₁ generalizing l₂ with
  | nil =>
    cases l₂ with
    | nil => rfl
    | cons b bs => exact absurd ((hm b).mpr List.mem_cons_self) (by simp)
  | cons a as ih =>
    cases l₂ with
    | nil => exact absurd ((hm a).mp List.mem_cons_self) (by simp)
    | cons b bs =>
      unfold Sorted at h₁ h₂
      rw [List.pairwise_cons] at h₁ h₂
      have hab : a = b := by
        rcases List.mem_cons.mp ((hm a).mp List.mem_cons_self) with h | h
        · exact h
        · rcases List.mem_cons.mp ((hm b).mpr List.mem_cons_self) with h' | h'
          · exact h'.symm
          · have := Val.lt_trans' (h₁.1 b h') (h₂.1 a h)
            rw [Val.lt_irrefl'] at this
            cases this
      subst hab
      congr 1
      refine ih h₁.2 h₂.2 ?_
      intro v
      constructor
      · intro hv
        rcases List.mem_cons.mp ((hm v).mp (List.mem_cons_of_mem _ hv)) with h | h
        · subst h
          have := h₁.1 v hv
          rw [Val.lt_irrefl'] at this
          cases this
        · exact h
      · intro hv
        rcases List.mem_cons.mp ((hm v).mpr (List.mem_cons_of_mem _ hv)) with h | h
        · subst h
          have := h₂.1 v hv
          rw [Val.lt_irrefl'] at this
          cases this
        · exact h

/-! ### `delistAll`, `flattenM` -/

theorem delistAll_spec {χ : Type} {rows : List (χ × Label)} {d : List (χ × Val)}
    (h : delistAll rows = .ok d) :
    d.map (·.1) = rows.map (·.1) ∧
    (∀ (i : Nat) (r : χ × Label), rows[i]? = some r → ∃ v, delist r.2 = .ok v ∧ d[i]? = some (r.1, v)) ∧
    (∀ v, v ∈ d.map (·.2) ↔ ∃ r ∈ rows, delist r.2 = .ok v) := by
  induction rows generalizing d with
  | nil =>
    simp only [delistAll, Except.ok.injEq] at h
    subst h
    simp
  | cons r rest ih =>
    obtain ⟨x, l⟩ := r
    simp only [delistAll] at h
    split at h
    · cases h
    · rename_i v hv
      split at h
      · cases h
      · rename_i r' hr'
        injection h with h
        subst h
        obtain ⟨ih1, ih2, ih3⟩ := ih hr'
        refine ⟨by simp [ih1], ?_, ?_⟩
        · intro i r hi
          cases i with
          | zero =>
            simp only [List.getElem?_cons_zero, Option.some.injEq] at hi
            subst hi
            exact ⟨v, hv, by simp⟩
          | succ i =>
            simp only [List.getElem?_cons_succ] at hi ⊢
            exact ih2 i r hi
        · intro v'
          simp only [List.map_cons, List.mem_cons, exists_eq_or_imp]
          rw [ih3 v', hv]
          constructor
          · rintro (h | h)
            · left; rw [h]
            · right; exact h
          · rintro (h | h)
            · left; injection h with h; exact h.symm
            · right; exact h

theorem flattenM_spec {ls : List Label} {all : List Val} (h : flattenM ls = .ok all) :
    ∀ v, v ∈ all ↔ ∃ l ∈ ls, ∃ vs, l = .list vs ∧ v ∈ vs := by
  induction ls generalizing all with
  | nil =>
    simp only [flattenM, Except.ok.injEq] at h
    subst h
    simp
  | cons l rest ih =>
    cases l with
    | atom a => simp [flattenM] at h
    | cat s L => simp [flattenM] at h
    | list vs =>
      simp only [flattenM] at h
      split at h
      · cases h
      · rename_i r hr
        injection h with h
        subst h
        intro v
        simp only [List.mem_append, List.mem_cons, exists_eq_or_imp, ih hr v]
        constructor
        · rintro (h | h)
          · left; exact ⟨vs, rfl, h⟩
          · right; exact h
        · rintro (⟨ws, hw, h⟩ | h)
          · left; injection hw with hw; rw [hw]; exact h
          · right; exact h

theorem labelKeys_spec {χ : Type} {rows : List (χ × Label)} {keys : List Val} (h : labelKeys rows = .ok keys) :
    (∀ v, v ∈ keys ↔ ∃ r ∈ rows, labelKey r.2 = .ok v) ∧ ∀ r ∈ rows, ∀ vs, r.2 ≠ .list vs := by
  induction rows generalizing keys with
  | nil =>
    simp only [labelKeys, Except.ok.injEq] at h
    subst h
    simp
  | cons r rest ih =>
    obtain ⟨x, l⟩ := r
    simp only [labelKeys] at h
    split at h
    · cases h
    · rename_i v hv
      split at h
      · cases h
      · rename_i r' hr'
        injection h with h
        subst h
        obtain ⟨ih1, ih2⟩ := ih hr'
        constructor
        · intro v'
          simp only [List.mem_cons, exists_eq_or_imp]
          rw [ih1 v', hv]
          constructor
          · rintro (h | h)
            · left; rw [h]
            · right; exact h
          · rintro (h | h)
            · left; injection h with h; exact h.symm
            · right; exact h
        · intro r hr vs
          rcases List.mem_cons.mp hr with rfl | hr
          · intro hl
            simp only at hl
            rw [hl] at hv
            cases hv
          · exact ih2 r hr vs

theorem labelKey_eq_delist {l : Label} (h : ∀ vs, l ≠ .list vs) : labelKey l = delist l := by
  cases l with
  | atom v => rfl
  | cat s L => rfl
  | list vs => exact absurd rfl (h vs)

theorem labelKeys_total {χ : Type} (rows : List (χ × Label)) (h : ∀ r ∈ rows, ∀ vs, r.2 ≠ .list vs) :
    ∃ keys, labelKeys rows = .ok keys := by
  induction rows with
  | nil => exact ⟨[], rfl⟩
  | cons r rest ih =>
    obtain ⟨x, l⟩ := r
    obtain ⟨ks, hks⟩ := ih (fun r hr => h r (List.mem_cons_of_mem _ hr))
    cases l with
    | atom v => exact ⟨v :: ks, by simp [labelKeys, labelKey, hks]⟩
    | cat s L => exact ⟨.str s :: ks, by simp [labelKeys, labelKey, hks]⟩
    | list vs => exact absurd rfl (h (x, .list vs) List.mem_cons_self vs)

/-! ### inversion of `read`, branch by branch -/

theorem read_r_inv {χ : Type} {given : Option LType} {rows : List (χ × Label)} {ints : List (Interaction χ)}
    (h : read given rows = .ok ints) (ht : typeOf given rows = some .r) :
    ints = rows.map fun r => ⟨r.1, [], .l1 r.2⟩ := by
  cases rows with
  | nil => simp [typeOf] at ht
  | cons r rest =>
    obtain ⟨x, first⟩ := r
    simp only [typeOf, Option.some.injEq] at ht
    simp only [read, ht, Except.ok.injEq] at h
    exact h.symm

theorem read_cat_inv {χ : Type} {given : Option LType} {rows : List (χ × Label)} {ints : List (Interaction χ)}
    {levels : List String}
    (h : read given rows = .ok ints) (ht : typeOf given rows = some .c) (hl : firstLevels rows = some levels) :
    ∃ keys, labelKeys rows = .ok keys ∧
      ints = rows.map fun r => ⟨r.1, catActions levels keys, .binary r.2⟩ := by
  cases rows with
  | nil => simp [typeOf] at ht
  | cons r rest =>
    obtain ⟨x, first⟩ := r
    simp only [typeOf, Option.some.injEq] at ht
    cases first with
    | atom v => simp [firstLevels] at hl
    | list vs => simp [firstLevels] at hl
    | cat s L =>
      simp only [firstLevels, Option.some.injEq] at hl
      subst hl
      simp only [read, ht] at h
      split at h
      · cases h
      · rename_i keys hk
        injection h with h
        exact ⟨keys, hk, h.symm⟩

theorem read_plain_inv {χ : Type} {given : Option LType} {rows : List (χ × Label)} {ints : List (Interaction χ)}
    (h : read given rows = .ok ints) (ht : typeOf given rows = some .c) (hl : firstLevels rows = none) :
    ∃ d acts, delistAll rows = .ok d ∧ sortedSet (d.map (·.2)) = .ok acts ∧
      ints = d.map fun r => ⟨r.1, acts, .binary (.atom r.2)⟩ := by
  cases rows with
  | nil => simp [typeOf] at ht
  | cons r rest =>
    obtain ⟨x, first⟩ := r
    simp only [typeOf, Option.some.injEq] at ht
    cases first with
    | cat s L => simp [firstLevels] at hl
    | atom v =>
      simp only [read, ht] at h
      split at h
      · cases h
      · rename_i d hd
        split at h
        · cases h
        · rename_i acts ha
          injection h with h
          exact ⟨d, acts, hd, ha, h.symm⟩
    | list vs =>
      simp only [read, ht] at h
      split at h
      · cases h
      · rename_i d hd
        split at h
        · cases h
        · rename_i acts ha
          injection h with h
          exact ⟨d, acts, hd, ha, h.symm⟩

theorem read_m_inv {χ : Type} {given : Option LType} {rows : List (χ × Label)} {ints : List (Interaction χ)}
    (h : read given rows = .ok ints) (ht : typeOf given rows = some .m) :
    ∃ all acts, flattenM (rows.map (·.2)) = .ok all ∧ sortedSet all = .ok acts ∧
      ints = rows.map fun r => ⟨r.1, acts, .hamming r.2⟩ := by
  cases rows with
  | nil => simp [typeOf] at ht
  | cons r rest =>
    obtain ⟨x, first⟩ := r
    simp only [typeOf, Option.some.injEq] at ht
    simp only [read, ht] at h
    split at h
    · cases h
    · rename_i all hall
      split at h
      · cases h
      · rename_i acts ha
        injection h with h
        exact ⟨all, acts, hall, ha, h.symm⟩

/-! ### primed property lemmas (restated without the prime in `Props/C14.lean`) -/

theorem typeOf_none {χ : Type} {given : Option LType} {rows : List (χ × Label)}
    (h : typeOf given rows = none) : rows = [] := by
  cases rows with
  | nil => rfl
  | cons r rest => simp [typeOf] at h

theorem contexts_eq' {χ : Type} (given : Option LType) (rows : List (χ × Label)) (ints : List (Interaction χ))
    (h : read given rows = .ok ints) : ints.map (·.context) = rows.map (·.1) := by
  rcases ht : typeOf given rows with _ | t
  · have := typeOf_none ht
    subst this
    simp only [read, Except.ok.injEq] at h
    subst h
    rfl
  · cases t with
    | r => rw [read_r_inv h ht]; simp [Function.comp_def]
    | m =>
      obtain ⟨all, acts, _, _, hi⟩ := read_m_inv h ht
      rw [hi]; simp [Function.comp_def]
    | c =>
      rcases hl : firstLevels rows with _ | L
      · obtain ⟨d, acts, hd, _, hi⟩ := read_plain_inv h ht hl
        rw [hi, ← (delistAll_spec hd).1]; simp [Function.comp_def]
      · obtain ⟨keys, _, hi⟩ := read_cat_inv h ht hl
        rw [hi]; simp [Function.comp_def]

theorem actions_same' {χ : Type} (given : Option LType) (rows : List (χ × Label)) (ints : List (Interaction χ))
    (h : read given rows = .ok ints) : ∃ acts, ∀ x ∈ ints, x.actions = acts := by
  rcases ht : typeOf given rows with _ | t
  · have := typeOf_none ht
    subst this
    simp only [read, Except.ok.injEq] at h
    subst h
    exact ⟨[], by simp⟩
  · cases t with
    | r =>
      refine ⟨[], ?_⟩
      rw [read_r_inv h ht]
      intro x hx
      obtain ⟨r, _, rfl⟩ := List.mem_map.mp hx
      rfl
    | m =>
      obtain ⟨all, acts, _, _, hi⟩ := read_m_inv h ht
      refine ⟨acts, ?_⟩
      rw [hi]
      intro x hx
      obtain ⟨r, _, rfl⟩ := List.mem_map.mp hx
      rfl
    | c =>
      rcases hl : firstLevels rows with _ | L
      · obtain ⟨d, acts, hd, _, hi⟩ := read_plain_inv h ht hl
        refine ⟨acts, ?_⟩
        rw [hi]
        intro x hx
        obtain ⟨r, _, rfl⟩ := List.mem_map.mp hx
        rfl
      · obtain ⟨keys, _, hi⟩ := read_cat_inv h ht hl
        refine ⟨catActions L keys, ?_⟩
        rw [hi]
        intro x hx
        obtain ⟨r, _, rfl⟩ := List.mem_map.mp hx
        rfl

theorem actions_eq' {χ : Type} (given : Option LType) (rows : List (χ × Label)) (ints : List (Interaction χ))
    (h : read given rows = .ok ints) (ht : typeOf given rows = some .c) (hl : firstLevels rows = none) :
    ∀ x ∈ ints, Sorted x.actions ∧ ∀ v, v ∈ x.actions ↔ ∃ r ∈ rows, delist r.2 = .ok v := by
  obtain ⟨d, acts, hd, ha, hi⟩ := read_plain_inv h ht hl
  obtain ⟨hs, hm⟩ := sortedSet_ok ha
  intro x hx
  rw [hi] at hx
  obtain ⟨r, _, rfl⟩ := List.mem_map.mp hx
  refine ⟨hs, fun v => ?_⟩
  rw [hm v]
  exact (delistAll_spec hd).2.2 v

theorem reward_argmax' {χ : Type} (given : Option LType) (rows : List (χ × Label)) (ints : List (Interaction χ))
    (h : read given rows = .ok ints) (ht : typeOf given rows = some .c) (hl : firstLevels rows = none)
    (i : Nat) (r : χ × Label) (x : Interaction χ) (hr : rows[i]? = some r) (hx : ints[i]? = some x) :
    ∃ v, delist r.2 = .ok v ∧ v ∈ x.actions ∧
      ∀ a, x.reward.eval (.one a) = .ok (if a = v then 1 else 0) := by
  obtain ⟨d, acts, hd, ha, hi⟩ := read_plain_inv h ht hl
  obtain ⟨_, hm⟩ := sortedSet_ok ha
  obtain ⟨_, hget, hmem⟩ := delistAll_spec hd
  obtain ⟨v, hv, hdi⟩ := hget i r hr
  rw [hi, List.getElem?_map, hdi] at hx
  simp only [Option.map_some, Option.some.injEq] at hx
  subst hx
  refine ⟨v, hv, ?_, ?_⟩
  · exact (hm v).mpr ((hmem v).mpr ⟨r, List.mem_of_getElem? hr, hv⟩)
  · intro a
    simp only [Reward.eval, labelEqAction, beq_iff_eq]
    by_cases hav : a = v
    · simp [hav]
    · have : ¬ v = a := fun h => hav h.symm
      simp [hav, this]

theorem unique_argmax' {χ : Type} (given : Option LType) (rows : List (χ × Label)) (ints : List (Interaction χ))
    (h : read given rows = .ok ints) (ht : typeOf given rows = some .c) (hl : firstLevels rows = none)
    (i : Nat) (r : χ × Label) (x : Interaction χ) (hr : rows[i]? = some r) (hx : ints[i]? = some x) :
    ∃ v, delist r.2 = .ok v ∧
      (∀ a, a ∈ x.actions ∧ x.reward.eval (.one a) = .ok 1 ↔ a = v) := by
  obtain ⟨v, hv, hmem, hev⟩ := reward_argmax' given rows ints h ht hl i r x hr hx
  refine ⟨v, hv, fun a => ?_⟩
  rw [hev a]
  constructor
  · rintro ⟨_, h1⟩
    by_cases hav : a = v
    · exact hav
    · simp [hav] at h1
  · rintro rfl
    exact ⟨hmem, by simp⟩

/-! #### categorical labels -/

theorem actions_eq_cat' {χ : Type} (given : Option LType) (rows : List (χ × Label)) (ints : List (Interaction χ))
    (levels : List String)
    (h : read given rows = .ok ints) (ht : typeOf given rows = some .c) (hl : firstLevels rows = some levels) :
    ∀ x ∈ ints, x.actions.Sublist (levels.map Val.str) ∧
      ∀ v, v ∈ x.actions ↔ (∃ l ∈ levels, v = .str l) ∧ ∃ r ∈ rows, delist r.2 = .ok v := by
  obtain ⟨keys, hk, hi⟩ := read_cat_inv h ht hl
  obtain ⟨hmem, hnl⟩ := labelKeys_spec hk
  intro x hx
  rw [hi] at hx
  obtain ⟨r0, _, rfl⟩ := List.mem_map.mp hx
  refine ⟨List.Sublist.map _ List.filter_sublist, fun v => ?_⟩
  simp only [catActions, List.mem_map, List.mem_filter, List.contains_iff_mem]
  constructor
  · rintro ⟨l, ⟨hl1, hl2⟩, rfl⟩
    obtain ⟨r, hr, hrk⟩ := (hmem _).mp hl2
    exact ⟨⟨l, hl1, rfl⟩, r, hr, by rw [← labelKey_eq_delist (hnl r hr)]; exact hrk⟩
  · rintro ⟨⟨l, hl1, rfl⟩, r, hr, hd⟩
    exact ⟨l, ⟨hl1, (hmem _).mpr ⟨r, hr, by rw [labelKey_eq_delist (hnl r hr)]; exact hd⟩⟩, rfl⟩

theorem reward_argmax_cat' {χ : Type} (given : Option LType) (rows : List (χ × Label)) (ints : List (Interaction χ))
    (levels : List String)
    (h : read given rows = .ok ints) (ht : typeOf given rows = some .c) (hl : firstLevels rows = some levels)
    (i : Nat) (r : χ × Label) (x : Interaction χ) (hr : rows[i]? = some r) (hx : ints[i]? = some x)
    (hnl : ∀ vs, r.2 ≠ .list vs) :
    ∃ v, delist r.2 = .ok v ∧ ∀ a, x.reward.eval (.one a) = .ok (if a = v then 1 else 0) := by
  obtain ⟨keys, _, hi⟩ := read_cat_inv h ht hl
  rw [hi, List.getElem?_map, hr] at hx
  simp only [Option.map_some, Option.some.injEq] at hx
  subst hx
  obtain ⟨c, l⟩ := r
  cases l with
  | list vs => exact absurd rfl (hnl vs)
  | atom v =>
    refine ⟨v, rfl, fun a => ?_⟩
    simp only [Reward.eval, labelEqAction, beq_iff_eq]
    by_cases hav : a = v
    · simp [hav]
    · have : ¬ v = a := fun h => hav h.symm
      simp [hav, this]
  | cat s L =>
    refine ⟨.str s, rfl, fun a => ?_⟩
    simp only [Reward.eval, labelEqAction, beq_iff_eq]

theorem actions_cat_exact' {χ : Type} (given : Option LType) (rows : List (χ × Label))
    (ints : List (Interaction χ)) (levels : List String)
    (h : read given rows = .ok ints) (ht : typeOf given rows = some .c) (hl : firstLevels rows = some levels)
    (hall : ∀ r ∈ rows, ∃ s, r.2 = .cat s levels ∧ s ∈ levels) :
    ∀ x ∈ ints, ∀ v, v ∈ x.actions ↔ ∃ r ∈ rows, delist r.2 = .ok v := by
  intro x hx v
  rw [(actions_eq_cat' given rows ints levels h ht hl x hx).2 v]
  constructor
  · rintro ⟨_, h2⟩; exact h2
  · rintro ⟨r, hr, hd⟩
    refine ⟨?_, r, hr, hd⟩
    obtain ⟨s, hs, hsl⟩ := hall r hr
    rw [hs] at hd
    simp only [delist, Except.ok.injEq] at hd
    exact ⟨s, hsl, hd.symm⟩

theorem cat_actions_nodup' {χ : Type} (given : Option LType) (rows : List (χ × Label)) (ints : List (Interaction χ))
    (levels : List String) (hn : levels.Nodup)
    (h : read given rows = .ok ints) (ht : typeOf given rows = some .c) (hl : firstLevels rows = some levels) :
    ∀ x ∈ ints, x.actions.Nodup := by
  intro x hx
  exact List.Nodup.sublist (actions_eq_cat' given rows ints levels h ht hl x hx).1
    (List.Nodup.map (fun a b hab => by injection hab) hn)

/-! #### regression -/

theorem negAbsDiff_eq (a y : Rat) : negAbsDiff a y = -|a - y| := by
  unfold negAbsDiff
  split
  · rename_i h; rw [abs_of_neg h]; ring
  · rename_i h; rw [abs_of_nonneg (not_lt.mp h)]

theorem l1_spec' {χ : Type} (given : Option LType) (rows : List (χ × Label)) (ints : List (Interaction χ))
    (h : read given rows = .ok ints) (ht : typeOf given rows = some .r)
    (i : Nat) (r : χ × Label) (x : Interaction χ) (hr : rows[i]? = some r) (hx : ints[i]? = some x) :
    x.actions = [] ∧
    ∀ y, r.2 = .atom (.num y) → ∀ a, x.reward.eval (.one (.num a)) = .ok (-|a - y|) := by
  rw [read_r_inv h ht, List.getElem?_map, hr] at hx
  simp only [Option.map_some, Option.some.injEq] at hx
  subst hx
  refine ⟨rfl, fun y hy a => ?_⟩
  simp only [hy, Reward.eval, negAbsDiff_eq]

theorem l1_best' (a y : Rat) : -|a - y| ≤ 0 ∧ (-|a - y| = 0 ↔ a = y) := by
  refine ⟨by have := abs_nonneg (a - y); linarith, ?_⟩
  constructor
  · intro h
    have : |a - y| = 0 := by linarith
    have := abs_eq_zero.mp this
    linarith
  · rintro rfl; simp

/-! #### multi-label -/

theorem multilabel_actions' {χ : Type} (given : Option LType) (rows : List (χ × Label))
    (ints : List (Interaction χ))
    (h : read given rows = .ok ints) (ht : typeOf given rows = some .m) :
    ∀ x ∈ ints, Sorted x.actions ∧
      ∀ v, v ∈ x.actions ↔ ∃ r ∈ rows, ∃ vs, r.2 = .list vs ∧ v ∈ vs := by
  obtain ⟨all, acts, hall, ha, hi⟩ := read_m_inv h ht
  obtain ⟨hs, hm⟩ := sortedSet_ok ha
  intro x hx
  rw [hi] at hx
  obtain ⟨r, _, rfl⟩ := List.mem_map.mp hx
  refine ⟨hs, fun v => ?_⟩
  rw [hm v, flattenM_spec hall v]
  constructor
  · rintro ⟨l, hl, vs, hlv, hv⟩
    obtain ⟨r', hr', rfl⟩ := List.mem_map.mp hl
    exact ⟨r', hr', vs, hlv, hv⟩
  · rintro ⟨r', hr', vs, hlv, hv⟩
    exact ⟨r'.2, List.mem_map.mpr ⟨r', hr', rfl⟩, vs, hlv, hv⟩

theorem nIntersect_card {ys as : List Val} (ha : as.Nodup) :
    nIntersect ys as = (as.toFinset ∩ ys.toFinset).card := by
  unfold nIntersect
  rw [← List.toFinset_card_of_nodup (ha.filter _)]
  congr 1
  ext v
  simp

theorem nUnion_card {ys as : List Val} (hy : ys.Nodup) (ha : as.Nodup) :
    nUnion ys as = (as.toFinset ∪ ys.toFinset).card := by
  unfold nUnion
  rw [nIntersect_card ha, ← List.toFinset_card_of_nodup hy, ← List.toFinset_card_of_nodup ha]
  have := Finset.card_union_add_card_inter as.toFinset ys.toFinset
  omega

theorem hammingValue_jaccard {ys as : List Val} (hy : ys.Nodup) (ha : as.Nodup) (hne : ys ≠ [] ∨ as ≠ []) :
    hammingValue ys as =
      .ok (((as.toFinset ∩ ys.toFinset).card : Rat) / ((as.toFinset ∪ ys.toFinset).card : Rat)) := by
  unfold hammingValue
  rw [nUnion_card hy ha, nIntersect_card ha]
  have hpos : (as.toFinset ∪ ys.toFinset).card ≠ 0 := by
    rw [Finset.card_ne_zero]
    rcases hne with h | h
    · obtain ⟨v, hv⟩ := List.exists_mem_of_ne_nil ys h
      exact ⟨v, Finset.mem_union_right _ (List.mem_toFinset.mpr hv)⟩
    · obtain ⟨v, hv⟩ := List.exists_mem_of_ne_nil as h
      exact ⟨v, Finset.mem_union_left _ (List.mem_toFinset.mpr hv)⟩
  simp [hpos]

theorem jaccard_spec' {χ : Type} (given : Option LType) (rows : List (χ × Label)) (ints : List (Interaction χ))
    (h : read given rows = .ok ints) (ht : typeOf given rows = some .m)
    (i : Nat) (r : χ × Label) (x : Interaction χ) (hr : rows[i]? = some r) (hx : ints[i]? = some x)
    (ys : List Val) (hy : r.2 = .list ys) (hyn : ys.Nodup)
    (a : Action) (han : a.asList.Nodup) (hne : ys ≠ [] ∨ a.asList ≠ []) :
    x.reward.eval a =
      .ok (((a.asList.toFinset ∩ ys.toFinset).card : Rat) / ((a.asList.toFinset ∪ ys.toFinset).card : Rat)) := by
  obtain ⟨all, acts, _, _, hi⟩ := read_m_inv h ht
  rw [hi, List.getElem?_map, hr] at hx
  simp only [Option.map_some, Option.some.injEq] at hx
  subst hx
  simp only [hy, Reward.eval]
  exact hammingValue_jaccard hyn han hne

theorem hamming_scalar' (ys : List Val) (a : Val) :
    hammingValue ys [a] = .ok (if a ∈ ys then 1 / (ys.length : Rat) else 0) := by
  unfold hammingValue nUnion nIntersect
  by_cases h : a ∈ ys
  · have hne : ys ≠ [] := List.ne_nil_of_mem h
    simp [List.filter, h, hne]
  · simp [List.filter, h]

theorem jaccard_best' {ys as : List Val} (hy : ys.Nodup) (ha : as.Nodup) (hne : ys ≠ [] ∨ as ≠ []) :
    hammingValue ys as = .ok 1 ↔ as.toFinset = ys.toFinset := by
  rw [hammingValue_jaccard hy ha hne]
  have hpos : (as.toFinset ∪ ys.toFinset).card ≠ 0 := by
    rw [Finset.card_ne_zero]
    rcases hne with h | h
    · obtain ⟨v, hv⟩ := List.exists_mem_of_ne_nil ys h
      exact ⟨v, Finset.mem_union_right _ (List.mem_toFinset.mpr hv)⟩
    · obtain ⟨v, hv⟩ := List.exists_mem_of_ne_nil as h
      exact ⟨v, Finset.mem_union_left _ (List.mem_toFinset.mpr hv)⟩
  have hposq : ((as.toFinset ∪ ys.toFinset).card : Rat) ≠ 0 := by exact_mod_cast hpos
  constructor
  · intro h
    injection h with h
    rw [div_eq_one_iff_eq hposq] at h
    have hc : (as.toFinset ∩ ys.toFinset).card = (as.toFinset ∪ ys.toFinset).card := by exact_mod_cast h
    have hsub : as.toFinset ∩ ys.toFinset ⊆ as.toFinset ∪ ys.toFinset :=
      fun v hv => Finset.mem_union_left _ (Finset.mem_inter.mp hv).1
    have heq := Finset.eq_of_subset_of_card_le hsub (le_of_eq hc.symm)
    apply Finset.Subset.antisymm
    · intro v hv
      have : v ∈ as.toFinset ∪ ys.toFinset := Finset.mem_union_left _ hv
      rw [← heq] at this
      exact (Finset.mem_inter.mp this).2
    · intro v hv
      have : v ∈ as.toFinset ∪ ys.toFinset := Finset.mem_union_right _ hv
      rw [← heq] at this
      exact (Finset.mem_inter.mp this).1
  · intro h
    rw [h, Finset.union_self] at hposq
    rw [h, Finset.inter_self, Finset.union_self, div_self hposq]

/-! #### `take` -/

theorem take_is_reservoir' {χ : Type} (given : Option LType) (idxs : List Nat) (rows : List (χ × Label))
    (ints : List (Interaction χ)) (h : simPairs given (some idxs) rows = .ok ints) :
    simPairs given (some idxs) rows = simPairs given none (select idxs rows) ∧
    ints.map (·.context) = idxs.filterMap (fun i => rows[i]?.map (·.1)) := by
  refine ⟨rfl, ?_⟩
  have := contexts_eq' given (select idxs rows) ints h
  rw [this, select, List.map_filterMap]

/-! #### `LabelRows` -/

theorem splitDense_spec' {γ : Type} (i : Nat) (row feats : List γ) (l : γ)
    (h : splitDense i row = .ok (feats, l)) :
    row = feats.take i ++ l :: feats.drop i ∧ feats.length + 1 = row.length := by
  unfold splitDense at h
  split at h
  · cases h
  · rename_i l' hl'
    injection h with h
    injection h with h1 h2
    subst h1 h2
    obtain ⟨hi, hget⟩ := List.getElem?_eq_some_iff.mp hl'
    have hlen : (row.take i).length = i := by rw [List.length_take]; omega
    constructor
    · rw [List.take_append_of_le_length (by omega), List.take_of_length_le (by omega),
        List.drop_append_of_le_length (by omega), List.drop_of_length_le (by omega), List.nil_append]
      conv_lhs => rw [← List.take_append_drop i row]
      rw [List.drop_eq_getElem_cons hi, hget]
    · rw [List.length_append, List.length_take, List.length_drop]; omega

theorem splitDenseAll_spec {γ : Type} (i : Nat) (rows : List (List γ)) (prs : List (List γ × γ))
    (h : splitDenseAll i rows = .ok prs) :
    prs.length = rows.length ∧
    ∀ (k : Nat) (row : List γ) (p : List γ × γ), rows[k]? = some row → prs[k]? = some p →
      row = p.1.take i ++ p.2 :: p.1.drop i := by
  induction rows generalizing prs with
  | nil =>
    simp only [splitDenseAll, Except.ok.injEq] at h
    subst h
    simp
  | cons row rest ih =>
    simp only [splitDenseAll] at h
    split at h
    · cases h
    · rename_i p hp
      split at h
      · cases h
      · rename_i r' hr'
        injection h with h
        subst h
        obtain ⟨ih1, ih2⟩ := ih r' hr'
        refine ⟨by simp [ih1], ?_⟩
        intro k row' p' hk hp'
        cases k with
        | zero =>
          simp only [List.getElem?_cons_zero, Option.some.injEq] at hk hp'
          subst hk hp'
          exact (splitDense_spec' i _ p.1 p.2 hp).1
        | succ k =>
          simp only [List.getElem?_cons_succ] at hk hp'
          exact ih2 k row' p' hk hp'

theorem dense_pipeline' (given : Option LType) (take : Option (List Nat)) (ind : Int)
    (rows : List (List Label)) (ints : List (Interaction (List Label)))
    (h : simDense given take ind rows = .ok ints) (hne : applyTake take rows ≠ []) :
    ∃ first i prs, (applyTake take rows).head? = some first ∧ normIdx ind first.length = some i ∧
      read given prs = .ok ints ∧ prs.length = (applyTake take rows).length ∧
      ∀ (k : Nat) (row : List Label) (p : List Label × Label),
        (applyTake take rows)[k]? = some row → prs[k]? = some p →
          row = p.1.take i ++ p.2 :: p.1.drop i := by
  unfold simDense at h
  split at h
  · rename_i heq; exact absurd heq hne
  · rename_i first rest heq
    split at h
    · cases h
    · rename_i i hi
      split at h
      · cases h
      · rename_i prs hprs
        obtain ⟨h1, h2⟩ := splitDenseAll_spec i _ prs hprs
        refine ⟨first, i, prs, by rw [heq]; rfl, hi, h, by rw [heq]; exact h1, ?_⟩
        rw [heq]
        exact h2

theorem splitSparse_spec' {κ γ : Type} [DecidableEq κ] (key : κ) (zero : γ) (row : List (κ × γ)) :
    (∀ kv, kv ∈ (splitSparse key zero row).1 ↔ kv ∈ row ∧ kv.1 ≠ key) ∧
    (splitSparse key zero row).1.Sublist row ∧
    ((∃ v, (key, v) ∈ row ∧ (splitSparse key zero row).2 = v) ∨
     ((∀ kv ∈ row, kv.1 ≠ key) ∧ (splitSparse key zero row).2 = zero)) := by
  refine ⟨fun kv => by simp [splitSparse], by simp [splitSparse], ?_⟩
  rcases hf : row.find? (fun kv => decide (kv.1 = key)) with _ | kv
  · right
    refine ⟨?_, by simp only [splitSparse, hf]⟩
    intro kv hkv
    have := List.find?_eq_none.mp hf kv hkv
    simpa using this
  · left
    have hmem := List.mem_of_find?_eq_some hf
    have hk := List.find?_some hf
    simp only [decide_eq_true_eq] at hk
    exact ⟨kv.2, by rw [← hk]; exact hmem, by simp only [splitSparse, hf]⟩

theorem sparse_pipeline' (given : Option LType) (take : Option (List Nat)) (key : Val)
    (rows : List (List (Val × Label))) :
    simSparse given take key rows =
      read given ((applyTake take rows).map (splitSparse key (Label.atom (.num 0)))) := rfl

/-! #### totality: well-formed classification data is always accepted -/

theorem delistAll_total {χ : Type} (rows : List (χ × Label)) (h : ∀ r ∈ rows, r.2 ≠ .list []) :
    ∃ d, delistAll rows = .ok d := by
  induction rows with
  | nil => exact ⟨[], rfl⟩
  | cons r rest ih =>
    obtain ⟨x, l⟩ := r
    obtain ⟨d, hd⟩ := ih (fun r hr => h r (List.mem_cons_of_mem _ hr))
    have : ∃ v, delist l = .ok v := by
      cases l with
      | atom v => exact ⟨v, rfl⟩
      | cat s L => exact ⟨.str s, rfl⟩
      | list vs =>
        cases vs with
        | nil => exact absurd rfl (h (x, .list []) List.mem_cons_self)
        | cons v vs => exact ⟨v, rfl⟩
    obtain ⟨v, hv⟩ := this
    exact ⟨(x, v) :: d, by simp [delistAll, hv, hd]⟩

theorem classification_total' {χ : Type} (given : Option LType) (rows : List (χ × Label))
    (ht : typeOf given rows = some .c)
    (hne : ∀ r ∈ rows, r.2 ≠ .list [])
    (hk : ∀ d, delistAll rows = .ok d → homogeneous (d.map (·.2)) = true)
    (hcat : firstLevels rows ≠ none → ∀ r ∈ rows, ∀ vs, r.2 ≠ .list vs) :
    ∃ ints, read given rows = .ok ints := by
  cases rows with
  | nil => simp [typeOf] at ht
  | cons r rest =>
    obtain ⟨x, first⟩ := r
    simp only [typeOf, Option.some.injEq] at ht
    obtain ⟨d, hd⟩ := delistAll_total ((x, first) :: rest) hne
    have hh := hk d hd
    cases first with
    | cat s L =>
      obtain ⟨keys, hks⟩ := labelKeys_total ((x, Label.cat s L) :: rest) (hcat (by simp [firstLevels]))
      exact ⟨_, by simp only [read, ht, hks]; rfl⟩
    | atom v => exact ⟨_, by simp only [read, ht, hd, sortedSet_of_homogeneous hh]; rfl⟩
    | list vs => exact ⟨_, by simp only [read, ht, hd, sortedSet_of_homogeneous hh]; rfl⟩

/-! #### already labelled sources: explicit label type first, then the rows' own `tipe` -/

theorem explicit_type_wins' {χ : Type} (t : LType) (tipe : Option LType) (r : χ × Label) (rest : List (χ × Label)) :
    typeOf (resolveGiven (some t) tipe) (r :: rest) = some t := rfl

theorem source_type_used' {χ : Type} (t : LType) (r : χ × Label) (rest : List (χ × Label)) :
    typeOf (resolveGiven none (some t)) (r :: rest) = some t := rfl

/-! ## Phase 2 -/

/-! #### label-type inference -/

theorem inference_spec' (first : Label) :
    (inferType none first = .r ↔ ∃ q, first = .atom (.num q)) ∧
    (inferType none first = .c ↔ ¬ ∃ q, first = .atom (.num q)) ∧
    inferType none first ≠ .m := by
  cases first with
  | atom v => cases v <;> simp [inferType]
  | cat s L => simp [inferType]
  | list vs => simp [inferType]

/-! #### Hamming vs Jaccard for lists with repeated members -/

theorem filter_mem_toFinset (ys as : List Val) :
    (as.filter (fun a => ys.contains a)).toFinset = as.toFinset ∩ ys.toFinset := by
  ext v; simp [List.mem_filter]

theorem filter_not_mem_toFinset (ys as : List Val) :
    (as.filter (fun a => !ys.contains a)).toFinset = as.toFinset \ ys.toFinset := by
  ext v; simp [List.mem_filter]

theorem hamming_multiset_formula' (ys as : List Val) :
    nIntersect ys as = (as.toFinset ∩ ys.toFinset).card +
        ((as.filter (fun a => ys.contains a)).length - (as.toFinset ∩ ys.toFinset).card) ∧
    nUnion ys as = (as.toFinset ∪ ys.toFinset).card + (ys.length - ys.toFinset.card) +
        ((as.filter (fun a => !ys.contains a)).length - (as.toFinset \ ys.toFinset).card) := by
  have h1 : (as.toFinset ∩ ys.toFinset).card ≤ (as.filter (fun a => ys.contains a)).length := by
    rw [← filter_mem_toFinset]; exact List.toFinset_card_le _
  have h2 : (as.toFinset \ ys.toFinset).card ≤ (as.filter (fun a => !ys.contains a)).length := by
    rw [← filter_not_mem_toFinset]; exact List.toFinset_card_le _
  have h3 : ys.toFinset.card ≤ ys.length := List.toFinset_card_le _
  have h4 : (as.filter (fun a => ys.contains a)).length + (as.filter (fun a => !ys.contains a)).length = as.length := by
    have := List.length_eq_length_filter_add (l := as) (fun a => ys.contains a)
    omega
  have h5 : (as.toFinset ∪ ys.toFinset).card = ys.toFinset.card + (as.toFinset \ ys.toFinset).card := by
    rw [Finset.union_comm, ← Finset.union_sdiff_self_eq_union, Finset.card_union_of_disjoint Finset.disjoint_sdiff]
  unfold nUnion nIntersect
  constructor <;> omega

theorem hamming_nodup_action' (ys as : List Val) (ha : as.Nodup) :
    nIntersect ys as = (as.toFinset ∩ ys.toFinset).card ∧
    nUnion ys as = (as.toFinset ∪ ys.toFinset).card + (ys.length - ys.toFinset.card) := by
  obtain ⟨h1, h2⟩ := hamming_multiset_formula' ys as
  have e1 : (as.filter (fun a => ys.contains a)).length = (as.toFinset ∩ ys.toFinset).card := by
    rw [← filter_mem_toFinset, List.toFinset_card_of_nodup (ha.filter _)]
  have e2 : (as.filter (fun a => !ys.contains a)).length = (as.toFinset \ ys.toFinset).card := by
    rw [← filter_not_mem_toFinset, List.toFinset_card_of_nodup (ha.filter _)]
  constructor <;> omega

/-! #### the statement as one predicate -/

/-- the statement of C14 for the examples `exs` (features, label) a simulation is built from and the
interactions `ints` it yields: contexts, common action list, and per label type the action set and
the reward of every action -/
def MeetsStatement {χ : Type} (given : Option LType) (exs : List (χ × Label)) (ints : List (Interaction χ)) : Prop :=
  ints.map (·.context) = exs.map (·.1) ∧
  (∃ acts, ∀ x ∈ ints, x.actions = acts) ∧
  (typeOf given exs = some .c → firstLevels exs = none →
    (∀ x ∈ ints, Sorted x.actions ∧ ∀ v, v ∈ x.actions ↔ ∃ r ∈ exs, delist r.2 = .ok v) ∧
    ∀ (i : Nat) (r : χ × Label) (x : Interaction χ), exs[i]? = some r → ints[i]? = some x →
      ∃ v, delist r.2 = .ok v ∧ v ∈ x.actions ∧ ∀ a, x.reward.eval (.one a) = .ok (if a = v then 1 else 0)) ∧
  (∀ levels, typeOf given exs = some .c → firstLevels exs = some levels →
    (∀ x ∈ ints, x.actions.Sublist (levels.map Val.str) ∧
      ∀ v, v ∈ x.actions ↔ (∃ l ∈ levels, v = .str l) ∧ ∃ r ∈ exs, delist r.2 = .ok v) ∧
    ∀ (i : Nat) (r : χ × Label) (x : Interaction χ), exs[i]? = some r → ints[i]? = some x → (∀ vs, r.2 ≠ .list vs) →
      ∃ v, delist r.2 = .ok v ∧ ∀ a, x.reward.eval (.one a) = .ok (if a = v then 1 else 0)) ∧
  (typeOf given exs = some .r →
    ∀ (i : Nat) (r : χ × Label) (x : Interaction χ), exs[i]? = some r → ints[i]? = some x →
      x.actions = [] ∧ ∀ y, r.2 = .atom (.num y) → ∀ a, x.reward.eval (.one (.num a)) = .ok (-|a - y|)) ∧
  (typeOf given exs = some .m →
    (∀ x ∈ ints, Sorted x.actions ∧ ∀ v, v ∈ x.actions ↔ ∃ r ∈ exs, ∃ vs, r.2 = .list vs ∧ v ∈ vs) ∧
    ∀ (i : Nat) (r : χ × Label) (x : Interaction χ), exs[i]? = some r → ints[i]? = some x →
      ∀ ys, r.2 = .list ys → ys.Nodup → ∀ a : Action, a.asList.Nodup → (ys ≠ [] ∨ a.asList ≠ []) →
        x.reward.eval a =
          .ok (((a.asList.toFinset ∩ ys.toFinset).card : Rat) / ((a.asList.toFinset ∪ ys.toFinset).card : Rat)))

theorem read_meets_statement' {χ : Type} (given : Option LType) (exs : List (χ × Label)) (ints : List (Interaction χ))
    (h : read given exs = .ok ints) : MeetsStatement given exs ints :=
  ⟨contexts_eq' given exs ints h, actions_same' given exs ints h,
   fun ht hl => ⟨actions_eq' given exs ints h ht hl, fun i r x hr hx => reward_argmax' given exs ints h ht hl i r x hr hx⟩,
   fun levels ht hl => ⟨actions_eq_cat' given exs ints levels h ht hl,
     fun i r x hr hx hnl => reward_argmax_cat' given exs ints levels h ht hl i r x hr hx hnl⟩,
   fun ht i r x hr hx => l1_spec' given exs ints h ht i r x hr hx,
   fun ht => ⟨multilabel_actions' given exs ints h ht,
     fun i r x hr hx ys hy hyn a han hne => jaccard_spec' given exs ints h ht i r x hr hx ys hy hyn a han hne⟩⟩

/-- `exs` are the rows of `table` split at the label column `ind` (resolved against the first row) -/
def DenseSplit (ind : Int) (table : List (List Label)) (exs : List (List Label × Label)) : Prop :=
  exs.length = table.length ∧
  ∀ first, table.head? = some first → ∃ i, normIdx ind first.length = some i ∧
    ∀ (k : Nat) (row : List Label) (p : List Label × Label), table[k]? = some row → exs[k]? = some p →
      row = p.1.take i ++ p.2 :: p.1.drop i

theorem dense_meets' (given : Option LType) (ind : Int) (table : List (List Label))
    (ints : List (Interaction (List Label))) (h : simDense given none ind table = .ok ints) :
    ∃ exs, DenseSplit ind table exs ∧ MeetsStatement given exs ints := by
  cases table with
  | nil =>
    simp only [simDense, applyTake, Except.ok.injEq] at h
    subst h
    exact ⟨[], ⟨rfl, fun first hf => by simp at hf⟩, read_meets_statement' given [] [] rfl⟩
  | cons first rest =>
    obtain ⟨f, i, prs, hf, hi, hr, hlen, hsp⟩ :=
      dense_pipeline' given none ind (first :: rest) ints h (by simp [applyTake])
    refine ⟨prs, ⟨hlen, fun first' hf' => ?_⟩, read_meets_statement' given prs ints hr⟩
    simp only [applyTake] at hf
    rw [hf] at hf'
    injection hf' with hf'
    subst hf'
    exact ⟨i, hi, hsp⟩

/-! #### `take` through the reservoir of the C09 model -/

theorem take_sample_spec' {χ : Type} (given : Option LType) (k : Nat) (steps : List C09.Step)
    (rows : List (χ × Label)) (ints : List (Interaction χ)) (h : simPairsS given k steps rows = .ok ints) :
    ∃ sample, C09.reservoir (some k) false (C05.normInt 1) steps rows = .ok sample ∧
      sample.Subperm rows ∧ sample.length = min k rows.length ∧
      read given sample = .ok ints ∧ MeetsStatement given sample ints := by
  unfold simPairsS sampleRows at h
  split at h
  · cases h
  · rename_i s hs
    split at hs
    · rename_i s' hres
      injection hs with hs
      subst hs
      obtain ⟨hsub, hlen⟩ := C09.reservoir_spec' (some k) false (C05.normInt 1) steps rows s' hres
      refine ⟨s', hres, hsub, ?_, h, read_meets_statement' given s' ints h⟩
      simpa [C09.reservoirSize] using hlen
    · cases hs

/-! #### end to end -/

theorem end_to_end_csv' (delim : Nat) (hd1 : delim ≠ C12.DQ) (hd2 : C12.isNl delim = false) (hasHeader : Bool)
    (rows : List (List (Bool × C12.Text))) (hok : ∀ r ∈ rows, C12.csvRowOk r = true)
    (ind : Int) (given : Option LType) (ints : List (Interaction (List Label)))
    (h : csvSim delim hasHeader (.index ind) given (rows.map (C12.csvWriteRow delim)) = .ok ints) :
    ∃ exs, DenseSplit ind (((rows.map (·.map (·.2))).drop (if hasHeader then 1 else 0)).map (·.map textLabel)) exs ∧
      MeetsStatement given exs ints := by
  unfold csvSim at h
  rw [C12.csv_roundtrip delim hd1 hd2 hasHeader rows hok] at h
  cases hrows : rows.map (·.map (·.2)) with
  | nil =>
    rw [hrows] at h
    simp only at h
    have : simDense given none ind ([] : List (List Label)) = .ok ints := h
    cases hasHeader <;> exact dense_meets' given ind _ ints this
  | cons first rest =>
    rw [hrows] at h
    cases hasHeader with
    | true =>
      simp only [if_true] at h
      exact dense_meets' given ind _ ints h
    | false =>
      simp only [Bool.false_eq_true, if_false] at h
      exact dense_meets' given ind _ ints h

theorem end_to_end_libsvm' (rows : List C12.SvmRow) (hok : ∀ r ∈ rows, C12.svmRowOk r = true)
    (given : Option LType) (ints : List (Interaction (List (C12.Text × C12.Text))))
    (h : libsvmSim given (rows.map C12.svmWriteRow) = .ok ints) :
    MeetsStatement given (rows.map svmPair) ints := by
  unfold libsvmSim at h
  rw [C12.libsvm_roundtrip rows hok] at h
  exact read_meets_statement' given _ ints h

theorem end_to_end_manik' (first : C12.Text) (rows : List C12.SvmRow) (hok : ∀ r ∈ rows, C12.svmRowOk r = true)
    (given : Option LType) (ints : List (Interaction (List (C12.Text × C12.Text))))
    (h : manikSim given (first :: rows.map C12.svmWriteRow) = .ok ints) :
    MeetsStatement given (rows.map svmPair) ints := by
  unfold manikSim at h
  rw [C12.manik_roundtrip first rows hok] at h
  exact read_meets_statement' given _ ints h

theorem end_to_end_arff_dense' (q : Nat) (hq : q = C12.SQ ∨ q = C12.DQ) (also : Nat → Bool)
    (attrs : List C12.AttrW) (hattr : ∀ a ∈ attrs, a.ok true = true) (hnd : (attrs.map (·.name.2)).Nodup)
    (rows : List (Nat × List (Bool × C12.Text)))
    (hrows : ∀ r ∈ rows, C12.arffRowOk q r.2 = true ∧ r.2.length = attrs.length)
    (ind : Int) (given : Option LType) (ints : List (Interaction (List Label)))
    (h : arffDenseSim (.index ind) given (attrs.map (·.line q also))
          (rows.map (fun r => C12.arffWriteRow q also r.1 r.2)) = .ok ints) :
    ∃ cells table, encodeRows (attrs.map (·.typ.enc true)) (rows.map (·.2.map (·.2))) = .ok cells ∧
      rowsLabels cells = .ok table ∧
      ∃ exs, DenseSplit ind table exs ∧ MeetsStatement given exs ints := by
  unfold arffDenseSim at h
  rw [C12.arff_header_roundtrip true q hq also attrs hattr hnd] at h
  simp only [List.length_map, List.map_map] at h
  rw [C12.arff_dense_roundtrip_partial q hq also attrs.length rows hrows] at h
  simp only at h
  have hmap : (attrs.map ((fun x => x.2) ∘ fun a => (a.name.2, a.typ.enc true))) = attrs.map (·.typ.enc true) := by
    simp [Function.comp_def]
  rw [hmap] at h
  split at h
  · cases h
  · rename_i cells hc
    split at h
    · cases h
    · rename_i table ht
      exact ⟨cells, table, hc, ht, dense_meets' given ind table ints h⟩

/-! #### contexts addressed by header name: the label cannot be read out of the context -/

theorem getElem?_dropOne {α : Type} (l : List α) (i k : Nat) (hi : i < l.length) (hk : k ≠ i) :
    (l.take i ++ l.drop (i + 1))[if k < i then k else k - 1]? = l[k]? := by
  by_cases hki : k < i
  · simp only [hki, if_true]
    rw [List.getElem?_append_left (by rw [List.length_take]; omega), List.getElem?_take_of_lt hki]
  · have hgt : i < k := by omega
    simp only [hki, if_false]
    rw [List.getElem?_append_right (by rw [List.length_take]; omega), List.length_take, List.getElem?_drop]
    have : i + 1 + (k - 1 - min i l.length) = k := by omega
    rw [this]

theorem lookupNamed_not_mem {η γ : Type} [DecidableEq η] (name : η) (hs : List η) (vs : List γ) (h : name ∉ hs) :
    lookupNamed name hs vs = .error .keyError := by
  induction hs generalizing vs with
  | nil => rfl
  | cons a as ih =>
    have hne : ¬ a = name := fun e => h (by simp [e])
    simp only [lookupNamed, hne, if_false]
    exact ih vs.tail (fun hm => h (List.mem_cons_of_mem _ hm))

theorem lookupNamed_get {η γ : Type} [DecidableEq η] (name : η) (hs : List η) (vs : List γ) (hn : hs.Nodup)
    (j : Nat) (v : γ) (hj : hs[j]? = some name) (hv : vs[j]? = some v) : lookupNamed name hs vs = .ok v := by
  induction hs generalizing vs j with
  | nil => simp at hj
  | cons a as ih =>
    rw [List.nodup_cons] at hn
    cases j with
    | zero =>
      simp only [List.getElem?_cons_zero, Option.some.injEq] at hj
      cases vs with
      | nil => simp at hv
      | cons w ws =>
        simp only [List.getElem?_cons_zero, Option.some.injEq] at hv
        simp [lookupNamed, hj, hv]
    | succ j =>
      simp only [List.getElem?_cons_succ] at hj
      have hne : ¬ a = name := fun e => hn.1 (by rw [e]; exact List.mem_of_getElem? hj)
      cases vs with
      | nil => simp at hv
      | cons w ws =>
        simp only [List.getElem?_cons_succ] at hv
        simp only [lookupNamed, hne, if_false, List.tail_cons]
        exact ih ws hn.2 j hj hv

theorem label_header_absent' {η : Type} (i : Nat) (hdr : List η) (l : η) (hn : hdr.Nodup) (hl : hdr[i]? = some l) :
    l ∉ featureHeaders i hdr := by
  obtain ⟨hi, hget⟩ := List.getElem?_eq_some_iff.mp hl
  have hsplit : hdr = hdr.take i ++ l :: hdr.drop (i + 1) := by
    conv_lhs => rw [← List.take_append_drop i hdr]
    rw [List.drop_eq_getElem_cons hi, hget]
  rw [hsplit] at hn
  have h2 := List.nodup_middle.mp hn
  rw [List.nodup_cons] at h2
  exact h2.1

theorem label_lookup_fails' {η γ : Type} [DecidableEq η] (i : Nat) (hdr : List η) (feats : List γ) (l : η)
    (hn : hdr.Nodup) (hl : hdr[i]? = some l) : featureByName i hdr feats l = .error .keyError :=
  lookupNamed_not_mem l _ feats (label_header_absent' i hdr l hn hl)

theorem feature_lookup' {η γ : Type} [DecidableEq η] (i : Nat) (hdr : List η) (row feats : List γ) (lab : γ)
    (hn : hdr.Nodup) (hlen : hdr.length = row.length) (hs : splitDense i row = .ok (feats, lab))
    (k : Nat) (name : η) (v : γ) (hk : k ≠ i) (hname : hdr[k]? = some name) (hv : row[k]? = some v) :
    featureByName i hdr feats name = .ok v := by
  unfold splitDense at hs
  split at hs
  · cases hs
  · rename_i l' hl'
    injection hs with hs
    injection hs with h1 h2
    subst h1
    obtain ⟨hi, _⟩ := List.getElem?_eq_some_iff.mp hl'
    have hnf : (featureHeaders i hdr).Nodup := by
      unfold featureHeaders
      have hsub : (hdr.take i ++ hdr.drop (i + 1)).Sublist hdr := by
        conv_rhs => rw [← List.take_append_drop i hdr]
        exact List.Sublist.append (List.Sublist.refl _) (List.drop_sublist_drop_left hdr (Nat.le_succ i))
      exact hn.sublist hsub
    refine lookupNamed_get name _ _ hnf (if k < i then k else k - 1) v ?_ ?_
    · unfold featureHeaders
      rw [getElem?_dropOne hdr i k (by omega) hk]; exact hname
    · rw [getElem?_dropOne row i k hi hk]; exact hv

/-! ## Phase 3 -/

/-! #### the action order is a function of the label set (and the declared levels) alone -/

theorem actions_order_canonical' {χ₁ χ₂ : Type} (g₁ g₂ : Option LType) (rows₁ : List (χ₁ × Label)) (rows₂ : List (χ₂ × Label))
    (ints₁ : List (Interaction χ₁)) (ints₂ : List (Interaction χ₂))
    (h₁ : read g₁ rows₁ = .ok ints₁) (h₂ : read g₂ rows₂ = .ok ints₂)
    (t₁ : typeOf g₁ rows₁ = some .c) (t₂ : typeOf g₂ rows₂ = some .c)
    (l₁ : firstLevels rows₁ = none) (l₂ : firstLevels rows₂ = none)
    (hset : ∀ v, (∃ r ∈ rows₁, delist r.2 = .ok v) ↔ (∃ r ∈ rows₂, delist r.2 = .ok v)) :
    ∀ x₁ ∈ ints₁, ∀ x₂ ∈ ints₂, x₁.actions = x₂.actions := by
  intro x₁ hx₁ x₂ hx₂
  obtain ⟨s₁, m₁⟩ := actions_eq' g₁ rows₁ ints₁ h₁ t₁ l₁ x₁ hx₁
  obtain ⟨s₂, m₂⟩ := actions_eq' g₂ rows₂ ints₂ h₂ t₂ l₂ x₂ hx₂
  exact Sorted.ext s₁ s₂ (fun v => by rw [m₁ v, m₂ v, hset v])

theorem multilabel_order_canonical' {χ₁ χ₂ : Type} (g₁ g₂ : Option LType) (rows₁ : List (χ₁ × Label)) (rows₂ : List (χ₂ × Label))
    (ints₁ : List (Interaction χ₁)) (ints₂ : List (Interaction χ₂))
    (h₁ : read g₁ rows₁ = .ok ints₁) (h₂ : read g₂ rows₂ = .ok ints₂)
    (t₁ : typeOf g₁ rows₁ = some .m) (t₂ : typeOf g₂ rows₂ = some .m)
    (hset : ∀ v, (∃ r ∈ rows₁, ∃ vs, r.2 = .list vs ∧ v ∈ vs) ↔ (∃ r ∈ rows₂, ∃ vs, r.2 = .list vs ∧ v ∈ vs)) :
    ∀ x₁ ∈ ints₁, ∀ x₂ ∈ ints₂, x₁.actions = x₂.actions := by
  intro x₁ hx₁ x₂ hx₂
  obtain ⟨s₁, m₁⟩ := multilabel_actions' g₁ rows₁ ints₁ h₁ t₁ x₁ hx₁
  obtain ⟨s₂, m₂⟩ := multilabel_actions' g₂ rows₂ ints₂ h₂ t₂ x₂ hx₂
  exact Sorted.ext s₁ s₂ (fun v => by rw [m₁ v, m₂ v, hset v])

theorem catActions_congr (levels : List String) (k₁ k₂ : List Val) (h : ∀ v, v ∈ k₁ ↔ v ∈ k₂) :
    catActions levels k₁ = catActions levels k₂ := by
  unfold catActions
  congr 1
  apply List.filter_congr
  intro l _
  have := h (.str l)
  by_cases h1 : Val.str l ∈ k₁
  · simp [h1, this.mp h1]
  · have h2 : Val.str l ∉ k₂ := fun hh => h1 (this.mpr hh)
    simp [h1, h2]

theorem cat_order_canonical' {χ₁ χ₂ : Type} (g₁ g₂ : Option LType) (rows₁ : List (χ₁ × Label)) (rows₂ : List (χ₂ × Label))
    (ints₁ : List (Interaction χ₁)) (ints₂ : List (Interaction χ₂)) (levels : List String)
    (h₁ : read g₁ rows₁ = .ok ints₁) (h₂ : read g₂ rows₂ = .ok ints₂)
    (t₁ : typeOf g₁ rows₁ = some .c) (t₂ : typeOf g₂ rows₂ = some .c)
    (l₁ : firstLevels rows₁ = some levels) (l₂ : firstLevels rows₂ = some levels)
    (hset : ∀ v, (∃ r ∈ rows₁, delist r.2 = .ok v) ↔ (∃ r ∈ rows₂, delist r.2 = .ok v)) :
    ∀ x₁ ∈ ints₁, ∀ x₂ ∈ ints₂, x₁.actions = x₂.actions := by
  obtain ⟨k₁, hk₁, hi₁⟩ := read_cat_inv h₁ t₁ l₁
  obtain ⟨k₂, hk₂, hi₂⟩ := read_cat_inv h₂ t₂ l₂
  obtain ⟨m₁, n₁⟩ := labelKeys_spec hk₁
  obtain ⟨m₂, n₂⟩ := labelKeys_spec hk₂
  have hk : ∀ v, v ∈ k₁ ↔ v ∈ k₂ := by
    intro v
    rw [m₁ v, m₂ v]
    constructor
    · rintro ⟨r, hr, hv⟩
      rw [labelKey_eq_delist (n₁ r hr)] at hv
      obtain ⟨r', hr', hv'⟩ := (hset v).mp ⟨r, hr, hv⟩
      exact ⟨r', hr', by rw [labelKey_eq_delist (n₂ r' hr')]; exact hv'⟩
    · rintro ⟨r, hr, hv⟩
      rw [labelKey_eq_delist (n₂ r hr)] at hv
      obtain ⟨r', hr', hv'⟩ := (hset v).mpr ⟨r, hr, hv⟩
      exact ⟨r', hr', by rw [labelKey_eq_delist (n₁ r' hr')]; exact hv'⟩
  intro x₁ hx₁ x₂ hx₂
  rw [hi₁] at hx₁
  rw [hi₂] at hx₂
  obtain ⟨_, _, rfl⟩ := List.mem_map.mp hx₁
  obtain ⟨_, _, rfl⟩ := List.mem_map.mp hx₂
  exact catActions_congr levels k₁ k₂ hk

/-! #### end to end = the in-memory (X,Y) form -/

theorem dense_eq_xy' (given : Option LType) (ind : Int) (table : List (List Label))
    (ints : List (Interaction (List Label))) (h : simDense given none ind table = .ok ints) :
    ∃ exs, DenseSplit ind table exs ∧ simPairs given none exs = .ok ints := by
  cases table with
  | nil =>
    simp only [simDense, applyTake, Except.ok.injEq] at h
    subst h
    exact ⟨[], ⟨rfl, fun first hf => by simp at hf⟩, rfl⟩
  | cons first rest =>
    obtain ⟨f, i, prs, hf, hi, hr, hlen, hsp⟩ :=
      dense_pipeline' given none ind (first :: rest) ints h (by simp [applyTake])
    refine ⟨prs, ⟨hlen, fun first' hf' => ?_⟩, hr⟩
    simp only [applyTake] at hf
    rw [hf] at hf'
    injection hf' with hf'
    subst hf'
    exact ⟨i, hi, hsp⟩

theorem end_to_end_csv_xy' (delim : Nat) (hd1 : delim ≠ C12.DQ) (hd2 : C12.isNl delim = false) (hasHeader : Bool)
    (rows : List (List (Bool × C12.Text))) (hok : ∀ r ∈ rows, C12.csvRowOk r = true)
    (ind : Int) (given : Option LType) (ints : List (Interaction (List Label)))
    (h : csvSim delim hasHeader (.index ind) given (rows.map (C12.csvWriteRow delim)) = .ok ints) :
    ∃ exs, DenseSplit ind (((rows.map (·.map (·.2))).drop (if hasHeader then 1 else 0)).map (·.map textLabel)) exs ∧
      simPairs given none exs = .ok ints := by
  unfold csvSim at h
  rw [C12.csv_roundtrip delim hd1 hd2 hasHeader rows hok] at h
  cases hrows : rows.map (·.map (·.2)) with
  | nil =>
    rw [hrows] at h
    simp only at h
    have : simDense given none ind ([] : List (List Label)) = .ok ints := h
    cases hasHeader <;> exact dense_eq_xy' given ind _ ints this
  | cons first rest =>
    rw [hrows] at h
    cases hasHeader with
    | true =>
      simp only [if_true] at h
      exact dense_eq_xy' given ind _ ints h
    | false =>
      simp only [Bool.false_eq_true, if_false] at h
      exact dense_eq_xy' given ind _ ints h

theorem end_to_end_libsvm_xy' (rows : List C12.SvmRow) (hok : ∀ r ∈ rows, C12.svmRowOk r = true) (given : Option LType) :
    libsvmSim given (rows.map C12.svmWriteRow) = simPairs given none (rows.map svmPair) := by
  unfold libsvmSim
  rw [C12.libsvm_roundtrip rows hok]
  rfl

theorem end_to_end_manik_xy' (first : C12.Text) (rows : List C12.SvmRow) (hok : ∀ r ∈ rows, C12.svmRowOk r = true)
    (given : Option LType) :
    manikSim given (first :: rows.map C12.svmWriteRow) = simPairs given none (rows.map svmPair) := by
  unfold manikSim
  rw [C12.manik_roundtrip first rows hok]
  rfl

theorem end_to_end_arff_dense_xy' (q : Nat) (hq : q = C12.SQ ∨ q = C12.DQ) (also : Nat → Bool)
    (attrs : List C12.AttrW) (hattr : ∀ a ∈ attrs, a.ok true = true) (hnd : (attrs.map (·.name.2)).Nodup)
    (rows : List (Nat × List (Bool × C12.Text)))
    (hrows : ∀ r ∈ rows, C12.arffRowOk q r.2 = true ∧ r.2.length = attrs.length)
    (ind : Int) (given : Option LType) (ints : List (Interaction (List Label)))
    (h : arffDenseSim (.index ind) given (attrs.map (·.line q also))
          (rows.map (fun r => C12.arffWriteRow q also r.1 r.2)) = .ok ints) :
    ∃ cells table, encodeRows (attrs.map (·.typ.enc true)) (rows.map (·.2.map (·.2))) = .ok cells ∧
      rowsLabels cells = .ok table ∧
      ∃ exs, DenseSplit ind table exs ∧ simPairs given none exs = .ok ints := by
  unfold arffDenseSim at h
  rw [C12.arff_header_roundtrip true q hq also attrs hattr hnd] at h
  simp only [List.length_map, List.map_map] at h
  rw [C12.arff_dense_roundtrip_partial q hq also attrs.length rows hrows] at h
  simp only at h
  have hmap : (attrs.map ((fun x => x.2) ∘ fun a => (a.name.2, a.typ.enc true))) = attrs.map (·.typ.enc true) := by
    simp [Function.comp_def]
  rw [hmap] at h
  split at h
  · cases h
  · rename_i cells hc
    split at h
    · cases h
    · rename_i table ht
      exact ⟨cells, table, hc, ht, dense_eq_xy' given ind table ints h⟩

/-! #### the lazy context object (C13 model): every access path gives the features, none gives the label -/

theorem refD_lazyRow (hdr : Option (List String)) (vals : List C13.Val) :
    C13.RefD (lazyRow hdr vals) ⟨vals, hdr.map C13.zipNames, none, none⟩ := by
  cases hdr with
  | none => exact C13.refD_plain vals none
  | some ns => exact C13.refD_head (C13.refD_plain vals none) (C13.zipNames ns)

theorem lazy_context' (hdr : Option (List String)) (vals : List C13.Val) (i : Nat) (t : Option String)
    (hi : i < vals.length) :
    (C13.DRow.label (lazyRow hdr vals) i t).feats = .ok (lazyContext hdr vals i) ∧
    (C13.DRow.label (lazyRow hdr vals) i t).labelVal = C13.idx vals i ∧
    (lazyContext hdr vals i).iter = .ok (vals.eraseIdx i) ∧
    (lazyContext hdr vals i).len = (vals.eraseIdx i).length ∧
    (∀ j, (lazyContext hdr vals i).getPos j = C13.idx (vals.eraseIdx i) j) ∧
    (lazyContext hdr vals i).headers.toOption = (hdr.map C13.zipNames).map (C13.DRow.shiftHdr i) := by
  have h := C13.refD_dropOne (refD_lazyRow hdr vals) i hi
  refine ⟨rfl, ?_, h.iter, h.len, h.pos, h.hdr⟩
  show (lazyRow hdr vals).getPos i = C13.idx vals i
  exact (refD_lazyRow hdr vals).pos i

theorem dget_filterMap_none {κ ν : Type} [DecidableEq κ] (f : κ × ν → Option (κ × ν)) (h : List (κ × ν)) (s : κ)
    (hname : ∀ p q, f p = some q → q.1 = p.1) (hdrop : ∀ p ∈ h, p.1 = s → f p = none) :
    C13.dget (h.filterMap f) s = none := by
  induction h with
  | nil => rfl
  | cons p ps ih =>
    have ihp := ih (fun q hq => hdrop q (List.mem_cons_of_mem _ hq))
    rw [List.filterMap_cons]
    cases hf : f p with
    | none => exact ihp
    | some q =>
      obtain ⟨qa, qb⟩ := q
      have hq : qa = p.1 := hname p (qa, qb) hf
      have hne : ¬ qa = s := by
        intro e
        have := hdrop p List.mem_cons_self (by rw [← hq]; exact e)
        rw [hf] at this
        cases this
      simp only [C13.dget, hne, if_false]
      exact ihp

theorem shiftHdr_names (i : Nat) (p q : String × Nat)
    (h : (fun p : String × Nat => if p.2 = i then none else some (p.1, if p.2 < i then p.2 else p.2 - 1)) p = some q) :
    q.1 = p.1 := by
  simp only at h
  split at h
  · cases h
  · injection h with h; rw [← h]

theorem lazy_context_label_hidden' (ns : List String) (vals : List C13.Val) (i : Nat) (l : String)
    (hn : ns.Nodup) (hl : ns[i]? = some l) :
    (lazyContext (some ns) vals i).getName l = .error .keyError := by
  have hd : C13.dget (C13.DRow.shiftHdr i (C13.zipNames ns)) l = none := by
    unfold C13.DRow.shiftHdr
    apply dget_filterMap_none _ _ _ (shiftHdr_names i)
    intro p hp hpl
    have hp' : ns[p.2]? = some p.1 := by
      have := List.mem_zipIdx_iff_getElem?.mp (show (p.1, p.2) ∈ ns.zipIdx from hp)
      simpa using this
    obtain ⟨h1, h1v⟩ := List.getElem?_eq_some_iff.mp hp'
    obtain ⟨h2, h2v⟩ := List.getElem?_eq_some_iff.mp hl
    have : p.2 = i := by
      apply (List.Nodup.getElem_inj_iff hn).mp
      rw [h1v, h2v, hpl]
    simp [this]
  simp only [lazyContext, lazyRow, C13.DRow.getName, C13.DRow.headers, hd]

theorem dget_filterMap_some {κ ν : Type} [DecidableEq κ] (f : κ × ν → Option (κ × ν)) (h : List (κ × ν)) (s : κ) (k k' : ν)
    (hname : ∀ p q, f p = some q → q.1 = p.1) (huniq : ∀ p ∈ h, p.1 = s → p = (s, k)) (hmem : (s, k) ∈ h)
    (hf : f (s, k) = some (s, k')) :
    C13.dget (h.filterMap f) s = some k' := by
  induction h with
  | nil => cases hmem
  | cons p ps ih =>
    rw [List.filterMap_cons]
    by_cases hp : p.1 = s
    · have := huniq p List.mem_cons_self hp
      subst this
      rw [hf]
      simp [C13.dget]
    · have hmem' : (s, k) ∈ ps := by
        rcases List.mem_cons.mp hmem with h | h
        · exact absurd (by rw [← h]) hp
        · exact h
      have ihp := ih (fun q hq => huniq q (List.mem_cons_of_mem _ hq)) hmem'
      cases hfp : f p with
      | none => exact ihp
      | some q =>
        obtain ⟨qa, qb⟩ := q
        have hq : qa = p.1 := hname p (qa, qb) hfp
        have hne : ¬ qa = s := by rw [hq]; exact hp
        simp only [C13.dget, hne, if_false]
        exact ihp

theorem lazy_context_name' (ns : List String) (vals : List C13.Val) (i k : Nat) (name : String) (v : C13.Val)
    (hn : ns.Nodup) (hi : i < vals.length) (hk : k ≠ i) (hname : ns[k]? = some name) (hv : vals[k]? = some v) :
    (lazyContext (some ns) vals i).getName name = .ok v := by
  have hd : C13.dget (C13.DRow.shiftHdr i (C13.zipNames ns)) name = some (if k < i then k else k - 1) := by
    unfold C13.DRow.shiftHdr
    apply dget_filterMap_some _ _ _ k _ (shiftHdr_names i)
    · intro p hp hpl
      have hp' : ns[p.2]? = some p.1 := by
        have := List.mem_zipIdx_iff_getElem?.mp (show (p.1, p.2) ∈ ns.zipIdx from hp)
        simpa using this
      obtain ⟨h1, h1v⟩ := List.getElem?_eq_some_iff.mp hp'
      obtain ⟨h2, h2v⟩ := List.getElem?_eq_some_iff.mp hname
      have : p.2 = k := by
        apply (List.Nodup.getElem_inj_iff hn).mp
        rw [h1v, h2v, hpl]
      exact Prod.ext hpl this
    · exact List.mem_zipIdx_iff_getElem?.mpr (by simpa using hname)
    · simp [hk]
  have hpos := (lazy_context' (some ns) vals i none hi).2.2.2.2.1 (if k < i then k else k - 1)
  have hget : C13.idx (vals.eraseIdx i) (if k < i then k else k - 1) = .ok v := by
    unfold C13.idx
    rw [List.eraseIdx_eq_take_drop_succ, getElem?_dropOne vals i k hi hk, hv]
  rw [hget] at hpos
  simp only [lazyContext, lazyRow, C13.DRow.getName, C13.DRow.headers, hd]
  exact hpos

end Coba.C14

/-! ## Phase 4: `take` inside the text pipelines, `label_col` by header name, whole-file ARFF -/

namespace Coba.C14

theorem sampleOpt_spec' {ρ : Type} (k : Nat) (steps : List C09.Step) (rows s : List ρ)
    (h : sampleOpt (some (k, steps)) rows = .ok s) :
    C09.reservoir (some k) false (C05.normInt 1) steps rows = .ok s ∧ s.Subperm rows ∧ s.length = min k rows.length := by
  unfold sampleOpt sampleRows at h
  simp only at h
  split at h
  · rename_i s' hres
    injection h with h
    subst h
    obtain ⟨hsub, hlen⟩ := C09.reservoir_spec' (some k) false (C05.normInt 1) steps rows s' hres
    exact ⟨hres, hsub, by simpa [C09.reservoirSize] using hlen⟩
  · cases h

theorem denseByCol_name' (h : List C12.Text) (nm : C12.Text) (i : Nat) (given : Option LType) (table : List (List Label))
    (hi : headerIndex h nm = some i) :
    denseByCol (some h) (.name nm) given table = denseByCol (some h) (.index (i : Int)) given table := by
  cases table with
  | nil => simp [denseByCol, simDense, applyTake]
  | cons r rs => simp [denseByCol, hi]

theorem csvSimT_none' (delim : Nat) (hasHeader : Bool) (lc : LabelCol) (given : Option LType) (lines : List C12.Text) :
    csvSimT delim hasHeader lc given none lines = csvSim delim hasHeader lc given lines := by
  unfold csvSimT csvSim
  split
  · rfl
  · rename_i hdr rows _
    cases lc with
    | index i => rfl
    | name nm =>
      cases rows with
      | nil => rfl
      | cons r rs => rfl

theorem csvT_core (hdr : Option (List C12.Text)) (data : List (List C12.Text)) (ind : Int) (given : Option LType)
    (k : Nat) (steps : List C09.Step) (ints : List (Interaction (List Label)))
    (h : csvTail hdr (.index ind) given (some (k, steps)) data = .ok ints) :
    ∃ sample, C09.reservoir (some k) false (C05.normInt 1) steps data = .ok sample ∧
      sample.Subperm data ∧ sample.length = min k data.length ∧
      ∃ exs, DenseSplit ind (sample.map (·.map textLabel)) exs ∧ MeetsStatement given exs ints := by
  unfold csvTail at h
  split at h
  · cases h
  · rename_i s hs
    obtain ⟨a, b, c⟩ := sampleOpt_spec' k steps data s hs
    exact ⟨s, a, b, c, dense_meets' given ind _ ints h⟩

theorem end_to_end_csv_take' (delim : Nat) (hd1 : delim ≠ C12.DQ) (hd2 : C12.isNl delim = false) (hasHeader : Bool)
    (rows : List (List (Bool × C12.Text))) (hok : ∀ r ∈ rows, C12.csvRowOk r = true)
    (ind : Int) (given : Option LType) (k : Nat) (steps : List C09.Step) (ints : List (Interaction (List Label)))
    (h : csvSimT delim hasHeader (.index ind) given (some (k, steps)) (rows.map (C12.csvWriteRow delim)) = .ok ints) :
    ∃ sample, C09.reservoir (some k) false (C05.normInt 1) steps
        ((rows.map (·.map (·.2))).drop (if hasHeader then 1 else 0)) = .ok sample ∧
      sample.Subperm ((rows.map (·.map (·.2))).drop (if hasHeader then 1 else 0)) ∧
      sample.length = min k ((rows.map (·.map (·.2))).drop (if hasHeader then 1 else 0)).length ∧
      ∃ exs, DenseSplit ind (sample.map (·.map textLabel)) exs ∧ MeetsStatement given exs ints := by
  unfold csvSimT at h
  rw [C12.csv_roundtrip delim hd1 hd2 hasHeader rows hok] at h
  cases hrows : rows.map (·.map (·.2)) with
  | nil =>
    rw [hrows] at h
    simp only at h
    cases hasHeader <;> exact csvT_core none [] ind given k steps ints h
  | cons first rest =>
    rw [hrows] at h
    cases hasHeader with
    | true =>
      simp only [if_true] at h
      exact csvT_core (some first) rest ind given k steps ints h
    | false =>
      simp only [Bool.false_eq_true, if_false] at h
      exact csvT_core none (first :: rest) ind given k steps ints h

/-- with a header line, naming the label column is the same as giving the index the name stands for -/
theorem end_to_end_csv_name' (delim : Nat) (hd1 : delim ≠ C12.DQ) (hd2 : C12.isNl delim = false)
    (hdr : List (Bool × C12.Text)) (rows : List (List (Bool × C12.Text))) (hok : ∀ r ∈ hdr :: rows, C12.csvRowOk r = true)
    (nm : C12.Text) (i : Nat) (hi : headerIndex (hdr.map (·.2)) nm = some i)
    (given : Option LType) (res : Option (Nat × List C09.Step)) :
    csvSimT delim true (.name nm) given res ((hdr :: rows).map (C12.csvWriteRow delim)) =
      csvSimT delim true (.index (i : Int)) given res ((hdr :: rows).map (C12.csvWriteRow delim)) := by
  unfold csvSimT
  rw [C12.csv_roundtrip delim hd1 hd2 true (hdr :: rows) hok]
  simp only [List.map_cons, if_true, csvTail]
  split
  · rfl
  · exact denseByCol_name' _ nm i given _ hi

theorem end_to_end_libsvm_take' (rows : List C12.SvmRow) (hok : ∀ r ∈ rows, C12.svmRowOk r = true)
    (given : Option LType) (k : Nat) (steps : List C09.Step) (ints : List (Interaction (List (C12.Text × C12.Text))))
    (h : libsvmSimT given (some (k, steps)) (rows.map C12.svmWriteRow) = .ok ints) :
    ∃ sample, C09.reservoir (some k) false (C05.normInt 1) steps rows = .ok sample ∧
      sample.Subperm rows ∧ sample.length = min k rows.length ∧ MeetsStatement given (sample.map svmPair) ints := by
  unfold libsvmSimT at h
  rw [C12.libsvm_roundtrip rows hok] at h
  simp only at h
  split at h
  · cases h
  · rename_i s hs
    obtain ⟨a, b, c⟩ := sampleOpt_spec' k steps rows s hs
    exact ⟨s, a, b, c, read_meets_statement' given _ ints h⟩

theorem end_to_end_manik_take' (first : C12.Text) (rows : List C12.SvmRow) (hok : ∀ r ∈ rows, C12.svmRowOk r = true)
    (given : Option LType) (k : Nat) (steps : List C09.Step) (ints : List (Interaction (List (C12.Text × C12.Text))))
    (h : manikSimT given (some (k, steps)) (first :: rows.map C12.svmWriteRow) = .ok ints) :
    ∃ sample, C09.reservoir (some k) false (C05.normInt 1) steps rows = .ok sample ∧
      sample.Subperm rows ∧ sample.length = min k rows.length ∧ MeetsStatement given (sample.map svmPair) ints := by
  unfold manikSimT at h
  rw [C12.manik_roundtrip first rows hok] at h
  simp only at h
  split at h
  · cases h
  · rename_i s hs
    obtain ⟨a, b, c⟩ := sampleOpt_spec' k steps rows s hs
    exact ⟨s, a, b, c, read_meets_statement' given _ ints h⟩

theorem libsvmSimT_none' (given : Option LType) (lines : List C12.Text) : libsvmSimT given none lines = libsvmSim given lines := by
  unfold libsvmSimT libsvmSim
  split <;> rfl

theorem manikSimT_none' (given : Option LType) (lines : List C12.Text) : manikSimT given none lines = manikSim given lines := by
  unfold manikSimT manikSim
  split <;> rfl

/-- the round trip of the whole-file reader on a *sparse* file, as a named hypothesis: C12 proves it for one data line
(`arff_sparse_roundtrip_partial`) and for whole dense files (`arff_dense_table_roundtrip`), not yet for `sparseRows` over a file -/
def SparseFileRoundTrip (lines : List C12.Text) (names : List C12.Text) (srows : List C12.SparseRow) : Prop :=
  C12.arffRead lines = .ok (.sparse names srows)

theorem end_to_end_arff_file_sparse_under' (lines : List C12.Text) (names : List C12.Text) (srows : List C12.SparseRow)
    (hrt : SparseFileRoundTrip lines names srows) (lc : LabelCol) (given : Option LType)
    (ints : List (Interaction (List (Val × Label))))
    (h : arffFileSim lc given none lines = .sparse (.ok ints)) :
    ∃ table, sparseTable (srows.map (·.items)) = .ok table ∧
      MeetsStatement given (table.map (splitSparse (sparseKey names lc) (Label.atom (.num 0)))) ints := by
  unfold arffFileSim at h
  rw [hrt] at h
  simp only [sampleOpt, ArffOut.sparse.injEq] at h
  split at h
  · cases h
  · rename_i table ht
    refine ⟨table, ht, read_meets_statement' given _ ints ?_⟩
    simpa [simSparse, applyTake] using h

theorem end_to_end_arff_file_dense' (q : Nat) (hq : q = C12.SQ ∨ q = C12.DQ) (also : Nat → Bool) (attrs : List C12.AttrW) (dkw : C12.Text)
    (rows : List (Nat × List (Bool × C12.CellW)))
    (hattrs : attrs ≠ []) (hok : ∀ a ∈ attrs, a.ok true = true) (hnd : (attrs.map (·.name.2)).Nodup)
    (hdkw : C12.lowerAscii dkw = C12.kwData) (hne : rows ≠ [])
    (hrows : ∀ r ∈ rows, C12.denseRowWOk q also r.1 (attrs.map (·.typ.enc true)) r.2 = true)
    (hfirst : ∀ r, rows.head? = some r → C12.notBraced (C12.denseRowLine q also r.1 r.2) = true)
    (lines : List C12.Text)
    (hnorm : C12.arffNormalize lines = attrs.map (·.line q also) ++ dkw :: rows.map (fun r => C12.denseRowLine q also r.1 r.2))
    (lc : LabelCol) (given : Option LType) (ints : List (Interaction (List Label)))
    (h : arffFileSim lc given none lines = .dense (.ok ints)) :
    ∃ table, rowsLabels (rows.map fun r => C12.rowOut (attrs.map (·.typ.enc true)) r.2) = .ok table ∧
      denseByCol (some (attrs.map (·.name.2))) lc given table = .ok ints := by
  unfold arffFileSim C12.arffRead at h
  rw [hnorm, C12.arff_dense_table_roundtrip q hq also attrs dkw rows hattrs hok hnd hdkw hne hrows hfirst] at h
  simp only [sampleOpt, ArffOut.dense.injEq, List.map_map, Function.comp_def] at h
  split at h
  · cases h
  · rename_i table ht
    exact ⟨table, ht, h⟩


theorem denseByCol_index_meets' (ind : Int) (hdr : Option (List C12.Text)) (given : Option LType) (table : List (List Label))
    (ints : List (Interaction (List Label))) (h : denseByCol hdr (.index ind) given table = .ok ints) :
    ∃ exs, DenseSplit ind table exs ∧ MeetsStatement given exs ints ∧ simPairs given none exs = .ok ints := by
  have h' : simDense given none ind table = .ok ints := h
  obtain ⟨exs, hs, hx⟩ := dense_eq_xy' given ind table ints h'
  refine ⟨exs, hs, read_meets_statement' given exs ints ?_, hx⟩
  simpa [simPairs, applyTake] using hx

/-- `@attribute a numeric` / `@attribute y {x,z}` / `@data` / `{0 2,1 z}` / `{1 x}` -/
def sparseDemo : List C12.Text :=
  ["@attribute a numeric", "@attribute y {x,z}", "@data", "{0 2,1 z}", "{1 x}"].map (fun s => s.toList.map Char.toNat)

theorem sparseDemo_isSparse :
    (match C12.arffRead sparseDemo with | .ok (.sparse _ _) => true | _ => false) = true := by decide +kernel

theorem sparseDemo_roundtrip : ∃ names srows, SparseFileRoundTrip sparseDemo names srows := by
  have h := sparseDemo_isSparse
  unfold SparseFileRoundTrip
  split at h
  · rename_i n r heq
    exact ⟨n, r, heq⟩
  · cases h

/-- the action lists a sparse whole-file simulation offers (`none` when the file is not sparse or the read fails) -/
def sparseActions (lc : LabelCol) (given : Option LType) (lines : List C12.Text) : Option (List (List Val)) :=
  match arffFileSim lc given none lines with
  | .sparse (.ok ints) => some (ints.map (·.actions))
  | _ => none

theorem sparseDemo_actions :
    sparseActions (.name [121]) none sparseDemo = some [[.str "x", .str "z"], [.str "x", .str "z"]] := by decide +kernel

end Coba.C14

/-! ## Phase 5: `SparseFileRoundTrip` discharged (C12's `arff_sparse_table_roundtrip`), whole-file ARFF with take, `headerIndex` spec -/

namespace Coba.C14

theorem headerIndex_some_iff' (h : List C12.Text) (nm : C12.Text) (i : Nat) :
    headerIndex h nm = some i ↔ h[i]? = some nm ∧ ∀ j, i < j → h[j]? ≠ some nm := by
  unfold headerIndex
  constructor
  · intro hh
    split at hh
    · cases hh
    · rename_i j hj
      injection hh with hh
      rw [List.idxOf?, List.findIdx?_eq_some_iff_getElem] at hj
      obtain ⟨hlt, hp, hmin⟩ := hj
      simp only [List.length_reverse] at hlt
      simp only [List.getElem_reverse, beq_iff_eq] at hp
      subst hh
      refine ⟨?_, ?_⟩
      · rw [List.getElem?_eq_some_iff]; exact ⟨by omega, hp⟩
      · intro k hk hk'
        obtain ⟨hkl, hkv⟩ := List.getElem?_eq_some_iff.mp hk'
        have := hmin (h.length - 1 - k) (by omega)
        simp only [List.getElem_reverse, beq_iff_eq] at this
        apply this
        have e : h.length - 1 - (h.length - 1 - k) = k := by omega
        simp only [e]; exact hkv
  · rintro ⟨hi, hlast⟩
    obtain ⟨hil, hiv⟩ := List.getElem?_eq_some_iff.mp hi
    have hj : h.reverse.idxOf? nm = some (h.length - 1 - i) := by
      rw [List.idxOf?, List.findIdx?_eq_some_iff_getElem]
      refine ⟨by simp; omega, ?_, ?_⟩
      · simp only [List.getElem_reverse, beq_iff_eq]
        have e : h.length - 1 - (h.length - 1 - i) = i := by omega
        simp only [e]; exact hiv
      · intro j hji
        simp only [List.getElem_reverse, beq_iff_eq]
        intro hc
        exact hlast (h.length - 1 - j) (by omega) (List.getElem?_eq_some_iff.mpr ⟨by omega, hc⟩)
    rw [hj]
    simp only [Option.some.injEq]
    omega

theorem headerIndex_none_iff' (h : List C12.Text) (nm : C12.Text) : headerIndex h nm = none ↔ nm ∉ h := by
  unfold headerIndex
  constructor
  · intro hh
    split at hh
    · rename_i hj
      rw [List.idxOf?, List.findIdx?_eq_none_iff] at hj
      intro hm
      have := hj nm (List.mem_reverse.mpr hm)
      simp at this
    · cases hh
  · intro hm
    have : h.reverse.idxOf? nm = none := by
      rw [List.idxOf?, List.findIdx?_eq_none_iff]
      intro x hx
      simp only [beq_eq_false_iff_ne, ne_eq]
      intro hxe; subst hxe; exact hm (List.mem_reverse.mp hx)
    rw [this]

/-- the rows C12's `arff_sparse_table_roundtrip` says the reader returns for a written sparse file -/
def sparseWritten (attrs : List C12.AttrW) (rows : List (Nat × List (C12.Text × C12.CellW))) : List C12.SparseRow :=
  rows.map fun r => ⟨C12.sparseRowOut (attrs.map (·.name.2)) (attrs.map (·.typ.enc false)) r.2, r.2.any (·.2.isMissing)⟩

def denseWritten (attrs : List C12.AttrW) (rows : List (Nat × List (Bool × C12.CellW))) : List C12.DenseRow :=
  rows.map fun r => ⟨C12.rowOut (attrs.map (·.typ.enc true)) r.2, r.2.any (·.2.isMissing)⟩

theorem sparse_file_roundtrip' (q : Nat) (hq : q = C12.SQ ∨ q = C12.DQ) (also : Nat → Bool) (attrs : List C12.AttrW) (dkw : C12.Text)
    (rows : List (Nat × List (C12.Text × C12.CellW)))
    (hattrs : attrs ≠ []) (hok : ∀ a ∈ attrs, a.ok false = true) (hnd : (attrs.map (·.name.2)).Nodup)
    (hdkw : C12.lowerAscii dkw = C12.kwData) (hne : rows ≠ [])
    (hrows : ∀ r ∈ rows, C12.sparseRowWOk attrs.length (attrs.map (·.typ.enc false)) r.2 = true)
    (lines : List C12.Text)
    (hnorm : C12.arffNormalize lines = attrs.map (·.line q also) ++ dkw :: rows.map (fun r => C12.sparseRowLine r.1 r.2)) :
    SparseFileRoundTrip lines (attrs.map (·.name.2)) (sparseWritten attrs rows) := by
  unfold SparseFileRoundTrip C12.arffRead sparseWritten
  rw [hnorm, C12.arff_sparse_table_roundtrip q hq also attrs dkw rows hattrs hok hnd hdkw hne hrows]

/-- what follows the reader on a sparse result, with or without take -/
theorem sparse_tail' (lines names) (srows : List C12.SparseRow) (hrt : SparseFileRoundTrip lines names srows)
    (lc : LabelCol) (given : Option LType) (res : Option (Nat × List C09.Step))
    (ints : List (Interaction (List (Val × Label))))
    (h : arffFileSim lc given res lines = .sparse (.ok ints)) :
    ∃ sample table, sampleOpt res srows = .ok sample ∧ sparseTable (sample.map (·.items)) = .ok table ∧
      MeetsStatement given (table.map (splitSparse (sparseKey names lc) (Label.atom (.num 0)))) ints ∧
      simPairs given none (table.map (splitSparse (sparseKey names lc) (Label.atom (.num 0)))) = .ok ints := by
  unfold arffFileSim at h
  rw [hrt] at h
  simp only [ArffOut.sparse.injEq] at h
  split at h
  · cases h
  · rename_i s hs
    split at h
    · cases h
    · rename_i table ht
      have hr : read given (table.map (splitSparse (sparseKey names lc) (Label.atom (.num 0)))) = .ok ints := by
        simpa [simSparse, applyTake] using h
      exact ⟨s, table, hs, ht, read_meets_statement' given _ ints hr, by simpa [simPairs, applyTake] using hr⟩

theorem end_to_end_arff_file_sparse' (q : Nat) (hq : q = C12.SQ ∨ q = C12.DQ) (also : Nat → Bool) (attrs : List C12.AttrW) (dkw : C12.Text)
    (rows : List (Nat × List (C12.Text × C12.CellW)))
    (hattrs : attrs ≠ []) (hok : ∀ a ∈ attrs, a.ok false = true) (hnd : (attrs.map (·.name.2)).Nodup)
    (hdkw : C12.lowerAscii dkw = C12.kwData) (hne : rows ≠ [])
    (hrows : ∀ r ∈ rows, C12.sparseRowWOk attrs.length (attrs.map (·.typ.enc false)) r.2 = true)
    (lines : List C12.Text)
    (hnorm : C12.arffNormalize lines = attrs.map (·.line q also) ++ dkw :: rows.map (fun r => C12.sparseRowLine r.1 r.2))
    (lc : LabelCol) (given : Option LType) (ints : List (Interaction (List (Val × Label))))
    (h : arffFileSim lc given none lines = .sparse (.ok ints)) :
    ∃ table, sparseTable (rows.map fun r => C12.sparseRowOut (attrs.map (·.name.2)) (attrs.map (·.typ.enc false)) r.2) = .ok table ∧
      MeetsStatement given (table.map (splitSparse (sparseKey (attrs.map (·.name.2)) lc) (Label.atom (.num 0)))) ints ∧
      simPairs given none (table.map (splitSparse (sparseKey (attrs.map (·.name.2)) lc) (Label.atom (.num 0)))) = .ok ints := by
  obtain ⟨s, table, hs, ht, hm, hx⟩ := sparse_tail' lines _ _
    (sparse_file_roundtrip' q hq also attrs dkw rows hattrs hok hnd hdkw hne hrows lines hnorm) lc given none ints h
  simp only [sampleOpt, Except.ok.injEq] at hs
  subst hs
  refine ⟨table, ?_, hm, hx⟩
  simpa [sparseWritten, Function.comp_def] using ht

theorem end_to_end_arff_file_sparse_take' (q : Nat) (hq : q = C12.SQ ∨ q = C12.DQ) (also : Nat → Bool) (attrs : List C12.AttrW) (dkw : C12.Text)
    (rows : List (Nat × List (C12.Text × C12.CellW)))
    (hattrs : attrs ≠ []) (hok : ∀ a ∈ attrs, a.ok false = true) (hnd : (attrs.map (·.name.2)).Nodup)
    (hdkw : C12.lowerAscii dkw = C12.kwData) (hne : rows ≠ [])
    (hrows : ∀ r ∈ rows, C12.sparseRowWOk attrs.length (attrs.map (·.typ.enc false)) r.2 = true)
    (lines : List C12.Text)
    (hnorm : C12.arffNormalize lines = attrs.map (·.line q also) ++ dkw :: rows.map (fun r => C12.sparseRowLine r.1 r.2))
    (lc : LabelCol) (given : Option LType) (k : Nat) (steps : List C09.Step) (ints : List (Interaction (List (Val × Label))))
    (h : arffFileSim lc given (some (k, steps)) lines = .sparse (.ok ints)) :
    ∃ sample, C09.reservoir (some k) false (C05.normInt 1) steps (sparseWritten attrs rows) = .ok sample ∧
      sample.Subperm (sparseWritten attrs rows) ∧ sample.length = min k rows.length ∧
      ∃ table, sparseTable (sample.map (·.items)) = .ok table ∧
        MeetsStatement given (table.map (splitSparse (sparseKey (attrs.map (·.name.2)) lc) (Label.atom (.num 0)))) ints ∧
        simPairs given none (table.map (splitSparse (sparseKey (attrs.map (·.name.2)) lc) (Label.atom (.num 0)))) = .ok ints := by
  obtain ⟨s, table, hs, ht, hm, hx⟩ := sparse_tail' lines _ _
    (sparse_file_roundtrip' q hq also attrs dkw rows hattrs hok hnd hdkw hne hrows lines hnorm) lc given (some (k, steps)) ints h
  obtain ⟨a, b, c⟩ := sampleOpt_spec' k steps _ s hs
  exact ⟨s, a, b, by simpa [sparseWritten] using c, table, ht, hm, hx⟩

theorem end_to_end_arff_file_dense_take' (q : Nat) (hq : q = C12.SQ ∨ q = C12.DQ) (also : Nat → Bool) (attrs : List C12.AttrW) (dkw : C12.Text)
    (rows : List (Nat × List (Bool × C12.CellW)))
    (hattrs : attrs ≠ []) (hok : ∀ a ∈ attrs, a.ok true = true) (hnd : (attrs.map (·.name.2)).Nodup)
    (hdkw : C12.lowerAscii dkw = C12.kwData) (hne : rows ≠ [])
    (hrows : ∀ r ∈ rows, C12.denseRowWOk q also r.1 (attrs.map (·.typ.enc true)) r.2 = true)
    (hfirst : ∀ r, rows.head? = some r → C12.notBraced (C12.denseRowLine q also r.1 r.2) = true)
    (lines : List C12.Text)
    (hnorm : C12.arffNormalize lines = attrs.map (·.line q also) ++ dkw :: rows.map (fun r => C12.denseRowLine q also r.1 r.2))
    (lc : LabelCol) (given : Option LType) (k : Nat) (steps : List C09.Step) (ints : List (Interaction (List Label)))
    (h : arffFileSim lc given (some (k, steps)) lines = .dense (.ok ints)) :
    ∃ sample, C09.reservoir (some k) false (C05.normInt 1) steps (denseWritten attrs rows) = .ok sample ∧
      sample.Subperm (denseWritten attrs rows) ∧ sample.length = min k rows.length ∧
      ∃ table, rowsLabels (sample.map (·.cells)) = .ok table ∧
        denseByCol (some (attrs.map (·.name.2))) lc given table = .ok ints := by
  unfold arffFileSim C12.arffRead at h
  rw [hnorm, C12.arff_dense_table_roundtrip q hq also attrs dkw rows hattrs hok hnd hdkw hne hrows hfirst] at h
  simp only [ArffOut.dense.injEq] at h
  split at h
  · cases h
  · rename_i s hs
    split at h
    · cases h
    · rename_i table ht
      obtain ⟨a, b, c⟩ := sampleOpt_spec' k steps _ s hs
      exact ⟨s, a, b, by simpa [denseWritten] using c, table, ht, h⟩

def a2t (s : String) : C12.Text := s.toList.map Char.toNat

/-- the sparse demo file as the writer's data: `@attribute a numeric` / `@attribute y {x,z}` / `@data` / `{0 2,1 z}` / `{1 x}` -/
def demoAttrs : List C12.AttrW :=
  [⟨a2t "@attribute", 32, (false, a2t "a"), [32], .numeric (a2t "numeric")⟩,
   ⟨a2t "@attribute", 32, (false, a2t "y"), [32], .nominal 0 [(false, a2t "x"), (false, a2t "z")]⟩]

def demoRows : List (Nat × List (C12.Text × C12.CellW)) :=
  [(0, [(a2t "0", .num (a2t "2")), (a2t "1", .cat (a2t "z"))]), (0, [(a2t "1", .cat (a2t "x"))])]

theorem demo_written :
    demoAttrs.map (·.line C12.SQ (fun _ => false)) ++ a2t "@data" :: demoRows.map (fun r => C12.sparseRowLine r.1 r.2) = sparseDemo := by
  decide +kernel

theorem demo_hyps :
    demoAttrs ≠ [] ∧ (∀ a ∈ demoAttrs, a.ok false = true) ∧ (demoAttrs.map (·.name.2)).Nodup ∧
    C12.lowerAscii (a2t "@data") = C12.kwData ∧ demoRows ≠ [] ∧
    (∀ r ∈ demoRows, C12.sparseRowWOk demoAttrs.length (demoAttrs.map (·.typ.enc false)) r.2 = true) ∧
    C12.arffNormalize sparseDemo = sparseDemo := by
  decide +kernel

end Coba.C14

/-! ### Phase 5: `read`'s dispatch as data (tied to the source by Generated/C14Supervised.lean, see Props) -/

namespace Coba.C14

theorem label_type_resolution' (g tipe : Option LType) (first : Label) :
    inferType (resolveGiven g tipe) first =
      match g, tipe with
      | some t, _ => t
      | none, some t => t
      | none, none => match first with | .atom (.num _) => .r | _ => .c := by
  cases g <;> cases tipe <;> simp only [resolveGiven, inferType]
  rcases first with (_ | _) | _ | _ <;> rfl

theorem read_reward_class' {χ : Type} (given : Option LType) (rows : List (χ × Label)) (ints : List (Interaction χ)) (t : LType)
    (h : read given rows = .ok ints) (ht : typeOf given rows = some t) :
    ∀ x ∈ ints, x.reward.className = rewardClassOf t := by
  cases rows with
  | nil => simp [read] at h; subst h; simp
  | cons r rest =>
    obtain ⟨x0, first⟩ := r
    simp only [typeOf, Option.some.injEq] at ht
    unfold read at h
    simp only [ht] at h
    cases t with
    | r =>
      simp only [Except.ok.injEq] at h
      subst h
      intro x hx
      simp only [List.mem_map] at hx
      obtain ⟨_, _, rfl⟩ := hx
      rfl
    | c =>
      simp only at h
      split at h
      · split at h
        · cases h
        · simp only [Except.ok.injEq] at h
          subst h
          intro x hx
          simp only [List.mem_map] at hx
          obtain ⟨_, _, rfl⟩ := hx
          rfl
      · split at h
        · cases h
        · split at h
          · cases h
          · simp only [Except.ok.injEq] at h
            subst h
            intro x hx
            simp only [List.mem_map] at hx
            obtain ⟨_, _, rfl⟩ := hx
            rfl
    | m =>
      simp only at h
      split at h
      · cases h
      · split at h
        · cases h
        · simp only [Except.ok.injEq] at h
          subst h
          intro x hx
          simp only [List.mem_map] at hx
          obtain ⟨_, _, rfl⟩ := hx
          rfl

theorem dispatch_row_mem' (lit : String) (t : LType) (cat : Bool) (h : parseLType lit = some t) :
    (lit, cat, rewardCtorOf t cat, actionsKindOf t cat) ∈ dispatchTable := by
  unfold parseLType at h
  split at h <;> cases h <;> cases cat <;> decide

theorem rewardCtor_class' (t : LType) (cat : Bool) :
    rewardCtorOf t cat = rewardClassOf t ∨ rewardCtorOf t cat = rewardClassOf t ++ "(delist)" := by
  cases t <;> cases cat <;> decide

end Coba.C14

namespace Coba.C14

theorem sparse_file_roundtrip_relation' (q : Nat) (hq : q = C12.SQ ∨ q = C12.DQ) (also : Nat → Bool) (attrs : List C12.AttrW) (dkw : C12.Text)
    (rows : List (Nat × List (C12.Text × C12.CellW)))
    (hattrs : attrs ≠ []) (hok : ∀ a ∈ attrs, a.ok false = true) (hnd : (attrs.map (·.name.2)).Nodup)
    (hdkw : C12.lowerAscii dkw = C12.kwData) (hne : rows ≠ [])
    (hrows : ∀ r ∈ rows, C12.sparseRowWOk attrs.length (attrs.map (·.typ.enc false)) r.2 = true)
    (rel : C12.Text) (hr1 : C12.lowerAscii rel ≠ C12.kwData) (hr2 : C12.lowerAscii (rel.take 5) ≠ C12.kwAttr)
    (lines : List C12.Text)
    (hnorm : C12.arffNormalize lines = rel :: (attrs.map (·.line q also) ++ dkw :: rows.map (fun r => C12.sparseRowLine r.1 r.2))) :
    SparseFileRoundTrip lines (attrs.map (·.name.2)) (sparseWritten attrs rows) := by
  unfold SparseFileRoundTrip C12.arffRead sparseWritten
  rw [hnorm]
  have := C12.arff_header_comment_invariance [] (attrs.map (·.line q also) ++ dkw :: rows.map (fun r => C12.sparseRowLine r.1 r.2)) rel hr1 hr2 (by simp)
  simp only [List.nil_append] at this
  rw [this, C12.arff_sparse_table_roundtrip q hq also attrs dkw rows hattrs hok hnd hdkw hne hrows]

end Coba.C14
