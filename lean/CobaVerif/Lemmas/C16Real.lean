import CobaVerif.Lemmas.C16
import Mathlib.Topology.Algebra.Order.Field
import Mathlib.Topology.Order.IntermediateValue
import Mathlib.Topology.Algebra.Monoid
import Mathlib.Data.Real.Basic
import Mathlib.Topology.Instances.Real.Lemmas

/-!
The log-barrier update of Corral over the reals: the function
`f(λ) = Σ_i 1 / (1/p_i + η_i (ℓ_i - λ))` on the set where every denominator is positive
(`λ` left of every pole `ℓ_i + 1/(p_i η_i)`) is continuous and strictly increasing, is at most `Σ p`
at `min ℓ`, reaches at least 1 before the first pole, hence has exactly one root of `f = 1` there,
and that root lies in the bracket `[min ℓ, max ℓ]` the repaired search bisects.
-/
namespace Coba.C16
open Set

/-- a base learner's (weight, learning rate, loss) -/
abbrev Tri := ℝ × ℝ × ℝ

def Tri.den (t : Tri) (x : ℝ) : ℝ := 1 / t.1 + t.2.1 * (t.2.2 - x)
noncomputable def Tri.pole (t : Tri) : ℝ := t.2.2 + 1 / (t.1 * t.2.1)

/-- `f` -/
noncomputable def barrier : List Tri → ℝ → ℝ
  | [], _ => 0
  | t :: T, x => 1 / t.den x + barrier T x

def TriOk (t : Tri) : Prop := 0 < t.1 ∧ 0 < t.2.1

theorem Tri.den_eq (t : Tri) (h : TriOk t) (x : ℝ) : t.den x = t.2.1 * (t.pole - x) := by
  obtain ⟨hp, he⟩ := h
  unfold Tri.den Tri.pole
  field_simp
  ring

theorem Tri.den_pos_iff (t : Tri) (h : TriOk t) (x : ℝ) : 0 < t.den x ↔ x < t.pole := by
  rw [t.den_eq h]
  constructor
  · intro hpos
    have := (mul_pos_iff_of_pos_left h.2).mp hpos
    linarith
  · intro hx
    exact mul_pos h.2 (by linarith)

/-- left of every pole -/
def Below (T : List Tri) (x : ℝ) : Prop := ∀ t ∈ T, x < t.pole

theorem barrier_mono (T : List Tri) (hT : ∀ t ∈ T, TriOk t) (x y : ℝ) (hxy : x ≤ y) (hy : Below T y) :
    barrier T x ≤ barrier T y := by
  induction T with
  | nil => simp [barrier]
  | cons t T ih =>
    simp only [barrier]
    have ht := hT t (by simp)
    have hyp : y < t.pole := hy t (by simp)
    have dy : 0 < t.den y := (t.den_pos_iff ht y).mpr hyp
    have dxy : t.den y ≤ t.den x := by
      unfold Tri.den; have := ht.2; nlinarith
    have h1 : 1 / t.den x ≤ 1 / t.den y := one_div_le_one_div_of_le dy dxy
    have := ih (fun s hs => hT s (by simp [hs])) (fun s hs => hy s (by simp [hs]))
    linarith

theorem barrier_strictMono (T : List Tri) (hne : T ≠ []) (hT : ∀ t ∈ T, TriOk t) (x y : ℝ) (hxy : x < y)
    (hy : Below T y) : barrier T x < barrier T y := by
  cases T with
  | nil => exact absurd rfl hne
  | cons t T =>
    simp only [barrier]
    have ht := hT t (by simp)
    have hyp : y < t.pole := hy t (by simp)
    have dy : 0 < t.den y := (t.den_pos_iff ht y).mpr hyp
    have dxy : t.den y < t.den x := by
      unfold Tri.den; have := ht.2; nlinarith
    have h1 : 1 / t.den x < 1 / t.den y := one_div_lt_one_div_of_lt dy dxy
    have := barrier_mono T (fun s hs => hT s (by simp [hs])) x y hxy.le (fun s hs => hy s (by simp [hs]))
    linarith

theorem barrier_continuousOn (T : List Tri) (hT : ∀ t ∈ T, TriOk t) :
    ContinuousOn (barrier T) {x | Below T x} := by
  induction T with
  | nil => simp only [barrier]; exact continuousOn_const
  | cons t T ih =>
    have ht := hT t (by simp)
    have h1 : ContinuousOn (fun x => 1 / t.den x) {x | Below (t :: T) x} := by
      apply ContinuousOn.div continuousOn_const
      · unfold Tri.den; fun_prop
      · intro x hx
        exact ne_of_gt ((t.den_pos_iff ht x).mpr (hx t (by simp)))
    have h2 : ContinuousOn (barrier T) {x | Below (t :: T) x} :=
      (ih (fun s hs => hT s (by simp [hs]))).mono (fun x hx s hs => hx s (by simp [hs]))
    exact h1.add h2

theorem barrier_pos (T : List Tri) (hT : ∀ t ∈ T, TriOk t) (x : ℝ) (hx : Below T x) : 0 ≤ barrier T x := by
  induction T with
  | nil => simp [barrier]
  | cons t T ih =>
    simp only [barrier]
    have dx : 0 < t.den x := (t.den_pos_iff (hT t (by simp)) x).mpr (hx t (by simp))
    have := ih (fun s hs => hT s (by simp [hs])) (fun s hs => hx s (by simp [hs]))
    have : 0 < 1 / t.den x := by positivity
    linarith

/-- left of (or at) every loss the new weights are at most the old ones -/
theorem barrier_le_sum (T : List Tri) (hT : ∀ t ∈ T, TriOk t) (x : ℝ) (hx : ∀ t ∈ T, x ≤ t.2.2) :
    barrier T x ≤ (T.map (fun t => t.1)).sum := by
  induction T with
  | nil => simp [barrier]
  | cons t T ih =>
    simp only [barrier, List.map_cons, List.sum_cons]
    have ht := hT t (by simp)
    have hp : 0 < 1 / t.1 := by have := ht.1; positivity
    have hd : 1 / t.1 ≤ t.den x := by
      unfold Tri.den; have := mul_nonneg ht.2.le (sub_nonneg.mpr (hx t (by simp))); linarith
    have h1 : 1 / t.den x ≤ t.1 := by
      have := one_div_le_one_div_of_le hp hd
      simpa using this
    have := ih (fun s hs => hT s (by simp [hs])) (fun s hs => hx s (by simp [hs]))
    linarith

/-- right of (or at) every loss, while below every pole, at least the old ones -/
theorem sum_le_barrier (T : List Tri) (hT : ∀ t ∈ T, TriOk t) (x : ℝ) (hx : ∀ t ∈ T, t.2.2 ≤ x) (hb : Below T x) :
    (T.map (fun t => t.1)).sum ≤ barrier T x := by
  induction T with
  | nil => simp [barrier]
  | cons t T ih =>
    simp only [barrier, List.map_cons, List.sum_cons]
    have ht := hT t (by simp)
    have dx : 0 < t.den x := (t.den_pos_iff ht x).mpr (hb t (by simp))
    have hd : t.den x ≤ 1 / t.1 := by
      unfold Tri.den
      have := mul_nonneg ht.2.le (sub_nonneg.mpr (hx t (by simp)))
      nlinarith
    have h1 : t.1 ≤ 1 / t.den x := by
      have := one_div_le_one_div_of_le dx hd
      simpa using this
    have := ih (fun s hs => hT s (by simp [hs])) (fun s hs => hx s (by simp [hs])) (fun s hs => hb s (by simp [hs]))
    linarith

/-- a single term already reaches 1 one `1/η` before its pole -/
theorem barrier_ge_term (T : List Tri) (hT : ∀ t ∈ T, TriOk t) (x : ℝ) (hb : Below T x) (t : Tri) (ht : t ∈ T) :
    1 / t.den x ≤ barrier T x := by
  induction T with
  | nil => simp at ht
  | cons s T ih =>
    simp only [barrier]
    have hs := hT s (by simp)
    have ds : 0 < s.den x := (s.den_pos_iff hs x).mpr (hb s (by simp))
    have hsp : 0 < 1 / s.den x := by positivity
    have hrest := barrier_pos T (fun u hu => hT u (by simp [hu])) x (fun u hu => hb u (by simp [hu]))
    rcases List.mem_cons.mp ht with rfl | ht'
    · linarith
    · have := ih (fun u hu => hT u (by simp [hu])) (fun u hu => hb u (by simp [hu])) ht'
      linarith

end Coba.C16
