import CobaVerif.Lemmas.C16
import Mathlib.Topology.Algebra.Order.Field
import Mathlib.Topology.Order.IntermediateValue
import Mathlib.Topology.Algebra.Monoid
import Mathlib.Data.Real.Basic
import Mathlib.Topology.Instances.Real.Lemmas
import Mathlib.Analysis.SpecialFunctions.Log.Basic
import Mathlib.Analysis.SpecialFunctions.Sqrt

/-!
The log-barrier update of Corral over the reals: the function
`f(λ) = Σ_i 1 / (1/p_i + η_i (ℓ_i - λ))` on the set where every denominator is positive
(`λ` left of every pole `ℓ_i + 1/(p_i η_i)`) is continuous and strictly increasing, is at most `Σ p`
at `min ℓ`, reaches at least 1 before the first pole, hence has exactly one root of `f = 1` there,
and that root lies in the bracket `[min ℓ, max ℓ]` the repaired search bisects.
-/
namespace Coba.C16
open Set

/-- a base learner's (weight, learning rate, loss) -/
abbrev Tri := ℝ × ℝ × ℝ

noncomputable def Tri.den (t : Tri) (x : ℝ) : ℝ := 1 / t.1 + t.2.1 * (t.2.2 - x)
noncomputable def Tri.pole (t : Tri) : ℝ := t.2.2 + 1 / (t.1 * t.2.1)

/-- `f` -/
noncomputable def barrier : List Tri → ℝ → ℝ
  | [], _ => 0
  | t :: T, x => 1 / t.den x + barrier T x

def TriOk (t : Tri) : Prop := 0 < t.1 ∧ 0 < t.2.1

theorem Tri.den_eq (t : Tri) (h : TriOk t) (x : ℝ) : t.den x = t.2.1 * (t.pole - x) := by
  obtain ⟨hp, he⟩ := h
  unfold Tri.den Tri.pole
  field_simp
  ring

theorem Tri.den_pos_iff (t : Tri) (h : TriOk t) (x : ℝ) : 0 < t.den x ↔ x < t.pole := by
  rw [t.den_eq h]
  constructor
  · intro hpos
    have := (mul_pos_iff_of_pos_left h.2).mp hpos
    linarith
  · intro hx
    exact mul_pos h.2 (by linarith)

/-- left of every pole -/
def Below (T : List Tri) (x : ℝ) : Prop := ∀ t ∈ T, x < t.pole

theorem barrier_mono (T : List Tri) (hT : ∀ t ∈ T, TriOk t) (x y : ℝ) (hxy : x ≤ y) (hy : Below T y) :
    barrier T x ≤ barrier T y := by
  induction T with
  | nil => simp [barrier]
  | cons t T ih =>
    simp only [barrier]
    have ht := hT t (by simp)
    have hyp : y < t.pole := hy t (by simp)
    have dy : 0 < t.den y := (t.den_pos_iff ht y).mpr hyp
    have dxy : t.den y ≤ t.den x := by
      unfold Tri.den; have := ht.2; nlinarith
    have h1 : 1 / t.den x ≤ 1 / t.den y := one_div_le_one_div_of_le dy dxy
    have := ih (fun s hs => hT s (by simp [hs])) (fun s hs => hy s (by simp [hs]))
    linarith

theorem barrier_strictMono (T : List Tri) (hne : T ≠ []) (hT : ∀ t ∈ T, TriOk t) (x y : ℝ) (hxy : x < y)
    (hy : Below T y) : barrier T x < barrier T y := by
  cases T with
  | nil => exact absurd rfl hne
  | cons t T =>
    simp only [barrier]
    have ht := hT t (by simp)
    have hyp : y < t.pole := hy t (by simp)
    have dy : 0 < t.den y := (t.den_pos_iff ht y).mpr hyp
    have dxy : t.den y < t.den x := by
      unfold Tri.den; have := ht.2; nlinarith
    have h1 : 1 / t.den x < 1 / t.den y := one_div_lt_one_div_of_lt dy dxy
    have := barrier_mono T (fun s hs => hT s (by simp [hs])) x y hxy.le (fun s hs => hy s (by simp [hs]))
    linarith

theorem barrier_continuousOn (T : List Tri) (hT : ∀ t ∈ T, TriOk t) :
    ContinuousOn (barrier T) {x | Below T x} := by
  induction T with
  | nil => simp only [barrier]; exact continuousOn_const
  | cons t T ih =>
    have ht := hT t (by simp)
    have h1 : ContinuousOn (fun x => 1 / t.den x) {x | Below (t :: T) x} := by
      apply ContinuousOn.div continuousOn_const
      · unfold Tri.den; fun_prop
      · intro x hx
        exact ne_of_gt ((t.den_pos_iff ht x).mpr (hx t (by simp)))
    have h2 : ContinuousOn (barrier T) {x | Below (t :: T) x} :=
      (ih (fun s hs => hT s (by simp [hs]))).mono (fun x hx s hs => hx s (by simp [hs]))
    exact h1.add h2

theorem barrier_pos (T : List Tri) (hT : ∀ t ∈ T, TriOk t) (x : ℝ) (hx : Below T x) : 0 ≤ barrier T x := by
  induction T with
  | nil => simp [barrier]
  | cons t T ih =>
    simp only [barrier]
    have dx : 0 < t.den x := (t.den_pos_iff (hT t (by simp)) x).mpr (hx t (by simp))
    have := ih (fun s hs => hT s (by simp [hs])) (fun s hs => hx s (by simp [hs]))
    have : 0 < 1 / t.den x := by positivity
    linarith

/-- left of (or at) every loss the new weights are at most the old ones -/
theorem barrier_le_sum (T : List Tri) (hT : ∀ t ∈ T, TriOk t) (x : ℝ) (hx : ∀ t ∈ T, x ≤ t.2.2) :
    barrier T x ≤ (T.map (fun t => t.1)).sum := by
  induction T with
  | nil => simp [barrier]
  | cons t T ih =>
    simp only [barrier, List.map_cons, List.sum_cons]
    have ht := hT t (by simp)
    have hp : 0 < 1 / t.1 := by have := ht.1; positivity
    have hd : 1 / t.1 ≤ t.den x := by
      unfold Tri.den; have := mul_nonneg ht.2.le (sub_nonneg.mpr (hx t (by simp))); linarith
    have h1 : 1 / t.den x ≤ t.1 := by
      have := one_div_le_one_div_of_le hp hd
      simpa using this
    have := ih (fun s hs => hT s (by simp [hs])) (fun s hs => hx s (by simp [hs]))
    linarith

/-- right of (or at) every loss, while below every pole, at least the old ones -/
theorem sum_le_barrier (T : List Tri) (hT : ∀ t ∈ T, TriOk t) (x : ℝ) (hx : ∀ t ∈ T, t.2.2 ≤ x) (hb : Below T x) :
    (T.map (fun t => t.1)).sum ≤ barrier T x := by
  induction T with
  | nil => simp [barrier]
  | cons t T ih =>
    simp only [barrier, List.map_cons, List.sum_cons]
    have ht := hT t (by simp)
    have dx : 0 < t.den x := (t.den_pos_iff ht x).mpr (hb t (by simp))
    have hd : t.den x ≤ 1 / t.1 := by
      unfold Tri.den
      have := mul_nonneg ht.2.le (sub_nonneg.mpr (hx t (by simp)))
      nlinarith
    have h1 : t.1 ≤ 1 / t.den x := by
      have := one_div_le_one_div_of_le dx hd
      simpa using this
    have := ih (fun s hs => hT s (by simp [hs])) (fun s hs => hx s (by simp [hs])) (fun s hs => hb s (by simp [hs]))
    linarith

/-- a single term already reaches 1 one `1/η` before its pole -/
theorem barrier_ge_term (T : List Tri) (hT : ∀ t ∈ T, TriOk t) (x : ℝ) (hb : Below T x) (t : Tri) (ht : t ∈ T) :
    1 / t.den x ≤ barrier T x := by
  induction T with
  | nil => simp at ht
  | cons s T ih =>
    simp only [barrier]
    have hs := hT s (by simp)
    have ds : 0 < s.den x := (s.den_pos_iff hs x).mpr (hb s (by simp))
    have hsp : 0 < 1 / s.den x := by positivity
    have hrest := barrier_pos T (fun u hu => hT u (by simp [hu])) x (fun u hu => hb u (by simp [hu]))
    rcases List.mem_cons.mp ht with rfl | ht'
    · linarith
    · have := ih (fun u hu => hT u (by simp [hu])) (fun u hu => hb u (by simp [hu])) ht'
      linarith

theorem exists_argmin (T : List Tri) (hne : T ≠ []) (f : Tri → ℝ) : ∃ m ∈ T, ∀ t ∈ T, f m ≤ f t := by
  induction T with
  | nil => exact absurd rfl hne
  | cons s T ih =>
    by_cases hT : T = []
    · subst hT; exact ⟨s, by simp, by simp⟩
    · obtain ⟨m, hm, hmin⟩ := ih hT
      by_cases h : f s ≤ f m
      · refine ⟨s, by simp, ?_⟩
        intro t ht
        rcases List.mem_cons.mp ht with rfl | ht
        · exact le_refl _
        · exact le_trans h (hmin t ht)
      · refine ⟨m, by simp [hm], ?_⟩
        intro t ht
        rcases List.mem_cons.mp ht with rfl | ht
        · exact le_of_lt (not_le.mp h)
        · exact hmin t ht

theorem Tri.loss_lt_pole (t : Tri) (h : TriOk t) : t.2.2 < t.pole := by
  unfold Tri.pole
  have : 0 < 1 / (t.1 * t.2.1) := by have := h.1; have := h.2; positivity
  linarith

/-- **the first bracket has exactly one root**: among all multipliers that keep every new weight
positive there is exactly one with `f = 1`, and it lies between the smallest and the largest loss
(the interval the repaired `_log_barrier_omd` bisects) -/
theorem barrier_unique_root (T : List Tri) (hne : T ≠ []) (hT : ∀ t ∈ T, TriOk t)
    (hsum : (T.map (fun t => t.1)).sum = 1) :
    ∃ x, Below T x ∧ barrier T x = 1 ∧ (∀ y, Below T y → barrier T y = 1 → y = x) ∧
      (∃ m ∈ T, (∀ t ∈ T, m.2.2 ≤ t.2.2) ∧ m.2.2 ≤ x) ∧ (∃ M ∈ T, (∀ t ∈ T, t.2.2 ≤ M.2.2) ∧ x ≤ M.2.2) := by
  obtain ⟨tm, htm, hmin⟩ := exists_argmin T hne (fun t => t.2.2)
  obtain ⟨tM, htM, hmax⟩ := exists_argmin T hne (fun t => -t.2.2)
  obtain ⟨tP, htP, hpole⟩ := exists_argmin T hne (fun t => t.pole)
  simp only [neg_le_neg_iff] at hmax
  set lo := tm.2.2 with hlo
  have hokP := hT tP htP
  have hloP : lo < tP.pole := lt_of_le_of_lt (hmin tP htP) (tP.loss_lt_pole hokP)
  have below_of_lt : ∀ x, x < tP.pole → Below T x := fun x hx t ht => lt_of_lt_of_le hx (hpole t ht)
  have hblo : Below T lo := below_of_lt lo hloP
  have hflo : barrier T lo ≤ 1 := by rw [← hsum]; exact barrier_le_sum T hT lo hmin
  -- a point before the first pole where one term alone is at least 1
  have hη : 0 < tP.2.1 := hokP.2
  set b := max lo (tP.pole - 1 / tP.2.1) with hb
  have hbP : b < tP.pole := by
    rw [hb]; apply max_lt hloP
    have : 0 < 1 / tP.2.1 := by positivity
    linarith
  have hbb : Below T b := below_of_lt b hbP
  have hfb : 1 ≤ barrier T b := by
    have hden : tP.den b ≤ 1 := by
      rw [tP.den_eq hokP]
      have h1 : tP.pole - 1 / tP.2.1 ≤ b := le_max_right _ _
      have : tP.2.1 * (tP.pole - b) ≤ tP.2.1 * (1 / tP.2.1) := by
        apply mul_le_mul_of_nonneg_left _ hη.le; linarith
      have h2 : tP.2.1 * (1 / tP.2.1) = 1 := by field_simp
      linarith
    have hdpos : 0 < tP.den b := (tP.den_pos_iff hokP b).mpr hbP
    have : 1 ≤ 1 / tP.den b := by rw [le_div_iff₀ hdpos]; linarith
    exact le_trans this (barrier_ge_term T hT b hbb tP htP)
  have hlob : lo ≤ b := le_max_left _ _
  have hcont : ContinuousOn (barrier T) (Icc lo b) :=
    (barrier_continuousOn T hT).mono (fun x hx => below_of_lt x (lt_of_le_of_lt hx.2 hbP))
  obtain ⟨x, hx, hfx⟩ := intermediate_value_Icc hlob hcont ⟨hflo, hfb⟩
  have hbx : Below T x := below_of_lt x (lt_of_le_of_lt hx.2 hbP)
  have huniq : ∀ y, Below T y → barrier T y = 1 → y = x := by
    intro y hy hfy
    rcases lt_trichotomy y x with h | h | h
    · have := barrier_strictMono T hne hT y x h hbx; linarith
    · exact h
    · have := barrier_strictMono T hne hT x y h hy; linarith
  refine ⟨x, hbx, hfx, huniq, ⟨tm, htm, hmin, hx.1⟩, ⟨tM, htM, hmax, ?_⟩⟩
  -- the root is not right of the largest loss
  by_contra hcon
  have hlt : tM.2.2 < x := not_le.mp hcon
  have hbM : Below T tM.2.2 := fun t ht => lt_trans hlt (hbx t ht)
  have h1 : 1 ≤ barrier T tM.2.2 := by rw [← hsum]; exact sum_le_barrier T hT _ hmax hbM
  have := barrier_strictMono T hne hT _ x hlt hbx
  linarith

/-! ### the tie to the rational model -/

/-- the model's three lists as real triples (stops at the shortest, like `zip`) -/
def tris : List Rat → List Rat → List Rat → List Tri
  | p :: ps, e :: es, l :: ls => ((p : ℝ), (e : ℝ), (l : ℝ)) :: tris ps es ls
  | _, _, _ => []

theorem barrier_tris (ps etas losses : List Rat) (lam : Rat) :
    barrier (tris ps etas losses) (lam : ℝ) = ((((omdDenoms ps etas losses lam).map (fun d => 1 / d)).sum : Rat) : ℝ) := by
  induction ps generalizing etas losses with
  | nil => simp [tris, omdDenoms, barrier]
  | cons p ps ih =>
    cases etas with
    | nil => simp [tris, omdDenoms, barrier]
    | cons e es =>
      cases losses with
      | nil => simp [tris, omdDenoms, barrier]
      | cons l ls =>
        simp only [tris, omdDenoms, barrier, List.map_cons, List.sum_cons, ih es ls, Tri.den]
        push_cast
        ring

theorem tris_ok (ps etas losses : List Rat) (hp : ∀ p ∈ ps, 0 < p) (he : ∀ e ∈ etas, 0 < e) :
    ∀ t ∈ tris ps etas losses, TriOk t := by
  induction ps generalizing etas losses with
  | nil => simp [tris]
  | cons p ps ih =>
    cases etas with
    | nil => simp [tris]
    | cons e es =>
      cases losses with
      | nil => simp [tris]
      | cons l ls =>
        intro t ht
        simp only [tris, List.mem_cons] at ht
        rcases ht with rfl | ht
        · exact ⟨by show (0 : ℝ) < (p : ℝ); exact_mod_cast hp p (by simp), by show (0 : ℝ) < (e : ℝ); exact_mod_cast he e (by simp)⟩
        · exact ih es ls (fun q hq => hp q (by simp [hq])) (fun q hq => he q (by simp [hq])) t ht

/-- `update(λ)` of the model is defined exactly when λ is left of every pole -/
theorem below_tris_iff (ps etas losses : List Rat) (lam : Rat) (hp : ∀ p ∈ ps, 0 < p) (he : ∀ e ∈ etas, 0 < e) :
    Below (tris ps etas losses) (lam : ℝ) ↔ ∀ d ∈ omdDenoms ps etas losses lam, 0 < d := by
  induction ps generalizing etas losses with
  | nil => simp [tris, omdDenoms, Below]
  | cons p ps ih =>
    cases etas with
    | nil => simp [tris, omdDenoms, Below]
    | cons e es =>
      cases losses with
      | nil => simp [tris, omdDenoms, Below]
      | cons l ls =>
        have hok : TriOk ((p : ℝ), (e : ℝ), (l : ℝ)) :=
          ⟨by show (0 : ℝ) < (p : ℝ); exact_mod_cast hp p (by simp), by show (0 : ℝ) < (e : ℝ); exact_mod_cast he e (by simp)⟩
        have ih' := ih es ls (fun q hq => hp q (by simp [hq])) (fun q hq => he q (by simp [hq]))
        have hhead : ((lam : ℝ) < Tri.pole ((p : ℝ), (e : ℝ), (l : ℝ))) ↔ 0 < 1 / p + e * (l - lam) := by
          rw [← Tri.den_pos_iff _ hok]
          unfold Tri.den
          constructor
          · intro h; have : ((1 / p + e * (l - lam) : Rat) : ℝ) > 0 := by push_cast; exact h
            exact_mod_cast this
          · intro h; have : (0 : ℝ) < ((1 / p + e * (l - lam) : Rat) : ℝ) := by exact_mod_cast h
            push_cast at this; exact this
        simp only [tris, omdDenoms, Below, List.mem_cons, forall_eq_or_imp]
        unfold Below at ih'
        rw [hhead, ih']

theorem tris_sum (ps etas losses : List Rat) (h1 : etas.length = ps.length) (h2 : losses.length = ps.length) :
    ((tris ps etas losses).map (fun t => t.1)).sum = ((ps.sum : Rat) : ℝ) := by
  induction ps generalizing etas losses with
  | nil => simp [tris]
  | cons p ps ih =>
    cases etas with
    | nil => simp at h1
    | cons e es =>
      cases losses with
      | nil => simp at h2
      | cons l ls =>
        simp only [tris, List.map_cons, List.sum_cons, ih es ls (by simpa using h1) (by simpa using h2)]
        push_cast; ring

theorem tris_ne (ps etas losses : List Rat) (hne : ps ≠ []) (h1 : etas.length = ps.length) (h2 : losses.length = ps.length) :
    tris ps etas losses ≠ [] := by
  cases ps with
  | nil => exact absurd rfl hne
  | cons p ps =>
    cases etas with
    | nil => simp at h1
    | cons e es =>
      cases losses with
      | nil => simp at h2
      | cons l ls => simp [tris]

/-- the statement for the model's lists -/
theorem first_bracket_root_model (ps etas losses : List Rat) (hne : ps ≠ []) (h1 : etas.length = ps.length)
    (h2 : losses.length = ps.length) (hp : ∀ p ∈ ps, 0 < p) (he : ∀ e ∈ etas, 0 < e) (hsum : ps.sum = 1) :
    ∃ x : ℝ, Below (tris ps etas losses) x ∧ barrier (tris ps etas losses) x = 1 ∧
      (∀ y, Below (tris ps etas losses) y → barrier (tris ps etas losses) y = 1 → y = x) ∧
      (∃ m ∈ tris ps etas losses, (∀ t ∈ tris ps etas losses, m.2.2 ≤ t.2.2) ∧ m.2.2 ≤ x) ∧
      (∃ M ∈ tris ps etas losses, (∀ t ∈ tris ps etas losses, t.2.2 ≤ M.2.2) ∧ x ≤ M.2.2) :=
  barrier_unique_root _ (tris_ne ps etas losses hne h1 h2) (tris_ok ps etas losses hp he)
    (by rw [tris_sum ps etas losses h1 h2, hsum]; norm_num)

/-- the two `sqrt` arguments of BanditUCB's index `sqrt(ln t / s * min(1/4, var + sqrt(2 ln t / s)))` are
non-negative once `t ≥ 1`, `s ≥ 1` (guaranteed by `Ucb.Inv`) and `var ≥ 0` (guaranteed by Welford) -/
theorem ucb_index_args_nonneg' (t s : ℕ) (ht : 1 ≤ t) (hs : 1 ≤ s) (var : ℝ) (hvar : 0 ≤ var) :
    0 ≤ 2 * Real.log t / s ∧ 0 ≤ Real.log t / s * min (1 / 4) (var + Real.sqrt (2 * Real.log t / s)) := by
  have hl : 0 ≤ Real.log t := Real.log_nonneg (by exact_mod_cast ht)
  have hs' : (0 : ℝ) < s := by exact_mod_cast hs
  have h1 : 0 ≤ 2 * Real.log t / s := by positivity
  refine ⟨h1, mul_nonneg (by positivity) (le_min (by norm_num) ?_)⟩
  have := Real.sqrt_nonneg (2 * Real.log t / s)
  linarith

end Coba.C16
