/-
C16, phase 4 (continued): `SafeLearner` around one of this property's learners, composed from C15's model of
`SafeLearner.predict` / `pred_format` / `_parse_pred` (Model/C15, imported, not modified).  The learners of C16 answer an
unbatched call with `(offered object, probability)` (Corral: `(offered object, probability, {'info': …})`): C15's format `.AP`.
-/
import CobaVerif.Lemmas.C15
import CobaVerif.Generated.C16BanditConsts

namespace Coba.C16
open Coba.C15 Coba.C15.PyVal

/-- the C15 description of a C16 learner held inside a SafeLearner: format `(action, prob)`, with or without kwargs, unbatched -/
def safeSpec (kw : Bool) : Coba.C15.Spec := { fmt := .AP, kw := kw, layout := .single }

theorem safe_wrapper_identity' (fx : Fixes) (kw : Bool) (pol : Policy) (st : State) (c : PyVal) (as : List PyVal)
    (hinv : Inv (safeSpec kw) false st)
    (hpick : (pol c as).pick < as.length) (hobj : as.all (fun a => !isLrn a) = true) (hp : (pol c as).p.isDict = false) :
    predictCore fx (scripted (safeSpec kw) pol) st (.single c as) =
      .ok (⟨as.getD (pol c as).pick .none, (pol c as).p, if kw then kwDict (pol c as) else emptyKw⟩,
           stAfter (safeSpec kw) false st st.rng) := by
  have hfirst : st.layout = Option.none → firstRowOK fx (safeSpec kw) (pol c as) as = true := by
    intro _
    simp [firstRowOK, safeSpec, hpick, hobj, hp]
  rw [format_roundtrip_single' fx (safeSpec kw) pol st c as hinv hfirst]
  cases kw <;> simp [wantSingle, safeSpec, Fmt.kind, Answer.action, Except.map]

/-- translator obligations (coba/safety.py, coba/learners/bandit.py): the ints SafeLearner replaces by float copies (`a in [0,1]`) are the
ones C15's `makeSafe` replaces; `possible_pmf`'s tolerance is the model's 1/1000; the default epsilon meets `eps_pmf_dist`'s hypothesis
0 ≤ ε ≤ 1; the cap under BanditUCB's square root (`min(1/4, V)`) is positive (so the root's argument is ≥ 0 whenever V's is). -/
theorem bandit_consts_match' :
    (∀ (k : Nat) (i : Int), makeSafe k (.int i) =
        if i ∈ Coba.Generated.C16.safeInts then .flt (.safe k) (i : Rat) else .int i) ∧
    ((Coba.Generated.C16.possiblePmfTolNum : Rat) / Coba.Generated.C16.possiblePmfTolDen = 1 / 1000) ∧
    ((0 : Rat) ≤ (Coba.Generated.C16.epsDefaultNum : Rat) / Coba.Generated.C16.epsDefaultDen ∧
        (Coba.Generated.C16.epsDefaultNum : Rat) / Coba.Generated.C16.epsDefaultDen ≤ 1) ∧
    ((Coba.Generated.C16.ucbVarCapNum : Rat) / Coba.Generated.C16.ucbVarCapDen = 1 / 4) := by
  refine ⟨?_, ?_, ?_, ?_⟩
  · intro k i
    simp [makeSafe, Coba.Generated.C16.safeInts]
  · norm_num [Coba.Generated.C16.possiblePmfTolNum, Coba.Generated.C16.possiblePmfTolDen]
  · norm_num [Coba.Generated.C16.epsDefaultNum, Coba.Generated.C16.epsDefaultDen]
  · norm_num [Coba.Generated.C16.ucbVarCapNum, Coba.Generated.C16.ucbVarCapDen]

/-- what SafeLearner has memoised after a call answered by one of C16's learners (`stAfter` of `safe_wrapper_identity'`), field by field:
`_pred_batch == 'not'`, `_pred_kwargs == kw`, `_pred_format == 'AP'` (no trailing `*`), one `_safe_call` method probed -/
theorem safe_state_after' (kw : Bool) (st : State) :
    (stAfter (safeSpec kw) false st st.rng).layout = some BLayout.not ∧
    (stAfter (safeSpec kw) false st st.rng).hasKw = kw ∧
    (stAfter (safeSpec kw) false st st.rng).fmt = some ⟨Kind.AP, false⟩ ∧
    (stAfter (safeSpec kw) false st st.rng).method = some 1 := by
  simp [stAfter, safeSpec, Spec.pfmt, Fmt.kind, Fmt.hinted]

end Coba.C16
