import CobaVerif.Model.C18
namespace Coba.C18
end Coba.C18
