/-
C18 — helper lemmas for `Props/C18.lean`.
Part 1: `moving_average` (prefix sums telescope; exponential by left fold).
Part 2: CPython bisect, `my_bisect_*`, the `_remove` loop under sortedness of the id columns.
Part 3: the keep rule of `_group_p` (counting argument).
Part 4: runs, `_group_p`, `_global_n`, `_filter_fin`, consistency.
Part 5: `_grouped_ys` / `raw_learners`.
-/
import CobaVerif.Model.C18
import CobaVerif.Generated.C18Modes
import CobaVerif.Generated.C18Defaults
import Mathlib.Tactic.Linarith
import Mathlib.Tactic.Ring
import Mathlib.Tactic.FieldSimp
import Mathlib.Algebra.Order.Field.Rat
import Mathlib.Data.Rat.Floor
import Mathlib.Algebra.BigOperators.Group.List.Basic
import Mathlib.Data.List.Basic
import Mathlib.Data.List.Range
import Mathlib.Data.List.Nodup
import Mathlib.Data.List.Perm.Basic
import Mathlib.Data.List.Perm.Subperm
import Mathlib.Data.List.Count

set_option linter.unusedSimpArgs false

namespace Coba.C18

/-! ## Part 1: moving_average -/


theorem sumL_eq_sum (l : List Rat) : sumL l = l.sum := by
  induction l with
  | nil => rfl
  | cons x xs ih => simp [sumL, ih]

def scanAt (f : Rat → Rat → Rat) (xs : List Rat) (t : Nat) : Rat :=
  match xs.take (t + 1) with
  | [] => 0
  | v :: r => r.foldl f v

theorem divAll_map {α} (l : List α) (g1 g2 : α → Rat) :
    divAll (l.map g1) (l.map g2) = sequenceE (l.map (fun i => divE (g1 i) (g2 i))) := by
  induction l with
  | nil => simp [divAll, sequenceE]
  | cons x xs ih =>
    simp only [List.map_cons, divAll, divE]
    by_cases h : g2 x = 0
    · simp [h, sequenceE]
    · simp only [h, if_false, sequenceE, ih, divE]

theorem foldl_add (a : Rat) (l : List Rat) : l.foldl (fun a v => a + v) a = a + sumL l := by
  induction l generalizing a with
  | nil => simp [sumL]
  | cons x xs ih => simp [sumL, ih]; ring

theorem scanAt_add (xs : List Rat) (t : Nat) : scanAt (fun a v => a + v) xs t = sumL (xs.take (t + 1)) := by
  unfold scanAt
  cases h : xs.take (t + 1) with
  | nil => simp [sumL]
  | cons v r => simp [foldl_add, sumL]

theorem sumL_append (a b : List Rat) : sumL (a ++ b) = sumL a + sumL b := by
  simp [sumL_eq_sum]

theorem sumL_replicate_zero (k : Nat) : sumL (List.replicate k 0) = 0 := by
  simp [sumL_eq_sum]

theorem sumL_replicate_one (k : Nat) : sumL (List.replicate k 1) = (k : Rat) := by
  simp [sumL_eq_sum]

theorem sumL_take_succ (xs : List Rat) (k : Nat) (h : k < xs.length) :
    sumL (xs.take (k + 1)) = sumL (xs.take k) + xs[k] := by
  simp only [sumL_eq_sum]
  exact List.sum_take_succ xs k h

theorem length_subShift (s : Nat) (xs : List Rat) : (subShift s xs).length = xs.length := by
  simp [subShift]

theorem getElem_subShift (s : Nat) (xs : List Rat) (k : Nat) (h : k < xs.length) :
    (subShift s xs)[k]'(by simpa [length_subShift] using h) = xs[k] - (if h' : k < s then 0 else xs[k - s]'(by omega)) := by
  simp only [subShift, List.getElem_zipWith]
  congr 1
  by_cases h' : k < s
  · simp [h', List.getElem_append_left]
  · have hs : s ≤ k := by omega
    rw [List.getElem_append_right (by simpa using hs)]
    simp [h']

/-- prefix sums of the shifted difference telescope -/
theorem sumL_take_subShift (s : Nat) (xs : List Rat) (k : Nat) (h : k ≤ xs.length) :
    sumL ((subShift s xs).take k) = sumL (xs.take k) - sumL (xs.take (k - s)) := by
  induction k with
  | zero => simp [sumL]
  | succ k ih =>
    have hk : k < xs.length := h
    rw [sumL_take_succ _ k (by simpa [length_subShift] using hk), ih (by omega), getElem_subShift s xs k hk,
      sumL_take_succ xs k hk]
    by_cases h' : k < s
    · have e1 : k + 1 - s = 0 := by omega
      have e2 : k - s = 0 := by omega
      simp [h', e1, e2, sumL]
    · have e1 : k + 1 - s = (k - s) + 1 := by omega
      rw [e1, sumL_take_succ xs (k - s) (by omega)]
      simp [h']
      ring

theorem sumL_window_some (s i : Nat) (xs : List Rat) :
    sumL (window (some s) i xs) = sumL (xs.take (i + 1)) - sumL (xs.take (i + 1 - s)) := by
  simp only [window]
  have := List.take_append_drop (i + 1 - s) (xs.take (i + 1))
  have h2 : sumL (xs.take (i + 1)) = sumL ((xs.take (i + 1)).take (i + 1 - s)) + sumL ((xs.take (i + 1)).drop (i + 1 - s)) := by
    rw [← sumL_append, this]
  rw [h2, List.take_take]
  have : min (i + 1 - s) (i + 1) = i + 1 - s := by omega
  rw [this]; ring


theorem accFrom_eq (f : Rat → Rat → Rat) (a : Rat) (vs : List Rat) :
    accFrom f a vs = (List.range vs.length).map (fun t => (vs.take (t + 1)).foldl f a) := by
  induction vs generalizing a with
  | nil => simp [accFrom]
  | cons v vs ih =>
    simp only [accFrom, List.length_cons, List.range_succ_eq_map, List.map_cons, List.map_map]
    rw [ih]
    simp [Function.comp_def]

theorem accumulateWith_eq (f : Rat → Rat → Rat) (xs : List Rat) :
    accumulateWith f xs = (List.range xs.length).map (scanAt f xs) := by
  cases xs with
  | nil => simp [accumulateWith]
  | cons v vs =>
    simp only [accumulateWith, accFrom_eq, List.length_cons, List.range_succ_eq_map, List.map_cons, List.map_map]
    simp [scanAt, Function.comp_def]

theorem sequenceE_congr {α} (l : List α) (f g : α → Except Err Rat) (h : ∀ i ∈ l, f i = g i) :
    sequenceE (l.map f) = sequenceE (l.map g) := by
  rw [List.map_congr_left h]

theorem divAll_accumulate (A B : List Rat) (h : A.length = B.length) :
    divAll (accumulate A) (accumulate B) =
      sequenceE ((List.range A.length).map (fun i => divE (sumL (A.take (i + 1))) (sumL (B.take (i + 1))))) := by
  unfold accumulate
  rw [accumulateWith_eq, accumulateWith_eq, ← h, divAll_map]
  apply sequenceE_congr
  intro i _
  rw [scanAt_add, scanAt_add]

theorem divAll_sliding (s : Nat) (A B : List Rat) (h : A.length = B.length) :
    divAll (accumulate (subShift s A)) (accumulate (subShift s B)) =
      sequenceE ((List.range A.length).map (fun i => divE (sumL (window (some s) i A)) (sumL (window (some s) i B)))) := by
  rw [divAll_accumulate _ _ (by simp [length_subShift, h]), length_subShift]
  apply sequenceE_congr
  intro i hi
  have hi : i < A.length := List.mem_range.mp hi
  rw [sumL_take_subShift s A (i + 1) (by omega), sumL_take_subShift s B (i + 1) (by omega),
    sumL_window_some, sumL_window_some]

theorem window_one (i : Nat) (xs : List Rat) (h : i < xs.length) : window (some 1) i xs = [xs[i]] := by
  simp only [window, Nat.add_sub_cancel]
  rw [List.drop_take]
  simp only [Nat.add_sub_cancel_left]
  rw [List.drop_eq_getElem_cons h, List.take_succ_cons, List.take_zero]

theorem map_getD_range (vs : List Rat) : (List.range vs.length).map (fun i => vs.getD i 0) = vs := by
  apply List.ext_getElem (by simp)
  intro i h1 h2
  simp at h1
  simp [h1]

theorem sequenceE_ok {α} (l : List α) (f : α → Except Err Rat) (g : α → Rat) (h : ∀ i ∈ l, f i = .ok (g i)) :
    sequenceE (l.map f) = .ok (l.map g) := by
  induction l with
  | nil => simp [sequenceE]
  | cons x xs ih =>
    simp only [List.map_cons]
    rw [h x (by simp)]
    simp only [sequenceE]
    rw [ih (fun i hi => h i (by simp [hi]))]

theorem sequenceE_not_ok {α} (l : List α) (f : α → Except Err Rat) (i : α) (hi : i ∈ l) (h : ∀ y, f i ≠ .ok y) :
    ∀ out, sequenceE (l.map f) ≠ .ok out := by
  induction l with
  | nil => simp at hi
  | cons x xs ih =>
    intro out
    simp only [List.map_cons]
    cases hx : f x with
    | error e => simp [sequenceE]
    | ok y =>
      simp only [sequenceE]
      rcases List.mem_cons.mp hi with rfl | hi'
      · exact absurd hx (h y)
      · cases hs : sequenceE (xs.map f) with
        | error e => simp
        | ok r => exact absurd hs (ih hi' r)

theorem window_ge (s i : Nat) (xs : List Rat) (h : i < s) : window (some s) i xs = window none i xs := by
  have : i + 1 - s = 0 := by omega
  simp [window, this]

theorem mulAll_ones (vs : List Rat) : mulAll vs (List.replicate vs.length 1) = vs := by
  induction vs with
  | nil => simp [mulAll]
  | cons v vs ih =>
    simp only [mulAll, List.length_cons, List.replicate_succ, List.zipWith_cons_cons, mul_one] at ih ⊢
    rw [ih]

theorem length_mulAll (vs ws : List Rat) (h : ws.length = vs.length) : (mulAll vs ws).length = vs.length := by
  simp [mulAll, h]

theorem sumL_take_ones (n i : Nat) (h : i < n) : sumL ((List.replicate n (1 : Rat)).take (i + 1)) = ((i + 1 : Nat) : Rat) := by
  rw [List.take_replicate, sumL_replicate_one]
  congr 1
  omega

theorem wmeanAt_ones (vs : List Rat) (sp : Option Nat) :
    wmeanAt vs (List.replicate vs.length 1) sp =
      fun i => divE (sumL (window sp i vs)) (sumL (window sp i (List.replicate vs.length 1))) := by
  funext i
  simp only [wmeanAt, mulAll_ones]

theorem wmeanAt_fun (vs ws : List Rat) (sp : Option Nat) :
    wmeanAt vs ws sp = fun i => divE (sumL (window sp i (mulAll vs ws))) (sumL (window sp i ws)) := by
  funext i; rfl

/-- progressive (cumulative) weighted mean: the implementation equals the textbook definition -/
theorem progressive_eq (A B : List Rat) (h : A.length = B.length) (span : Option Nat)
    (hs : ∀ s, span = some s → A.length ≤ s) :
    divAll (accumulate A) (accumulate B) =
      sequenceE ((List.range A.length).map (fun i => divE (sumL (window span i A)) (sumL (window span i B)))) := by
  rw [divAll_accumulate A B h]
  apply sequenceE_congr
  intro i hi
  have hi : i < A.length := List.mem_range.mp hi
  cases span with
  | none => simp [window]
  | some s =>
    have := hs s rfl
    rw [window_ge s i A (by omega), window_ge s i B (by omega)]
    simp [window]

theorem movingAverage_none_eq (vs : List Rat) (span : Option Nat) :
    movingAverage vs span .none = movingAverageS vs span .none := by
  have hlen : (List.replicate vs.length (1 : Rat)).length = vs.length := by simp
  have hcount : countFrom1 vs.length = (List.range vs.length).map (fun i => sumL ((List.replicate vs.length (1:Rat)).take (i+1))) := by
    unfold countFrom1
    apply List.map_congr_left
    intro i hi
    rw [sumL_take_ones _ _ (List.mem_range.mp hi)]
  have hprog : ∀ sp : Option Nat, (∀ s, sp = some s → vs.length ≤ s) →
      divAll (accumulate vs) (countFrom1 vs.length) =
        sequenceE ((List.range vs.length).map (wmeanAt vs (List.replicate vs.length 1) sp)) := by
    intro sp hsp
    have := progressive_eq vs (List.replicate vs.length 1) hlen.symm sp hsp
    rw [divAll_accumulate _ _ hlen.symm] at this
    unfold accumulate
    rw [accumulateWith_eq, hcount, divAll_map]
    rw [wmeanAt_ones, ← this]
    apply sequenceE_congr
    intro i _
    rw [scanAt_add]
  unfold movingAverage movingAverageS
  simp only
  by_cases h1 : span = some 1
  · subst h1
    rw [if_pos rfl]
    -- every window of width 1 is the value itself
    rw [sequenceE_ok _ _ (fun i => vs.getD i 0), map_getD_range]
    intro i hi
    have hi : i < vs.length := List.mem_range.mp hi
    simp only [wmeanAt, mulAll_ones]
    rw [window_one i vs hi, window_one i _ (by simpa using hi)]
    simp [sumL, divE, hi]
  · rw [if_neg h1]
    cases span with
    | none => exact hprog none (by simp)
    | some s =>
      simp only
      by_cases hs : s ≥ vs.length
      · rw [if_pos hs]
        exact hprog (some s) (by intro s' h; cases h; exact hs)
      · rw [if_neg hs, divAll_sliding s vs _ hlen.symm, wmeanAt_ones]


theorem getElem_mulAll (vs ws : List Rat) (i : Nat) (h1 : i < vs.length) (h2 : i < ws.length) :
    (mulAll vs ws)[i]'(by simp [mulAll]; omega) = vs[i] * ws[i] := by
  simp [mulAll]

theorem movingAverage_ws_eq (vs wl : List Rat) (span : Option Nat) (h1 : span ≠ some 1) :
    movingAverage vs span (.ws wl) = movingAverageS vs span (.ws wl) := by
  unfold movingAverage movingAverageS
  simp only
  by_cases hl : wl.length ≠ vs.length
  · rw [if_pos hl, if_pos hl]
  · rw [if_neg hl, if_neg hl, if_neg h1]
    have hl : wl.length = vs.length := by omega
    have hA : (mulAll vs wl).length = wl.length := by rw [length_mulAll vs wl hl, hl]
    have hAv : (mulAll vs wl).length = vs.length := length_mulAll vs wl hl
    by_cases he : wl.isEmpty = true
    · rw [if_pos he]
      have : wl = [] := by simpa using he
      subst this
      have : vs = [] := by simpa using hl.symm
      subst this
      simp [accumulate, accumulateWith, countFrom1, divAll, sequenceE]
    · rw [if_neg he, wmeanAt_fun]
      cases span with
      | none =>
        simp only
        rw [progressive_eq _ _ hA none (by simp), hAv]
      | some s =>
        simp only
        by_cases hs : s ≥ vs.length
        · rw [if_pos hs, progressive_eq _ _ hA (some s) (by intro s' h; cases h; omega), hAv]
        · rw [if_neg hs, divAll_sliding s _ _ hA, hAv]

theorem movingAverage_ws_span1 (vs wl out : List Rat)
    (h : movingAverageS vs (some 1) (.ws wl) = .ok out) : movingAverage vs (some 1) (.ws wl) = .ok out := by
  unfold movingAverage
  unfold movingAverageS at h
  simp only at h ⊢
  by_cases hl : wl.length ≠ vs.length
  · rw [if_pos hl] at h; cases h
  · rw [if_neg hl] at h
    rw [if_neg hl, if_pos trivial]
    have hl : wl.length = vs.length := by omega
    have hval : ∀ i, (hi : i < vs.length) → wmeanAt vs wl (some 1) i = divE (vs[i] * wl[i]) (wl[i]) := by
      intro i hi
      simp only [wmeanAt]
      rw [window_one i _ (by rw [length_mulAll vs wl hl]; exact hi), window_one i wl (by omega),
        getElem_mulAll vs wl i hi (by omega)]
      simp [sumL]
    by_cases hz : ∃ i, ∃ hi : i < vs.length, wl[i]'(by omega) = 0
    · obtain ⟨i, hi, hz⟩ := hz
      exfalso
      refine sequenceE_not_ok _ _ i (List.mem_range.mpr hi) ?_ out h
      intro y
      rw [hval i hi, hz]
      simp [divE]
    · have hok : sequenceE ((List.range vs.length).map (wmeanAt vs wl (some 1))) = .ok ((List.range vs.length).map (fun i => vs.getD i 0)) := by
        apply sequenceE_ok
        intro i hi
        have hi : i < vs.length := List.mem_range.mp hi
        rw [hval i hi]
        have hne : wl[i]'(by omega) ≠ 0 := fun hc => hz ⟨i, hi, hc⟩
        simp [divE, hne, hi]
      rw [hok, map_getD_range] at h
      exact h

/-! exponential -/

theorem geoSum_nil (b : Rat) : geoSum b [] = 0 := by simp [geoSum, mulAll, sumL]

theorem geoSum_append_single (b : Rat) (ys : List Rat) (x : Rat) :
    geoSum b (ys ++ [x]) = geoSum b ys + rpow b ys.length * x := by
  simp only [geoSum, mulAll, List.length_append, List.length_singleton, List.range_succ, List.map_append,
    List.map_singleton]
  rw [List.zipWith_append (by simp)]
  simp [sumL_append, sumL]

theorem foldl_exp (b a : Rat) (l : List Rat) :
    l.foldl (fun a v => v + b * a) a = geoSum b l.reverse + rpow b l.length * a := by
  induction l generalizing a with
  | nil => simp [geoSum_nil, rpow]
  | cons x xs ih =>
    simp only [List.foldl_cons, List.reverse_cons, List.length_cons]
    rw [ih, geoSum_append_single, List.length_reverse]
    simp only [rpow]
    ring

theorem scanAt_exp (b : Rat) (xs : List Rat) (t : Nat) :
    scanAt (fun a v => v + b * a) xs t = geoSum b (xs.take (t + 1)).reverse := by
  unfold scanAt
  cases h : xs.take (t + 1) with
  | nil => simp [geoSum_nil]
  | cons v r =>
    simp only [List.reverse_cons]
    rw [foldl_exp, geoSum_append_single, List.length_reverse]

theorem movingAverage_exp_eq (vs : List Rat) (span : Option Nat) :
    movingAverage vs span .exp = movingAverageS vs span .exp := by
  unfold movingAverage movingAverageS
  cases span with
  | none => rfl
  | some s =>
    simp only
    rw [accumulateWith_eq, accumulateWith_eq, List.length_replicate, divAll_map]
    apply sequenceE_congr
    intro t ht
    have ht : t < vs.length := List.mem_range.mp ht
    rw [scanAt_exp, scanAt_exp, List.take_replicate, List.reverse_replicate]
    have : min (t + 1) vs.length = t + 1 := by omega
    rw [this]
    rfl


/-! ## Part 2: bisect and `_remove` -/


/-- the column is non-decreasing on the positions `lo ≤ i < hi` -/
def SegSorted (c : List Nat) (lo hi : Nat) : Prop :=
  ∀ i j x y, lo ≤ i → i ≤ j → j < hi → c[i]? = some x → c[j]? = some y → x ≤ y

theorem SegSorted.sub {c : List Nat} {lo hi lo' hi' : Nat} (h : SegSorted c lo hi) (h1 : lo ≤ lo') (h2 : hi' ≤ hi) :
    SegSorted c lo' hi' := by
  intro i j x y hi1 hij hj hx hy
  exact h i j x y (by omega) hij (by omega) hx hy

theorem bisectLeftAux_spec (c : List Nat) (a : Nat) : ∀ (fuel lo hi : Nat), lo ≤ hi → hi ≤ c.length → hi - lo ≤ fuel →
    SegSorted c lo hi →
    ∃ r, bisectLeftAux c a fuel lo hi = .ok r ∧ lo ≤ r ∧ r ≤ hi ∧
      (∀ i x, lo ≤ i → i < r → c[i]? = some x → x < a) ∧ (∀ i x, r ≤ i → i < hi → c[i]? = some x → a ≤ x) := by
  intro fuel
  induction fuel with
  | zero =>
    intro lo hi h1 h2 h3 _
    refine ⟨lo, rfl, le_refl _, h1, ?_, ?_⟩
    · intro i x h4 h5; omega
    · intro i x h4 h5; omega
  | succ f ih =>
    intro lo hi h1 h2 h3 hs
    unfold bisectLeftAux
    by_cases hlt : lo < hi
    · rw [if_pos hlt]
      have hm1 : lo ≤ (lo + hi) / 2 := by omega
      have hm2 : (lo + hi) / 2 < hi := by omega
      have hm3 : (lo + hi) / 2 < c.length := by omega
      rw [List.getElem?_eq_getElem hm3]
      simp only
      by_cases hx : c[(lo + hi) / 2] < a
      · rw [if_pos hx]
        obtain ⟨r, hr, hr1, hr2, hr3, hr4⟩ := ih ((lo + hi) / 2 + 1) hi (by omega) h2 (by omega) (hs.sub (by omega) (le_refl _))
        refine ⟨r, hr, by omega, hr2, ?_, hr4⟩
        intro i x hi1 hi2 hix
        by_cases hc : (lo + hi) / 2 + 1 ≤ i
        · exact hr3 i x hc hi2 hix
        · have := hs i ((lo + hi) / 2) x _ hi1 (by omega) hm2 hix (List.getElem?_eq_getElem hm3)
          omega
      · rw [if_neg hx]
        obtain ⟨r, hr, hr1, hr2, hr3, hr4⟩ := ih lo ((lo + hi) / 2) hm1 (by omega) (by omega) (hs.sub (le_refl _) (by omega))
        refine ⟨r, hr, hr1, by omega, hr3, ?_⟩
        intro i x hi1 hi2 hix
        by_cases hc : i < (lo + hi) / 2
        · exact hr4 i x hi1 hc hix
        · have := hs ((lo + hi) / 2) i _ x hm1 (by omega) hi2 (List.getElem?_eq_getElem hm3) hix
          omega
    · rw [if_neg hlt]
      refine ⟨lo, rfl, le_refl _, h1, ?_, ?_⟩
      · intro i x h4 h5; omega
      · intro i x h4 h5; omega

theorem bisectRightAux_spec (c : List Nat) (a : Nat) : ∀ (fuel lo hi : Nat), lo ≤ hi → hi ≤ c.length → hi - lo ≤ fuel →
    SegSorted c lo hi →
    ∃ r, bisectRightAux c a fuel lo hi = .ok r ∧ lo ≤ r ∧ r ≤ hi ∧
      (∀ i x, lo ≤ i → i < r → c[i]? = some x → x ≤ a) ∧ (∀ i x, r ≤ i → i < hi → c[i]? = some x → a < x) := by
  intro fuel
  induction fuel with
  | zero =>
    intro lo hi h1 h2 h3 _
    refine ⟨lo, rfl, le_refl _, h1, ?_, ?_⟩
    · intro i x h4 h5; omega
    · intro i x h4 h5; omega
  | succ f ih =>
    intro lo hi h1 h2 h3 hs
    unfold bisectRightAux
    by_cases hlt : lo < hi
    · rw [if_pos hlt]
      have hm1 : lo ≤ (lo + hi) / 2 := by omega
      have hm2 : (lo + hi) / 2 < hi := by omega
      have hm3 : (lo + hi) / 2 < c.length := by omega
      rw [List.getElem?_eq_getElem hm3]
      simp only
      by_cases hx : a < c[(lo + hi) / 2]
      · rw [if_pos hx]
        obtain ⟨r, hr, hr1, hr2, hr3, hr4⟩ := ih lo ((lo + hi) / 2) hm1 (by omega) (by omega) (hs.sub (le_refl _) (by omega))
        refine ⟨r, hr, hr1, by omega, hr3, ?_⟩
        intro i x hi1 hi2 hix
        by_cases hc : i < (lo + hi) / 2
        · exact hr4 i x hi1 hc hix
        · have := hs ((lo + hi) / 2) i _ x hm1 (by omega) hi2 (List.getElem?_eq_getElem hm3) hix
          omega
      · rw [if_neg hx]
        obtain ⟨r, hr, hr1, hr2, hr3, hr4⟩ := ih ((lo + hi) / 2 + 1) hi (by omega) h2 (by omega) (hs.sub (by omega) (le_refl _))
        refine ⟨r, hr, by omega, hr2, ?_, hr4⟩
        intro i x hi1 hi2 hix
        by_cases hc : (lo + hi) / 2 + 1 ≤ i
        · exact hr3 i x hc hi2 hix
        · have := hs i ((lo + hi) / 2) x _ hi1 (by omega) hm2 hix (List.getElem?_eq_getElem hm3)
          omega
    · rw [if_neg hlt]
      refine ⟨lo, rfl, le_refl _, h1, ?_, ?_⟩
      · intro i x h4 h5; omega
      · intro i x h4 h5; omega

/-- `my_bisect_left` on a non-empty sorted segment: the partition point of `< a` / `≥ a` -/
theorem myBisectLeft_spec (c : List Nat) (a l h : Nat) (h1 : l < h) (h2 : h ≤ c.length) (hs : SegSorted c l h) :
    ∃ r, myBisectLeft c a l h = .ok r ∧ l ≤ r ∧ r ≤ h ∧
      (∀ i x, l ≤ i → i < r → c[i]? = some x → x < a) ∧ (∀ i x, r ≤ i → i < h → c[i]? = some x → a ≤ x) := by
  unfold myBisectLeft
  have hl : l < c.length := by omega
  rw [List.getElem?_eq_getElem hl]
  simp only
  by_cases hx : c[l] = a
  · rw [if_pos hx]
    refine ⟨l, rfl, le_refl _, by omega, ?_, ?_⟩
    · intro i x h4 h5; omega
    · intro i x h4 h5 hix
      have := hs l i _ x (le_refl _) h4 h5 (List.getElem?_eq_getElem hl) hix
      omega
  · rw [if_neg hx]
    exact bisectLeftAux_spec c a (h - l) l h (by omega) h2 (le_refl _) hs

theorem myBisectRight_spec (c : List Nat) (a l h : Nat) (h1 : l < h) (h2 : h ≤ c.length) (hs : SegSorted c l h) :
    ∃ r, myBisectRight c a l h = .ok r ∧ l ≤ r ∧ r ≤ h ∧
      (∀ i x, l ≤ i → i < r → c[i]? = some x → x ≤ a) ∧ (∀ i x, r ≤ i → i < h → c[i]? = some x → a < x) := by
  unfold myBisectRight
  have h0 : ¬ h = 0 := by omega
  rw [if_neg h0]
  have hl : h - 1 < c.length := by omega
  rw [List.getElem?_eq_getElem hl]
  simp only
  by_cases hx : c[h - 1] = a
  · rw [if_pos hx]
    refine ⟨h, rfl, by omega, le_refl _, ?_, ?_⟩
    · intro i x h4 h5 hix
      have := hs i (h - 1) x _ h4 (by omega) (by omega) hix (List.getElem?_eq_getElem hl)
      omega
    · intro i x h4 h5; omega
  · rw [if_neg hx]
    exact bisectRightAux_spec c a (h - l) l h (by omega) h2 (le_refl _) hs


theorem tle_iff (a b : Triple) : tle a b = true ↔
    a.1 < b.1 ∨ (a.1 = b.1 ∧ (a.2.1 < b.2.1 ∨ (a.2.1 = b.2.1 ∧ a.2.2 ≤ b.2.2))) := by
  obtain ⟨a1, a2, a3⟩ := a
  obtain ⟨b1, b2, b3⟩ := b
  simp only [tle, tlt, Bool.not_eq_true', Bool.or_eq_false_iff, Bool.and_eq_false_iff, decide_eq_false_iff_not,
    beq_eq_false_iff_ne]
  omega

theorem tlt_iff (a b : Triple) : tlt a b = true ↔
    a.1 < b.1 ∨ (a.1 = b.1 ∧ (a.2.1 < b.2.1 ∨ (a.2.1 = b.2.1 ∧ a.2.2 < b.2.2))) := by
  obtain ⟨a1, a2, a3⟩ := a
  obtain ⟨b1, b2, b3⟩ := b
  simp only [tlt, Bool.or_eq_true, Bool.and_eq_true, decide_eq_true_eq, beq_iff_eq]

/-- the list of id triples is sorted lexicographically (non-strictly) -/
def SortedT (ts : List Triple) : Prop :=
  ∀ (i j : Nat) (a b : Triple), i ≤ j → ts[i]? = some a → ts[j]? = some b → tle a b = true

theorem col_get {ts : List Triple} (f : Triple → Nat) {i : Nat} {t : Triple} (h : ts[i]? = some t) :
    (ts.map f)[i]? = some (f t) := by
  simp [List.getElem?_map, h]

theorem col_get_inv {ts : List Triple} (f : Triple → Nat) {i : Nat} {x : Nat} (h : (ts.map f)[i]? = some x) :
    ∃ t, ts[i]? = some t ∧ f t = x := by
  simpa [List.getElem?_map] using h

theorem removeLoop_step (ts : List Triple) (hsort : SortedT ts) (cut e l v : Nat) (ids : List Triple)
    (loc : Nat) (sel : List Nat) (k : Nat) (hk1 : loc ≤ k) (hk : ts[k]? = some (e, l, v)) :
    ∃ lo hi, loc ≤ lo ∧ lo < hi ∧ hi ≤ ts.length ∧
      (∀ i t, loc ≤ i → i < lo → ts[i]? = some t → tlt t (e, l, v) = true) ∧
      (∀ i t, lo ≤ i → i < hi → ts[i]? = some t → t = (e, l, v)) ∧
      (∀ i t, hi ≤ i → ts[i]? = some t → tlt (e, l, v) t = true) ∧
      removeLoop (ts.map (·.1)) (ts.map (·.2.1)) (ts.map (·.2.2)) ts.length cut ((e, l, v) :: ids) loc sel =
        removeLoop (ts.map (·.1)) (ts.map (·.2.1)) (ts.map (·.2.2)) ts.length cut ids hi
          (sel ++ List.range' loc (lo + (if hi - lo > cut then cut else 0) - loc)) := by
  have hkn : k < ts.length := by
    by_contra hc
    rw [List.getElem?_eq_none (by omega)] at hk
    cases hk
  have getT : ∀ i, i < ts.length → ∃ t, ts[i]? = some t := fun i hi => ⟨ts[i], List.getElem?_eq_getElem hi⟩
  -- level 1
  have hsE : SegSorted (ts.map (·.1)) loc ts.length := by
    intro i j x y _ hij _ hx hy
    obtain ⟨a, ha, rfl⟩ := col_get_inv _ hx
    obtain ⟨b, hb, rfl⟩ := col_get_inv _ hy
    have := (tle_iff a b).mp (hsort i j a b hij ha hb)
    omega
  obtain ⟨lo1, e1, a1, a2, a3, a4⟩ := myBisectLeft_spec (ts.map (·.1)) e loc ts.length (by omega) (by simp) hsE
  obtain ⟨hi1, e2, b1, b2, b3, b4⟩ := myBisectRight_spec (ts.map (·.1)) e loc ts.length (by omega) (by simp) hsE
  have k1 : lo1 ≤ k := by
    by_contra hc
    have := a3 k e hk1 (by omega) (col_get (·.1) hk)
    omega
  have k2 : k < hi1 := by
    by_contra hc
    have := b4 k e (by omega) hkn (col_get (·.1) hk)
    omega
  have eqE : ∀ i t, lo1 ≤ i → i < hi1 → ts[i]? = some t → t.1 = e := by
    intro i t h1 h2 ht
    have := a4 i t.1 h1 (by omega) (col_get (·.1) ht)
    have := b3 i t.1 (by omega) h2 (col_get (·.1) ht)
    omega
  -- level 2
  have hsL : SegSorted (ts.map (·.2.1)) lo1 hi1 := by
    intro i j x y h1 hij h2 hx hy
    obtain ⟨a, ha, rfl⟩ := col_get_inv _ hx
    obtain ⟨b, hb, rfl⟩ := col_get_inv _ hy
    have := (tle_iff a b).mp (hsort i j a b hij ha hb)
    have := eqE i a h1 (by omega) ha
    have := eqE j b (by omega) h2 hb
    omega
  obtain ⟨lo2, e3, c1, c2, c3, c4⟩ := myBisectLeft_spec (ts.map (·.2.1)) l lo1 hi1 (by omega) (by simp; omega) hsL
  obtain ⟨hi2, e4, d1, d2, d3, d4⟩ := myBisectRight_spec (ts.map (·.2.1)) l lo1 hi1 (by omega) (by simp; omega) hsL
  have k3 : lo2 ≤ k := by
    by_contra hc
    have := c3 k l k1 (by omega) (col_get (·.2.1) hk)
    omega
  have k4 : k < hi2 := by
    by_contra hc
    have := d4 k l (by omega) k2 (col_get (·.2.1) hk)
    omega
  have eqL : ∀ i t, lo2 ≤ i → i < hi2 → ts[i]? = some t → t.2.1 = l := by
    intro i t h1 h2 ht
    have := c4 i t.2.1 h1 (by omega) (col_get (·.2.1) ht)
    have := d3 i t.2.1 (by omega) h2 (col_get (·.2.1) ht)
    omega
  -- level 3
  have hsV : SegSorted (ts.map (·.2.2)) lo2 hi2 := by
    intro i j x y h1 hij h2 hx hy
    obtain ⟨a, ha, rfl⟩ := col_get_inv _ hx
    obtain ⟨b, hb, rfl⟩ := col_get_inv _ hy
    have := (tle_iff a b).mp (hsort i j a b hij ha hb)
    have := eqE i a (by omega) (by omega) ha
    have := eqE j b (by omega) (by omega) hb
    have := eqL i a h1 (by omega) ha
    have := eqL j b (by omega) h2 hb
    omega
  obtain ⟨lo3, e5, f1, f2, f3, f4⟩ := myBisectLeft_spec (ts.map (·.2.2)) v lo2 hi2 (by omega) (by simp; omega) hsV
  obtain ⟨hi3, e6, g1, g2, g3, g4⟩ := myBisectRight_spec (ts.map (·.2.2)) v lo2 hi2 (by omega) (by simp; omega) hsV
  have k5 : lo3 ≤ k := by
    by_contra hc
    have := f3 k v k3 (by omega) (col_get (·.2.2) hk)
    omega
  have k6 : k < hi3 := by
    by_contra hc
    have := g4 k v (by omega) k4 (col_get (·.2.2) hk)
    omega
  refine ⟨lo3, hi3, by omega, by omega, by omega, ?_, ?_, ?_, ?_⟩
  · intro i t h1 h2 ht
    rw [tlt_iff]
    by_cases q1 : i < lo1
    · have := a3 i t.1 h1 q1 (col_get (·.1) ht)
      left; exact this
    · have hE := eqE i t (by omega) (by omega) ht
      by_cases q2 : i < lo2
      · have := c3 i t.2.1 (by omega) q2 (col_get (·.2.1) ht)
        right; exact ⟨hE, Or.inl this⟩
      · have hL := eqL i t (by omega) (by omega) ht
        have := f3 i t.2.2 (by omega) h2 (col_get (·.2.2) ht)
        right; exact ⟨hE, Or.inr ⟨hL, this⟩⟩
  · intro i t h1 h2 ht
    have hE := eqE i t (by omega) (by omega) ht
    have hL := eqL i t (by omega) (by omega) ht
    have := f4 i t.2.2 h1 (by omega) (col_get (·.2.2) ht)
    have := g3 i t.2.2 (by omega) h2 (col_get (·.2.2) ht)
    obtain ⟨t1, t2, t3⟩ := t
    simp only at *
    subst hE hL
    congr 2
    omega
  · intro i t h1 ht
    have hin : i < ts.length := by
      by_contra hc
      rw [List.getElem?_eq_none (by omega)] at ht
      cases ht
    rw [tlt_iff]
    by_cases q1 : hi1 ≤ i
    · have := b4 i t.1 q1 hin (col_get (·.1) ht)
      left; exact this
    · have hE := eqE i t (by omega) (by omega) ht
      by_cases q2 : hi2 ≤ i
      · have := d4 i t.2.1 q2 (by omega) (col_get (·.2.1) ht)
        right; exact ⟨hE.symm, Or.inl this⟩
      · have hL := eqL i t (by omega) (by omega) ht
        have := g4 i t.2.2 h1 (by omega) (col_get (·.2.2) ht)
        right; exact ⟨hE.symm, Or.inr ⟨hL.symm, this⟩⟩
  · rw [removeLoop, e1, e2]
    simp only
    rw [if_neg (by omega), e3, e4]
    simp only
    rw [if_neg (by omega), e5, e6]
    simp only
    rw [if_neg (by omega)]


theorem range'_split (a b c : Nat) (h1 : a ≤ b) (h2 : b ≤ c) :
    List.range' a (c - a) = List.range' a (b - a) ++ List.range' b (c - b) := by
  have : c - a = (b - a) + (c - b) := by omega
  rw [this, ← List.range'_append_1]
  congr 2
  omega

/-- row number `i` survives `_remove(ids)`: its id triple is not among `ids` -/
def keepIdx (ts ids : List Triple) (i : Nat) : Bool :=
  (ts[i]?).any (fun t => !(ids.contains t))

theorem block_count_le (ts : List Triple) (t : Triple) (lo hi : Nat) (h1 : lo ≤ hi) (h2 : hi ≤ ts.length)
    (h : ∀ i t', lo ≤ i → i < hi → ts[i]? = some t' → t' = t) : hi - lo ≤ ts.count t := by
  have hsub : ((ts.drop lo).take (hi - lo)).Sublist ts :=
    (List.take_sublist _ _).trans (List.drop_sublist _ _)
  have hlen : ((ts.drop lo).take (hi - lo)).length = hi - lo := by
    simp; omega
  have hall : ∀ b ∈ (ts.drop lo).take (hi - lo), t = b := by
    intro b hb
    obtain ⟨j, hj, rfl⟩ := List.getElem_of_mem hb
    rw [hlen] at hj
    have : ((ts.drop lo).take (hi - lo))[j]? = ts[lo + j]? := by
      rw [List.getElem?_take_of_lt (by omega), List.getElem?_drop]
    have h3 : ts[lo + j]? = some ((ts.drop lo).take (hi - lo))[j] := by
      rw [← this]; exact List.getElem?_eq_getElem _
    exact (h (lo + j) _ (by omega) (by omega) h3).symm
  have := List.Sublist.count_le t hsub
  rw [List.count_eq_length.mpr hall, hlen] at this
  exact this

theorem removeLoop_eq (ts : List Triple) (hsort : SortedT ts) (cut : Nat) :
    ∀ (ids : List Triple) (loc : Nat) (sel : List Nat),
      List.Pairwise (fun a b => tlt a b = true) ids →
      (∀ t ∈ ids, ∃ k, loc ≤ k ∧ ts[k]? = some t) →
      (cut = 0 ∨ ∀ t ∈ ids, ts.count t ≤ cut) →
      removeLoop (ts.map (·.1)) (ts.map (·.2.1)) (ts.map (·.2.2)) ts.length cut ids loc sel =
        .ok (sel ++ (List.range' loc (ts.length - loc)).filter (keepIdx ts ids)) := by
  intro ids
  induction ids with
  | nil =>
    intro loc sel _ _ _
    simp only [removeLoop]
    congr 2
    symm
    rw [List.filter_eq_self]
    intro i hi
    rw [List.mem_range'_1] at hi
    have : i < ts.length := by omega
    simp [keepIdx, List.getElem?_eq_getElem this]
  | cons t ids ih =>
    intro loc sel hpw hpres hcut
    obtain ⟨e, l, v⟩ := t
    obtain ⟨k, hk1, hk⟩ := hpres (e, l, v) (by simp)
    obtain ⟨lo, hi, q1, q2, q3, q4, q5, q6, q7⟩ := removeLoop_step ts hsort cut e l v ids loc sel k hk1 hk
    rw [q7]
    have hpw' := List.pairwise_cons.mp hpw
    have hcut0 : (if hi - lo > cut then cut else 0) = 0 := by
      rcases hcut with h0 | hc
      · subst h0; simp
      · have := hc (e, l, v) (by simp)
        have := block_count_le ts (e, l, v) lo hi (by omega) q3 q5
        rw [if_neg (by omega)]
    rw [hcut0, Nat.add_zero]
    rw [ih hi _ hpw'.2 ?_ ?_]
    · rw [List.append_assoc]
      congr 2
      rw [range'_split loc lo ts.length q1 (by omega), range'_split lo hi ts.length (by omega) q3,
        List.filter_append, List.filter_append]
      have p1 : (List.range' loc (lo - loc)).filter (keepIdx ts ((e, l, v) :: ids)) = List.range' loc (lo - loc) := by
        rw [List.filter_eq_self]
        intro i hi'
        rw [List.mem_range'_1] at hi'
        have hin : i < ts.length := by omega
        have hlt := q4 i ts[i] hi'.1 (by omega) (List.getElem?_eq_getElem hin)
        simp only [keepIdx, List.getElem?_eq_getElem hin, Option.any_some, List.contains_cons, Bool.not_or,
          Bool.and_eq_true, Bool.not_eq_true', beq_eq_false_iff_ne, ne_eq]
        constructor
        · intro heq
          rw [heq, tlt_iff] at hlt
          omega
        · rw [List.contains_eq_mem, decide_eq_false_iff_not]
          intro hmem
          have h2 := hpw'.1 _ hmem
          rw [tlt_iff] at hlt h2
          omega
      have p2 : (List.range' lo (hi - lo)).filter (keepIdx ts ((e, l, v) :: ids)) = [] := by
        rw [List.filter_eq_nil_iff]
        intro i hi'
        rw [List.mem_range'_1] at hi'
        have hin : i < ts.length := by omega
        have heq := q5 i ts[i] hi'.1 (by omega) (List.getElem?_eq_getElem hin)
        simp [keepIdx, List.getElem?_eq_getElem hin, heq]
      have p3 : (List.range' hi (ts.length - hi)).filter (keepIdx ts ((e, l, v) :: ids)) =
          (List.range' hi (ts.length - hi)).filter (keepIdx ts ids) := by
        apply List.filter_congr
        intro i hi'
        rw [List.mem_range'_1] at hi'
        have hin : i < ts.length := by omega
        have hgt := q6 i ts[i] hi'.1 (List.getElem?_eq_getElem hin)
        have hne : ¬ ts[i] = (e, l, v) := by
          intro heq
          rw [heq, tlt_iff] at hgt
          omega
        simp [keepIdx, List.getElem?_eq_getElem hin, hne]
      rw [p1, p2, p3, List.nil_append]
    · intro t' ht'
      obtain ⟨k', hk1', hk'⟩ := hpres t' (by simp [ht'])
      refine ⟨k', ?_, hk'⟩
      have hlt := hpw'.1 t' ht'
      by_contra hc
      by_cases hc2 : k' < lo
      · have := q4 k' t' hk1' hc2 hk'
        rw [tlt_iff] at this hlt
        omega
      · have := q5 k' t' (by omega) (by omega) hk'
        rw [this, tlt_iff] at hlt
        omega
    · rcases hcut with h0 | hc
      · exact Or.inl h0
      · exact Or.inr (fun t' ht' => hc t' (by simp [ht']))


theorem mem_insertT (t x : Triple) (l : List Triple) : x ∈ insertT t l ↔ x = t ∨ x ∈ l := by
  induction l with
  | nil => simp [insertT]
  | cons y ys ih =>
    simp only [insertT]
    split
    · simp only [List.mem_cons, ih]; tauto
    · simp only [List.mem_cons]

theorem mem_sortT (x : Triple) (l : List Triple) : x ∈ sortT l ↔ x ∈ l := by
  induction l with
  | nil => simp [sortT]
  | cons y ys ih => simp only [sortT, mem_insertT, ih, List.mem_cons]

theorem tlt_total (a b : Triple) (h1 : tlt a b ≠ true) (h2 : a ≠ b) : tlt b a = true := by
  have h1' : ¬ (a.1 < b.1 ∨ (a.1 = b.1 ∧ (a.2.1 < b.2.1 ∨ (a.2.1 = b.2.1 ∧ a.2.2 < b.2.2)))) :=
    fun h => h1 ((tlt_iff a b).mpr h)
  rw [tlt_iff]
  obtain ⟨a1, a2, a3⟩ := a
  obtain ⟨b1, b2, b3⟩ := b
  simp only [ne_eq, Prod.mk.injEq] at h2
  simp only at h1' ⊢
  omega

theorem tlt_trans (a b c : Triple) (h1 : tlt a b = true) (h2 : tlt b c = true) : tlt a c = true := by
  rw [tlt_iff] at h1 h2 ⊢
  omega

theorem sorted_insertT (t : Triple) (l : List Triple) (hl : List.Pairwise (fun a b => tlt a b = true) l)
    (ht : t ∉ l) : List.Pairwise (fun a b => tlt a b = true) (insertT t l) := by
  induction l with
  | nil => simp [insertT]
  | cons y ys ih =>
    have hl' := List.pairwise_cons.mp hl
    simp only [insertT]
    split
    · rename_i hyt
      rw [List.pairwise_cons]
      refine ⟨?_, ih hl'.2 (fun h => ht (by simp [h]))⟩
      intro z hz
      rcases (mem_insertT t z ys).mp hz with rfl | hz
      · exact hyt
      · exact hl'.1 z hz
    · rename_i hyt
      have hty : tlt t y = true := tlt_total y t hyt (fun h => ht (by simp [h]))
      rw [List.pairwise_cons]
      refine ⟨?_, hl⟩
      intro z hz
      rcases List.mem_cons.mp hz with rfl | hz
      · exact hty
      · exact tlt_trans _ _ _ hty (hl'.1 z hz)

theorem sorted_sortT (l : List Triple) (h : l.Nodup) : List.Pairwise (fun a b => tlt a b = true) (sortT l) := by
  induction l with
  | nil => simp [sortT]
  | cons y ys ih =>
    have h' := List.nodup_cons.mp h
    simp only [sortT]
    exact sorted_insertT y _ (ih h'.2) (fun hm => h'.1 ((mem_sortT y ys).mp hm))

theorem keepIdx_congr (ts ids ids' : List Triple) (h : ∀ t, t ∈ ids ↔ t ∈ ids') : keepIdx ts ids = keepIdx ts ids' := by
  funext i
  unfold keepIdx
  cases ts[i]? with
  | none => rfl
  | some t =>
    simp only [Option.any_some]
    congr 1
    rw [List.contains_eq_mem, List.contains_eq_mem]
    simp [h t]

/-- `_remove(ids, n)` under the sortedness of the id columns: exactly the row numbers whose id triple is not in `ids` -/
theorem remove_eq (ts ids : List Triple) (cut : Nat) (hsort : SortedT ts) (hnd : ids.Nodup)
    (hpres : ∀ t ∈ ids, t ∈ ts) (hcut : cut = 0 ∨ ∀ t ∈ ids, ts.count t ≤ cut) :
    remove ts ids cut = .ok ((List.range ts.length).filter (keepIdx ts ids)) := by
  unfold remove
  rw [removeLoop_eq ts hsort cut (sortT ids) 0 [] (sorted_sortT ids hnd)]
  · simp only [List.nil_append, Nat.sub_zero, ← List.range_eq_range']
    rw [keepIdx_congr ts (sortT ids) ids (fun t => mem_sortT t ids)]
  · intro t ht
    have := hpres t ((mem_sortT t ids).mp ht)
    obtain ⟨k, hk, rfl⟩ := List.getElem_of_mem this
    exact ⟨k, Nat.zero_le _, List.getElem?_eq_getElem hk⟩
  · rcases hcut with h0 | hc
    · exact Or.inl h0
    · exact Or.inr (fun t ht => hc t ((mem_sortT t ids).mp ht))

theorem selectRows_filter {α} (rows : List α) (P : α → Bool) :
    selectRows rows ((List.range rows.length).filter (fun i => (rows[i]?).any P)) = rows.filter P := by
  induction rows with
  | nil => simp [selectRows]
  | cons r rs ih =>
    unfold selectRows at ih ⊢
    rw [List.length_cons, List.range_succ_eq_map, List.filter_cons, List.filter_map, List.filter_cons]
    have e1 : ((fun i => ((r :: rs)[i]?).any P) ∘ Nat.succ) = fun i => (rs[i]?).any P := by
      funext i; simp
    have e2 : ((fun i => (r :: rs)[i]?) ∘ Nat.succ) = fun i => rs[i]? := by
      funext i; simp
    rw [e1]
    by_cases hp : P r = true
    · simp only [List.getElem?_cons_zero, Option.any_some, hp, if_true, List.filterMap_cons, List.filterMap_map]
      rw [e2, ih]
    · simp only [List.getElem?_cons_zero, Option.any_some, hp, Bool.false_eq_true, if_false, List.filterMap_map]
      rw [e2, ih]

theorem keepIdx_rows (rows : List IRow) (ids : List Triple) :
    keepIdx (rows.map IRow.triple) ids = fun i => (rows[i]?).any (fun r => !(ids.contains r.triple)) := by
  funext i
  unfold keepIdx
  rw [List.getElem?_map]
  cases rows[i]? <;> rfl

/-- the rows `_remove` selects are exactly the rows whose id triple is not in `ids` -/
theorem remove_select (rows : List IRow) (ids : List Triple) (cut : Nat)
    (hsort : SortedT (rows.map IRow.triple)) (hnd : ids.Nodup)
    (hpres : ∀ t ∈ ids, t ∈ rows.map IRow.triple)
    (hcut : cut = 0 ∨ ∀ t ∈ ids, (rows.map IRow.triple).count t ≤ cut) :
    ∃ sel, remove (rows.map IRow.triple) ids cut = .ok sel ∧
      selectRows rows sel = rows.filter (fun r => !(ids.contains r.triple)) := by
  refine ⟨_, remove_eq _ ids cut hsort hnd hpres hcut, ?_⟩
  rw [List.length_map, keepIdx_rows]
  exact selectRows_filter rows _


/-! ## Part 3: the keep rule of `_group_p` -/


section dedup
variable {α : Type} [DecidableEq α]

theorem mem_dedup (x : α) (l : List α) : x ∈ dedup l ↔ x ∈ l := by
  induction l with
  | nil => simp [dedup]
  | cons y ys ih =>
    simp only [dedup, List.mem_cons, List.mem_filter, ih, decide_eq_true_eq]
    by_cases h : x = y <;> simp [h]

theorem nodup_dedup (l : List α) : (dedup l).Nodup := by
  induction l with
  | nil => simp [dedup]
  | cons y ys ih =>
    simp only [dedup, List.nodup_cons, List.mem_filter, decide_eq_true_eq]
    exact ⟨fun h => h.2 rfl, ih.filter _⟩

theorem dedup_sublist (l : List α) : (dedup l).Sublist l := by
  induction l with
  | nil => simp [dedup]
  | cons y ys ih =>
    simp only [dedup]
    exact List.Sublist.cons_cons _ ((List.filter_sublist).trans ih)

theorem dedup_of_nodup (l : List α) (h : l.Nodup) : dedup l = l := by
  induction l with
  | nil => simp [dedup]
  | cons y ys ih =>
    have h' := List.nodup_cons.mp h
    simp only [dedup, ih h'.2]
    congr 1
    rw [List.filter_eq_self]
    intro a ha
    simp only [decide_eq_true_eq]
    intro hc
    exact h'.1 (hc ▸ ha)

theorem nodup_of_dedup_length (l : List α) (h : l.length ≤ (dedup l).length) : l.Nodup := by
  have := (dedup_sublist l).eq_of_length_le h
  rw [← this]
  exact nodup_dedup l

end dedup

/-- number of evaluations of a group at level `lv` -/
def levelCount (g : List Idx) (lv : Key) : Nat := (g.filter (fun i => i.l = lv)).length

theorem levelCount_eq_count (g : List Idx) (lv : Key) : levelCount g lv = (g.map (·.l)).count lv := by
  unfold levelCount
  rw [List.count_eq_countP, List.countP_map, List.countP_eq_length_filter]
  congr 2
  funext i
  by_cases h : i.l = lv
  · simp [h]
  · have h' : ¬ lv = i.l := fun hc => h hc.symm
    simp [h, h']

/-- the repaired keep rule is the property's: exactly one evaluation for every compared level -/
theorem groupKeep_fixed_iff (levels : List Key) (hl : levels.Nodup) (g : List Idx)
    (hsub : ∀ i ∈ g, i.l ∈ levels) :
    groupKeep true levels.length g = true ↔ ∀ lv ∈ levels, levelCount g lv = 1 := by
  have hsub' : g.map (·.l) ⊆ levels := by
    intro x hx
    obtain ⟨i, hi, rfl⟩ := List.mem_map.mp hx
    exact hsub i hi
  simp only [groupKeep, if_true, Bool.and_eq_true, Bool.not_eq_true', decide_eq_false_iff_not, not_lt]
  constructor
  · rintro ⟨h1, h2⟩ lv hlv
    rw [levelCount_eq_count]
    have hd : (dedup (g.map (·.l))).length ≤ (g.map (·.l)).length := (dedup_sublist _).length_le
    have hnd : (g.map (·.l)).Nodup := nodup_of_dedup_length _ (by simp only [List.length_map] at hd ⊢; omega)
    have hsp : (dedup (g.map (·.l))).Subperm levels :=
      (nodup_dedup _).subperm (fun x hx => hsub' ((mem_dedup x _).mp hx))
    have hperm := hsp.perm_of_length_le h2
    have hmem : lv ∈ g.map (·.l) := (mem_dedup lv _).mp (hperm.mem_iff.mpr hlv)
    exact List.count_eq_one_of_mem hnd hmem
  · intro h
    have hnd : (g.map (·.l)).Nodup := by
      rw [List.nodup_iff_count_le_one]
      intro a
      by_cases ha : a ∈ g.map (·.l)
      · have := h a (hsub' ha)
        rw [levelCount_eq_count] at this
        omega
      · rw [List.count_eq_zero_of_not_mem ha]; omega
    have hsup : levels ⊆ g.map (·.l) := by
      intro lv hlv
      have := h lv hlv
      rw [levelCount_eq_count] at this
      exact List.count_pos_iff.mp (by omega)
    have hperm : (g.map (·.l)).Perm levels :=
      (hnd.subperm hsub').antisymm (hl.subperm hsup)
    have hlen := hperm.length_eq
    rw [dedup_of_nodup _ hnd]
    simp only [List.length_map] at hlen ⊢
    omega

/-- the rule of the unchanged code agrees with the property only when no level occurs twice in the group -/
theorem groupKeep_legacy_iff (levels : List Key) (hl : levels.Nodup) (g : List Idx)
    (hsub : ∀ i ∈ g, i.l ∈ levels) (hnd : (g.map (·.l)).Nodup) :
    groupKeep false levels.length g = true ↔ ∀ lv ∈ levels, levelCount g lv = 1 := by
  rw [← groupKeep_fixed_iff levels hl g hsub]
  simp only [groupKeep, if_true, Bool.false_eq_true, if_false, Bool.and_eq_true, Bool.not_eq_true',
    decide_eq_false_iff_not, not_lt]
  rw [dedup_of_nodup _ hnd]
  simp only [List.length_map]



/-! ## Part 4: runs, `_group_p` -/


/-! runs -/

theorem runs_flatMap (l : List IRow) : (runs l).flatMap (·.2) = l := by
  induction l with
  | nil => simp [runs]
  | cons r rs ih =>
    simp only [runs]
    cases h : runs rs with
    | nil =>
      rw [h] at ih
      simp at ih
      simp [← ih]
    | cons g rest =>
      obtain ⟨t, gl⟩ := g
      rw [h] at ih
      simp only
      split
      · simp only [List.flatMap_cons] at ih ⊢
        rw [List.cons_append, ih]
      · simp only [List.flatMap_cons] at ih ⊢
        simp [ih]

theorem runs_spec (l : List IRow) : ∀ g ∈ runs l, g.2 ≠ [] ∧ ∀ row ∈ g.2, row.triple = g.1 := by
  induction l with
  | nil => simp [runs]
  | cons r rs ih =>
    simp only [runs]
    cases h : runs rs with
    | nil => simp
    | cons g rest =>
      obtain ⟨t, gl⟩ := g
      rw [h] at ih
      simp only
      split
      · rename_i heq
        intro g' hg'
        rcases List.mem_cons.mp hg' with rfl | hg'
        · refine ⟨by simp, ?_⟩
          intro row hrow
          rcases List.mem_cons.mp hrow with rfl | hrow
          · exact heq.symm
          · exact (ih (t, gl) (by simp)).2 row hrow
        · exact ih g' (by simp [hg'])
      · intro g' hg'
        rcases List.mem_cons.mp hg' with rfl | hg'
        · simp
        · exact ih g' hg'

theorem runs_head_triple (r : IRow) (rs : List IRow) : ∃ g rest, runs (r :: rs) = (r.triple, g) :: rest := by
  simp only [runs]
  cases h : runs rs with
  | nil => exact ⟨_, _, rfl⟩
  | cons g rest =>
    obtain ⟨t, gl⟩ := g
    simp only
    split
    · rename_i heq; subst heq; exact ⟨_, _, rfl⟩
    · exact ⟨_, _, rfl⟩

theorem mem_runs_triple (l : List IRow) : ∀ g ∈ runs l, ∃ row ∈ l, row.triple = g.1 := by
  intro g hg
  have h1 := runs_spec l g hg
  obtain ⟨row, hrow⟩ := List.exists_mem_of_ne_nil _ h1.1
  refine ⟨row, ?_, h1.2 row hrow⟩
  rw [← runs_flatMap l]
  exact List.mem_flatMap.mpr ⟨g, hg, hrow⟩

theorem row_triple_mem_runs (l : List IRow) (row : IRow) (h : row ∈ l) : row.triple ∈ (runs l).map (·.1) := by
  rw [← runs_flatMap l] at h
  obtain ⟨g, hg, hrow⟩ := List.mem_flatMap.mp h
  exact List.mem_map.mpr ⟨g, hg, ((runs_spec l g hg).2 row hrow).symm⟩

theorem tle_ne_tlt (a b : Triple) (h1 : tle a b = true) (h2 : a ≠ b) : tlt a b = true := by
  rw [tle_iff] at h1
  rw [tlt_iff]
  obtain ⟨a1, a2, a3⟩ := a
  obtain ⟨b1, b2, b3⟩ := b
  simp only [ne_eq, Prod.mk.injEq] at h2
  simp only at h1 ⊢
  omega

/-- in a table sorted by the id columns the runs have strictly increasing (hence distinct) id triples -/
theorem runs_sorted (l : List IRow) (hs : SortedIds l) :
    List.Pairwise (fun a b => tlt a b = true) ((runs l).map (·.1)) := by
  induction l with
  | nil => simp [runs]
  | cons r rs ih =>
    have hs' := List.pairwise_cons.mp hs
    have ih' := ih hs'.2
    have hmem := mem_runs_triple rs
    simp only [runs]
    cases h : runs rs with
    | nil => simp
    | cons g rest =>
      obtain ⟨t, gl⟩ := g
      rw [h] at ih' hmem
      simp only
      split
      · simpa using ih'
      · rename_i hne
        simp only [List.map_cons, List.pairwise_cons] at ih' ⊢
        refine ⟨?_, ih'⟩
        have ht : tlt r.triple t = true := by
          obtain ⟨row, hrow, hrt⟩ := hmem (t, gl) (by simp)
          have := hs'.1 row hrow
          rw [hrt] at this
          exact tle_ne_tlt _ _ this (fun hc => hne hc.symm)
        intro t' ht'
        rcases List.mem_cons.mp ht' with rfl | ht'
        · exact ht
        · exact tlt_trans _ _ _ ht (ih'.1 t' ht')

theorem tlt_irrefl (a : Triple) : tlt a a ≠ true := by
  rw [Ne, tlt_iff]; omega

theorem runs_nodup (l : List IRow) (hs : SortedIds l) : ((runs l).map (·.1)).Nodup := by
  have := runs_sorted l hs
  unfold List.Nodup
  refine this.imp ?_
  intro a b hab heq
  subst heq
  exact tlt_irrefl a hab

theorem sortedT_of_sortedIds (l : List IRow) (hs : SortedIds l) : SortedT (l.map IRow.triple) := by
  intro i j a b hij ha hb
  rw [List.getElem?_map] at ha hb
  obtain ⟨ra, hra, rfl⟩ := Option.map_eq_some_iff.mp ha
  obtain ⟨rb, hrb, rfl⟩ := Option.map_eq_some_iff.mp hb
  rcases Nat.lt_or_eq_of_le hij with hlt | heq
  · have hi : i < l.length := by
      by_contra hc; rw [List.getElem?_eq_none (by omega)] at hra; cases hra
    have hj : j < l.length := by
      by_contra hc; rw [List.getElem?_eq_none (by omega)] at hrb; cases hrb
    have := List.pairwise_iff_getElem.mp hs i j hi hj hlt
    rw [List.getElem?_eq_getElem hi] at hra
    rw [List.getElem?_eq_getElem hj] at hrb
    cases hra; cases hrb
    exact this
  · subst heq
    rw [hra] at hrb
    cases hrb
    rw [tle_iff]; omega


/-! `_group_p` -/

theorem lookup_ok {rows : List PRow} {id : Nat} {p : PRow} (h : lookup rows id = .ok p) : p ∈ rows ∧ p.id = id := by
  induction rows with
  | nil => simp [lookup] at h
  | cons r rs ih =>
    simp only [lookup] at h
    split at h
    · cases h
      rename_i heq
      exact ⟨by simp, heq⟩
    · have := ih h
      exact ⟨by simp [this.1], this.2⟩

theorem mkIndexes_spec (r : Result) (lc pc : List Col) : ∀ (ts : List Triple) (ix : List Idx),
    mkIndexes r lc pc ts = .ok ix →
    ix.map (·.t) = ts ∧ ∀ t ∈ ts, (∃ p ∈ r.envs, p.id = t.1) ∧ (∃ p ∈ r.lrns, p.id = t.2.1) ∧ (∃ p ∈ r.evals, p.id = t.2.2) := by
  intro ts
  induction ts with
  | nil =>
    intro ix h
    simp only [mkIndexes] at h
    cases h
    simp
  | cons t ts ih =>
    intro ix h
    simp only [mkIndexes] at h
    cases h1 : lookup r.envs t.1 with
    | error x => simp [h1] at h
    | ok e =>
      cases h2 : lookup r.lrns t.2.1 with
      | error x => simp [h1, h2] at h
      | ok l =>
        cases h3 : lookup r.evals t.2.2 with
        | error x => simp [h1, h2, h3] at h
        | ok v =>
          simp only [h1, h2, h3] at h
          cases h4 : keyOf e l v t pc with
          | error x => simp [h4] at h
          | ok pk =>
            cases h5 : keyOf e l v t lc with
            | error x => simp [h4, h5] at h
            | ok lk =>
              simp only [h4, h5] at h
              cases h6 : mkIndexes r lc pc ts with
              | error x => simp [h6] at h
              | ok rest =>
                simp only [h6] at h
                cases h
                have := ih rest h6
                refine ⟨by simp [this.1], ?_⟩
                intro t' ht'
                rcases List.mem_cons.mp ht' with rfl | ht'
                · exact ⟨⟨e, (lookup_ok h1).1, (lookup_ok h1).2⟩, ⟨l, (lookup_ok h2).1, (lookup_ok h2).2⟩,
                    ⟨v, (lookup_ok h3).1, (lookup_ok h3).2⟩⟩
                · exact this.2 t' ht'

theorem sublist_flatten {α} {l1 l2 : List (List α)} (h : l1.Sublist l2) : l1.flatten.Sublist l2.flatten := by
  induction h with
  | slnil => simp
  | cons a _ ih => simp only [List.flatten_cons]; exact ih.trans (List.sublist_append_right _ _)
  | cons_cons a _ ih => simp only [List.flatten_cons]; exact List.Sublist.append_left ih a

theorem removeRows_eq (rows : List IRow) (ids : List Triple) (cut : Nat) (hs : SortedIds rows) (hnd : ids.Nodup)
    (hpres : ∀ t ∈ ids, t ∈ rows.map IRow.triple)
    (hcut : cut = 0 ∨ ∀ t ∈ ids, (rows.map IRow.triple).count t ≤ cut) :
    removeRows rows ids cut = .ok (rows.filter (fun r => !(ids.contains r.triple))) := by
  unfold removeRows
  split
  · rename_i hemp
    rw [List.isEmpty_iff] at hemp
    subst hemp
    simp
  · obtain ⟨sel, hsel, hrows⟩ := remove_select rows ids cut (sortedT_of_sortedIds _ hs) hnd hpres hcut
    rw [hsel]
    simp only
    rw [hrows]

theorem mem_groups_flatten (ix : List Idx) (K : List Idx → Bool) (i : Idx) :
    i ∈ ((groupsOf ix).filter K).flatten ↔ i ∈ ix ∧ K (ix.filter (fun j => j.p = i.p)) = true := by
  simp only [groupsOf, List.mem_flatten, List.mem_filter, List.mem_map, mem_dedup]
  constructor
  · rintro ⟨g, ⟨⟨k, _, rfl⟩, hK⟩, hi⟩
    simp only [List.mem_filter, decide_eq_true_eq] at hi
    obtain ⟨hi1, hi2⟩ := hi
    subst hi2
    exact ⟨hi1, hK⟩
  · rintro ⟨hi, hK⟩
    exact ⟨_, ⟨⟨i.p, ⟨i, hi, rfl⟩, rfl⟩, hK⟩, by simp [hi]⟩

theorem groups_flatten_nodup (ix : List Idx) (h : ix.Nodup) : (groupsOf ix).flatten.Nodup := by
  rw [List.nodup_flatten]
  constructor
  · intro g hg
    simp only [groupsOf, List.mem_map] at hg
    obtain ⟨k, _, rfl⟩ := hg
    exact h.filter _
  · simp only [groupsOf, List.pairwise_map]
    refine (nodup_dedup (ix.map (·.p))).imp ?_
    intro a b hab
    intro i h1 h2
    simp only [List.mem_filter, decide_eq_true_eq] at h1 h2
    exact hab (h1.2.symm.trans h2.2)

theorem completeGroup_iff (ix : List Idx) (k : Key) :
    completeGroup ix k = true ↔ groupKeep true (dedup (ix.map (·.l))).length (ix.filter (fun i => i.p = k)) = true := by
  rw [groupKeep_fixed_iff (dedup (ix.map (·.l))) (nodup_dedup _)]
  · simp only [completeGroup, levelsOf, List.all_eq_true, decide_eq_true_eq, levelCount]
  · intro i hi
    rw [mem_dedup]
    exact List.mem_map.mpr ⟨i, (List.mem_filter.mp hi).1, rfl⟩

theorem filterTable_eq (rows : List PRow) (keep : List Nat) (hu : (rows.map (·.id)).Nodup)
    (hsub : ∀ k ∈ keep, k ∈ rows.map (·.id)) :
    filterTable rows keep = rows.filter (fun p => keep.contains p.id) := by
  unfold filterTable
  split
  · rfl
  · rename_i hlen
    have hlen : (dedup keep).length = rows.length := by omega
    symm
    rw [List.filter_eq_self]
    intro p hp
    have hsp : (dedup keep).Subperm (rows.map (·.id)) :=
      (nodup_dedup keep).subperm (fun x hx => hsub x ((mem_dedup x keep).mp hx))
    have hperm := hsp.perm_of_length_le (by simp [hlen])
    have : p.id ∈ dedup keep := hperm.mem_iff.mpr (List.mem_map.mpr ⟨p, hp, rfl⟩)
    simpa using (mem_dedup _ _).mp this

theorem filterTable_kept (rows : List PRow) (hu : (rows.map (·.id)).Nodup) (keepT : List Triple) (f : Triple → Nat)
    (ints' : List IRow)
    (hsub : ∀ t ∈ keepT, ∃ p ∈ rows, p.id = f t)
    (hT : ∀ t, t ∈ keepT ↔ ∃ row ∈ ints', row.triple = t) :
    filterTable rows (keepT.map f) = rows.filter (fun p => (ints'.map (fun row => f row.triple)).contains p.id) := by
  rw [filterTable_eq rows _ hu]
  · apply List.filter_congr
    intro p _
    rw [List.contains_eq_mem, List.contains_eq_mem]
    congr 1
    apply propext
    simp only [List.mem_map]
    constructor
    · rintro ⟨t, ht, hft⟩
      obtain ⟨row, hrow, rfl⟩ := (hT t).mp ht
      exact ⟨row, hrow, hft⟩
    · rintro ⟨row, hrow, hft⟩
      exact ⟨row.triple, (hT _).mpr ⟨row, hrow, rfl⟩, hft⟩
  · intro k hk
    obtain ⟨t, ht, rfl⟩ := List.mem_map.mp hk
    obtain ⟨p, hp, hpid⟩ := hsub t ht
    exact List.mem_map.mpr ⟨p, hp, hpid⟩

/-- `_group_p` with the repaired rule keeps exactly the rows of the complete groups and exactly the
parameter rows those rows refer to -/
theorem groupP_eq (r : Result) (lc pc : List Col) (ix : List Idx)
    (hs : SortedIds r.ints) (hu : UniqueIds r)
    (hix : mkIndexes r lc pc ((runs r.ints).map (·.1)) = .ok ix) :
    groupP true r lc pc = .ok (restrictTables r (groupPIntsS r.ints ix)) := by
  obtain ⟨hmap, hpres⟩ := mkIndexes_spec r lc pc _ ix hix
  have hnd_t : (ix.map (·.t)).Nodup := by rw [hmap]; exact runs_nodup _ hs
  have hnd : ix.Nodup := List.Nodup.of_map _ hnd_t
  have hinj : ∀ i ∈ ix, ∀ j ∈ ix, i.t = j.t → i = j := List.inj_on_of_nodup_map hnd_t
  have hrowix : ∀ row ∈ r.ints, ∃ i ∈ ix, i.t = row.triple := by
    intro row hrow
    have := row_triple_mem_runs _ row hrow
    rw [← hmap] at this
    obtain ⟨i, hi, hit⟩ := List.mem_map.mp this
    exact ⟨i, hi, hit⟩
  -- membership in the keep / remove lists
  have hK : ∀ i ∈ ix, (groupKeep true (dedup (ix.map (·.l))).length (ix.filter (fun j => j.p = i.p)) = true ↔
      (keptTriplesS ix).contains i.t = true) := by
    intro i hi
    rw [← completeGroup_iff, List.contains_eq_mem, decide_eq_true_eq]
    simp only [keptTriplesS, List.mem_map, List.mem_filter]
    constructor
    · intro h; exact ⟨i, ⟨hi, h⟩, rfl⟩
    · rintro ⟨j, ⟨hj, hc⟩, hjt⟩
      rw [← hinj j hj i hi hjt]; exact hc
  have hkeep : ∀ t, t ∈ (((groupsOf ix).filter (fun g => groupKeep true (dedup (ix.map (·.l))).length g)).flatten).map (·.t) ↔
      t ∈ keptTriplesS ix := by
    intro t
    simp only [List.mem_map, mem_groups_flatten]
    constructor
    · rintro ⟨i, ⟨hi, hk⟩, rfl⟩
      simpa using (hK i hi).mp hk
    · intro ht
      simp only [keptTriplesS, List.mem_map, List.mem_filter] at ht
      obtain ⟨i, ⟨hi, hc⟩, rfl⟩ := ht
      exact ⟨i, ⟨hi, (completeGroup_iff ix i.p).mp hc⟩, rfl⟩
  have hrem : ∀ i ∈ ix, (i.t ∈ (((groupsOf ix).filter (fun g => !groupKeep true (dedup (ix.map (·.l))).length g)).flatten).map (·.t) ↔
      ¬ (keptTriplesS ix).contains i.t = true) := by
    intro i hi
    rw [← hK i hi]
    simp only [List.mem_map, mem_groups_flatten, Bool.not_eq_true', Bool.not_eq_eq_eq_not, Bool.not_true]
    constructor
    · rintro ⟨j, ⟨hj, hk⟩, hjt⟩
      rw [← hinj j hj i hi hjt]; simpa using hk
    · intro h; exact ⟨i, ⟨hi, by simpa using h⟩, rfl⟩
  -- the interaction rows
  have hnd_rem : ((((groupsOf ix).filter (fun g => !groupKeep true (dedup (ix.map (·.l))).length g)).flatten).map (·.t)).Nodup := by
    apply List.Nodup.map_on
    · intro a ha b hb hab
      exact hinj a ((mem_groups_flatten ix _ a).mp ha).1 b ((mem_groups_flatten ix _ b).mp hb).1 hab
    · exact (sublist_flatten List.filter_sublist).nodup (groups_flatten_nodup ix hnd)
  have hints := removeRows_eq r.ints _ 0 hs hnd_rem (by
    intro t ht
    obtain ⟨i, hi, rfl⟩ := List.mem_map.mp ht
    have hi' := ((mem_groups_flatten ix _ i).mp hi).1
    have : i.t ∈ (runs r.ints).map (·.1) := by rw [← hmap]; exact List.mem_map.mpr ⟨i, hi', rfl⟩
    obtain ⟨g, hg, hgt⟩ := List.mem_map.mp this
    obtain ⟨row, hrow, hrt⟩ := mem_runs_triple _ g hg
    exact List.mem_map.mpr ⟨row, hrow, by rw [hrt, hgt]⟩) (Or.inl rfl)
  have hfilt : r.ints.filter (fun row => !((((groupsOf ix).filter (fun g => !groupKeep true (dedup (ix.map (·.l))).length g)).flatten).map (·.t)).contains row.triple) =
      groupPIntsS r.ints ix := by
    unfold groupPIntsS
    apply List.filter_congr
    intro row hrow
    obtain ⟨i, hi, hit⟩ := hrowix row hrow
    rw [← hit]
    have := hrem i hi
    rw [← List.contains_iff_mem] at this
    cases h1 : (keptTriplesS ix).contains i.t <;> simp_all
  rw [hfilt] at hints
  unfold groupP
  rw [hix]
  simp only
  rw [hints]
  simp only
  have hT : ∀ t, t ∈ (((groupsOf ix).filter (fun g => groupKeep true (dedup (ix.map (·.l))).length g)).flatten).map (·.t) ↔
      ∃ row ∈ groupPIntsS r.ints ix, row.triple = t := by
    intro t
    rw [hkeep t]
    unfold groupPIntsS
    simp only [List.mem_filter, List.contains_eq_mem, decide_eq_true_eq]
    constructor
    · intro ht
      have ht' := ht
      simp only [keptTriplesS, List.mem_map, List.mem_filter] at ht'
      obtain ⟨i, ⟨hi, _⟩, rfl⟩ := ht'
      have : i.t ∈ (runs r.ints).map (·.1) := by rw [← hmap]; exact List.mem_map.mpr ⟨i, hi, rfl⟩
      obtain ⟨g, hg, hgt⟩ := List.mem_map.mp this
      obtain ⟨row, hrow, hrt⟩ := mem_runs_triple _ g hg
      exact ⟨row, ⟨hrow, by rw [hrt, hgt]; exact ht⟩, by rw [hrt, hgt]⟩
    · rintro ⟨row, ⟨_, hk⟩, rfl⟩
      exact hk
  have hsubT : ∀ t ∈ (((groupsOf ix).filter (fun g => groupKeep true (dedup (ix.map (·.l))).length g)).flatten).map (·.t),
      t ∈ (runs r.ints).map (·.1) := by
    intro t ht
    obtain ⟨i, hi, rfl⟩ := List.mem_map.mp ht
    rw [← hmap]
    exact List.mem_map.mpr ⟨i, ((mem_groups_flatten ix _ i).mp hi).1, rfl⟩
  rw [filterTable_kept r.envs hu.1 _ (·.1) _ (fun t ht => by
        obtain ⟨p, hp, hpid⟩ := (hpres t (hsubT t ht)).1; exact ⟨p, hp, hpid⟩) hT,
    filterTable_kept r.lrns hu.2.1 _ (·.2.1) _ (fun t ht => by
        obtain ⟨p, hp, hpid⟩ := (hpres t (hsubT t ht)).2.1; exact ⟨p, hp, hpid⟩) hT,
    filterTable_kept r.evals hu.2.2 _ (·.2.2) _ (fun t ht => by
        obtain ⟨p, hp, hpid⟩ := (hpres t (hsubT t ht)).2.2; exact ⟨p, hp, hpid⟩) hT]
  rfl




/-! `_global_n` -/

theorem filter_idx_take_aux (g : List IRow) : ∀ (s m : Nat), g.map (·.idx) = List.range' s g.length →
    g.filter (fun row => decide (row.idx < s + m)) = g.take m := by
  induction g with
  | nil => intro s m _; simp
  | cons r rs ih =>
    intro s m h
    simp only [List.map_cons, List.length_cons, List.range'_succ, List.cons.injEq] at h
    obtain ⟨h1, h2⟩ := h
    cases m with
    | zero =>
      simp only [Nat.add_zero, List.take_zero, List.filter_eq_nil_iff, decide_eq_true_eq, not_lt]
      intro a ha
      rcases List.mem_cons.mp ha with rfl | ha
      · omega
      · have : a.idx ∈ rs.map (·.idx) := List.mem_map.mpr ⟨a, ha, rfl⟩
        rw [h2, List.mem_range'_1] at this
        omega
    | succ m =>
      have hr : decide (r.idx < s + (m + 1)) = true := by simp; omega
      rw [List.filter_cons, if_pos hr, List.take_succ_cons]
      congr 1
      have := ih (s + 1) m h2
      rw [← this]
      apply List.filter_congr
      intro a _
      congr 1
      apply propext
      omega

theorem filter_idx_take (g : List IRow) (m : Nat) (h : g.map (·.idx) = List.range' 1 g.length) :
    g.filter (fun row => decide (row.idx ≤ m)) = g.take m := by
  rw [← filter_idx_take_aux g 1 m h]
  apply List.filter_congr
  intro a _
  congr 1
  apply propext
  omega

theorem run_fst_inj (l : List IRow) (hs : SortedIds l) : ∀ g ∈ runs l, ∀ g' ∈ runs l, g.1 = g'.1 → g = g' :=
  List.inj_on_of_nodup_map (runs_nodup l hs)

/-- in a sorted table the run of `t` holds all the rows with id triple `t` -/
theorem count_run (G : List (Triple × List IRow)) (hnd : (G.map (·.1)).Nodup)
    (hsp : ∀ g ∈ G, ∀ row ∈ g.2, row.triple = g.1) :
    ∀ g ∈ G, ((G.flatMap (·.2)).map IRow.triple).count g.1 = g.2.length := by
  induction G with
  | nil => simp
  | cons g0 G' ih =>
    intro g hg
    have hnd' : g0.1 ∉ G'.map (·.1) ∧ (G'.map (·.1)).Nodup := List.nodup_cons.mp (by rw [List.map_cons] at hnd; exact hnd)
    simp only [List.flatMap_cons, List.map_append, List.count_append]
    have hall0 : ∀ b ∈ g0.2.map IRow.triple, g0.1 = b := by
      intro b hb
      obtain ⟨row, hrow, rfl⟩ := List.mem_map.mp hb
      exact (hsp g0 (by simp) row hrow).symm
    have hrest : ∀ t, t ∈ (G'.flatMap (·.2)).map IRow.triple → t ∈ G'.map (·.1) := by
      intro t ht
      obtain ⟨row, hrow, rfl⟩ := List.mem_map.mp ht
      obtain ⟨g', hg', hrow'⟩ := List.mem_flatMap.mp hrow
      exact List.mem_map.mpr ⟨g', hg', (hsp g' (by simp [hg']) row hrow').symm⟩
    rcases List.mem_cons.mp hg with rfl | hg'
    · rw [List.count_eq_length.mpr hall0, List.count_eq_zero_of_not_mem (fun hc => hnd'.1 (hrest _ hc))]
      simp
    · have hne : g0.1 ≠ g.1 := fun hc => hnd'.1 (hc ▸ List.mem_map.mpr ⟨g, hg', rfl⟩)
      rw [List.count_eq_zero_of_not_mem (fun hc => hne (hall0 _ hc)),
        ih hnd'.2 (fun g' hg'' => hsp g' (by simp [hg''])) g hg']
      simp


theorem minOf_le_left (m : Nat) (xs : List Nat) : minOf m xs ≤ m := by
  induction xs generalizing m with
  | nil => simp [minOf]
  | cons x xs ih =>
    simp only [minOf]
    split
    · exact (ih x).trans (by omega)
    · exact ih m

theorem minOf_le_mem (m : Nat) (xs : List Nat) : ∀ x ∈ xs, minOf m xs ≤ x := by
  induction xs generalizing m with
  | nil => simp
  | cons y ys ih =>
    intro x hx
    simp only [minOf]
    rcases List.mem_cons.mp hx with rfl | hx
    · split
      · exact minOf_le_left _ _
      · exact (minOf_le_left _ _).trans (by omega)
    · exact ih _ x hx

theorem le_minOf (k m : Nat) (xs : List Nat) (hm : k ≤ m) (hx : ∀ x ∈ xs, k ≤ x) : k ≤ minOf m xs := by
  induction xs generalizing m with
  | nil => simpa [minOf]
  | cons y ys ih =>
    simp only [minOf]
    split
    · exact ih y (hx y (by simp)) (fun x h => hx x (by simp [h]))
    · exact ih m hm (fun x h => hx x (by simp [h]))

/-- parameter rows all stay when every one of them is still referenced -/
theorem filter_referenced_self (rows : List PRow) (ids : List Nat) (h : ∀ p ∈ rows, p.id ∈ ids) :
    rows = rows.filter (fun p => ids.contains p.id) := by
  symm
  rw [List.filter_eq_self]
  intro p hp
  simpa using h p hp

theorem filter_runs (l : List IRow) (P : IRow → Bool) : l.filter P = (runs l).flatMap (fun g => g.2.filter P) := by
  conv_lhs => rw [← runs_flatMap l]
  rw [List.filter_flatMap]

theorem globalN_k_eq (r : Result) (n : Nat) (hn : 1 ≤ n) (hs : SortedIds r.ints) (hu : UniqueIds r)
    (hw : IdxWF r.ints) (hrefs : RefsPresent r) (hall : AllReferenced r) :
    globalN r (.k n) = .ok (restrictTables r (globalNIntsS r.ints (.k n))) := by
  have hnd := runs_nodup r.ints hs
  have hinj := run_fst_inj r.ints hs
  have hspec := runs_spec r.ints
  have hdropmem : ∀ g ∈ runs r.ints, (g.1 ∈ ((runs r.ints).filter (fun g => decide (g.2.length < n))).map (·.1) ↔ g.2.length < n) := by
    intro g hg
    simp only [List.mem_map, List.mem_filter, decide_eq_true_eq]
    constructor
    · rintro ⟨g', ⟨hg', hl⟩, heq⟩
      rw [← hinj g' hg' g hg heq]; exact hl
    · intro hl; exact ⟨g, ⟨hg, hl⟩, rfl⟩
  have hrm := removeRows_eq r.ints (((runs r.ints).filter (fun g => decide (g.2.length < n))).map (·.1)) n hs
    ((List.filter_sublist.map _).nodup hnd)
    (by
      intro t ht
      obtain ⟨g, hg, rfl⟩ := List.mem_map.mp ht
      obtain ⟨row, hrow, hrt⟩ := mem_runs_triple _ g (List.mem_filter.mp hg).1
      exact List.mem_map.mpr ⟨row, hrow, hrt⟩)
    (Or.inr (by
      intro t ht
      obtain ⟨g, hg, rfl⟩ := List.mem_map.mp ht
      have hg' := List.mem_filter.mp hg
      have := count_run (runs r.ints) hnd (fun g hg => (hspec g hg).2) g hg'.1
      rw [runs_flatMap] at this
      rw [this]
      have := hg'.2
      simp only [decide_eq_true_eq] at this
      omega))
  have hints : (r.ints.filter (fun row => !((((runs r.ints).filter (fun g => decide (g.2.length < n))).map (·.1)).contains row.triple))).filter
      (fun row => decide (row.idx ≤ n)) = globalNIntsS r.ints (.k n) := by
    unfold globalNIntsS
    simp only
    rw [List.filter_filter, filter_runs]
    apply List.flatMap_congr
    intro g hg
    rw [← List.filter_filter]
    by_cases hl : g.2.length < n
    · have h1 : g.2.filter (fun row => !((((runs r.ints).filter (fun g => decide (g.2.length < n))).map (·.1)).contains row.triple)) = [] := by
        rw [List.filter_eq_nil_iff]
        intro row hrow
        rw [(hspec g hg).2 row hrow]
        simp only [Bool.not_eq_true', Bool.not_eq_false, List.contains_eq_mem, decide_eq_true_eq]
        exact (hdropmem g hg).mpr hl
      rw [if_pos hl, h1, List.filter_nil]
    · have h1 : g.2.filter (fun row => !((((runs r.ints).filter (fun g => decide (g.2.length < n))).map (·.1)).contains row.triple)) = g.2 := by
        rw [List.filter_eq_self]
        intro row hrow
        rw [(hspec g hg).2 row hrow]
        simp only [Bool.not_eq_true', List.contains_eq_mem, decide_eq_false_iff_not]
        exact fun hc => hl ((hdropmem g hg).mp hc)
      rw [if_neg hl, h1, filter_idx_take _ _ (hw g hg)]
  have hT : ∀ t, t ∈ ((runs r.ints).filter (fun g => !decide (g.2.length < n))).map (·.1) ↔
      ∃ row ∈ globalNIntsS r.ints (.k n), row.triple = t := by
    intro t
    unfold globalNIntsS
    simp only [List.mem_map, List.mem_filter, List.mem_flatMap, Bool.not_eq_true', decide_eq_false_iff_not]
    constructor
    · rintro ⟨g, ⟨hg, hl⟩, rfl⟩
      obtain ⟨row, hrow⟩ := List.exists_mem_of_ne_nil _ (show g.2.take n ≠ [] by
        have := (hspec g hg).1
        cases hgl : g.2 with
        | nil => exact absurd hgl this
        | cons a as => cases n with
          | zero => omega
          | succ n => simp)
      exact ⟨row, ⟨g, hg, by rw [if_neg hl]; exact hrow⟩, (hspec g hg).2 row (List.mem_of_mem_take hrow)⟩
    · rintro ⟨row, ⟨g, hg, hrow⟩, rfl⟩
      by_cases hl : g.2.length < n
      · rw [if_pos hl] at hrow; simp at hrow
      · rw [if_neg hl] at hrow
        exact ⟨g, ⟨hg, hl⟩, ((hspec g hg).2 row (List.mem_of_mem_take hrow)).symm⟩
  have hsubT : ∀ t ∈ ((runs r.ints).filter (fun g => !decide (g.2.length < n))).map (·.1), ∃ row ∈ r.ints, row.triple = t := by
    intro t ht
    obtain ⟨g, hg, rfl⟩ := List.mem_map.mp ht
    exact mem_runs_triple _ g (List.mem_filter.mp hg).1
  unfold globalN
  simp only
  rw [hrm]
  simp only
  rw [hints]
  by_cases hemp : (((runs r.ints).filter (fun g => decide (g.2.length < n))).map (·.1)).isEmpty = true
  · simp only [hemp, Bool.not_true, filterTableIf, Bool.false_eq_true, if_false]
    -- nothing dropped: every parameter row is still referenced
    have hkeepall : ∀ row ∈ r.ints, ∃ row' ∈ globalNIntsS r.ints (.k n), row'.triple = row.triple := by
      intro row hrow
      have := row_triple_mem_runs _ row hrow
      obtain ⟨g, hg, hgt⟩ := List.mem_map.mp this
      have hl : ¬ g.2.length < n := by
        intro hl
        have := (hdropmem g hg).mpr hl
        rw [List.isEmpty_iff] at hemp
        rw [hemp] at this
        simp at this
      exact (hT row.triple).mp (List.mem_map.mpr ⟨g, List.mem_filter.mpr ⟨hg, by simpa using hl⟩, hgt⟩)
    unfold restrictTables
    congr 2
    · apply filter_referenced_self
      intro p hp
      obtain ⟨row, hrow, he⟩ := hall.1 p hp
      obtain ⟨row', hrow', ht⟩ := hkeepall row hrow
      exact List.mem_map.mpr ⟨row', hrow', by rw [← he]; exact congrArg (·.1) ht⟩
    · apply filter_referenced_self
      intro p hp
      obtain ⟨row, hrow, he⟩ := hall.2.1 p hp
      obtain ⟨row', hrow', ht⟩ := hkeepall row hrow
      exact List.mem_map.mpr ⟨row', hrow', by rw [← he]; exact congrArg (·.2.1) ht⟩
    · apply filter_referenced_self
      intro p hp
      obtain ⟨row, hrow, he⟩ := hall.2.2 p hp
      obtain ⟨row', hrow', ht⟩ := hkeepall row hrow
      exact List.mem_map.mpr ⟨row', hrow', by rw [← he]; exact congrArg (·.2.2) ht⟩
  · have hne : (!(((runs r.ints).filter (fun g => decide (g.2.length < n))).map (·.1)).isEmpty) = true := by
      simpa using hemp
    simp only [hne, filterTableIf, if_true]
    rw [filterTable_kept r.envs hu.1 _ (·.1) _ (fun t ht => by
          obtain ⟨row, hrow, rfl⟩ := hsubT t ht
          obtain ⟨p, hp, hpid⟩ := (hrefs row hrow).1; exact ⟨p, hp, hpid⟩) hT,
      filterTable_kept r.lrns hu.2.1 _ (·.2.1) _ (fun t ht => by
          obtain ⟨row, hrow, rfl⟩ := hsubT t ht
          obtain ⟨p, hp, hpid⟩ := (hrefs row hrow).2.1; exact ⟨p, hp, hpid⟩) hT,
      filterTable_kept r.evals hu.2.2 _ (·.2.2) _ (fun t ht => by
          obtain ⟨row, hrow, rfl⟩ := hsubT t ht
          obtain ⟨p, hp, hpid⟩ := (hrefs row hrow).2.2; exact ⟨p, hp, hpid⟩) hT]
    rfl


theorem globalN_min_eq (r : Result) (hw : IdxWF r.ints) (hall : AllReferenced r) :
    globalN r .min = .ok (restrictTables r (globalNIntsS r.ints .min)) := by
  have hspec := runs_spec r.ints
  unfold globalN globalNIntsS
  simp only
  cases hlen : (runs r.ints).map (fun g => g.2.length) with
  | nil =>
    simp only
    have hruns : runs r.ints = [] := by simpa using hlen
    have hints : r.ints = [] := by rw [← runs_flatMap r.ints, hruns]; rfl
    have he : r.envs = [] := by
      cases h : r.envs with
      | nil => rfl
      | cons p ps =>
        obtain ⟨row, hrow, _⟩ := hall.1 p (by simp [h])
        rw [hints] at hrow; simp at hrow
    have hl : r.lrns = [] := by
      cases h : r.lrns with
      | nil => rfl
      | cons p ps =>
        obtain ⟨row, hrow, _⟩ := hall.2.1 p (by simp [h])
        rw [hints] at hrow; simp at hrow
    have hv : r.evals = [] := by
      cases h : r.evals with
      | nil => rfl
      | cons p ps =>
        obtain ⟨row, hrow, _⟩ := hall.2.2 p (by simp [h])
        rw [hints] at hrow; simp at hrow
    congr 1
    cases r
    simp only at hints he hl hv
    subst hints he hl hv
    rfl
  | cons m ms =>
    simp only
    have hmin1 : 1 ≤ minOf m ms := by
      apply le_minOf
      · have : m ∈ (runs r.ints).map (fun g => g.2.length) := by rw [hlen]; simp
        obtain ⟨g, hg, rfl⟩ := List.mem_map.mp this
        have := (hspec g hg).1
        cases hgl : g.2 with
        | nil => exact absurd hgl this
        | cons a as => simp
      · intro x hx
        have : x ∈ (runs r.ints).map (fun g => g.2.length) := by rw [hlen]; simp [hx]
        obtain ⟨g, hg, rfl⟩ := List.mem_map.mp this
        have := (hspec g hg).1
        cases hgl : g.2 with
        | nil => exact absurd hgl this
        | cons a as => simp
    have hints : r.ints.filter (fun row => decide (row.idx ≤ minOf m ms)) =
        (runs r.ints).flatMap (fun g => g.2.take (minOf m ms)) := by
      rw [filter_runs]
      apply List.flatMap_congr
      intro g hg
      exact filter_idx_take _ _ (hw g hg)
    rw [hints]
    have hkeepall : ∀ row ∈ r.ints, ∃ row' ∈ (runs r.ints).flatMap (fun g => g.2.take (minOf m ms)), row'.triple = row.triple := by
      intro row hrow
      have := row_triple_mem_runs _ row hrow
      obtain ⟨g, hg, hgt⟩ := List.mem_map.mp this
      obtain ⟨row', hrow'⟩ := List.exists_mem_of_ne_nil _ (show g.2.take (minOf m ms) ≠ [] by
        have := (hspec g hg).1
        cases hgl : g.2 with
        | nil => exact absurd hgl this
        | cons a as =>
          obtain ⟨k, hk⟩ : ∃ k, minOf m ms = k + 1 := ⟨minOf m ms - 1, by omega⟩
          rw [hk]; simp)
      exact ⟨row', List.mem_flatMap.mpr ⟨g, hg, hrow'⟩, by
        rw [(hspec g hg).2 row' (List.mem_of_mem_take hrow'), hgt]⟩
    unfold restrictTables
    congr 2
    · apply filter_referenced_self
      intro p hp
      obtain ⟨row, hrow, he⟩ := hall.1 p hp
      obtain ⟨row', hrow', ht⟩ := hkeepall row hrow
      exact List.mem_map.mpr ⟨row', hrow', by rw [← he]; exact congrArg (·.1) ht⟩
    · apply filter_referenced_self
      intro p hp
      obtain ⟨row, hrow, he⟩ := hall.2.1 p hp
      obtain ⟨row', hrow', ht⟩ := hkeepall row hrow
      exact List.mem_map.mpr ⟨row', hrow', by rw [← he]; exact congrArg (·.2.1) ht⟩
    · apply filter_referenced_self
      intro p hp
      obtain ⟨row, hrow, he⟩ := hall.2.2 p hp
      obtain ⟨row', hrow', ht⟩ := hkeepall row hrow
      exact List.mem_map.mpr ⟨row', hrow', by rw [← he]; exact congrArg (·.2.2) ht⟩

/-- after `n='min'` every surviving evaluation has exactly the minimal length -/
theorem min_equal_lengths (ints : List IRow) (m : Nat) (ms : List Nat)
    (h : (runs ints).map (fun g => g.2.length) = m :: ms) :
    ∀ g ∈ runs ints, (g.2.take (minOf m ms)).length = minOf m ms := by
  intro g hg
  have : g.2.length ∈ m :: ms := by rw [← h]; exact List.mem_map.mpr ⟨g, hg, rfl⟩
  rw [List.length_take]
  rcases List.mem_cons.mp this with h1 | h1
  · have := minOf_le_left m ms; omega
  · have := minOf_le_mem m ms _ h1; omega




/-- dropping whole evaluations from a sorted table drops whole runs -/
theorem runs_filter (Q : Triple → Bool) (l : List IRow) (hs : SortedIds l) :
    runs (l.filter (fun row => Q row.triple)) = (runs l).filter (fun g => Q g.1) := by
  induction l with
  | nil => simp [runs]
  | cons r rs ih =>
    have hs' := List.pairwise_cons.mp hs
    have ih' := ih hs'.2
    have hsorted := runs_sorted (r :: rs) hs
    rw [List.filter_cons]
    by_cases hq : Q r.triple = true
    · rw [if_pos hq]
      simp only [runs] at hsorted ⊢
      rw [ih']
      cases hruns : runs rs with
      | nil => simp [hq]
      | cons g rest =>
        obtain ⟨t, gl⟩ := g
        rw [hruns] at hsorted
        simp only at hsorted ⊢
        by_cases ht : t = r.triple
        · subst ht
          simp [List.filter_cons, hq]
        · rw [if_neg ht] at hsorted ⊢
          simp only [List.map_cons, List.pairwise_cons] at hsorted
          rw [List.filter_cons (x := (r.triple, [r]))]
          simp only [hq, if_true]
          cases hf : List.filter (fun g => Q g.1) ((t, gl) :: rest) with
          | nil => rfl
          | cons g' rest' =>
            obtain ⟨t', gl'⟩ := g'
            simp only
            have hmem : (t', gl') ∈ (t, gl) :: rest := by
              have : (t', gl') ∈ List.filter (fun g => Q g.1) ((t, gl) :: rest) := by rw [hf]; simp
              exact (List.mem_filter.mp this).1
            have hlt : tlt r.triple t' = true := hsorted.1 t' (by
              have : t' ∈ List.map (fun x => x.1) ((t, gl) :: rest) := List.mem_map.mpr ⟨(t', gl'), hmem, rfl⟩
              simpa using this)
            have hne : ¬ t' = r.triple := by
              intro hc; rw [hc] at hlt; exact tlt_irrefl _ hlt
            rw [if_neg hne]
    · rw [if_neg hq, ih']
      simp only [runs]
      cases hruns : runs rs with
      | nil => simp [hq]
      | cons g rest =>
        obtain ⟨t, gl⟩ := g
        simp only
        by_cases ht : t = r.triple
        · subst ht
          simp [List.filter_cons, hq]
        · rw [if_neg ht]
          rw [List.filter_cons (x := (r.triple, [r]))]
          simp [hq]


theorem restrict_refsPresent (r : Result) (ints : List IRow) (hsub : ∀ row ∈ ints, row ∈ r.ints) (hrefs : RefsPresent r) :
    RefsPresent (restrictTables r ints) := by
  intro row hrow
  simp only [restrictTables] at hrow ⊢
  obtain ⟨⟨pe, hpe, he⟩, ⟨pl, hpl, hl⟩, ⟨pv, hpv, hv⟩⟩ := hrefs row (hsub row hrow)
  refine ⟨⟨pe, ?_, he⟩, ⟨pl, ?_, hl⟩, ⟨pv, ?_, hv⟩⟩
  · rw [List.mem_filter]; exact ⟨hpe, by simp only [List.contains_eq_mem, decide_eq_true_eq]; exact List.mem_map.mpr ⟨row, hrow, he.symm⟩⟩
  · rw [List.mem_filter]; exact ⟨hpl, by simp only [List.contains_eq_mem, decide_eq_true_eq]; exact List.mem_map.mpr ⟨row, hrow, hl.symm⟩⟩
  · rw [List.mem_filter]; exact ⟨hpv, by simp only [List.contains_eq_mem, decide_eq_true_eq]; exact List.mem_map.mpr ⟨row, hrow, hv.symm⟩⟩

theorem restrict_allReferenced (r : Result) (ints : List IRow) : AllReferenced (restrictTables r ints) := by
  refine ⟨?_, ?_, ?_⟩ <;>
  · intro p hp
    simp only [restrictTables, List.mem_filter, List.contains_eq_mem, decide_eq_true_eq, List.mem_map] at hp ⊢
    obtain ⟨_, row, hrow, h⟩ := hp
    exact ⟨row, hrow, h⟩

theorem restrict_uniqueIds (r : Result) (ints : List IRow) (hu : UniqueIds r) : UniqueIds (restrictTables r ints) := by
  refine ⟨?_, ?_, ?_⟩
  · exact (List.filter_sublist.map _).nodup hu.1
  · exact (List.filter_sublist.map _).nodup hu.2.1
  · exact (List.filter_sublist.map _).nodup hu.2.2

theorem contains_and (ints1 ints2 : List IRow) (f : IRow → Nat) (hsub : ∀ row ∈ ints2, row ∈ ints1) (x : Nat) :
    ((ints2.map f).contains x && (ints1.map f).contains x) = (ints2.map f).contains x := by
  by_cases h2 : x ∈ ints2.map f
  · have h1 : x ∈ ints1.map f := by
      obtain ⟨row, hrow, h⟩ := List.mem_map.mp h2
      exact List.mem_map.mpr ⟨row, hsub row hrow, h⟩
    simp [h1, h2]
  · simp [h2]

theorem restrict_restrict (r : Result) (ints1 ints2 : List IRow) (hsub : ∀ row ∈ ints2, row ∈ ints1) :
    restrictTables (restrictTables r ints1) ints2 = restrictTables r ints2 := by
  simp only [restrictTables, List.filter_filter]
  congr 1 <;>
  · apply List.filter_congr
    intro p _
    exact contains_and ints1 ints2 _ hsub p.id

theorem restrict_self (r : Result) (hall : AllReferenced r) : restrictTables r r.ints = r := by
  cases r with
  | mk envs lrns evals ints =>
    simp only [restrictTables]
    congr 1
    · exact (filter_referenced_self envs _ (fun p hp => by
        obtain ⟨row, hrow, h⟩ := hall.1 p hp; exact List.mem_map.mpr ⟨row, hrow, h⟩)).symm
    · exact (filter_referenced_self lrns _ (fun p hp => by
        obtain ⟨row, hrow, h⟩ := hall.2.1 p hp; exact List.mem_map.mpr ⟨row, hrow, h⟩)).symm
    · exact (filter_referenced_self evals _ (fun p hp => by
        obtain ⟨row, hrow, h⟩ := hall.2.2 p hp; exact List.mem_map.mpr ⟨row, hrow, h⟩)).symm

theorem mem_globalNIntsS (ints : List IRow) (n : NSpec) : ∀ row ∈ globalNIntsS ints n, row ∈ ints := by
  intro row hrow
  have hmem : ∀ g ∈ runs ints, ∀ x ∈ g.2, x ∈ ints := by
    intro g hg x hx
    rw [← runs_flatMap ints]
    exact List.mem_flatMap.mpr ⟨g, hg, hx⟩
  unfold globalNIntsS at hrow
  cases n with
  | min =>
    simp only at hrow
    cases hl : (runs ints).map (fun g => g.2.length) with
    | nil => rw [hl] at hrow; exact hrow
    | cons m ms =>
      rw [hl] at hrow
      simp only [List.mem_flatMap] at hrow
      obtain ⟨g, hg, hx⟩ := hrow
      exact hmem g hg row (List.mem_of_mem_take hx)
  | k n =>
    simp only [List.mem_flatMap] at hrow
    obtain ⟨g, hg, hx⟩ := hrow
    split at hx
    · simp at hx
    · exact hmem g hg row (List.mem_of_mem_take hx)

theorem refsPresent_of_indexes (r : Result) (lc pc : List Col) (ix : List Idx)
    (hix : mkIndexes r lc pc ((runs r.ints).map (·.1)) = .ok ix) : RefsPresent r := by
  intro row hrow
  have := (mkIndexes_spec r lc pc _ ix hix).2 row.triple (row_triple_mem_runs _ row hrow)
  exact this

/-- `where_fin` (with the repaired pairing rule) is its specification -/
theorem filterFin_eq_spec (r : Result) (n : Option NSpec) (lp : Option (List Col × List Col))
    (hs : SortedIds r.ints) (hu : UniqueIds r) (hw : IdxWF r.ints) (hrefs : RefsPresent r)
    (hall : lp = none → AllReferenced r) :
    filterFin true r n lp = whereFinS r n lp := by
  unfold filterFin whereFinS
  cases lp with
  | none =>
    simp only
    have hall := hall rfl
    cases n with
    | none => simp only; rw [restrict_self r hall]
    | some n =>
      cases n with
      | min => simp only; exact globalN_min_eq r hw hall
      | k n =>
        cases n with
        | zero => simp only; rw [restrict_self r hall]
        | succ n => simp only; exact globalN_k_eq r (n + 1) (by omega) hs hu hw hrefs hall
  | some lp =>
    obtain ⟨lc, pc⟩ := lp
    simp only
    cases hix : mkIndexes r lc pc ((runs r.ints).map (·.1)) with
    | error x =>
      simp only [groupP, hix]
    | ok ix =>
      rw [groupP_eq r lc pc ix hs hu hix]
      simp only
      have hsub : ∀ row ∈ groupPIntsS r.ints ix, row ∈ r.ints := fun row h => (List.mem_filter.mp h).1
      have hs1 : SortedIds (restrictTables r (groupPIntsS r.ints ix)).ints := hs.filter _
      have hu1 := restrict_uniqueIds r (groupPIntsS r.ints ix) hu
      have hr1 := restrict_refsPresent r _ hsub hrefs
      have ha1 := restrict_allReferenced r (groupPIntsS r.ints ix)
      have hw1 : IdxWF (restrictTables r (groupPIntsS r.ints ix)).ints := by
        intro g hg
        simp only [restrictTables, groupPIntsS] at hg
        rw [runs_filter (fun t => (keptTriplesS ix).contains t) r.ints hs] at hg
        exact hw g (List.mem_filter.mp hg).1
      cases n with
      | none => rfl
      | some n =>
        cases n with
        | min =>
          simp only
          rw [globalN_min_eq _ hw1 ha1]
          congr 1
          exact restrict_restrict r _ _ (mem_globalNIntsS _ _)
        | k n =>
          cases n with
          | zero => rfl
          | succ n =>
            simp only
            rw [globalN_k_eq _ (n + 1) (by omega) hs1 hu1 hw1 hr1 ha1]
            congr 1
            exact restrict_restrict r _ _ (mem_globalNIntsS _ _)


theorem flatMap_sublist {α β} (l : List α) (f g : α → List β) (h : ∀ a, (f a).Sublist (g a)) :
    (l.flatMap f).Sublist (l.flatMap g) := by
  induction l with
  | nil => simp
  | cons a as ih => simp only [List.flatMap_cons]; exact (h a).append ih

theorem globalNIntsS_sublist (ints : List IRow) (n : NSpec) : (globalNIntsS ints n).Sublist ints := by
  unfold globalNIntsS
  cases n with
  | min =>
    simp only
    cases (runs ints).map (fun g => g.2.length) with
    | nil => exact List.Sublist.refl _
    | cons m ms =>
      simp only
      conv_rhs => rw [← runs_flatMap ints]
      exact flatMap_sublist _ _ _ (fun g => List.take_sublist _ _)
  | k n =>
    simp only
    conv_rhs => rw [← runs_flatMap ints]
    apply flatMap_sublist
    intro g
    split
    · exact List.nil_sublist _
    · exact List.take_sublist _ _

/-- whatever `where_fin` must return is the input with some interaction rows left out (none altered) and
the parameter rows restricted to the ones still referenced -/
theorem whereFinS_form (r r' : Result) (n : Option NSpec) (lp : Option (List Col × List Col))
    (h : whereFinS r n lp = .ok r') : ∃ ints', ints'.Sublist r.ints ∧ r' = restrictTables r ints' := by
  unfold whereFinS at h
  have key : ∀ ints1 : List IRow, ints1.Sublist r.ints →
      (match n with
        | none => (Except.ok (restrictTables r ints1) : Except Err Result)
        | some (.k 0) => .ok (restrictTables r ints1)
        | some n => .ok (restrictTables r (globalNIntsS ints1 n))) = .ok r' →
      ∃ ints', ints'.Sublist r.ints ∧ r' = restrictTables r ints' := by
    intro ints1 hsub h
    split at h
    · cases h; exact ⟨ints1, hsub, rfl⟩
    · cases h; exact ⟨ints1, hsub, rfl⟩
    · cases h; exact ⟨_, (globalNIntsS_sublist _ _).trans hsub, rfl⟩
  cases lp with
  | none => exact key r.ints (List.Sublist.refl _) h
  | some lp =>
    obtain ⟨lc, pc⟩ := lp
    simp only at h
    cases hix : mkIndexes r lc pc ((runs r.ints).map (·.1)) with
    | error x => rw [hix] at h; simp at h
    | ok ix =>
      rw [hix] at h
      exact key (groupPIntsS r.ints ix) List.filter_sublist h

/-- the repaired and the unchanged `_group_p` agree whenever no level occurs twice inside a `p`-group -/
theorem groupP_legacy_eq (r : Result) (lc pc : List Col)
    (hnd : ∀ ix, mkIndexes r lc pc ((runs r.ints).map (·.1)) = .ok ix → ∀ g ∈ groupsOf ix, (g.map (·.l)).Nodup) :
    groupP false r lc pc = groupP true r lc pc := by
  unfold groupP
  cases hix : mkIndexes r lc pc ((runs r.ints).map (·.1)) with
  | error x => rfl
  | ok ix =>
    simp only
    have hk : ∀ g ∈ groupsOf ix, groupKeep false (dedup (ix.map (·.l))).length g = groupKeep true (dedup (ix.map (·.l))).length g := by
      intro g hg
      have hsub : ∀ i ∈ g, i.l ∈ dedup (ix.map (·.l)) := by
        intro i hi
        simp only [groupsOf, List.mem_map] at hg
        obtain ⟨k, _, rfl⟩ := hg
        rw [mem_dedup]
        exact List.mem_map.mpr ⟨i, (List.mem_filter.mp hi).1, rfl⟩
      have h1 := groupKeep_legacy_iff _ (nodup_dedup (ix.map (·.l))) g hsub (hnd ix hix g hg)
      have h2 := groupKeep_fixed_iff _ (nodup_dedup (ix.map (·.l))) g hsub
      cases ha : groupKeep false (dedup (ix.map (·.l))).length g <;>
        cases hb : groupKeep true (dedup (ix.map (·.l))).length g
      · rfl
      · exact absurd (h1.mpr (h2.mp hb)) (by simp [ha])
      · exact absurd (h2.mpr (h1.mp ha)) (by simp [hb])
      · rfl
    rw [List.filter_congr (fun g hg => hk g hg),
      List.filter_congr (fun g hg => by rw [hk g hg] : ∀ g ∈ groupsOf ix,
        (!groupKeep false (dedup (ix.map (·.l))).length g) = (!groupKeep true (dedup (ix.map (·.l))).length g))]

/-! rows are never invented: unconditional, for both variants -/

theorem mem_selectRows {α} (rows : List α) (sel : List Nat) : ∀ x ∈ selectRows rows sel, x ∈ rows := by
  intro x hx
  simp only [selectRows, List.mem_filterMap] at hx
  obtain ⟨i, _, hi⟩ := hx
  exact List.mem_of_getElem? hi

theorem mem_removeRows (rows out : List IRow) (ids : List Triple) (cut : Nat) (h : removeRows rows ids cut = .ok out) :
    ∀ x ∈ out, x ∈ rows := by
  unfold removeRows at h
  split at h
  · cases h; exact fun x hx => hx
  · cases hr : remove (rows.map IRow.triple) ids cut with
    | error e => rw [hr] at h; simp at h
    | ok sel =>
      rw [hr] at h
      simp only [Except.ok.injEq] at h
      subst h
      exact mem_selectRows rows sel

theorem mem_filterTable (rows : List PRow) (keep : List Nat) : ∀ p ∈ filterTable rows keep, p ∈ rows := by
  intro p hp
  unfold filterTable at hp
  split at hp
  · exact (List.mem_filter.mp hp).1
  · exact hp

theorem groupP_rows (fixed : Bool) (r r' : Result) (lc pc : List Col) (h : groupP fixed r lc pc = .ok r') :
    (∀ x ∈ r'.ints, x ∈ r.ints) ∧ (∀ p ∈ r'.envs, p ∈ r.envs) ∧ (∀ p ∈ r'.lrns, p ∈ r.lrns) ∧ (∀ p ∈ r'.evals, p ∈ r.evals) := by
  unfold groupP at h
  cases hix : mkIndexes r lc pc ((runs r.ints).map (·.1)) with
  | error x => rw [hix] at h; simp at h
  | ok ix =>
    rw [hix] at h
    simp only at h
    split at h
    · simp at h
    · rename_i ints hrm
      simp only [Except.ok.injEq] at h
      subst h
      exact ⟨mem_removeRows _ _ _ _ hrm, mem_filterTable _ _, mem_filterTable _ _, mem_filterTable _ _⟩

theorem globalN_rows (r r' : Result) (n : NSpec) (h : globalN r n = .ok r') :
    (∀ x ∈ r'.ints, x ∈ r.ints) ∧ (∀ p ∈ r'.envs, p ∈ r.envs) ∧ (∀ p ∈ r'.lrns, p ∈ r.lrns) ∧ (∀ p ∈ r'.evals, p ∈ r.evals) := by
  unfold globalN at h
  cases n with
  | min =>
    simp only at h
    split at h
    · cases h; exact ⟨fun x hx => hx, fun x hx => hx, fun x hx => hx, fun x hx => hx⟩
    · cases h
      exact ⟨fun x hx => (List.mem_filter.mp hx).1, fun x hx => hx, fun x hx => hx, fun x hx => hx⟩
  | k n =>
    simp only at h
    split at h
    · simp at h
    · rename_i ints hrm
      simp only [Except.ok.injEq] at h
      subst h
      have hft : ∀ (c : Bool) (rows : List PRow) (keep : List Nat), ∀ p ∈ filterTableIf c rows keep, p ∈ rows := by
        intro c rows keep p hp
        unfold filterTableIf at hp
        split at hp
        · exact mem_filterTable _ _ p hp
        · exact hp
      exact ⟨fun x hx => mem_removeRows _ _ _ _ hrm x (List.mem_filter.mp hx).1, hft _ _ _, hft _ _ _, hft _ _ _⟩

/-- `where_fin` never alters or invents a row (any input, with or without the repair) -/
theorem filterFin_rows (fixed : Bool) (r r' : Result) (n : Option NSpec) (lp : Option (List Col × List Col))
    (h : filterFin fixed r n lp = .ok r') :
    (∀ x ∈ r'.ints, x ∈ r.ints) ∧ (∀ p ∈ r'.envs, p ∈ r.envs) ∧ (∀ p ∈ r'.lrns, p ∈ r.lrns) ∧ (∀ p ∈ r'.evals, p ∈ r.evals) := by
  unfold filterFin at h
  have key : ∀ r1 : Result,
      ((∀ x ∈ r1.ints, x ∈ r.ints) ∧ (∀ p ∈ r1.envs, p ∈ r.envs) ∧ (∀ p ∈ r1.lrns, p ∈ r.lrns) ∧ (∀ p ∈ r1.evals, p ∈ r.evals)) →
      (match n with
        | none => (Except.ok r1 : Except Err Result)
        | some (.k 0) => .ok r1
        | some n => globalN r1 n) = .ok r' →
      ((∀ x ∈ r'.ints, x ∈ r.ints) ∧ (∀ p ∈ r'.envs, p ∈ r.envs) ∧ (∀ p ∈ r'.lrns, p ∈ r.lrns) ∧ (∀ p ∈ r'.evals, p ∈ r.evals)) := by
    intro r1 h1 h
    split at h
    · cases h; exact h1
    · cases h; exact h1
    · have h2 := globalN_rows r1 r' _ h
      exact ⟨fun x hx => h1.1 x (h2.1 x hx), fun x hx => h1.2.1 x (h2.2.1 x hx),
        fun x hx => h1.2.2.1 x (h2.2.2.1 x hx), fun x hx => h1.2.2.2 x (h2.2.2.2 x hx)⟩
  cases lp with
  | none => exact key r ⟨fun x hx => hx, fun x hx => hx, fun x hx => hx, fun x hx => hx⟩ h
  | some lp =>
    obtain ⟨lc, pc⟩ := lp
    simp only at h
    cases hg : groupP fixed r lc pc with
    | error x => rw [hg] at h; simp at h
    | ok r1 =>
      rw [hg] at h
      exact key r1 (groupP_rows fixed r r1 lc pc hg) h



/-! ## Part 5: `_grouped_ys`, `raw_learners` -/


/-! `_grouped_ys` -/

section grouping
variable {κ : Type} [DecidableEq κ]

theorem dedup_snoc {α : Type} [DecidableEq α] (l : List α) (x : α) :
    dedup (l ++ [x]) = if x ∈ l then dedup l else dedup l ++ [x] := by
  induction l with
  | nil => simp [dedup]
  | cons y ys ih =>
    simp only [List.cons_append, dedup, ih]
    by_cases hx : x ∈ ys
    · simp [hx]
    · simp only [hx, if_false, List.filter_append, List.mem_cons]
      by_cases hxy : x = y
      · subst hxy
        simp
      · have : ¬ (x = y ∨ x ∈ ys) := by tauto
        simp [hxy, this]

end grouping

abbrev KK := Key × Key

theorem insertG_map (ks : List KK) (hnd : ks.Nodup) (F : KK → List Rat) (k : KK) (v : Rat) :
    insertG (ks.map (fun k' => (k', F k'))) k v =
      if k ∈ ks then ks.map (fun k' => (k', if k' = k then F k' ++ [v] else F k'))
      else ks.map (fun k' => (k', F k')) ++ [(k, [v])] := by
  induction ks with
  | nil => simp [insertG]
  | cons a as ih =>
    have hnd' := List.nodup_cons.mp hnd
    simp only [List.map_cons, insertG]
    by_cases ha : a = k
    · subst ha
      simp only [if_true, List.mem_cons, true_or]
      congr 1
      apply List.map_congr_left
      intro k' hk'
      have : ¬ k' = a := fun hc => hnd'.1 (hc ▸ hk')
      simp [this]
    · rw [if_neg ha, ih hnd'.2]
      have hka : ¬ k = a := fun hc => ha hc.symm
      by_cases hk : k ∈ as
      · simp [hk, ha]
      · simp [hk, hka, ha]

theorem groupByKey_snoc (pre : List (KK × Rat)) (k : KK) (v : Rat) :
    insertG (groupByKey pre) k v = groupByKey (pre ++ [(k, v)]) := by
  unfold groupByKey
  rw [insertG_map _ (nodup_dedup _) (fun k' => (pre.filter (fun e => e.1 = k')).map (·.2))]
  simp only [List.map_append, List.map_cons, List.map_nil]
  rw [dedup_snoc]
  by_cases hk : k ∈ pre.map (·.1)
  · have hk' : k ∈ dedup (pre.map (·.1)) := (mem_dedup _ _).mpr hk
    rw [if_pos hk', if_pos hk]
    apply List.map_congr_left
    intro k' _
    congr 1
    by_cases hkk : k' = k
    · subst hkk
      simp [List.filter_append]
    · have : ¬ k = k' := fun hc => hkk hc.symm
      simp [List.filter_append, hkk, this]
  · have hk' : ¬ k ∈ dedup (pre.map (·.1)) := fun hc => hk ((mem_dedup _ _).mp hc)
    rw [if_neg hk', if_neg hk, List.map_append]
    congr 1
    · apply List.map_congr_left
      intro k' hk2
      have hne : ¬ k = k' := fun hc => hk' (hc ▸ hk2)
      simp [List.filter_append, hne]
    · have hnone : pre.filter (fun e => decide (e.1 = k)) = [] := by
        rw [List.filter_eq_nil_iff]
        intro e he
        simp only [decide_eq_true_eq]
        intro hc
        exact hk (List.mem_map.mpr ⟨e, he, hc⟩)
      simp [List.filter_append, hnone]

theorem insertAll_groupByKey (pre es : List (KK × Rat)) :
    insertAll (groupByKey pre) es = groupByKey (pre ++ es) := by
  induction es generalizing pre with
  | nil => simp [insertAll]
  | cons e es ih =>
    obtain ⟨k, v⟩ := e
    simp only [insertAll]
    rw [groupByKey_snoc, ih]
    simp

theorem insertAll_nil (es : List (KK × Rat)) : insertAll [] es = groupByKey es := by
  have := insertAll_groupByKey [] es
  simpa [groupByKey, dedup] using this


theorem meanL_single (y : Rat) : meanL [y] = .ok y := by
  simp [meanL, divE, sumL]

theorem finalValue_eq (ys : List Rat) (span : Option Nat) (hne : ys ≠ []) :
    finalValue ys span = directFinal ys span := by
  have hlen : 1 ≤ ys.length := by
    cases ys with
    | nil => exact absurd rfl hne
    | cons a as => simp
  have hwin : ∀ s, window (some s) (ys.length - 1) ys = ys.drop (ys.length - s) := by
    intro s
    simp only [window]
    have : ys.length - 1 + 1 = ys.length := by omega
    rw [this, List.take_length]
  unfold finalValue directFinal
  match span with
  | none => rfl
  | some 0 => rfl
  | some 1 =>
    simp only
    rw [hwin 1, List.drop_length_sub_one hne, meanL_single, List.getLast?_eq_getLast hne]
  | some (s + 2) =>
    simp only
    rw [hwin]

theorem evalEntries_eq (r : Result) (lc : List Col) (x : XSpec) (span : Option Nat) (g : Triple × List IRow)
    (hne : g.2 ≠ []) : evalEntries r lc x span g = evalEntriesS r lc x span g := by
  unfold evalEntries evalEntriesS
  have hys : g.2.map (fun row => toRat row.y) ≠ [] := by simpa using hne
  simp only [movingAverage_none_eq, finalValue_eq _ _ hys]
  rfl

theorem allEntries_eq (r : Result) (lc : List Col) (x : XSpec) (span : Option Nat) (gs : List (Triple × List IRow))
    (hne : ∀ g ∈ gs, g.2 ≠ []) : allEntries r lc x span gs = allEntriesS r lc x span gs := by
  induction gs with
  | nil => rfl
  | cons g gs ih =>
    simp only [allEntries, allEntriesS]
    rw [evalEntries_eq r lc x span g (hne g (by simp)), ih (fun g' hg' => hne g' (by simp [hg']))]

/-- `_grouped_ys` (the dict-of-lists accumulation over `moving_average`) reports exactly the directly
computed averages, grouped by `(l, x)` -/
theorem groupedYs_eq (r : Result) (lc : List Col) (x : XSpec) (span : Option Nat) :
    groupedYs r lc x span = groupedYsS r lc x span := by
  unfold groupedYs groupedYsS
  rw [allEntries_eq r lc x span _ (fun g hg => (runs_spec r.ints g hg).1)]
  cases allEntriesS r lc x span (runs r.ints) with
  | error e => rfl
  | ok es => simp only; rw [insertAll_nil]


/-- `raw_learners` is its specification on well-formed results -/
theorem rawLearners_eq_spec (r : Result) (x : XSpec) (lc : List Col) (pc : Option (List Col)) (span : Option Nat)
    (hs : SortedIds r.ints) (hu : UniqueIds r) (hw : IdxWF r.ints) (hrefs : RefsPresent r) :
    rawLearners true r x lc pc span = rawLearnersS r x lc pc span := by
  unfold rawLearners rawLearnersS
  split
  · rfl
  · cases pc with
    | none => exact groupedYs_eq r lc x span
    | some pc =>
      simp only
      rw [filterFin_eq_spec r _ (some (lc, pc)) hs hu hw hrefs (by intro h; cases h)]
      cases whereFinS r (if x = .index then some .min else none) (some (lc, pc)) with
      | error e => rfl
      | ok fin =>
        simp only
        split
        · rfl
        · exact groupedYs_eq fin lc x span


/-! ## Part 6: well-formedness is preserved; chains -/


theorem take_range'_1 (s : Nat) : ∀ (n k : Nat), (List.range' s n).take k = List.range' s (min k n) := by
  intro n
  induction n generalizing s with
  | zero => intro k; simp
  | succ n ih =>
    intro k
    cases k with
    | zero => simp
    | succ k =>
      rw [List.range'_succ, List.take_succ_cons, ih]
      have : min (k + 1) (n + 1) = min k n + 1 := by omega
      rw [this, List.range'_succ]

/-- `runs` undoes the concatenation of non-empty blocks of equal id triple with distinct triples -/
theorem runs_block (t : Triple) (b : List IRow) (rest : List IRow) (G' : List (Triple × List IRow))
    (hb : b ≠ []) (ht : ∀ row ∈ b, row.triple = t) (hrest : runs rest = G')
    (hhead : ∀ g ∈ G'.head?, g.1 ≠ t) : runs (b ++ rest) = (t, b) :: G' := by
  induction b with
  | nil => exact absurd rfl hb
  | cons x b' ih =>
    have hx : x.triple = t := ht x (by simp)
    cases b' with
    | nil =>
      simp only [List.cons_append, List.nil_append, runs, hrest]
      cases G' with
      | nil => simp [hx]
      | cons g rest' =>
        obtain ⟨t', gl⟩ := g
        have h1 : ¬ t' = x.triple := by rw [hx]; exact hhead (t', gl) (by simp)
        have h2 : ¬ t' = t := hhead (t', gl) (by simp)
        simp [h1, h2, hx]
    | cons y b'' =>
      have := ih (by simp) (fun row hrow => ht row (by simp [hrow]))
      simp only [List.cons_append] at this ⊢
      rw [runs, this]
      simp [hx]

theorem runs_blocks (G : List (Triple × List IRow)) (hnd : (G.map (·.1)).Nodup)
    (hok : ∀ g ∈ G, g.2 ≠ [] ∧ ∀ row ∈ g.2, row.triple = g.1) : runs (G.flatMap (·.2)) = G := by
  induction G with
  | nil => simp [runs]
  | cons g G' ih =>
    have hnd' : g.1 ∉ G'.map (·.1) ∧ (G'.map (·.1)).Nodup := List.nodup_cons.mp (by rw [List.map_cons] at hnd; exact hnd)
    have ih' := ih hnd'.2 (fun g' hg' => hok g' (by simp [hg']))
    simp only [List.flatMap_cons]
    have := runs_block g.1 g.2 (G'.flatMap (·.2)) G' (hok g (by simp)).1 (hok g (by simp)).2 ih' (by
      intro g' hg'
      have : g' ∈ G' := List.mem_of_mem_head? hg'
      intro hc
      exact hnd'.1 (hc ▸ List.mem_map.mpr ⟨g', this, rfl⟩))
    rw [this]

theorem flatMap_filter_map {α β γ} (l : List α) (p : α → Bool) (f : α → β) (h : β → List γ) :
    ((l.filter p).map f).flatMap h = l.flatMap (fun a => if p a then h (f a) else []) := by
  induction l with
  | nil => simp
  | cons a as ih =>
    rw [List.filter_cons]
    by_cases hp : p a = true
    · simp [hp, ih]
    · simp [hp, ih]

/-- the evaluations that survive the length step, cut to `k` rows -/
def cutRuns (ints : List IRow) (keep : Triple × List IRow → Bool) (k : Nat) : List (Triple × List IRow) :=
  ((runs ints).filter keep).map (fun g => (g.1, g.2.take k))

theorem cutRuns_wf (ints : List IRow) (keep : Triple × List IRow → Bool) (k : Nat) (hk : 1 ≤ k)
    (hs : SortedIds ints) (hw : IdxWF ints) :
    runs ((cutRuns ints keep k).flatMap (·.2)) = cutRuns ints keep k ∧
      ∀ g ∈ cutRuns ints keep k, g.2.map (·.idx) = List.range' 1 g.2.length := by
  have hspec := runs_spec ints
  constructor
  · apply runs_blocks
    · have : (cutRuns ints keep k).map (·.1) = ((runs ints).filter keep).map (·.1) := by
        simp [cutRuns, Function.comp_def]
      rw [this]
      exact (List.filter_sublist.map _).nodup (runs_nodup ints hs)
    · intro g hg
      simp only [cutRuns, List.mem_map, List.mem_filter] at hg
      obtain ⟨g0, ⟨hg0, _⟩, rfl⟩ := hg
      have h0 := hspec g0 hg0
      constructor
      · simp only
        cases hgl : g0.2 with
        | nil => exact absurd hgl h0.1
        | cons a as =>
          obtain ⟨k', rfl⟩ : ∃ k', k = k' + 1 := ⟨k - 1, by omega⟩
          simp
      · intro row hrow
        exact h0.2 row (List.mem_of_mem_take hrow)
  · intro g hg
    simp only [cutRuns, List.mem_map, List.mem_filter] at hg
    obtain ⟨g0, ⟨hg0, _⟩, rfl⟩ := hg
    simp only
    rw [List.map_take, hw g0 hg0, take_range'_1, List.length_take]

theorem globalNIntsS_wf (ints : List IRow) (n : NSpec) (hn : n ≠ .k 0) (hs : SortedIds ints) (hw : IdxWF ints) :
    SortedIds (globalNIntsS ints n) ∧ IdxWF (globalNIntsS ints n) := by
  refine ⟨List.Pairwise.sublist (globalNIntsS_sublist ints n) hs, ?_⟩
  have hspec := runs_spec ints
  cases n with
  | min =>
    unfold globalNIntsS
    simp only
    cases hlen : (runs ints).map (fun g => g.2.length) with
    | nil => exact hw
    | cons m ms =>
      simp only
      have hmin1 : 1 ≤ minOf m ms := by
        apply le_minOf
        · have : m ∈ (runs ints).map (fun g => g.2.length) := by rw [hlen]; simp
          obtain ⟨g, hg, rfl⟩ := List.mem_map.mp this
          have := (hspec g hg).1
          cases hgl : g.2 with
          | nil => exact absurd hgl this
          | cons a as => simp
        · intro x hx
          have : x ∈ (runs ints).map (fun g => g.2.length) := by rw [hlen]; simp [hx]
          obtain ⟨g, hg, rfl⟩ := List.mem_map.mp this
          have := (hspec g hg).1
          cases hgl : g.2 with
          | nil => exact absurd hgl this
          | cons a as => simp
      have heq : (runs ints).flatMap (fun g => g.2.take (minOf m ms)) =
          (cutRuns ints (fun _ => true) (minOf m ms)).flatMap (·.2) := by
        rw [cutRuns, flatMap_filter_map]
        simp
      rw [heq]
      obtain ⟨h1, h2⟩ := cutRuns_wf ints (fun _ => true) (minOf m ms) hmin1 hs hw
      intro g hg
      rw [h1] at hg
      exact h2 g hg
  | k n =>
    have hn1 : 1 ≤ n := by
      cases n with
      | zero => exact absurd rfl hn
      | succ n => omega
    unfold globalNIntsS
    simp only
    have heq : (runs ints).flatMap (fun g => if g.2.length < n then [] else g.2.take n) =
        (cutRuns ints (fun g => !decide (g.2.length < n)) n).flatMap (·.2) := by
      rw [cutRuns, flatMap_filter_map]
      apply List.flatMap_congr
      intro g _
      by_cases hl : g.2.length < n <;> simp [hl]
    rw [heq]
    obtain ⟨h1, h2⟩ := cutRuns_wf ints (fun g => !decide (g.2.length < n)) n hn1 hs hw
    intro g hg
    rw [h1] at hg
    exact h2 g hg


theorem idxWF_filter (Q : Triple → Bool) (l : List IRow) (hs : SortedIds l) (hw : IdxWF l) :
    IdxWF (l.filter (fun row => Q row.triple)) := by
  intro g hg
  rw [runs_filter Q l hs] at hg
  exact hw g (List.mem_filter.mp hg).1

/-- what `where_fin` must return is again a well-formed Result in which every parameter row is referenced -/
theorem whereFinS_wf (r r' : Result) (n : Option NSpec) (lp : Option (List Col × List Col)) (hwf : WF r)
    (h : whereFinS r n lp = .ok r') : WF r' ∧ AllReferenced r' := by
  obtain ⟨hs, hu, hw, hrefs⟩ := hwf
  have key : ∀ ints1 : List IRow, ints1.Sublist r.ints → SortedIds ints1 → IdxWF ints1 →
      (match n with
        | none => (Except.ok (restrictTables r ints1) : Except Err Result)
        | some (.k 0) => .ok (restrictTables r ints1)
        | some n => .ok (restrictTables r (globalNIntsS ints1 n))) = .ok r' → WF r' ∧ AllReferenced r' := by
    intro ints1 hsub hs1 hw1 h
    have fin : ∀ ints2 : List IRow, ints2.Sublist r.ints → SortedIds ints2 → IdxWF ints2 →
        WF (restrictTables r ints2) ∧ AllReferenced (restrictTables r ints2) := by
      intro ints2 hsub2 hs2 hw2
      exact ⟨⟨hs2, restrict_uniqueIds r ints2 hu, hw2,
        restrict_refsPresent r ints2 (fun row hrow => hsub2.subset hrow) hrefs⟩, restrict_allReferenced r ints2⟩
    split at h
    · cases h; exact fin ints1 hsub hs1 hw1
    · cases h; exact fin ints1 hsub hs1 hw1
    · rename_i n' hn0 _
      cases h
      have hne : n' ≠ .k 0 := fun hc => by subst hc; exact hn0 rfl
      obtain ⟨h1, h2⟩ := globalNIntsS_wf ints1 n' hne hs1 hw1
      exact fin _ ((globalNIntsS_sublist _ _).trans hsub) h1 h2
  unfold whereFinS at h
  cases lp with
  | none => exact key r.ints (List.Sublist.refl _) hs hw h
  | some lp =>
    obtain ⟨lc, pc⟩ := lp
    simp only at h
    cases hix : mkIndexes r lc pc ((runs r.ints).map (·.1)) with
    | error x => rw [hix] at h; simp at h
    | ok ix =>
      rw [hix] at h
      exact key (groupPIntsS r.ints ix) List.filter_sublist (hs.filter _)
        (idxWF_filter (fun t => (keptTriplesS ix).contains t) r.ints hs hw) h


theorem mem_contains_map {α} (l : List α) (f : α → Nat) (x : Nat) : (l.map f).contains x = true ↔ ∃ a ∈ l, f a = x := by
  simp [List.contains_eq_mem]

/-- `where(...)` on a parameter table keeps a Result well-formed and fully referenced -/
theorem whereTbl_wf (r : Result) (tb : Tbl) (j : Option Nat) (vals : List Int) (hwf : WF r) (hall : AllReferenced r) :
    WF (whereTbl r tb j vals) ∧ AllReferenced (whereTbl r tb j vals) := by
  obtain ⟨hs, hu, hw, hrefs⟩ := hwf
  unfold whereTbl
  cases tb with
  | env =>
    simp only
    split
    · exact ⟨⟨hs, hu, hw, hrefs⟩, hall⟩
    · split
      · exact ⟨⟨hs, hu, hw, hrefs⟩, hall⟩
      · refine ⟨⟨hs.filter _, ⟨(List.filter_sublist.map _).nodup hu.1, (List.filter_sublist.map _).nodup hu.2.1,
          (List.filter_sublist.map _).nodup hu.2.2⟩,
          idxWF_filter (fun t => ((r.envs.filter (rowMatches j vals)).map (·.id)).contains t.1) r.ints hs hw, ?_⟩, ?_⟩
        · intro row hrow
          simp only [List.mem_filter] at hrow ⊢
          obtain ⟨hrow1, hrow2⟩ := hrow
          obtain ⟨_, ⟨pl, hpl, hl⟩, ⟨pv, hpv, hv⟩⟩ := hrefs row hrow1
          obtain ⟨pe, hpe, he⟩ := (mem_contains_map _ _ _).mp hrow2
          refine ⟨⟨pe, by simpa using hpe, he⟩, ⟨pl, ⟨hpl, ?_⟩, hl⟩, ⟨pv, ⟨hpv, ?_⟩, hv⟩⟩
          · exact (mem_contains_map _ _ _).mpr ⟨row, List.mem_filter.mpr ⟨hrow1, hrow2⟩, hl.symm⟩
          · exact (mem_contains_map _ _ _).mpr ⟨row, List.mem_filter.mpr ⟨hrow1, hrow2⟩, hv.symm⟩
        · refine ⟨?_, ?_, ?_⟩
          · intro p hp
            obtain ⟨row, hrow, he⟩ := hall.1 p (List.mem_filter.mp hp).1
            exact ⟨row, List.mem_filter.mpr ⟨hrow, (mem_contains_map _ _ _).mpr ⟨p, hp, he.symm⟩⟩, he⟩
          · intro p hp
            obtain ⟨row, hrow, h⟩ := (mem_contains_map _ _ _).mp (List.mem_filter.mp hp).2
            exact ⟨row, hrow, h⟩
          · intro p hp
            obtain ⟨row, hrow, h⟩ := (mem_contains_map _ _ _).mp (List.mem_filter.mp hp).2
            exact ⟨row, hrow, h⟩
  | lrn =>
    simp only
    split
    · exact ⟨⟨hs, hu, hw, hrefs⟩, hall⟩
    · split
      · exact ⟨⟨hs, hu, hw, hrefs⟩, hall⟩
      · refine ⟨⟨hs.filter _, ⟨(List.filter_sublist.map _).nodup hu.1, (List.filter_sublist.map _).nodup hu.2.1,
          (List.filter_sublist.map _).nodup hu.2.2⟩,
          idxWF_filter (fun t => ((r.lrns.filter (rowMatches j vals)).map (·.id)).contains t.2.1) r.ints hs hw, ?_⟩, ?_⟩
        · intro row hrow
          simp only [List.mem_filter] at hrow ⊢
          obtain ⟨hrow1, hrow2⟩ := hrow
          obtain ⟨⟨pe, hpe, he⟩, _, ⟨pv, hpv, hv⟩⟩ := hrefs row hrow1
          obtain ⟨pl, hpl, hl⟩ := (mem_contains_map _ _ _).mp hrow2
          refine ⟨⟨pe, ⟨hpe, ?_⟩, he⟩, ⟨pl, by simpa using hpl, hl⟩, ⟨pv, ⟨hpv, ?_⟩, hv⟩⟩
          · exact (mem_contains_map _ _ _).mpr ⟨row, List.mem_filter.mpr ⟨hrow1, hrow2⟩, he.symm⟩
          · exact (mem_contains_map _ _ _).mpr ⟨row, List.mem_filter.mpr ⟨hrow1, hrow2⟩, hv.symm⟩
        · refine ⟨?_, ?_, ?_⟩
          · intro p hp
            obtain ⟨row, hrow, h⟩ := (mem_contains_map _ _ _).mp (List.mem_filter.mp hp).2
            exact ⟨row, hrow, h⟩
          · intro p hp
            obtain ⟨row, hrow, he⟩ := hall.2.1 p (List.mem_filter.mp hp).1
            exact ⟨row, List.mem_filter.mpr ⟨hrow, (mem_contains_map _ _ _).mpr ⟨p, hp, he.symm⟩⟩, he⟩
          · intro p hp
            obtain ⟨row, hrow, h⟩ := (mem_contains_map _ _ _).mp (List.mem_filter.mp hp).2
            exact ⟨row, hrow, h⟩
  | val =>
    simp only
    split
    · exact ⟨⟨hs, hu, hw, hrefs⟩, hall⟩
    · split
      · exact ⟨⟨hs, hu, hw, hrefs⟩, hall⟩
      · refine ⟨⟨hs.filter _, ⟨(List.filter_sublist.map _).nodup hu.1, (List.filter_sublist.map _).nodup hu.2.1,
          (List.filter_sublist.map _).nodup hu.2.2⟩,
          idxWF_filter (fun t => ((r.evals.filter (rowMatches j vals)).map (·.id)).contains t.2.2) r.ints hs hw, ?_⟩, ?_⟩
        · intro row hrow
          simp only [List.mem_filter] at hrow ⊢
          obtain ⟨hrow1, hrow2⟩ := hrow
          obtain ⟨⟨pe, hpe, he⟩, ⟨pl, hpl, hl⟩, _⟩ := hrefs row hrow1
          obtain ⟨pv, hpv, hv⟩ := (mem_contains_map _ _ _).mp hrow2
          refine ⟨⟨pe, ⟨hpe, ?_⟩, he⟩, ⟨pl, ⟨hpl, ?_⟩, hl⟩, ⟨pv, by simpa using hpv, hv⟩⟩
          · exact (mem_contains_map _ _ _).mpr ⟨row, List.mem_filter.mpr ⟨hrow1, hrow2⟩, he.symm⟩
          · exact (mem_contains_map _ _ _).mpr ⟨row, List.mem_filter.mpr ⟨hrow1, hrow2⟩, hl.symm⟩
        · refine ⟨?_, ?_, ?_⟩
          · intro p hp
            obtain ⟨row, hrow, h⟩ := (mem_contains_map _ _ _).mp (List.mem_filter.mp hp).2
            exact ⟨row, hrow, h⟩
          · intro p hp
            obtain ⟨row, hrow, h⟩ := (mem_contains_map _ _ _).mp (List.mem_filter.mp hp).2
            exact ⟨row, hrow, h⟩
          · intro p hp
            obtain ⟨row, hrow, he⟩ := hall.2.2 p (List.mem_filter.mp hp).1
            exact ⟨row, List.mem_filter.mpr ⟨hrow, (mem_contains_map _ _ _).mpr ⟨p, hp, he.symm⟩⟩, he⟩

/-! ### `where_best` -/


/-! `where_best` -/

abbrev Cand := Key × Rat × List Triple

theorem bestLevelS_mem (cands : List Cand) (c : Cand) (h : bestLevelS cands = some c) :
    c ∈ cands ∧ ∀ c' ∈ cands, c'.2.1 ≤ c.2.1 := by
  unfold bestLevelS at h
  have := List.mem_of_getLast? h
  rw [List.mem_filter] at this
  refine ⟨this.1, ?_⟩
  have h2 := this.2
  simp only [isMaxScore, List.all_eq_true, decide_eq_true_eq] at h2
  exact h2

theorem bestLevelS_snoc (pre : List Cand) (cur c : Cand) (h : bestLevelS pre = some cur) :
    bestLevelS (pre ++ [c]) = if c.2.1 < cur.2.1 then some cur else some c := by
  obtain ⟨hmem, hmax⟩ := bestLevelS_mem pre cur h
  unfold bestLevelS at h ⊢
  rw [List.filter_append]
  by_cases hlt : c.2.1 < cur.2.1
  · rw [if_pos hlt]
    have h1 : List.filter (isMaxScore (pre ++ [c])) [c] = [] := by
      rw [List.filter_eq_nil_iff]
      intro x hx
      simp only [List.mem_singleton] at hx
      subst hx
      simp only [isMaxScore, List.all_eq_true, decide_eq_true_eq, not_forall]
      exact ⟨cur, by simp [hmem], not_le.mpr hlt⟩
    have h2 : List.filter (isMaxScore (pre ++ [c])) pre = List.filter (isMaxScore pre) pre := by
      apply List.filter_congr
      intro x hx
      simp only [isMaxScore, List.all_append, List.all_cons, List.all_nil, Bool.and_true]
      by_cases hm : (pre.all fun c' => decide (c'.2.1 ≤ x.2.1)) = true
      · have hx2 : cur.2.1 ≤ x.2.1 := by
          simp only [List.all_eq_true, decide_eq_true_eq] at hm
          exact hm cur hmem
        have : c.2.1 ≤ x.2.1 := le_of_lt (lt_of_lt_of_le hlt hx2)
        simp [hm, this]
      · simp [hm]
    rw [h1, h2, List.append_nil]
    exact h
  · rw [if_neg hlt]
    have hle : cur.2.1 ≤ c.2.1 := not_lt.mp hlt
    have h1 : List.filter (isMaxScore (pre ++ [c])) [c] = [c] := by
      rw [List.filter_eq_self]
      intro x hx
      simp only [List.mem_singleton] at hx
      subst hx
      simp only [isMaxScore, List.all_eq_true, decide_eq_true_eq, List.mem_append, List.mem_singleton]
      rintro c' (hc' | rfl)
      · exact (hmax c' hc').trans hle
      · exact le_refl _
    rw [h1, List.getLast?_append]
    simp

theorem pickBest_fst (rest : List Cand) : ∀ (pre : List Cand) (cur : Cand) (d : List Triple),
    bestLevelS pre = some cur →
    (pickBest rest (some cur.2.1) cur.2.2 d).1 = ((bestLevelS (pre ++ rest)).map (·.2.2)).getD [] := by
  induction rest with
  | nil =>
    intro pre cur d h
    simp [pickBest, h]
  | cons c rest ih =>
    intro pre cur d h
    have hs := bestLevelS_snoc pre cur c h
    have happ : pre ++ c :: rest = (pre ++ [c]) ++ rest := by simp
    simp only [pickBest]
    by_cases hlt : c.2.1 < cur.2.1
    · rw [if_pos (by simpa using hlt), happ]
      rw [if_pos hlt] at hs
      exact ih (pre ++ [c]) cur _ hs
    · rw [if_neg (by simpa using hlt), happ]
      rw [if_neg hlt] at hs
      exact ih (pre ++ [c]) c _ hs

/-- the loop of `filter_best` keeps the evaluations of the level with the best mean (the last one among equals) -/
theorem pickBest_eq_spec (cands : List Cand) :
    (pickBest cands none [] []).1 = ((bestLevelS cands).map (·.2.2)).getD [] := by
  cases cands with
  | nil => simp [pickBest, bestLevelS]
  | cons c rest =>
    simp only [pickBest]
    have h1 : bestLevelS [c] = some c := by
      simp [bestLevelS, isMaxScore]
    have := pickBest_fst rest [c] c ([] ++ []) h1
    simpa using this


theorem mkBest_spec (r : Result) (lc pc fc : List Col) (n : Option Nat) : ∀ (gs : List (Triple × List IRow)) (es : List BEnt),
    mkBest r lc pc fc n gs = .ok es → es.map (·.t) = gs.map (·.1) := by
  intro gs
  induction gs with
  | nil => intro es h; simp only [mkBest] at h; cases h; rfl
  | cons g gs ih =>
    intro es h
    simp only [mkBest] at h
    cases h1 : lookup r.envs g.1.1 with
    | error x => simp [h1] at h
    | ok e =>
      cases h2 : lookup r.lrns g.1.2.1 with
      | error x => simp [h1, h2] at h
      | ok l =>
        cases h3 : lookup r.evals g.1.2.2 with
        | error x => simp [h1, h2, h3] at h
        | ok v =>
          simp only [h1, h2, h3] at h
          cases h4 : keyOf e l v g.1 pc with
          | error x => simp [h4] at h
          | ok pk =>
            cases h5 : keyOf e l v g.1 lc with
            | error x => simp [h4, h5] at h
            | ok lk =>
              cases h6 : keyOf e l v g.1 fc with
              | error x => simp [h4, h5, h6] at h
              | ok fk =>
                simp only [h4, h5, h6] at h
                split at h
                · simp at h
                · cases h7 : mkBest r lc pc fc n gs with
                  | error x => simp [h7] at h
                  | ok rest =>
                    simp only [h7, Except.ok.injEq] at h
                    subst h
                    simp [ih rest h7]

theorem levelScores_memW (lv : List BEnt → List Key) (cell : List BEnt) (c : Cand) (h : c ∈ levelScoresW lv cell) :
    c.2.2 = (cell.filter (fun e => e.f = c.1)).map (·.t) := by
  simp only [levelScoresW, List.mem_map] at h
  obtain ⟨f, _, rfl⟩ := h
  rfl

/-- an evaluation survives the loop iff its `full_l` level is the best level of its cell -/
theorem kept_iffW (lv : List BEnt → List Key) (es : List BEnt) (hnd : (es.map (·.t)).Nodup) (e : BEnt) (he : e ∈ es) :
    (pickBest (levelScoresW lv (cellOfEnt es e)) none [] []).1.contains e.t =
      decide ((bestLevelS (levelScoresW lv (cellOfEnt es e))).map (·.1) = some e.f) := by
  have hinj : ∀ a ∈ es, ∀ b ∈ es, a.t = b.t → a = b := List.inj_on_of_nodup_map hnd
  have hecell : e ∈ cellOfEnt es e := by simp [cellOfEnt, he]
  rw [pickBest_eq_spec]
  cases hb : bestLevelS (levelScoresW lv (cellOfEnt es e)) with
  | none => simp
  | some c =>
    have hc := (bestLevelS_mem _ c hb).1
    have hids := levelScores_memW lv _ c hc
    simp only [Option.map_some, Option.getD_some, Option.some.injEq]
    rw [hids, List.contains_eq_mem]
    congr 1
    apply propext
    constructor
    · intro hm
      obtain ⟨e', he', het⟩ := List.mem_map.mp hm
      rw [List.mem_filter] at he'
      have he'es : e' ∈ es := (List.mem_filter.mp he'.1).1
      have := hinj e' he'es e he het
      subst this
      have := he'.2
      simp only [decide_eq_true_eq] at this
      exact this.symm
    · intro hf
      exact List.mem_map.mpr ⟨e, List.mem_filter.mpr ⟨hecell, by simpa using hf.symm⟩, rfl⟩

theorem keptByBest_eqW (lv : List BEnt → List Key) (es : List BEnt) (hnd : (es.map (·.t)).Nodup) : keptByBestW lv es = keptByBestSW lv es := by
  unfold keptByBestW keptByBestSW
  congr 1
  apply List.filter_congr
  intro e he
  rw [kept_iffW lv es hnd e he]

theorem droppedByBest_eqW (lv : List BEnt → List Key) (es : List BEnt) (hnd : (es.map (·.t)).Nodup) :
    droppedByBestW lv es = (es.filter (fun e => !decide ((bestLevelS (levelScoresW lv (cellOfEnt es e))).map (·.1) = some e.f))).map (·.t) := by
  unfold droppedByBestW
  congr 1
  apply List.filter_congr
  intro e he
  rw [kept_iffW lv es hnd e he]

/-- `where_best` is its specification on well-formed Results -/
theorem filterBest_eq_specW (lv : List BEnt → List Key) (r : Result) (lc pc : List Col) (n : Option Nat) (fl fp : List Col) (hwf : WF r) :
    filterBestW lv r lc pc n fl fp = whereBestSW lv r lc pc n fl fp := by
  unfold filterBestW whereBestSW
  rw [filterFin_eq_spec r none (some (fl, fp)) hwf.1 hwf.2.1 hwf.2.2.1 hwf.2.2.2 (by intro h; cases h)]
  cases hfin : whereFinS r none (some (fl, fp)) with
  | error x => rfl
  | ok fin =>
    simp only
    obtain ⟨⟨hs, hu, hw, hrefs⟩, hall⟩ := whereFinS_wf r fin none (some (fl, fp)) hwf hfin
    cases hes : mkBest fin lc pc fl n (runs fin.ints) with
    | error x => rfl
    | ok es =>
      simp only
      have hmap := mkBest_spec fin lc pc fl n _ es hes
      have hnd : (es.map (·.t)).Nodup := by rw [hmap]; exact runs_nodup _ hs
      have hinj : ∀ a ∈ es, ∀ b ∈ es, a.t = b.t → a = b := List.inj_on_of_nodup_map hnd
      have hrowes : ∀ row ∈ fin.ints, ∃ e ∈ es, e.t = row.triple := by
        intro row hrow
        have := row_triple_mem_runs _ row hrow
        rw [← hmap] at this
        obtain ⟨e, he, het⟩ := List.mem_map.mp this
        exact ⟨e, he, het⟩
      have hpres : ∀ e ∈ es, ∃ row ∈ fin.ints, row.triple = e.t := by
        intro e he
        have : e.t ∈ (runs fin.ints).map (·.1) := by rw [← hmap]; exact List.mem_map.mpr ⟨e, he, rfl⟩
        obtain ⟨g, hg, hgt⟩ := List.mem_map.mp this
        obtain ⟨row, hrow, hrt⟩ := mem_runs_triple _ g hg
        exact ⟨row, hrow, by rw [hrt, hgt]⟩
      have hrm := removeRows_eq fin.ints (droppedByBestW lv es) 0 hs
        (by rw [droppedByBest_eqW lv es hnd]; exact (List.filter_sublist.map _).nodup hnd)
        (by
          intro t ht
          rw [droppedByBest_eqW lv es hnd] at ht
          obtain ⟨e, he, rfl⟩ := List.mem_map.mp ht
          obtain ⟨row, hrow, hrt⟩ := hpres e (List.mem_filter.mp he).1
          exact List.mem_map.mpr ⟨row, hrow, hrt⟩) (Or.inl rfl)
      rw [hrm]
      simp only
      have hfilt : fin.ints.filter (fun row => !(droppedByBestW lv es).contains row.triple) =
          fin.ints.filter (fun row => (keptByBestSW lv es).contains row.triple) := by
        apply List.filter_congr
        intro row hrow
        obtain ⟨e, he, het⟩ := hrowes row hrow
        rw [← het, droppedByBest_eqW lv es hnd]
        unfold keptByBestSW
        by_cases hb : (bestLevelS (levelScoresW lv (cellOfEnt es e))).map (·.1) = some e.f
        · have h1 : e.t ∈ (es.filter (fun e => decide ((bestLevelS (levelScoresW lv (cellOfEnt es e))).map (·.1) = some e.f))).map (·.t) :=
            List.mem_map.mpr ⟨e, List.mem_filter.mpr ⟨he, by simpa using hb⟩, rfl⟩
          have h2 : e.t ∉ (es.filter (fun e => !decide ((bestLevelS (levelScoresW lv (cellOfEnt es e))).map (·.1) = some e.f))).map (·.t) := by
            intro hc
            obtain ⟨e', he', het'⟩ := List.mem_map.mp hc
            rw [List.mem_filter] at he'
            have := hinj e' he'.1 e he het'
            subst this
            simp [hb] at he'
          simp [List.contains_eq_mem, h1, h2]
        · have h1 : e.t ∉ (es.filter (fun e => decide ((bestLevelS (levelScoresW lv (cellOfEnt es e))).map (·.1) = some e.f))).map (·.t) := by
            intro hc
            obtain ⟨e', he', het'⟩ := List.mem_map.mp hc
            rw [List.mem_filter] at he'
            have := hinj e' he'.1 e he het'
            subst this
            simp [hb] at he'
          have h2 : e.t ∈ (es.filter (fun e => !decide ((bestLevelS (levelScoresW lv (cellOfEnt es e))).map (·.1) = some e.f))).map (·.t) :=
            List.mem_map.mpr ⟨e, List.mem_filter.mpr ⟨he, by simpa using hb⟩, rfl⟩
          simp [List.contains_eq_mem, h1, h2]
      rw [hfilt, keptByBest_eqW lv es hnd]
      have hT : ∀ t, t ∈ keptByBestSW lv es ↔ ∃ row ∈ fin.ints.filter (fun row => (keptByBestSW lv es).contains row.triple), row.triple = t := by
        intro t
        constructor
        · intro ht
          have ht' := ht
          unfold keptByBestSW at ht'
          obtain ⟨e, he, rfl⟩ := List.mem_map.mp ht'
          obtain ⟨row, hrow, hrt⟩ := hpres e (List.mem_filter.mp he).1
          exact ⟨row, List.mem_filter.mpr ⟨hrow, by rw [hrt]; simpa using ht⟩, hrt⟩
        · rintro ⟨row, hrow, rfl⟩
          simpa using (List.mem_filter.mp hrow).2
      have hsubT : ∀ t ∈ keptByBestSW lv es, ∃ row ∈ fin.ints, row.triple = t := by
        intro t ht
        unfold keptByBestSW at ht
        obtain ⟨e, he, rfl⟩ := List.mem_map.mp ht
        exact hpres e (List.mem_filter.mp he).1
      rw [filterTable_kept fin.envs hu.1 _ (·.1) _ (fun t ht => by
            obtain ⟨row, hrow, rfl⟩ := hsubT t ht
            obtain ⟨p, hp, hpid⟩ := (hrefs row hrow).1; exact ⟨p, hp, hpid⟩) hT,
        filterTable_kept fin.lrns hu.2.1 _ (·.2.1) _ (fun t ht => by
            obtain ⟨row, hrow, rfl⟩ := hsubT t ht
            obtain ⟨p, hp, hpid⟩ := (hrefs row hrow).2.1; exact ⟨p, hp, hpid⟩) hT,
        filterTable_kept fin.evals hu.2.2 _ (·.2.2) _ (fun t ht => by
            obtain ⟨row, hrow, rfl⟩ := hsubT t ht
            obtain ⟨p, hp, hpid⟩ := (hrefs row hrow).2.2; exact ⟨p, hp, hpid⟩) hT]
      rfl

/-- what `where_best` must return is again well-formed and fully referenced -/
theorem whereBestS_wfW (lv : List BEnt → List Key) (r r' : Result) (lc pc : List Col) (n : Option Nat) (fl fp : List Col) (hwf : WF r)
    (h : whereBestSW lv r lc pc n fl fp = .ok r') : WF r' ∧ AllReferenced r' := by
  unfold whereBestSW at h
  cases hfin : whereFinS r none (some (fl, fp)) with
  | error x => rw [hfin] at h; simp at h
  | ok fin =>
    rw [hfin] at h
    simp only at h
    obtain ⟨⟨hs, hu, hw, hrefs⟩, _⟩ := whereFinS_wf r fin none (some (fl, fp)) hwf hfin
    cases hes : mkBest fin lc pc fl n (runs fin.ints) with
    | error x => rw [hes] at h; simp at h
    | ok es =>
      rw [hes] at h
      simp only [Except.ok.injEq] at h
      subst h
      exact ⟨⟨hs.filter _, restrict_uniqueIds fin _ hu,
        idxWF_filter (fun t => (keptByBestSW lv es).contains t) fin.ints hs hw,
        restrict_refsPresent fin _ (fun row hrow => (List.mem_filter.mp hrow).1) hrefs⟩, restrict_allReferenced fin _⟩

/-- the level `where_best` keeps in a cell has the best mean of the cell -/
theorem bestLevelS_is_max (cands : List Cand) (c : Cand) (h : bestLevelS cands = some c) :
    c ∈ cands ∧ ∀ c' ∈ cands, c'.2.1 ≤ c.2.1 := bestLevelS_mem cands c h

theorem bestLevelS_some (cands : List Cand) (h : cands ≠ []) : ∃ c, bestLevelS cands = some c := by
  -- a maximal element exists
  have : ∃ c ∈ cands, isMaxScore cands c = true := by
    induction cands with
    | nil => exact absurd rfl h
    | cons a as ih =>
      by_cases has : as = []
      · subst has; exact ⟨a, by simp, by simp [isMaxScore]⟩
      · obtain ⟨m, hm, hmax⟩ := ih has
        simp only [isMaxScore, List.all_eq_true, decide_eq_true_eq] at hmax
        by_cases hlt : m.2.1 ≤ a.2.1
        · refine ⟨a, by simp, ?_⟩
          simp only [isMaxScore, List.all_eq_true, decide_eq_true_eq, List.mem_cons]
          rintro c' (rfl | hc')
          · exact le_refl _
          · exact (hmax c' hc').trans hlt
        · refine ⟨m, by simp [hm], ?_⟩
          simp only [isMaxScore, List.all_eq_true, decide_eq_true_eq, List.mem_cons]
          rintro c' (rfl | hc')
          · exact le_of_lt (not_le.mp hlt)
          · exact hmax c' hc'
  obtain ⟨c, hc, hmax⟩ := this
  unfold bestLevelS
  have hne : cands.filter (isMaxScore cands) ≠ [] := by
    intro hc2
    have : c ∈ cands.filter (isMaxScore cands) := List.mem_filter.mpr ⟨hc, hmax⟩
    rw [hc2] at this
    simp at this
  exact ⟨_, List.getLast?_eq_getLast hne⟩



theorem filterBest_eq_spec (r : Result) (lc pc : List Col) (n : Option Nat) (fl fp : List Col) (hwf : WF r) :
    filterBest r lc pc n fl fp = whereBestS r lc pc n fl fp := filterBest_eq_specW sortLv r lc pc n fl fp hwf

theorem whereBestS_wf (r r' : Result) (lc pc : List Col) (n : Option Nat) (fl fp : List Col) (hwf : WF r)
    (h : whereBestS r lc pc n fl fp = .ok r') : WF r' ∧ AllReferenced r' := whereBestS_wfW sortLv r r' lc pc n fl fp hwf h



theorem isMaxScore_perm (cands cands' : List Cand) (h : cands.Perm cands') (c : Cand) :
    isMaxScore cands c = isMaxScore cands' c := by
  simp only [isMaxScore]
  have : ∀ (b : Bool), (cands.all (fun c' => decide (c'.2.1 ≤ c.2.1)) = b) ↔ (cands'.all (fun c' => decide (c'.2.1 ≤ c.2.1)) = b) := by
    intro b
    cases b
    · simp only [List.all_eq_false]
      constructor
      · rintro ⟨x, hx, hp⟩; exact ⟨x, h.mem_iff.mp hx, hp⟩
      · rintro ⟨x, hx, hp⟩; exact ⟨x, h.mem_iff.mpr hx, hp⟩
    · simp only [List.all_eq_true]
      constructor
      · intro hh x hx; exact hh x (h.mem_iff.mpr hx)
      · intro hh x hx; exact hh x (h.mem_iff.mp hx)
  cases hb : cands.all (fun c' => decide (c'.2.1 ≤ c.2.1))
  · exact ((this false).mp hb).symm
  · exact ((this true).mp hb).symm

/-- with a single best level the walking order of the levels does not matter -/
theorem bestLevelS_perm (cands cands' : List Cand) (h : cands.Perm cands') (hu : UniqueMax cands) :
    (bestLevelS cands).map (·.1) = (bestLevelS cands').map (·.1) := by
  cases h1 : bestLevelS cands with
  | none =>
    cases h2 : bestLevelS cands' with
    | none => rfl
    | some c' =>
      exfalso
      have hne : cands ≠ [] := by
        intro hc; subst hc
        have := (bestLevelS_mem cands' c' h2).1
        rw [h.symm.mem_iff] at this; simp at this
      obtain ⟨c, hc⟩ := bestLevelS_some cands hne
      rw [hc] at h1; cases h1
  | some c =>
    have hc := bestLevelS_mem cands c h1
    have hne : cands' ≠ [] := by
      intro hcc; subst hcc
      have := h.mem_iff.mp hc.1; simp at this
    obtain ⟨c', h2⟩ := bestLevelS_some cands' hne
    rw [h2]
    have hc' := bestLevelS_mem cands' c' h2
    simp only [Option.map_some, Option.some.injEq]
    apply hu c hc.1 c' (h.mem_iff.mpr hc'.1)
    · simp only [isMaxScore, List.all_eq_true, decide_eq_true_eq]; exact hc.2
    · rw [isMaxScore_perm cands cands' h]
      simp only [isMaxScore, List.all_eq_true, decide_eq_true_eq]; exact hc'.2

theorem levelScoresW_perm (lv1 lv2 : List BEnt → List Key) (cell : List BEnt) (h : (lv1 cell).Perm (lv2 cell)) :
    (levelScoresW lv1 cell).Perm (levelScoresW lv2 cell) := by
  unfold levelScoresW
  exact h.map _

/-- the set `where_best` keeps does not depend on the order in which the levels are walked (sorted or, for
values of mixed type, table order) as long as every cell has a single level of best mean -/
theorem keptByBestSW_order_independent (lv1 lv2 : List BEnt → List Key) (es : List BEnt)
    (hperm : ∀ e ∈ es, (lv1 (cellOfEnt es e)).Perm (lv2 (cellOfEnt es e)))
    (hu : ∀ e ∈ es, UniqueMax (levelScoresW lv1 (cellOfEnt es e))) :
    keptByBestSW lv1 es = keptByBestSW lv2 es := by
  unfold keptByBestSW
  congr 1
  apply List.filter_congr
  intro e he
  rw [bestLevelS_perm _ _ (levelScoresW_perm lv1 lv2 _ (hperm e he)) (hu e he)]


/-- along any chain of `where_fin`, `where` and `where_best` calls the (repaired) code follows the specification -/
theorem runChain_eq_spec (ss : List Step) : ∀ (r : Result), WF r → AllReferenced r →
    runChain true ss r = runChainS ss r := by
  induction ss with
  | nil => intro r _ _; rfl
  | cons st ss ih =>
    intro r hwf hall
    cases st with
    | fin n lp =>
      simp only [runChain, runChainS]
      rw [filterFin_eq_spec r n lp hwf.1 hwf.2.1 hwf.2.2.1 hwf.2.2.2 (fun _ => hall)]
      cases h : whereFinS r n lp with
      | error e => rfl
      | ok r' =>
        simp only
        obtain ⟨h1, h2⟩ := whereFinS_wf r r' n lp hwf h
        exact ih r' h1 h2
    | wher tb j vals =>
      simp only [runChain, runChainS]
      obtain ⟨h1, h2⟩ := whereTbl_wf r tb j vals hwf hall
      exact ih _ h1 h2
    | best lc pc n fl fp =>
      simp only [runChain, runChainS]
      rw [filterBest_eq_spec r lc pc n fl fp hwf]
      cases h : whereBestS r lc pc n fl fp with
      | error e => rfl
      | ok r' =>
        simp only
        obtain ⟨h1, h2⟩ := whereBestS_wf r r' lc pc n fl fp hwf h
        exact ih r' h1 h2



/-! ## Part 7: the length step before the pairing step (C18-F3) -/


/-- the repaired order of `_filter_fin` meets the documented (joint) contract -/
theorem filterFinD_eq_spec (r : Result) (n : Option NSpec) (lp : Option (List Col × List Col))
    (hwf : WF r) (hall : AllReferenced r) : filterFinD r n lp = whereFinJ r n lp := by
  have base : filterFin true r n lp = whereFinS r n lp :=
    filterFin_eq_spec r n lp hwf.1 hwf.2.1 hwf.2.2.1 hwf.2.2.2 (fun _ => hall)
  unfold filterFinD whereFinJ
  match n with
  | none => exact base
  | some .min => exact base
  | some (.k 0) => exact base
  | some (.k (m + 1)) =>
    simp only
    have h1 : globalN r (.k (m + 1)) = whereFinS r (some (.k (m + 1))) none := by
      have := filterFin_eq_spec r (some (.k (m + 1))) none hwf.1 hwf.2.1 hwf.2.2.1 hwf.2.2.2 (fun _ => hall)
      simpa [filterFin] using this
    rw [h1]
    cases h : whereFinS r (some (.k (m + 1))) none with
    | error x => rfl
    | ok r1 =>
      simp only
      obtain ⟨hwf1, hall1⟩ := whereFinS_wf r r1 _ none hwf h
      have := filterFin_eq_spec r1 none lp hwf1.1 hwf1.2.1 hwf1.2.2.1 hwf1.2.2.2 (fun _ => hall1)
      cases lp with
      | none => simpa [filterFin] using this
      | some lp =>
        obtain ⟨lc, pc⟩ := lp
        simp only [filterFin] at this
        cases hg : groupP true r1 lc pc with
        | error x => rw [hg] at this; simp only at this ⊢; rw [hg]; exact this
        | ok r2 => rw [hg] at this; simp only at this ⊢; rw [hg]; exact this


/-! ## Part 8: `raw_contrast` -/


/-! `raw_contrast` -/

theorem sideVals_eq (r : Result) (sel : List (Tbl × Option Nat × Int)) (pc : List Col) (x : XSpec) (span : Option Nat) :
    sideVals allEntries r sel pc x span = sideVals allEntriesS r sel pc x span := by
  unfold sideVals
  rw [allEntries_eq (applySel r sel) pc x span _ (fun g hg => (runs_spec _ g hg).1)]

theorem sideValsAll_eq (r : Result) (pc : List Col) (x : XSpec) (span : Option Nat)
    (sels : List (List (Tbl × Option Nat × Int))) :
    sideValsAll allEntries r pc x span sels = sideValsAll allEntriesS r pc x span sels := by
  induction sels with
  | nil => rfl
  | cons sel sels ih => simp only [sideValsAll, sideVals_eq, ih]

/-- `raw_contrast` pairs up exactly the directly computed averages -/
theorem rawContrast_eq_spec (r : Result) (sels1 sels2 : List (List (Tbl × Option Nat × Int))) (pc : List Col) (x : XSpec)
    (span : Option Nat) (strX : Bool) :
    rawContrast r sels1 sels2 pc x span strX = rawContrastS r sels1 sels2 pc x span strX := by
  unfold rawContrast rawContrastS rawContrastWith
  rw [sideValsAll_eq, sideValsAll_eq]

theorem insertS_not_mem (D : List ((Key × Key) × Rat)) (k : Key × Key) (v : Rat) (h : k ∉ D.map (·.1)) :
    insertS D k v = D ++ [(k, v)] := by
  induction D with
  | nil => rfl
  | cons a as ih =>
    obtain ⟨k', v'⟩ := a
    simp only [List.map_cons, List.mem_cons, not_or] at h
    simp only [insertS]
    rw [if_neg (fun hc => h.1 hc.symm), ih h.2]
    rfl

theorem lastWins_nodup (es : List ((Key × Key) × Rat)) : ∀ (D : List ((Key × Key) × Rat)),
    ((D ++ es).map (·.1)).Nodup → lastWins D es = D ++ es := by
  induction es with
  | nil => intro D _; simp [lastWins]
  | cons e es ih =>
    intro D h
    obtain ⟨k, v⟩ := e
    simp only [lastWins]
    have hk : k ∉ D.map (·.1) := by
      simp only [List.map_append, List.map_cons] at h
      have := (List.nodup_append.mp h).2.2
      intro hc
      exact this k hc k (by simp) rfl
    rw [insertS_not_mem D k v hk, ih (D ++ [(k, v)]) (by simpa using h)]
    simp


/-! ## Part 9: dyadic inputs -/


/-! dyadic inputs: every sum the implementation forms is a bounded integer multiple of `2^-k` -/

/-- `q = m / 2^k` for an integer `m` with `|m| ≤ bound` -/
def DyadicBdd (k : Nat) (bound : Nat) (q : Rat) : Prop := ∃ m : Int, q = (m : Rat) / 2 ^ k ∧ m.natAbs ≤ bound

theorem DyadicBdd.zero (k : Nat) : DyadicBdd k 0 0 := ⟨0, by simp, by simp⟩

theorem DyadicBdd.add {k a b : Nat} {x y : Rat} (hx : DyadicBdd k a x) (hy : DyadicBdd k b y) :
    DyadicBdd k (a + b) (x + y) := by
  obtain ⟨m, rfl, hm⟩ := hx
  obtain ⟨n, rfl, hn⟩ := hy
  refine ⟨m + n, by push_cast; ring, ?_⟩
  have := Int.natAbs_add_le m n
  omega

theorem sumL_dyadic (k B : Nat) (l : List Rat) (h : ∀ x ∈ l, DyadicBdd k B x) : DyadicBdd k (l.length * B) (sumL l) := by
  induction l with
  | nil => simpa [sumL] using DyadicBdd.zero k
  | cons x xs ih =>
    have h1 := h x (by simp)
    have h2 := ih (fun y hy => h y (by simp [hy]))
    have := h1.add h2
    simp only [sumL, List.length_cons]
    have e : B + xs.length * B = (xs.length + 1) * B := by ring
    rw [e] at this
    exact this

theorem mem_window (span : Option Nat) (i : Nat) (xs : List Rat) : ∀ x ∈ window span i xs, x ∈ xs := by
  intro x hx
  cases span with
  | none => exact List.mem_of_mem_take hx
  | some s => exact List.mem_of_mem_take (List.mem_of_mem_drop hx)

theorem length_window_le (span : Option Nat) (i : Nat) (xs : List Rat) : (window span i xs).length ≤ xs.length := by
  cases span with
  | none => simp [window]
  | some s => simp [window]

/-- every window sum (= every partial sum the accumulate/tee implementation of `moving_average` forms, by
`sumL_take_subShift`) of values `m/2^k`, `|m| ≤ B`, is again `m'/2^k` with `|m'| ≤ len·B` -/
theorem window_sum_dyadic' (k B : Nat) (vs : List Rat) (h : ∀ x ∈ vs, DyadicBdd k B x) (span : Option Nat) (i : Nat) :
    DyadicBdd k (vs.length * B) (sumL (window span i vs)) := by
  obtain ⟨m, hm, hb⟩ := sumL_dyadic k B (window span i vs) (fun x hx => h x (mem_window span i vs x hx))
  refine ⟨m, hm, hb.trans ?_⟩
  exact Nat.mul_le_mul_right B (length_window_le span i vs)


/-! ## Part 10: the result of `where_fin` is completely paired -/


theorem lookup_filter (rows : List PRow) (P : PRow → Bool) (id : Nat) (p : PRow)
    (h : lookup rows id = .ok p) (hp : P p = true) : lookup (rows.filter P) id = .ok p := by
  induction rows with
  | nil => simp [lookup] at h
  | cons r rs ih =>
    simp only [lookup] at h
    by_cases hid : r.id = id
    · rw [if_pos hid] at h
      cases h
      rw [List.filter_cons, if_pos hp]
      simp [lookup, hid]
    · rw [if_neg hid] at h
      rw [List.filter_cons]
      split
      · simp only [lookup, if_neg hid]; exact ih h
      · exact ih h

/-- the index entries of a sub-result: restricting the parameter tables to rows that pass `P*` and the evaluations to
those that pass `q` restricts the index list, provided the rows the kept evaluations refer to pass -/
theorem mkIndexes_filter (r r' : Result) (lc pc : List Col) (q : Triple → Bool)
    (he : ∀ id p, lookup r.envs id = .ok p → (∃ t, q t = true ∧ t.1 = id) → lookup r'.envs id = .ok p)
    (hl : ∀ id p, lookup r.lrns id = .ok p → (∃ t, q t = true ∧ t.2.1 = id) → lookup r'.lrns id = .ok p)
    (hv : ∀ id p, lookup r.evals id = .ok p → (∃ t, q t = true ∧ t.2.2 = id) → lookup r'.evals id = .ok p) :
    ∀ (ts : List Triple) (ix : List Idx), mkIndexes r lc pc ts = .ok ix →
      mkIndexes r' lc pc (ts.filter q) = .ok (ix.filter (fun i => q i.t)) := by
  intro ts
  induction ts with
  | nil => intro ix h; simp only [mkIndexes] at h; cases h; simp [mkIndexes]
  | cons t ts ih =>
    intro ix h
    simp only [mkIndexes] at h
    cases h1 : lookup r.envs t.1 with
    | error x => simp [h1] at h
    | ok e =>
      cases h2 : lookup r.lrns t.2.1 with
      | error x => simp [h1, h2] at h
      | ok l =>
        cases h3 : lookup r.evals t.2.2 with
        | error x => simp [h1, h2, h3] at h
        | ok v =>
          simp only [h1, h2, h3] at h
          cases h4 : keyOf e l v t pc with
          | error x => simp [h4] at h
          | ok pk =>
            cases h5 : keyOf e l v t lc with
            | error x => simp [h4, h5] at h
            | ok lk =>
              simp only [h4, h5] at h
              cases h6 : mkIndexes r lc pc ts with
              | error x => simp [h6] at h
              | ok rest =>
                simp only [h6, Except.ok.injEq] at h
                subst h
                have := ih rest h6
                rw [List.filter_cons]
                by_cases hq : q t = true
                · rw [if_pos hq]
                  simp only [mkIndexes, he t.1 e h1 ⟨t, hq, rfl⟩, hl t.2.1 l h2 ⟨t, hq, rfl⟩, hv t.2.2 v h3 ⟨t, hq, rfl⟩, h4, h5, this]
                  simp [List.filter_cons, hq]
                · rw [if_neg hq, this]
                  simp [List.filter_cons, hq]

theorem completeGroup_prop (ix : List Idx) (k : Key) : completeGroup ix k = true ↔
    ∀ lv ∈ levelsOf ix, ((ix.filter (fun j => decide (j.p = k))).filter (fun j => decide (j.l = lv))).length = 1 := by
  simp [completeGroup]

/-- within the kept evaluations every pairing group is still whole and complete -/
theorem complete_after_filter (ix : List Idx) :
    ((ix.filter (fun i => completeGroup ix i.p)).all
      (fun i => completeGroup (ix.filter (fun i => completeGroup ix i.p)) i.p)) = true := by
  rw [List.all_eq_true]
  intro i hi
  rw [List.mem_filter] at hi
  obtain ⟨hi1, hc⟩ := hi
  have hgroup : (ix.filter (fun j => completeGroup ix j.p)).filter (fun j => decide (j.p = i.p)) =
      ix.filter (fun j => decide (j.p = i.p)) := by
    rw [List.filter_filter]
    apply List.filter_congr
    intro j _
    by_cases hj : j.p = i.p
    · simp [hj, hc]
    · simp [hj]
  have hc' := (completeGroup_prop ix i.p).mp hc
  rw [completeGroup_prop]
  intro lv hlv
  rw [hgroup]
  apply hc' lv
  simp only [levelsOf, mem_dedup, List.mem_map] at hlv ⊢
  obtain ⟨j, hj, hjl⟩ := hlv
  exact ⟨j, (List.mem_filter.mp hj).1, hjl⟩


/-- after the pairing step of `where_fin` every pairing group of the result holds exactly one evaluation for every
level of the result — for every well-formed Result, any `l`/`p` columns, duplicate cells and several evaluators included -/
theorem whereFinS_pairingComplete (r r' : Result) (lc pc : List Col) (hs : SortedIds r.ints)
    (h : whereFinS r none (some (lc, pc)) = .ok r') : pairingComplete r' lc pc = .ok true := by
  unfold whereFinS at h
  simp only at h
  cases hix : mkIndexes r lc pc ((runs r.ints).map (·.1)) with
  | error x => rw [hix] at h; simp at h
  | ok ix =>
    rw [hix] at h
    simp only [Except.ok.injEq] at h
    subst h
    obtain ⟨hmap, _⟩ := mkIndexes_spec r lc pc _ ix hix
    have hnd_t : (ix.map (·.t)).Nodup := by rw [hmap]; exact runs_nodup _ hs
    have hinj : ∀ i ∈ ix, ∀ j ∈ ix, i.t = j.t → i = j := List.inj_on_of_nodup_map hnd_t
    have hQ : ∀ i ∈ ix, ((keptTriplesS ix).contains i.t = true ↔ completeGroup ix i.p = true) := by
      intro i hi
      rw [List.contains_eq_mem, decide_eq_true_eq]
      simp only [keptTriplesS, List.mem_map, List.mem_filter]
      constructor
      · rintro ⟨j, ⟨hj, hc⟩, hjt⟩
        rw [← hinj j hj i hi hjt]; exact hc
      · intro hc; exact ⟨i, ⟨hi, hc⟩, rfl⟩
    have hrow : ∀ t, (keptTriplesS ix).contains t = true → ∃ row ∈ groupPIntsS r.ints ix, row.triple = t := by
      intro t ht
      have ht' : t ∈ keptTriplesS ix := by simpa using ht
      simp only [keptTriplesS, List.mem_map, List.mem_filter] at ht'
      obtain ⟨i, ⟨hi, _⟩, rfl⟩ := ht'
      have : i.t ∈ (runs r.ints).map (·.1) := by rw [← hmap]; exact List.mem_map.mpr ⟨i, hi, rfl⟩
      obtain ⟨g, hg, hgt⟩ := List.mem_map.mp this
      obtain ⟨row, hrow, hrt⟩ := mem_runs_triple _ g hg
      refine ⟨row, ?_, by rw [hrt, hgt]⟩
      unfold groupPIntsS
      exact List.mem_filter.mpr ⟨hrow, by rw [hrt, hgt]; exact ht⟩
    have hruns : (runs (restrictTables r (groupPIntsS r.ints ix)).ints).map (·.1) =
        ((runs r.ints).map (·.1)).filter (fun t => (keptTriplesS ix).contains t) := by
      simp only [restrictTables, groupPIntsS]
      rw [runs_filter (fun t => (keptTriplesS ix).contains t) r.ints hs, List.filter_map]
      rfl
    unfold pairingComplete
    rw [hruns, mkIndexes_filter r (restrictTables r (groupPIntsS r.ints ix)) lc pc (fun t => (keptTriplesS ix).contains t) ?_ ?_ ?_ _ ix hix]
    · simp only
      have hf : ix.filter (fun i => (keptTriplesS ix).contains i.t) = ix.filter (fun i => completeGroup ix i.p) := by
        apply List.filter_congr
        intro i hi
        cases h1 : (keptTriplesS ix).contains i.t <;> cases h2 : completeGroup ix i.p <;> simp_all
      rw [hf, complete_after_filter]
    · intro id p hl ⟨t, hq, hid⟩
      obtain ⟨row, hrow, hrt⟩ := hrow t hq
      apply lookup_filter _ _ _ _ hl
      simp only [List.contains_eq_mem, decide_eq_true_eq]
      exact List.mem_map.mpr ⟨row, hrow, by rw [(lookup_ok hl).2, ← hid, ← hrt]; rfl⟩
    · intro id p hl ⟨t, hq, hid⟩
      obtain ⟨row, hrow, hrt⟩ := hrow t hq
      apply lookup_filter _ _ _ _ hl
      simp only [List.contains_eq_mem, decide_eq_true_eq]
      exact List.mem_map.mpr ⟨row, hrow, by rw [(lookup_ok hl).2, ← hid, ← hrt]; rfl⟩
    · intro id p hl ⟨t, hq, hid⟩
      obtain ⟨row, hrow, hrt⟩ := hrow t hq
      apply lookup_filter _ _ _ _ hl
      simp only [List.contains_eq_mem, decide_eq_true_eq]
      exact List.mem_map.mpr ⟨row, hrow, by rw [(lookup_ok hl).2, ← hid, ← hrt]; rfl⟩


theorem runs_globalN_k (ints : List IRow) (n : Nat) (hn : 1 ≤ n) (hs : SortedIds ints) (hw : IdxWF ints) :
    ∀ g ∈ runs (globalNIntsS ints (.k n)), g.2.length = n := by
  have heq : globalNIntsS ints (.k n) = (cutRuns ints (fun g => !decide (g.2.length < n)) n).flatMap (·.2) := by
    unfold globalNIntsS
    simp only
    rw [cutRuns, flatMap_filter_map]
    apply List.flatMap_congr
    intro g _
    by_cases hl : g.2.length < n <;> simp [hl]
  rw [heq, (cutRuns_wf ints _ n hn hs hw).1]
  intro g hg
  simp only [cutRuns, List.mem_map, List.mem_filter] at hg
  obtain ⟨g0, ⟨_, hl⟩, rfl⟩ := hg
  simp only [Bool.not_eq_true', decide_eq_false_iff_not, not_lt] at hl
  simp only [List.length_take]
  omega

/-- the documented contract of `where_fin(n=k,l,p)`, as `whereFinJ` states it, indeed yields "a Result where an `l`
exists for every `p` and all `p` have `n` interactions": every pairing group of the result has exactly one evaluation per
level, and every evaluation has exactly `k` interactions -/
theorem whereFinJ_complete (r r' : Result) (m : Nat) (lc pc : List Col) (hwf : WF r)
    (h : whereFinJ r (some (.k (m + 1))) (some (lc, pc)) = .ok r') :
    pairingComplete r' lc pc = .ok true ∧ ∀ g ∈ runs r'.ints, g.2.length = m + 1 := by
  unfold whereFinJ at h
  simp only at h
  cases h1 : whereFinS r (some (.k (m + 1))) none with
  | error x => rw [h1] at h; simp at h
  | ok r1 =>
    rw [h1] at h
    simp only at h
    obtain ⟨hwf1, _⟩ := whereFinS_wf r r1 _ none hwf h1
    refine ⟨whereFinS_pairingComplete r1 r' lc pc hwf1.1 h, ?_⟩
    have hr1 : r1.ints = globalNIntsS r.ints (.k (m + 1)) := by
      unfold whereFinS at h1
      simp only [Except.ok.injEq] at h1
      rw [← h1]
      rfl
    have hlen1 : ∀ g ∈ runs r1.ints, g.2.length = m + 1 := by
      rw [hr1]
      exact runs_globalN_k r.ints (m + 1) (by omega) hwf.1 hwf.2.2.1
    unfold whereFinS at h
    simp only at h
    cases hix : mkIndexes r1 lc pc ((runs r1.ints).map (·.1)) with
    | error x => rw [hix] at h; simp at h
    | ok ix =>
      rw [hix] at h
      simp only [Except.ok.injEq] at h
      subst h
      intro g hg
      simp only [restrictTables, groupPIntsS] at hg
      rw [runs_filter (fun t => (keptTriplesS ix).contains t) r1.ints hwf1.1] at hg
      exact hlen1 g (List.mem_filter.mp hg).1


/-! ## primed statements referenced by `Props/C18.lean` -/

theorem moving_average_eq_spec' (vs : List Rat) (span : Option Nat) (w : Weights) (out : List Rat)
    (h : movingAverageS vs span w = .ok out) : movingAverage vs span w = .ok out := by
  cases w with
  | none => rw [movingAverage_none_eq]; exact h
  | exp => rw [movingAverage_exp_eq]; exact h
  | ws wl =>
    by_cases h1 : span = some 1
    · subst h1; exact movingAverage_ws_span1 vs wl out h
    · rw [movingAverage_ws_eq vs wl span h1]; exact h

theorem moving_average_eq_spec_full' (vs : List Rat) (span : Option Nat) (w : Weights)
    (h : span ≠ some 1 ∨ w = .none ∨ w = .exp) : movingAverage vs span w = movingAverageS vs span w := by
  cases w with
  | none => exact movingAverage_none_eq vs span
  | exp => exact movingAverage_exp_eq vs span
  | ws wl =>
    rcases h with h | h | h
    · exact movingAverage_ws_eq vs wl span h
    · cases h
    · cases h

theorem remove_eq_filter' (rows : List IRow) (ids : List Triple) (cut : Nat) (hs : SortedIds rows) (hnd : ids.Nodup)
    (hpres : ∀ t ∈ ids, t ∈ rows.map IRow.triple)
    (hcut : cut = 0 ∨ ∀ t ∈ ids, (rows.map IRow.triple).count t ≤ cut) :
    ∃ sel, remove (rows.map IRow.triple) ids cut = .ok sel ∧
      sel = (List.range rows.length).filter (fun i => (rows[i]?).any (fun r => !(ids.contains r.triple))) ∧
      selectRows rows sel = rows.filter (fun r => !(ids.contains r.triple)) := by
  refine ⟨_, remove_eq _ ids cut (sortedT_of_sortedIds _ hs) hnd hpres hcut, ?_, ?_⟩
  · rw [List.length_map, keepIdx_rows]
  · rw [List.length_map, keepIdx_rows]
    exact selectRows_filter rows _

theorem global_n_spec' (r : Result) (n : NSpec) (hn : n ≠ .k 0) (hs : SortedIds r.ints) (hu : UniqueIds r)
    (hw : IdxWF r.ints) (hrefs : RefsPresent r) (hall : AllReferenced r) :
    globalN r n = .ok (restrictTables r (globalNIntsS r.ints n)) := by
  cases n with
  | min => exact globalN_min_eq r hw hall
  | k n =>
    cases n with
    | zero => exact absurd rfl hn
    | succ n => exact globalN_k_eq r (n + 1) (by omega) hs hu hw hrefs hall

theorem filter_fin_consistent' (r r' : Result) (n : Option NSpec) (lp : Option (List Col × List Col))
    (hs : SortedIds r.ints) (hu : UniqueIds r) (hw : IdxWF r.ints) (hrefs : RefsPresent r)
    (hall : lp = none → AllReferenced r) (h : filterFin true r n lp = .ok r') : Consistent r' := by
  rw [filterFin_eq_spec r n lp hs hu hw hrefs hall] at h
  obtain ⟨ints', hsub, rfl⟩ := whereFinS_form r r' n lp h
  exact ⟨restrict_refsPresent r ints' (fun row hrow => hsub.subset hrow) hrefs, restrict_allReferenced r ints'⟩

theorem filter_fin_sublist' (r r' : Result) (n : Option NSpec) (lp : Option (List Col × List Col))
    (hs : SortedIds r.ints) (hu : UniqueIds r) (hw : IdxWF r.ints) (hrefs : RefsPresent r)
    (hall : lp = none → AllReferenced r) (h : filterFin true r n lp = .ok r') :
    r'.ints.Sublist r.ints ∧ r'.envs.Sublist r.envs ∧ r'.lrns.Sublist r.lrns ∧ r'.evals.Sublist r.evals := by
  rw [filterFin_eq_spec r n lp hs hu hw hrefs hall] at h
  obtain ⟨ints', hsub, rfl⟩ := whereFinS_form r r' n lp h
  exact ⟨hsub, List.filter_sublist, List.filter_sublist, List.filter_sublist⟩


/-! ## Part 10: `plot_contrast` (Phase 4) -/

theorem groupPairs_mem (ps : List ((Key × Key) × (Rat × Rat))) (e : (Key × Key) × List (Rat × Rat))
    (he : e ∈ groupPairs ps) : e.1 ∈ ps.map (·.1) ∧ e.2 = (ps.filter (fun q => q.1 = e.1)).map (·.2) := by
  unfold groupPairs at he
  obtain ⟨k, hk, rfl⟩ := List.mem_map.mp he
  exact ⟨(mem_dedup k _).mp hk, rfl⟩

/-- every x of the raw table has at least one pair, and its pairs are exactly the formed pairs with that x -/
theorem groupPairs_spec (ps : List ((Key × Key) × (Rat × Rat))) (e : (Key × Key) × List (Rat × Rat))
    (he : e ∈ groupPairs ps) : e.2 ≠ [] ∧ ∀ q, q ∈ e.2 ↔ (e.1, q) ∈ ps := by
  obtain ⟨h1, h2⟩ := groupPairs_mem ps e he
  constructor
  · obtain ⟨a, ha, hk⟩ := List.mem_map.mp h1
    rw [h2]
    intro hc
    have : a.2 ∈ (ps.filter (fun q => q.1 = e.1)).map (·.2) :=
      List.mem_map.mpr ⟨a, List.mem_filter.mpr ⟨ha, by simpa using hk⟩, rfl⟩
    rw [hc] at this
    exact absurd this (by simp)
  · intro q
    rw [h2]
    constructor
    · intro hq
      obtain ⟨a, ha, rfl⟩ := List.mem_map.mp hq
      obtain ⟨ha1, ha2⟩ := List.mem_filter.mp ha
      have : a.1 = e.1 := by simpa using ha2
      rw [← this]
      exact ha1
    · intro hq
      exact List.mem_map.mpr ⟨(e.1, q), List.mem_filter.mpr ⟨hq, by simp⟩, rfl⟩

theorem groupPairs_keys_nodup (ps : List ((Key × Key) × (Rat × Rat))) : ((groupPairs ps).map (·.1)).Nodup := by
  unfold groupPairs
  rw [List.map_map]
  have : ((fun (e : (Key × Key) × List (Rat × Rat)) => e.1) ∘ fun k => (k, (ps.filter (fun e => e.1 = k)).map (·.2))) = id := by
    funext k; rfl
  rw [this, List.map_id]
  exact nodup_dedup _

theorem mem_zipWith_pair {α β γ} (f : α → β → γ) (a : List α) (b : List β) (e : γ) (h : e ∈ List.zipWith f a b) :
    ∃ u ∈ a, ∃ w ∈ b, e = f u w := by
  induction a generalizing b with
  | nil => simp at h
  | cons x xs ih =>
    cases b with
    | nil => simp at h
    | cons y ys =>
      simp only [List.zipWith_cons_cons, List.mem_cons] at h
      rcases h with rfl | h
      · exact ⟨x, by simp, y, by simp, rfl⟩
      · obtain ⟨u, hu, w, hw, he⟩ := ih ys h
        exact ⟨u, by simp [hu], w, by simp [hw], he⟩

theorem pairUp_paired (isIndex : Bool) (k : Key) (a b : List ((Key × Key) × Rat))
    (ha : ∀ u ∈ a, u.1.1 = k) (hb : ∀ w ∈ b, w.1.1 = k) (e : (Key × Key) × (Rat × Rat))
    (he : e ∈ pairUp isIndex a b) :
    ∃ u ∈ a, ∃ w ∈ b, u.1.1 = w.1.1 ∧ e.2 = (u.2, w.2) ∧
      e.1 = (if isIndex then (u.1.2, u.1.2) else (u.1.2, w.1.2)) := by
  unfold pairUp at he
  cases isIndex with
  | true =>
    simp only [if_true] at he
    obtain ⟨u, hu, w, hw, rfl⟩ := mem_zipWith_pair _ a b e he
    exact ⟨u, hu, w, hw, by rw [ha u hu, hb w hw], rfl, by simp⟩
  | false =>
    simp only [Bool.false_eq_true, if_false] at he
    obtain ⟨u, hu, he⟩ := List.mem_flatMap.mp he
    obtain ⟨w, hw, rfl⟩ := List.mem_map.mp he
    exact ⟨u, hu, w, hw, by rw [ha u hu, hb w hw], rfl, by simp⟩

/-- only correctly paired values are contrasted: every pair comes from one entry of each side with the same pairing value -/
theorem contrastPairs_paired (isIndex : Bool) (L1 L2 : List ((Key × Key) × Rat)) (e : (Key × Key) × (Rat × Rat))
    (he : e ∈ contrastPairs isIndex L1 L2) : PairedFrom isIndex L1 L2 e := by
  unfold contrastPairs at he
  obtain ⟨k, _, he⟩ := List.mem_flatMap.mp he
  obtain ⟨u, hu, w, hw, h⟩ := pairUp_paired isIndex k _ _
    (fun u hu => by simpa using (List.mem_filter.mp hu).2) (fun w hw => by simpa using (List.mem_filter.mp hw).2) e he
  exact ⟨u, (List.mem_filter.mp hu).1, w, (List.mem_filter.mp hw).1, h⟩

/-- for a parameter x (`product`): conversely every two entries of the two sides with the same pairing value are contrasted -/
theorem contrastPairs_complete (L1 L2 : List ((Key × Key) × Rat)) (u w : (Key × Key) × Rat)
    (hu : u ∈ L1) (hw : w ∈ L2) (h : u.1.1 = w.1.1) :
    ((u.1.2, w.1.2), (u.2, w.2)) ∈ contrastPairs false L1 L2 := by
  unfold contrastPairs
  refine List.mem_flatMap.mpr ⟨u.1.1, ?_, ?_⟩
  · refine List.mem_filter.mpr ⟨(mem_dedup _ _).mpr (List.mem_map.mpr ⟨u, hu, rfl⟩), ?_⟩
    simp only [List.contains_iff_mem]
    rw [h]; exact List.mem_map.mpr ⟨w, hw, rfl⟩
  · unfold pairUp
    simp only [Bool.false_eq_true, if_false]
    exact List.mem_flatMap.mpr ⟨u, List.mem_filter.mpr ⟨hu, by simp⟩,
      List.mem_map.mpr ⟨w, List.mem_filter.mpr ⟨hw, by simp [h]⟩, rfl⟩⟩

/-- the table of `raw_contrast`, when it exists, is `groupPairs` of the pairs formed from the two sides' values -/
theorem rawContrastWith_ok (vals) (r : Result) (sels1 sels2 : List (List (Tbl × Option Nat × Int))) (pc : List Col)
    (x : XSpec) (span : Option Nat) (strX : Bool) (raw : List ((Key × Key) × List (Rat × Rat)))
    (h : rawContrastWith vals r sels1 sels2 pc x span strX = .ok raw) :
    ∃ L1 L2, sideValsAll vals r pc x span sels1 = .ok L1 ∧ sideValsAll vals r pc x span sels2 = .ok L2 ∧
      raw = groupPairs (contrastPairs (x = .index) L1 L2) := by
  unfold rawContrastWith at h
  split at h
  · exact absurd h (by simp)
  · split at h
    · exact absurd h (by simp)
    · split at h
      · rename_i L1 L2 h1 h2
        refine ⟨L1, L2, h1, h2, ?_⟩
        dsimp only at h
        split at h
        · exact absurd h (by simp)
        · split at h
          · exact absurd h (by simp)
          · simp only [Except.ok.injEq] at h
            rw [← h]; rfl
      · exact absurd h (by simp)
      · exact absurd h (by simp)

theorem meanL_ok (zs : List Rat) (h : zs ≠ []) : meanL zs = .ok (sumL zs / (zs.length : Rat)) := by
  unfold meanL divE
  have : (zs.length : Rat) ≠ 0 := by
    have : zs.length ≠ 0 := by simpa using h
    exact_mod_cast this
  rw [if_neg this]

/-- without an interval object every plotted y is the arithmetic mean of the contrasts of the pairs of its x -/
theorem contrastPointsFrom_none (mode : CMode) (every : Nat) (raw : List ((Key × Key) × List (Rat × Rat)))
    (h : ∀ e ∈ raw, e.2 ≠ []) (i : Nat) :
    contrastPointsFrom mode none every i raw = .ok (raw.map (meanPoint mode)) := by
  induction raw generalizing i with
  | nil => rfl
  | cons e rest ih =>
    obtain ⟨x, ps⟩ := e
    have hps : ps ≠ [] := h (x, ps) (by simp)
    have hm : (ps.map (contrastOf mode)) ≠ [] := by simpa using hps
    simp only [contrastPointsFrom, calcCi, meanL_ok _ hm, ih (fun e he => h e (by simp [he])) (i + 1)]
    simp [meanPoint]

/-- an entry without pairs makes the mean raise (`StatisticsError`) — it cannot occur in a `raw_contrast` table -/
theorem contrastPointsFrom_empty (mode : CMode) (every i : Nat) (x : Key × Key) (rest : List ((Key × Key) × List (Rat × Rat))) :
    contrastPointsFrom mode none every i ((x, []) :: rest) = .error .zeroDivision := by
  simp [contrastPointsFrom, calcCi, meanL, divE]

theorem mem_insertX (e q) (l : List ((Key × Key) × List (Rat × Rat))) : q ∈ insertX e l ↔ q = e ∨ q ∈ l := by
  induction l with
  | nil => simp [insertX]
  | cons a as ih =>
    simp only [insertX]
    split
    · simp only [List.mem_cons, ih]; tauto
    · simp only [List.mem_cons]

theorem mem_sortX (q) (l : List ((Key × Key) × List (Rat × Rat))) : q ∈ sortX l ↔ q ∈ l := by
  induction l with
  | nil => simp [sortX]
  | cons a as ih => simp only [sortX, mem_insertX, ih, List.mem_cons]

theorem mem_orderRaw (xord) (raw : List ((Key × Key) × List (Rat × Rat))) (q) (h : q ∈ orderRaw xord raw) : q ∈ raw := by
  unfold orderRaw at h
  cases xord with
  | none => exact (mem_sortX q raw).mp h
  | some o =>
    simp only at h
    obtain ⟨k, _, hk⟩ := List.mem_filterMap.mp h
    exact List.mem_of_find?_eq_some hk

theorem mem_insertY (p q : CPoint) (l : List CPoint) : q ∈ insertY p l ↔ q = p ∨ q ∈ l := by
  induction l with
  | nil => simp [insertY]
  | cons a as ih =>
    simp only [insertY]
    split
    · simp only [List.mem_cons]
    · simp only [List.mem_cons, ih]; tauto

theorem mem_sortY (q : CPoint) (l : List CPoint) : q ∈ sortY l ↔ q ∈ l := by
  induction l with
  | nil => simp [sortY]
  | cons a as ih => simp only [sortY, mem_insertY, ih, List.mem_cons]

theorem insertY_sorted (p : CPoint) (l : List CPoint) (h : l.Pairwise (fun a b => a.y ≤ b.y)) :
    (insertY p l).Pairwise (fun a b => a.y ≤ b.y) := by
  induction l with
  | nil => simp [insertY]
  | cons a as ih =>
    simp only [insertY]
    split
    · rename_i hpa
      refine List.Pairwise.cons ?_ h
      intro b hb
      rcases List.mem_cons.mp hb with rfl | hb
      · exact hpa
      · exact le_trans hpa ((List.pairwise_cons.mp h).1 b hb)
    · rename_i hpa
      have hap : a.y ≤ p.y := le_of_lt (not_le.mp hpa)
      refine List.Pairwise.cons ?_ (ih (List.pairwise_cons.mp h).2)
      intro b hb
      rcases (mem_insertY p b as).mp hb with rfl | hb
      · exact hap
      · exact (List.pairwise_cons.mp h).1 b hb

theorem sortY_sorted (l : List CPoint) : (sortY l).Pairwise (fun a b => a.y ≤ b.y) := by
  induction l with
  | nil => simp [sortY]
  | cons a as ih => exact insertY_sorted a _ ih

/-- the win / tie / loss lines partition the points: every point lies in exactly one line, decided by where its
interval `[y-lo, y+hi]` lies relative to the boundary (given `lo, hi ≥ 0`), and each line is ascending in y -/
theorem splitLines_spec (b : Rat) (pts : List CPoint) (p : CPoint) :
    splitLines b pts = [sortY (pts.filter (fun p => p.y + p.hi < b)),
                        sortY (pts.filter (fun p => p.y - p.lo ≤ b ∧ b ≤ p.y + p.hi)),
                        sortY (pts.filter (fun p => b < p.y - p.lo))] ∧
    (p ∈ pts → 0 ≤ p.lo → 0 ≤ p.hi →
      ((p.y + p.hi < b ∧ p ∈ (splitLines b pts)[0]! ∧ p ∉ (splitLines b pts)[1]! ∧ p ∉ (splitLines b pts)[2]!) ∨
       (p.y - p.lo ≤ b ∧ b ≤ p.y + p.hi ∧ p ∉ (splitLines b pts)[0]! ∧ p ∈ (splitLines b pts)[1]! ∧ p ∉ (splitLines b pts)[2]!) ∨
       (b < p.y - p.lo ∧ p ∉ (splitLines b pts)[0]! ∧ p ∉ (splitLines b pts)[1]! ∧ p ∈ (splitLines b pts)[2]!))) ∧
    (∀ line ∈ splitLines b pts, line.Pairwise (fun a c => a.y ≤ c.y) ∧ ∀ q ∈ line, q ∈ pts) := by
  refine ⟨rfl, ?_, ?_⟩
  · intro hp hlo hhi
    simp only [splitLines, List.getElem!_cons_zero, List.getElem!_cons_succ, mem_sortY, List.mem_filter, decide_eq_true_eq, hp, true_and]
    by_cases h1 : p.y + p.hi < b
    · left; refine ⟨h1, h1, ?_, ?_⟩
      · intro hc; linarith [hc.2]
      · intro hc; linarith
    · by_cases h3 : b < p.y - p.lo
      · right; right; refine ⟨h3, h1, ?_, h3⟩
        intro hc; linarith [hc.1]
      · right; left
        exact ⟨not_lt.mp h3, not_lt.mp h1, h1, ⟨not_lt.mp h3, not_lt.mp h1⟩, h3⟩
  · intro line hl
    simp only [splitLines, List.mem_cons, List.not_mem_nil, or_false] at hl
    rcases hl with rfl | rfl | rfl <;>
      exact ⟨sortY_sorted _, fun q hq => (List.mem_filter.mp ((mem_sortY q _).mp hq)).1⟩

/-- `plot_contrast` over the code's values = over directly computed averages -/
theorem plotContrast_eq_spec (r : Result) (sels1 sels2) (pc : List Col) (x : XSpec) (span : Option Nat) (strX : Bool)
    (xord) (mode : CMode) (ci : Option CiFn) (errevery : Option Nat) (kind : XKind) :
    plotContrast r sels1 sels2 pc x span strX xord mode ci errevery kind =
    plotContrastS r sels1 sels2 pc x span strX xord mode ci errevery kind := by
  unfold plotContrast plotContrastS plotContrastWith
  have := rawContrast_eq_spec r sels1 sels2 pc x span strX
  unfold rawContrast rawContrastS at this
  rw [this]

/-- the main statement: without an interval object the plotted points are, for exactly the x labels of the
`raw_contrast` table, the arithmetic means of the contrasts of correctly paired, directly computed averages -/
theorem plotContrast_points (r : Result) (sels1 sels2 : List (List (Tbl × Option Nat × Int))) (pc : List Col) (x : XSpec)
    (span : Option Nat) (strX : Bool) (xord : Option (List (Key × Key))) (mode : CMode) (errevery : Option Nat) (kind : XKind)
    (lines : List (List CPoint))
    (h : plotContrast r sels1 sels2 pc x span strX xord mode none errevery kind = .ok lines) :
    ∃ (L1 L2 : List ((Key × Key) × Rat)) (tbl : List ((Key × Key) × List (Rat × Rat))), sideValsAll allEntriesS r pc x span sels1 = .ok L1 ∧ sideValsAll allEntriesS r pc x span sels2 = .ok L2 ∧
      (∀ e ∈ tbl, e.2 ≠ [] ∧ ∀ q, q ∈ e.2 ↔ (e.1, q) ∈ contrastPairs (x = .index) L1 L2) ∧
      (∀ e ∈ contrastPairs (x = .index) L1 L2, PairedFrom (x = .index) L1 L2 e) ∧
      lines = contrastLines kind (boundaryOf mode) (tbl.map (meanPoint mode)) := by
  rw [plotContrast_eq_spec] at h
  unfold plotContrastS plotContrastWith at h
  split at h
  · exact absurd h (by simp)
  · rename_i raw hraw
    obtain ⟨L1, L2, h1, h2, rfl⟩ := rawContrastWith_ok _ r sels1 sels2 pc x span strX raw hraw
    have hne : ∀ e ∈ orderRaw xord (groupPairs (contrastPairs (x = .index) L1 L2)), e.2 ≠ [] :=
      fun e he => (groupPairs_spec _ e (mem_orderRaw _ _ e he)).1
    simp only [contrastPointsFrom_none mode _ _ hne 0] at h
    simp only [Except.ok.injEq] at h
    exact ⟨L1, L2, _, h1, h2, fun e he => groupPairs_spec _ e (mem_orderRaw _ _ e he),
      fun e he => contrastPairs_paired _ L1 L2 e he, h.symm⟩


/-! ## Part 11: binary64 exactness bound (named law + kernel-checked Float witnesses) -/

theorem float_exact_boundary' :
    ((9007199254740991 : Float) + 1 == 9007199254740992) = true ∧
    ((9007199254740992 : Float) + 1 == 9007199254740992) = true ∧
    ((9007199254740992 : Float) - 1 == 9007199254740991) = true ∧
    ((0.25 : Float) * 9007199254740991 + 0.25 == 0.25 * 9007199254740992) = true := by decide +kernel

theorem window_sum_fits_binary64' (k B : Nat) (vs : List Rat) (h : ∀ x ∈ vs, DyadicBdd k B x)
    (hb : vs.length * B ≤ 2 ^ 53) (span : Option Nat) (i : Nat) :
    ∃ m : Int, sumL (window span i vs) = (m : Rat) / 2 ^ k ∧ m.natAbs ≤ 2 ^ 53 := by
  obtain ⟨m, hm, hb'⟩ := window_sum_dyadic' k B vs h span i
  exact ⟨m, hm, le_trans hb' hb⟩


/-! ## Part 12: translator obligations — the literals extracted from the current `coba/results/core.py` equal the model's -/

theorem plot_modes_match' : Coba.Generated.C18.modes = [modeName .diff, modeName .prob] := by decide

theorem plot_boundaries_match' :
    Coba.Generated.C18.boundaries.map (fun b => (b.1 : Rat) / (b.2 : Rat)) = [boundaryOf .diff, boundaryOf .prob] := by
  simp [Coba.Generated.C18.boundaries, boundaryOf]

theorem plot_err_names_match' : Coba.Generated.C18.errNames = errNamesM ∧ Coba.Generated.C18.xSpecial = xSpecialM ∧
    Coba.Generated.C18.splitOps = splitOpsM ∧ Coba.Generated.C18.skipOffset = skipOffsetM := by decide

theorem plot_contraster_match' (t : Rat × Rat) :
    contrastOf .diff t = pairProj Coba.Generated.C18.diffIdx.1 t - pairProj Coba.Generated.C18.diffIdx.2 t ∧
    contrastOf .prob t = (if cmpOp Coba.Generated.C18.probOp
        (pairProj Coba.Generated.C18.diffIdx.1 t - pairProj Coba.Generated.C18.diffIdx.2 t)
        ((Coba.Generated.C18.probThreshold.1 : Rat) / (Coba.Generated.C18.probThreshold.2 : Rat)) = true then 1 else 0) := by
  simp [contrastOf, pairProj, cmpOp, Coba.Generated.C18.diffIdx, Coba.Generated.C18.probOp, Coba.Generated.C18.probThreshold]

theorem plot_split_match' (b : Rat) (pts : List CPoint) :
    splitLines b pts =
      [ sortY (pts.filter (fun p => cmpOp (Coba.Generated.C18.splitOps.getD 0 "") (p.y + p.hi) b)),
        sortY (pts.filter (fun p => cmpOp (Coba.Generated.C18.splitOps.getD 1 "") (p.y - p.lo) b &&
                                    cmpOp (Coba.Generated.C18.splitOps.getD 2 "") b (p.y + p.hi))),
        sortY (pts.filter (fun p => cmpOp (Coba.Generated.C18.splitOps.getD 3 "") b (p.y - p.lo))) ] := by
  simp [splitLines, cmpOp, Coba.Generated.C18.splitOps]

theorem plot_errevery_match' (n : Nat) :
    errEveryOf true none n = max (n * Coba.Generated.C18.errEveryFactor.1 / Coba.Generated.C18.errEveryFactor.2) 1 := by
  simp [errEveryOf, Coba.Generated.C18.errEveryFactor]


/-! ## Part 13: Python's `sorted()` on parameter values -/

/-- `a < b` evaluates without `TypeError` exactly when both values are of one class other than `None` -/
theorem pyLt_ok_iff (a b : PyVal) : (∃ x, pyLt a b = .ok x) ↔ (pyClass a = pyClass b ∧ pyClass a ≠ .none) := by
  cases a <;> cases b <;> simp [pyLt, pyClass]

theorem pyLt_error (a b : PyVal) (e : Err) (h : pyLt a b = .error e) : e = .typeError := by
  cases a <;> cases b <;> simp [pyLt] at h <;> exact h.symm

def OneClass (c : PyClass) (l : List PyVal) : Prop := ∀ v ∈ l, pyClass v = c

theorem pyLt_ok_of_class {c : PyClass} (hc : c ≠ .none) {a b : PyVal} (ha : pyClass a = c) (hb : pyClass b = c) :
    ∃ x, pyLt a b = .ok x := (pyLt_ok_iff a b).mpr ⟨by rw [ha, hb], by rw [ha]; exact hc⟩

theorem pyBsearch_ok {c : PyClass} (hc : c ≠ .none) (v : PyVal) (hv : pyClass v = c) (pre : List PyVal) (hp : OneClass c pre) :
    ∀ (f l r : Nat), l ≤ pre.length → r ≤ pre.length → ∃ k, pyBsearch v pre f l r = .ok k ∧ k ≤ pre.length := by
  intro f
  induction f with
  | zero => intro l r hl hr; exact ⟨l, rfl, hl⟩
  | succ f ih =>
    intro l r hl hr
    simp only [pyBsearch]
    split
    · rename_i hlr
      have hlt : l + (r - l) / 2 < pre.length := by omega
      rw [List.getElem?_eq_getElem hlt]
      simp only
      obtain ⟨x, hx⟩ := pyLt_ok_of_class hc hv (hp _ (List.getElem_mem hlt))
      rw [hx]
      cases x
      · exact ih _ _ (by omega) hr
      · exact ih _ _ hl (by omega)
    · exact ⟨l, rfl, hl⟩

theorem oneClass_insert {c : PyClass} {pre : List PyVal} {v : PyVal} (hp : OneClass c pre) (hv : pyClass v = c) (k : Nat) :
    OneClass c (pre.take k ++ v :: pre.drop k) := by
  intro w hw
  simp only [List.mem_append, List.mem_cons] at hw
  rcases hw with hw | rfl | hw
  · exact hp w (List.mem_of_mem_take hw)
  · exact hv
  · exact hp w (List.mem_of_mem_drop hw)

theorem pyBinSort_ok {c : PyClass} (hc : c ≠ .none) (rest : List PyVal) : ∀ (pre : List PyVal), OneClass c pre → OneClass c rest →
    ∃ out, pyBinSort pre rest = .ok out ∧ OneClass c out ∧ out.length = pre.length + rest.length := by
  induction rest with
  | nil => intro pre hp _; exact ⟨pre, rfl, hp, by simp⟩
  | cons v rest ih =>
    intro pre hp hr
    have hv : pyClass v = c := hr v (by simp)
    obtain ⟨k, hk, hkl⟩ := pyBsearch_ok hc v hv pre hp pre.length 0 pre.length (by omega) (le_refl _)
    simp only [pyBinSort, hk]
    obtain ⟨out, ho, hoc, hol⟩ := ih _ (oneClass_insert hp hv k) (fun w hw => hr w (by simp [hw]))
    refine ⟨out, ho, hoc, ?_⟩
    rw [hol]
    simp only [List.length_append, List.length_take, List.length_cons, List.length_drop]
    omega

theorem pyRunAsc_ok {c : PyClass} (hc : c ≠ .none) (vs : List PyVal) : ∀ (last : PyVal), pyClass last = c → OneClass c vs →
    ∃ r rest, pyRunAsc last vs = .ok (r, rest) ∧ OneClass c r ∧ OneClass c rest ∧ r.length + rest.length = vs.length := by
  induction vs with
  | nil => intro last _ _; exact ⟨[], [], rfl, by simp [OneClass], by simp [OneClass], rfl⟩
  | cons v vs ih =>
    intro last hl hvs
    have hv : pyClass v = c := hvs v (by simp)
    obtain ⟨x, hx⟩ := pyLt_ok_of_class hc hv hl
    simp only [pyRunAsc, hx]
    cases x
    · obtain ⟨r, rest, h, h1, h2, h3⟩ := ih v hv (fun w hw => hvs w (by simp [hw]))
      simp only [h]
      refine ⟨v :: r, rest, rfl, ?_, h2, by simp; omega⟩
      intro w hw
      rcases List.mem_cons.mp hw with rfl | hw
      · exact hv
      · exact h1 w hw
    · exact ⟨[], v :: vs, rfl, by simp [OneClass], hvs, by simp⟩

theorem pyRunDesc_ok {c : PyClass} (hc : c ≠ .none) (vs : List PyVal) : ∀ (last : PyVal), pyClass last = c → OneClass c vs →
    ∃ r rest, pyRunDesc last vs = .ok (r, rest) ∧ OneClass c r ∧ OneClass c rest ∧ r.length + rest.length = vs.length := by
  induction vs with
  | nil => intro last _ _; exact ⟨[], [], rfl, by simp [OneClass], by simp [OneClass], rfl⟩
  | cons v vs ih =>
    intro last hl hvs
    have hv : pyClass v = c := hvs v (by simp)
    obtain ⟨x, hx⟩ := pyLt_ok_of_class hc hv hl
    simp only [pyRunDesc, hx]
    cases x
    · exact ⟨[], v :: vs, rfl, by simp [OneClass], hvs, by simp⟩
    · obtain ⟨r, rest, h, h1, h2, h3⟩ := ih v hv (fun w hw => hvs w (by simp [hw]))
      simp only [h]
      refine ⟨v :: r, rest, rfl, ?_, h2, by simp; omega⟩
      intro w hw
      rcases List.mem_cons.mp hw with rfl | hw
      · exact hv
      · exact h1 w hw

/-- values of one class other than `None`: `sorted` does not raise and returns as many values, all of that class -/
theorem pySorted_ok_of_oneClass {c : PyClass} (hc : c ≠ .none) (l : List PyVal) (h : OneClass c l) :
    ∃ out, pySorted l = .ok out ∧ OneClass c out ∧ out.length = l.length := by
  match l, h with
  | [], _ => exact ⟨[], rfl, by simp [OneClass], rfl⟩
  | [a], h => exact ⟨[a], rfl, h, rfl⟩
  | a :: b :: rest, h =>
    have ha : pyClass a = c := h a (by simp)
    have hb : pyClass b = c := h b (by simp)
    have hr : OneClass c rest := fun w hw => h w (by simp [hw])
    obtain ⟨x, hx⟩ := pyLt_ok_of_class hc hb ha
    simp only [pySorted, hx]
    cases x
    · obtain ⟨r, rest', h0, h1, h2, h3⟩ := pyRunAsc_ok hc rest b hb hr
      simp only [h0]
      have hpre : OneClass c (a :: b :: r) := by
        intro w hw
        simp only [List.mem_cons] at hw
        rcases hw with rfl | rfl | hw
        · exact ha
        · exact hb
        · exact h1 w hw
      obtain ⟨out, ho, hoc, hol⟩ := pyBinSort_ok hc rest' _ hpre h2
      exact ⟨out, ho, hoc, by rw [hol]; simp; omega⟩
    · obtain ⟨r, rest', h0, h1, h2, h3⟩ := pyRunDesc_ok hc rest b hb hr
      simp only [h0]
      have hpre : OneClass c (a :: b :: r).reverse := by
        intro w hw
        simp only [List.mem_reverse, List.mem_cons] at hw
        rcases hw with rfl | rfl | hw
        · exact ha
        · exact hb
        · exact h1 w hw
      obtain ⟨out, ho, hoc, hol⟩ := pyBinSort_ok hc rest' _ hpre h2
      exact ⟨out, ho, hoc, by rw [hol]; simp; omega⟩

/-! converse: a successful `sorted` has compared every value with another one -/

theorem pyBsearch_first {v : PyVal} {pre : List PyVal} (hne : pre ≠ []) {k : Nat}
    (h : pyBsearch v pre pre.length 0 pre.length = .ok k) : ∃ q ∈ pre, ∃ x, pyLt v q = .ok x := by
  have hpos : 0 < pre.length := List.length_pos_iff.mpr hne
  obtain ⟨f, hf⟩ : ∃ f, pre.length = f + 1 := ⟨pre.length - 1, by omega⟩
  have hlt : 0 + (pre.length - 0) / 2 < pre.length := by omega
  rw [show pyBsearch v pre pre.length 0 pre.length = pyBsearch v pre (f + 1) 0 pre.length by rw [← hf]] at h
  simp only [pyBsearch, hpos, if_true, List.getElem?_eq_getElem hlt] at h
  refine ⟨pre[0 + (pre.length - 0) / 2], List.getElem_mem hlt, ?_⟩
  cases hq : pyLt v pre[0 + (pre.length - 0) / 2] with
  | error e => rw [hq] at h; exact absurd h (by simp)
  | ok x => exact ⟨x, rfl⟩

theorem pyBinSort_class {c : PyClass} (rest : List PyVal) : ∀ (pre : List PyVal), pre ≠ [] → OneClass c pre →
    (∃ out, pyBinSort pre rest = .ok out) → OneClass c rest ∧ (rest ≠ [] → c ≠ .none) := by
  induction rest with
  | nil => intro pre _ _ _; exact ⟨by simp [OneClass], fun h => absurd rfl h⟩
  | cons v rest ih =>
    intro pre hne hp ⟨out, ho⟩
    simp only [pyBinSort] at ho
    cases hk : pyBsearch v pre pre.length 0 pre.length with
    | error e => rw [hk] at ho; exact absurd ho (by simp)
    | ok k =>
      rw [hk] at ho
      obtain ⟨q, hq, x, hx⟩ := pyBsearch_first hne hk
      obtain ⟨h1, h2⟩ := (pyLt_ok_iff v q).mp ⟨x, hx⟩
      have hv : pyClass v = c := by rw [h1]; exact hp q hq
      have := ih _ (by simp) (oneClass_insert hp hv k) ⟨out, ho⟩
      refine ⟨?_, fun _ => by rw [← hv]; exact h2⟩
      intro w hw
      rcases List.mem_cons.mp hw with rfl | hw
      · exact hv
      · exact this.1 w hw

theorem pyRunAsc_class (vs : List PyVal) : ∀ (last : PyVal) (r rest : List PyVal), pyRunAsc last vs = .ok (r, rest) →
    OneClass (pyClass last) r ∧ vs = r ++ rest := by
  induction vs with
  | nil => intro last r rest h; simp [pyRunAsc] at h; obtain ⟨rfl, rfl⟩ := h; simp [OneClass]
  | cons v vs ih =>
    intro last r rest h
    simp only [pyRunAsc] at h
    cases hx : pyLt v last with
    | error e => rw [hx] at h; exact absurd h (by simp)
    | ok x =>
      rw [hx] at h
      have hc := ((pyLt_ok_iff v last).mp ⟨x, hx⟩).1
      cases x
      · simp only at h
        cases hr : pyRunAsc v vs with
        | error e => rw [hr] at h; exact absurd h (by simp)
        | ok p =>
          obtain ⟨r', rest'⟩ := p
          rw [hr] at h
          simp only [Except.ok.injEq, Prod.mk.injEq] at h
          obtain ⟨rfl, rfl⟩ := h
          obtain ⟨h1, h2⟩ := ih v r' rest' hr
          refine ⟨?_, by rw [h2]; rfl⟩
          intro w hw
          rcases List.mem_cons.mp hw with rfl | hw
          · exact hc
          · rw [← hc]; exact h1 w hw
      · simp only [Except.ok.injEq, Prod.mk.injEq] at h
        obtain ⟨rfl, rfl⟩ := h
        exact ⟨by simp [OneClass], rfl⟩

theorem pyRunDesc_class (vs : List PyVal) : ∀ (last : PyVal) (r rest : List PyVal), pyRunDesc last vs = .ok (r, rest) →
    OneClass (pyClass last) r ∧ vs = r ++ rest := by
  induction vs with
  | nil => intro last r rest h; simp [pyRunDesc] at h; obtain ⟨rfl, rfl⟩ := h; simp [OneClass]
  | cons v vs ih =>
    intro last r rest h
    simp only [pyRunDesc] at h
    cases hx : pyLt v last with
    | error e => rw [hx] at h; exact absurd h (by simp)
    | ok x =>
      rw [hx] at h
      have hc := ((pyLt_ok_iff v last).mp ⟨x, hx⟩).1
      cases x
      · simp only [Except.ok.injEq, Prod.mk.injEq] at h
        obtain ⟨rfl, rfl⟩ := h
        exact ⟨by simp [OneClass], rfl⟩
      · simp only at h
        cases hr : pyRunDesc v vs with
        | error e => rw [hr] at h; exact absurd h (by simp)
        | ok p =>
          obtain ⟨r', rest'⟩ := p
          rw [hr] at h
          simp only [Except.ok.injEq, Prod.mk.injEq] at h
          obtain ⟨rfl, rfl⟩ := h
          obtain ⟨h1, h2⟩ := ih v r' rest' hr
          refine ⟨?_, by rw [h2]; rfl⟩
          intro w hw
          rcases List.mem_cons.mp hw with rfl | hw
          · exact hc
          · rw [← hc]; exact h1 w hw

/-- a successful `sorted` of two or more values: they are all of one class, and that class is not `None` -/
theorem pySorted_ok_class (l : List PyVal) (h2 : 2 ≤ l.length) (h : ∃ out, pySorted l = .ok out) :
    ∃ c, c ≠ PyClass.none ∧ OneClass c l := by
  match l, h2, h with
  | a :: b :: rest, _, ⟨out, ho⟩ =>
    simp only [pySorted] at ho
    cases hx : pyLt b a with
    | error e => rw [hx] at ho; exact absurd ho (by simp)
    | ok x =>
      rw [hx] at ho
      obtain ⟨hba, hbn⟩ := (pyLt_ok_iff b a).mp ⟨x, hx⟩
      refine ⟨pyClass b, hbn, ?_⟩
      cases x
      · simp only at ho
        cases hr : pyRunAsc b rest with
        | error e => rw [hr] at ho; exact absurd ho (by simp)
        | ok p =>
          obtain ⟨r, rest'⟩ := p
          rw [hr] at ho
          obtain ⟨h1, h2⟩ := pyRunAsc_class rest b r rest' hr
          have hpre : OneClass (pyClass b) (a :: b :: r) := by
            intro w hw
            simp only [List.mem_cons] at hw
            rcases hw with rfl | rfl | hw
            · exact hba.symm
            · rfl
            · exact h1 w hw
          have := (pyBinSort_class rest' _ (by simp) hpre ⟨out, ho⟩).1
          intro w hw
          simp only [List.mem_cons, h2, List.mem_append] at hw
          rcases hw with rfl | rfl | hw | hw
          · exact hba.symm
          · rfl
          · exact h1 w hw
          · exact this w hw
      · simp only at ho
        cases hr : pyRunDesc b rest with
        | error e => rw [hr] at ho; exact absurd ho (by simp)
        | ok p =>
          obtain ⟨r, rest'⟩ := p
          rw [hr] at ho
          obtain ⟨h1, h2⟩ := pyRunDesc_class rest b r rest' hr
          have hpre : OneClass (pyClass b) (a :: b :: r).reverse := by
            intro w hw
            simp only [List.mem_reverse, List.mem_cons] at hw
            rcases hw with rfl | rfl | hw
            · exact hba.symm
            · rfl
            · exact h1 w hw
          have := (pyBinSort_class rest' _ (by simp) hpre ⟨out, ho⟩).1
          intro w hw
          simp only [List.mem_cons, h2, List.mem_append] at hw
          rcases hw with rfl | rfl | hw | hw
          · exact hba.symm
          · rfl
          · exact h1 w hw
          · exact this w hw

/-- exact characterisation: `sorted` of ≥ 2 values succeeds iff all are of one class other than `None`; otherwise it raises `TypeError` -/
theorem pySorted_ok_iff (l : List PyVal) (h2 : 2 ≤ l.length) :
    (∃ out, pySorted l = .ok out) ↔ ∃ c, c ≠ PyClass.none ∧ OneClass c l :=
  ⟨pySorted_ok_class l h2, fun ⟨_, hc, h⟩ => let ⟨out, ho, _⟩ := pySorted_ok_of_oneClass hc l h; ⟨out, ho⟩⟩

/-- on numbers and on strings the realised order `a ≤ b :⇔ not (b < a)` is a total preorder -/
theorem pyLe_total_preorder (a b d : PyVal) (c : PyClass) (hc : c = .num ∨ c = .str)
    (ha : pyClass a = c) (hb : pyClass b = c) (hd : pyClass d = c) :
    (pyLe a b ∨ pyLe b a) ∧ (pyLe a b → pyLe b d → pyLe a d) ∧ pyLe a a := by
  rcases hc with rfl | rfl
  · cases a <;> cases b <;> cases d <;> simp [pyClass] at ha hb hd
    simp only [pyLe, pyLt, Except.ok.injEq, decide_eq_false_iff_not, not_lt]
    exact ⟨le_total _ _, fun h1 h2 => le_trans h1 h2, le_refl _⟩
  · cases a <;> cases b <;> cases d <;> simp [pyClass] at ha hb hd
    simp only [pyLe, pyLt, Except.ok.injEq, decide_eq_false_iff_not, not_lt]
    exact ⟨le_total _ _, fun h1 h2 => le_trans h1 h2, le_refl _⟩



/-! ## Part 14: incrementally built tables -/

def CacheOK (t : ITable) : Prop := ∀ g, t.cache = some g → g = runs t.rows

theorem groups_of_cacheOK (t : ITable) (h : CacheOK t) : t.groups = runs t.rows := by
  unfold ITable.groups
  cases hc : t.cache with
  | none => rfl
  | some g => exact h g hc

theorem step_cacheOK (t : ITable) (h : CacheOK t) (op : IncOp) : CacheOK (t.step true op) := by
  cases op with
  | ins b => intro g hg; simp [ITable.step] at hg
  | look =>
    intro g hg
    simp only [ITable.step, Option.some.injEq] at hg
    rw [← hg]
    exact groups_of_cacheOK t h

theorem step_rows (clear : Bool) (t : ITable) (op : IncOp) : (t.step clear op).rows = t.rows ++ insertedRows [op] := by
  cases op <;> simp [ITable.step, insertedRows]

theorem runInc_spec (ops : List IncOp) : ∀ (t : ITable), CacheOK t →
    (runInc true ops t).rows = t.rows ++ insertedRows ops ∧ (runInc true ops t).groups = runs (t.rows ++ insertedRows ops) := by
  induction ops with
  | nil => intro t h; simp [runInc, insertedRows, groups_of_cacheOK t h]
  | cons op ops ih =>
    intro t h
    obtain ⟨h1, h2⟩ := ih (t.step true op) (step_cacheOK t h op)
    simp only [runInc]
    rw [h1, h2, step_rows]
    cases op <;> simp [insertedRows]

theorem incremental_eq_oneshot' (ops : List IncOp) :
    (runInc true ops ⟨[], none⟩).rows = insertedRows ops ∧
    (runInc true ops ⟨[], none⟩).groups = (runInc true [] ⟨insertedRows ops, none⟩).groups := by
  have := runInc_spec ops ⟨[], none⟩ (by intro g hg; simp at hg)
  simpa [runInc, ITable.groups] using this

theorem stale_cache_counterexample' :
    (runInc false cexInc ⟨[], none⟩).groups.length = 1 ∧ (runs (insertedRows cexInc)).length = 2 ∧
    (runInc true cexInc ⟨[], none⟩).groups.length = 2 := by decide +kernel

/-! ## Part 14 (Phase 5): `sorted(XY.items())` inside the model -/

theorem rawContrastPy_eq_spec (r : Result) (sels1 sels2) (pc : List Col) (x : XSpec) (span : Option Nat) (labs) :
    rawContrastPy r sels1 sels2 pc x span labs = rawContrastPyS r sels1 sels2 pc x span labs := by
  unfold rawContrastPy rawContrastPyS rawContrastPyWith
  have := rawContrast_eq_spec r sels1 sels2 pc x span true
  unfold rawContrast rawContrastS at this
  rw [this]

theorem plotContrastPy_eq_spec (r : Result) (sels1 sels2) (pc : List Col) (x : XSpec) (span : Option Nat) (labs)
    (mode : CMode) (ci : Option CiFn) (errevery : Option Nat) (kind : XKind) :
    plotContrastPy r sels1 sels2 pc x span labs mode ci errevery kind =
    plotContrastPyS r sels1 sels2 pc x span labs mode ci errevery kind := by
  unfold plotContrastPy plotContrastPyS plotContrastPyWith
  have := rawContrastPy_eq_spec r sels1 sels2 pc x span labs
  unfold rawContrastPy rawContrastPyS at this
  rw [this]

theorem orderRawPy_ok_iff (labs : List ((Key × Key) × PyVal)) (raw : List ((Key × Key) × List (Rat × Rat)))
    (h2 : 2 ≤ raw.length) :
    (∃ tbl, orderRawPy labs raw = .ok tbl) ↔ ∃ c, c ≠ PyClass.none ∧ ∀ e ∈ raw, pyClass (labOf labs e.1) = c := by
  have key := pySorted_ok_iff (raw.map (fun e => labOf labs e.1)) (by simpa using h2)
  constructor
  · rintro ⟨tbl, h⟩
    unfold orderRawPy at h
    cases hs : pySorted (raw.map (fun e => labOf labs e.1)) with
    | error e => rw [hs] at h; cases h
    | ok vs =>
      obtain ⟨c, hc, hall⟩ := key.mp ⟨vs, hs⟩
      exact ⟨c, hc, fun e he => hall _ (List.mem_map.mpr ⟨e, he, rfl⟩)⟩
  · rintro ⟨c, hc, hall⟩
    obtain ⟨vs, hs⟩ := key.mpr ⟨c, hc, by
      intro v hv
      obtain ⟨e, he, rfl⟩ := List.mem_map.mp hv
      exact hall e he⟩
    exact ⟨_, by unfold orderRawPy; rw [hs]⟩

theorem mem_orderRawPy (labs : List ((Key × Key) × PyVal)) (raw tbl : List ((Key × Key) × List (Rat × Rat))) (q)
    (h : orderRawPy labs raw = .ok tbl) (hq : q ∈ tbl) : q ∈ raw := by
  unfold orderRawPy at h
  cases hs : pySorted (raw.map (fun e => labOf labs e.1)) with
  | error e => rw [hs] at h; cases h
  | ok vs =>
    rw [hs] at h
    injection h with h
    subst h
    obtain ⟨v, _, hv⟩ := List.mem_filterMap.mp hq
    exact List.mem_of_find?_eq_some hv

/-- the table `raw_contrast` returns: sorted without `TypeError` iff all x labels are of one comparable class; every
entry of the sorted table is an entry formed by the pairing (x label and pairs untouched) -/
theorem rawContrastPy_sorted' (r : Result) (sels1 sels2) (pc : List Col) (x : XSpec) (span : Option Nat)
    (labs : List ((Key × Key) × PyVal)) (raw : List ((Key × Key) × List (Rat × Rat)))
    (hraw : rawContrast r sels1 sels2 pc x span true = .ok raw) :
    (x ≠ .index → 2 ≤ raw.length →
      ((∃ tbl, rawContrastPy r sels1 sels2 pc x span labs = .ok tbl) ↔
        ∃ c, c ≠ PyClass.none ∧ ∀ e ∈ raw, pyClass (labOf labs e.1) = c)) ∧
    (∀ tbl, rawContrastPy r sels1 sels2 pc x span labs = .ok tbl → ∀ q ∈ tbl, q ∈ raw) := by
  unfold rawContrast at hraw
  constructor
  · intro hx h2
    unfold rawContrastPy rawContrastPyWith
    rw [hraw]
    simp only [hx, if_false]
    exact orderRawPy_ok_iff labs raw h2
  · intro tbl h q hq
    unfold rawContrastPy rawContrastPyWith at h
    rw [hraw] at h
    by_cases hx : x = .index
    · simp only [hx, if_true] at h
      injection h with h
      subst h
      exact mem_orderRaw none raw q (by simpa [orderRaw] using hq)
    · simp only [hx, if_false] at h
      exact mem_orderRawPy labs raw tbl q h hq

/-- `int(n*0.05)` vs `n // 20` on the kernel's binary64 at the boundary `3·2^51` -/
theorem int_mul_005_boundary' : ((6755399441055759 : Float) * 0.05 == 337769972052788) = true ∧
    ((6755399441055739 : Float) * 0.05 < 337769972052787) = true ∧
    ((6755399441055739 : Float) * 0.05 ≥ 337769972052786) = true ∧
    ((6755399441055758 : Float) * 0.05 < 337769972052788) = true ∧
    (6755399441055759 / 20 = 337769972052787) ∧ (6755399441055739 / 20 = 337769972052786) ∧
    6755399441055744 = 3 * 2 ^ 51 := by decide +kernel

/-! ## Part 15 (Phase 5, goal 2): `int(n*0.05) = n // 20` below `3·2^51` under the rounding law -/

theorem repr53_nat (k : Nat) (hk : k < 9007199254740992) : Repr53 (k : Rat) :=
  ⟨(k : Int), 0, by omega, by simp⟩

theorem repr53_sixteenth (k : Nat) (hk : 16 * k + 15 < 9007199254740992) : Repr53 ((k : Rat) + 15 / 16) :=
  ⟨((16 * k + 15 : Nat) : Int), 4, by omega, by push_cast; ring⟩

theorem int_mul_005_eq_div20' (fl : Rat → Rat) (h : FloatLaw fl) (n : Nat) (hn : n < int005Bound) :
    (((n / 20 : Nat) : Rat) ≤ fl ((n : Rat) * c05)) ∧ fl ((n : Rat) * c05) < ((n / 20 : Nat) : Rat) + 1 := by
  unfold int005Bound at hn
  have hdiv : n = 20 * (n / 20) + n % 20 := (Nat.div_add_mod n 20).symm
  have hr : n % 20 ≤ 19 := by omega
  generalize hk : n / 20 = k at *
  generalize hrr : n % 20 = r at *
  have hnq : (n : Rat) = 20 * (k : Rat) + (r : Rat) := by exact_mod_cast hdiv
  have hrq : (r : Rat) ≤ 19 := by exact_mod_cast hr
  have hr0 : (0 : Rat) ≤ (r : Rat) := by exact_mod_cast Nat.zero_le r
  have hk0 : (0 : Rat) ≤ (k : Rat) := by exact_mod_cast Nat.zero_le k
  have hnb : (n : Rat) < 6755399441055744 := by exact_mod_cast hn
  have hx : (n : Rat) * c05 = (n : Rat) / 20 + (n : Rat) / 360287970189639680 := by unfold c05; ring
  constructor
  · apply h.below _ _ (repr53_nat k (by omega))
    rw [hx, hnq]; linarith
  · have hrep := repr53_sixteenth k (by omega)
    by_cases hc : (n : Rat) * c05 ≤ (k : Rat) + 15 / 16
    · have := h.above _ _ hrep hc
      linarith
    · have hlt : (k : Rat) + 15 / 16 ≤ (n : Rat) * c05 := le_of_lt (not_le.mp hc)
      have := h.near _ _ hrep hlt
      have hup : (n : Rat) * c05 < (k : Rat) + 31 / 32 := by rw [hx]; linarith
      linarith

theorem int_mul_005_floor' (fl : Rat → Rat) (h : FloatLaw fl) (n : Nat) (hn : n < int005Bound) :
    ⌊fl ((n : Rat) * c05)⌋ = ((n / 20 : Nat) : Int) := by
  obtain ⟨h1, h2⟩ := int_mul_005_eq_div20' fl h n hn
  rw [Int.floor_eq_iff]
  exact ⟨by exact_mod_cast h1, by exact_mod_cast h2⟩


theorem floatLaw_id : FloatLaw (fun x => x) :=
  ⟨fun _ _ _ h => h, fun _ _ _ h => h, fun x y _ h => by linarith⟩

theorem errEveryDefault_eq (n : Nat) : errEveryDefault n = max (n / 20) 1 := by
  simp [errEveryDefault, errEveryOf]

/-! ## Part 16 (Phase 5): translator obligations for defaults and the `_confidence` dispatch -/

theorem analysis_defaults_match' : Coba.Generated.C18.analysisDefaults = analysisDefaultsM := by decide

theorem confidence_dispatch_match' : Coba.Generated.C18.confDispatch = confDispatchM ∧
    Coba.Generated.C18.confDispatch.map (·.1) = errNamesM := by decide


/-! ## Part 17 (Phase 6): `sorted()` returns a sorted permutation; the outcome does not depend on the insertion order -/

/-- the value is a number or a string (the two classes on which `<` is a strict total order) -/
def NS (a : PyVal) : Prop := pyClass a = .num ∨ pyClass a = .str

theorem pyLe_trans_ns {a b d : PyVal} (h1 : pyLe a b) (h2 : pyLe b d) (hn : NS a ∨ NS d) : pyLe a d := by
  cases a <;> cases b <;> cases d <;> simp [pyLe, pyLt, NS, pyClass] at h1 h2 hn ⊢
  · exact le_trans h1 h2
  · exact le_trans h1 h2

theorem pyLe_of_lt_ns {a b : PyVal} (h : pyLt a b = .ok true) (hn : NS a ∨ NS b) : pyLe a b := by
  cases a <;> cases b <;> simp [pyLe, pyLt, NS, pyClass] at h hn ⊢
  · exact le_of_lt h
  · exact le_of_lt h

theorem pyLe_antisymm_ns {a b : PyVal} (h1 : pyLe a b) (h2 : pyLe b a) (hn : NS a ∨ NS b) : a = b := by
  cases a <;> cases b <;> simp [pyLe, pyLt, NS, pyClass] at h1 h2 hn ⊢
  · exact le_antisymm h1 h2
  · exact le_antisymm h1 h2

theorem pyBinSort_perm (rest : List PyVal) : ∀ (pre out : List PyVal), pyBinSort pre rest = .ok out →
    out.Perm (pre ++ rest) := by
  induction rest with
  | nil => intro pre out h; simp [pyBinSort] at h; subst h; simp
  | cons v rest ih =>
    intro pre out h
    simp only [pyBinSort] at h
    split at h
    · cases h
    · rename_i k hk
      refine (ih _ _ h).trans ?_
      have h1 : (pre.take k ++ v :: pre.drop k).Perm (v :: pre) := by
        have : (pre.take k ++ v :: pre.drop k).Perm (v :: (pre.take k ++ pre.drop k)) := List.perm_middle
        simpa using this
      exact (h1.append_right rest).trans (by simpa using (List.perm_middle (l₁ := pre) (a := v) (l₂ := rest)).symm)

theorem pySorted_perm (l out : List PyVal) (h : pySorted l = .ok out) : out.Perm l := by
  match l, h with
  | [], h => simp [pySorted] at h; subst h; exact List.Perm.refl _
  | [a], h => simp [pySorted] at h; subst h; exact List.Perm.refl _
  | a :: b :: rest, h =>
    simp only [pySorted] at h
    split at h
    · cases h
    · split at h
      · cases h
      · rename_i r rest' hr
        have hsplit := (pyRunDesc_class rest b r rest' hr).2
        refine (pyBinSort_perm _ _ _ h).trans ?_
        rw [hsplit]
        exact (List.reverse_perm _).append_right rest' |>.trans (by simp)
    · split at h
      · cases h
      · rename_i r rest' hr
        have hsplit := (pyRunAsc_class rest b r rest' hr).2
        refine (pyBinSort_perm _ _ _ h).trans ?_
        rw [hsplit]; simp

theorem pyBsearch_spec (v : PyVal) (pre : List PyVal) (hs : pre.Pairwise pyLe) (hv : NS v) :
    ∀ (f l r k : Nat), l ≤ r → r ≤ pre.length → r - l ≤ f → (∀ x ∈ pre.take l, pyLe x v) → (∀ y ∈ pre.drop r, pyLe v y) →
      pyBsearch v pre f l r = .ok k → (∀ x ∈ pre.take k, pyLe x v) ∧ (∀ y ∈ pre.drop k, pyLe v y) := by
  intro f
  induction f with
  | zero =>
    intro l r k hlr hr hf hlo hhi h
    simp only [pyBsearch, Except.ok.injEq] at h
    subst h
    have : l = r := by omega
    subst this
    exact ⟨hlo, hhi⟩
  | succ f ih =>
    intro l r k hlr hr hf hlo hhi h
    simp only [pyBsearch] at h
    split at h
    · rename_i hlt
      have hp : l + (r - l) / 2 < pre.length := by omega
      rw [List.getElem?_eq_getElem hp] at h
      simp only at h
      have hsplit : pre = pre.take (l + (r - l) / 2) ++ pre[l + (r - l) / 2] :: pre.drop (l + (r - l) / 2 + 1) := by
        rw [← List.drop_eq_getElem_cons hp, List.take_append_drop]
      have hs' := hs
      rw [hsplit, List.pairwise_append] at hs'
      obtain ⟨_, hs2, hs3⟩ := hs'
      rw [List.pairwise_cons] at hs2
      split at h
      · cases h
      · rename_i hq
        refine ih _ _ k (by omega) (by omega) (by omega) hlo ?_ h
        intro y hy
        rw [List.drop_eq_getElem_cons hp] at hy
        rcases List.mem_cons.mp hy with rfl | hy
        · exact pyLe_of_lt_ns hq (Or.inl hv)
        · exact pyLe_trans_ns (pyLe_of_lt_ns hq (Or.inl hv)) (hs2.1 y hy) (Or.inl hv)
      · rename_i hq
        refine ih _ _ k (by omega) hr (by omega) ?_ hhi h
        intro x hx
        rw [List.take_succ_eq_append_getElem hp] at hx
        rcases List.mem_append.mp hx with hx | hx
        · exact pyLe_trans_ns (hs3 x hx _ List.mem_cons_self) hq (Or.inr hv)
        · simp only [List.mem_singleton] at hx
          subst hx
          exact hq
    · simp only [Except.ok.injEq] at h
      subst h
      have : l = r := by omega
      subst this
      exact ⟨hlo, hhi⟩

theorem pairwise_insert {pre : List PyVal} {v : PyVal} {k : Nat} (hs : pre.Pairwise pyLe)
    (hlo : ∀ x ∈ pre.take k, pyLe x v) (hhi : ∀ y ∈ pre.drop k, pyLe v y) :
    (pre.take k ++ v :: pre.drop k).Pairwise pyLe := by
  have hs' := hs
  rw [← List.take_append_drop k pre, List.pairwise_append] at hs'
  obtain ⟨h1, h2, h3⟩ := hs'
  rw [List.pairwise_append]
  refine ⟨h1, List.pairwise_cons.mpr ⟨hhi, h2⟩, ?_⟩
  intro a ha b hb
  rcases List.mem_cons.mp hb with rfl | hb
  · exact hlo a ha
  · exact h3 a ha b hb

theorem pyBinSort_sorted (rest : List PyVal) : ∀ (pre out : List PyVal), pre.Pairwise pyLe → (∀ v ∈ rest, NS v) →
    pyBinSort pre rest = .ok out → out.Pairwise pyLe := by
  induction rest with
  | nil => intro pre out hs _ h; simp [pyBinSort] at h; subst h; exact hs
  | cons v rest ih =>
    intro pre out hs hn h
    simp only [pyBinSort] at h
    split at h
    · cases h
    · rename_i k hk
      obtain ⟨hlo, hhi⟩ := pyBsearch_spec v pre hs (hn v (by simp)) pre.length 0 pre.length k (by omega) (le_refl _) (by omega)
        (by simp) (by simp) hk
      exact ih _ _ (pairwise_insert hs hlo hhi) (fun w hw => hn w (by simp [hw])) h

theorem pyRunAsc_sorted (vs : List PyVal) : ∀ (last : PyVal) (r rest : List PyVal), NS last →
    pyRunAsc last vs = .ok (r, rest) → (last :: r).Pairwise pyLe := by
  induction vs with
  | nil => intro last r rest _ h; simp [pyRunAsc] at h; obtain ⟨rfl, rfl⟩ := h; simp
  | cons v vs ih =>
    intro last r rest hn h
    simp only [pyRunAsc] at h
    split at h
    · cases h
    · simp only [Except.ok.injEq, Prod.mk.injEq] at h
      obtain ⟨rfl, rfl⟩ := h
      simp
    · rename_i hq
      split at h
      · cases h
      · rename_i r' rest' hr
        simp only [Except.ok.injEq, Prod.mk.injEq] at h
        obtain ⟨rfl, rfl⟩ := h
        have hlv : pyLe last v := hq
        have hnv : NS v := by
          cases last <;> cases v <;> simp [pyLe, pyLt, NS, pyClass] at hlv hn ⊢
        have := ih v r' rest' hnv hr
        refine List.pairwise_cons.mpr ⟨?_, this⟩
        intro y hy
        rcases List.mem_cons.mp hy with rfl | hy
        · exact hlv
        · exact pyLe_trans_ns hlv ((List.pairwise_cons.mp this).1 y hy) (Or.inl hn)

theorem pyRunDesc_sorted (vs : List PyVal) : ∀ (last : PyVal) (r rest : List PyVal), NS last →
    pyRunDesc last vs = .ok (r, rest) → (last :: r).Pairwise (fun x y => pyLe y x) := by
  induction vs with
  | nil => intro last r rest _ h; simp [pyRunDesc] at h; obtain ⟨rfl, rfl⟩ := h; simp
  | cons v vs ih =>
    intro last r rest hn h
    simp only [pyRunDesc] at h
    split at h
    · cases h
    · simp only [Except.ok.injEq, Prod.mk.injEq] at h
      obtain ⟨rfl, rfl⟩ := h
      simp
    · rename_i hq
      split at h
      · cases h
      · rename_i r' rest' hr
        simp only [Except.ok.injEq, Prod.mk.injEq] at h
        obtain ⟨rfl, rfl⟩ := h
        have hlv : pyLe v last := pyLe_of_lt_ns hq (Or.inr hn)
        have hnv : NS v := by
          cases last <;> cases v <;> simp [pyLe, pyLt, NS, pyClass] at hlv hn ⊢
        have := ih v r' rest' hnv hr
        refine List.pairwise_cons.mpr ⟨?_, this⟩
        intro y hy
        rcases List.mem_cons.mp hy with rfl | hy
        · exact hlv
        · exact pyLe_trans_ns ((List.pairwise_cons.mp this).1 y hy) hlv (Or.inr hn)

theorem pySorted_sorted (l out : List PyVal) (hn : ∀ v ∈ l, NS v) (h : pySorted l = .ok out) : out.Pairwise pyLe := by
  match l, hn, h with
  | [], _, h => simp [pySorted] at h; subst h; simp
  | [a], _, h => simp [pySorted] at h; subst h; simp
  | a :: b :: rest, hn, h =>
    have hna : NS a := hn a (by simp)
    have hnb : NS b := hn b (by simp)
    simp only [pySorted] at h
    split at h
    · cases h
    · rename_i hq
      split at h
      · cases h
      · rename_i r rest' hr
        have hsplit := (pyRunDesc_class rest b r rest' hr).2
        have hd := pyRunDesc_sorted rest b r rest' hnb hr
        have hba : pyLe b a := pyLe_of_lt_ns hq (Or.inl hnb)
        refine pyBinSort_sorted rest' _ out ?_ (fun w hw => hn w (by rw [hsplit]; simp [hw])) h
        rw [List.pairwise_reverse]
        refine List.pairwise_cons.mpr ⟨?_, hd⟩
        intro y hy
        rcases List.mem_cons.mp hy with rfl | hy
        · exact hba
        · exact pyLe_trans_ns ((List.pairwise_cons.mp hd).1 y hy) hba (Or.inr hna)
    · rename_i hq
      split at h
      · cases h
      · rename_i r rest' hr
        have hsplit := (pyRunAsc_class rest b r rest' hr).2
        have hd := pyRunAsc_sorted rest b r rest' hnb hr
        have hab : pyLe a b := hq
        refine pyBinSort_sorted rest' _ out ?_ (fun w hw => hn w (by rw [hsplit]; simp [hw])) h
        refine List.pairwise_cons.mpr ⟨?_, hd⟩
        intro y hy
        rcases List.mem_cons.mp hy with rfl | hy
        · exact hab
        · exact pyLe_trans_ns hab ((List.pairwise_cons.mp hd).1 y hy) (Or.inl hna)

/-- the outcome of `sorted()` on numbers / strings does not depend on the order in which the values arrive -/
theorem pySorted_order_independent (l1 l2 o1 o2 : List PyVal) (hp : l1.Perm l2) (hn : ∀ v ∈ l1, NS v)
    (h1 : pySorted l1 = .ok o1) (h2 : pySorted l2 = .ok o2) : o1 = o2 := by
  have hn2 : ∀ v ∈ l2, NS v := fun v hv => hn v (hp.mem_iff.mpr hv)
  have p1 := pySorted_perm l1 o1 h1
  have p2 := pySorted_perm l2 o2 h2
  refine List.Perm.eq_of_pairwise ?_ (pySorted_sorted l1 o1 hn h1) (pySorted_sorted l2 o2 hn2 h2) (p1.trans (hp.trans p2.symm))
  intro a b ha _ hab hba
  exact pyLe_antisymm_ns hab hba (Or.inl (hn a (p1.mem_iff.mp ha)))

/-- whether `sorted()` raises does not depend on the arrival order either -/
theorem pySorted_ok_perm (l1 l2 : List PyVal) (hp : l1.Perm l2) :
    (∃ o, pySorted l1 = .ok o) ↔ (∃ o, pySorted l2 = .ok o) := by
  have hlen := hp.length_eq
  by_cases h2 : 2 ≤ l1.length
  · rw [pySorted_ok_iff l1 h2, pySorted_ok_iff l2 (hlen ▸ h2)]
    constructor
    · rintro ⟨c, hc, h⟩; exact ⟨c, hc, fun v hv => h v (hp.mem_iff.mpr hv)⟩
    · rintro ⟨c, hc, h⟩; exact ⟨c, hc, fun v hv => h v (hp.mem_iff.mp hv)⟩
  · have h1 : l1.length ≤ 1 := by omega
    have h1' : l2.length ≤ 1 := by omega
    constructor
    · intro _
      match l2, h1' with
      | [], _ => exact ⟨[], rfl⟩
      | [a], _ => exact ⟨[a], rfl⟩
    · intro _
      match l1, h1 with
      | [], _ => exact ⟨[], rfl⟩
      | [a], _ => exact ⟨[a], rfl⟩

theorem find?_perm_of_nodup_key {α β : Type} [DecidableEq β] (f : α → β) (l1 l2 : List α) (hp : l1.Perm l2)
    (hnd : (l1.map f).Nodup) (v : β) : l1.find? (fun e => f e = v) = l2.find? (fun e => f e = v) := by
  have hnd2 : (l2.map f).Nodup := (hp.map f).nodup_iff.mp hnd
  cases h1 : l1.find? (fun e => f e = v) with
  | none =>
    rw [List.find?_eq_none] at h1
    symm
    rw [List.find?_eq_none]
    intro x hx
    exact h1 x (hp.mem_iff.mpr hx)
  | some e =>
    have he := List.mem_of_find?_eq_some h1
    have hv := List.find?_some h1
    cases h2 : l2.find? (fun e => f e = v) with
    | none =>
      rw [List.find?_eq_none] at h2
      exact absurd hv (h2 e (hp.mem_iff.mp he))
    | some e' =>
      have he' := List.mem_of_find?_eq_some h2
      have hv' := List.find?_some h2
      simp only [decide_eq_true_eq] at hv hv'
      rw [List.inj_on_of_nodup_map hnd2 (hp.mem_iff.mp he) he' (hv.trans hv'.symm)]

/-- `sorted(XY.items())` inside `raw_contrast` gives the same table whatever order the dict `XY` was filled in
(x labels numbers / strings, distinct as dict keys are) -/
theorem orderRawPy_perm (labs : List ((Key × Key) × PyVal)) (raw1 raw2 o1 o2 : List ((Key × Key) × List (Rat × Rat)))
    (hp : raw1.Perm raw2) (hnd : (raw1.map (fun e => labOf labs e.1)).Nodup)
    (hn : ∀ e ∈ raw1, NS (labOf labs e.1))
    (h1 : orderRawPy labs raw1 = .ok o1) (h2 : orderRawPy labs raw2 = .ok o2) : o1 = o2 := by
  simp only [orderRawPy] at h1 h2
  split at h1
  · cases h1
  · rename_i vs1 hs1
    split at h2
    · cases h2
    · rename_i vs2 hs2
      simp only [Except.ok.injEq] at h1 h2
      have hvs : vs1 = vs2 := pySorted_order_independent _ _ _ _ (hp.map _)
        (by intro v hv; obtain ⟨e, he, rfl⟩ := List.mem_map.mp hv; exact hn e he) hs1 hs2
      subst hvs h1 h2
      congr 1
      funext v
      exact find?_perm_of_nodup_key (fun e => labOf labs e.1) raw1 raw2 hp hnd v

end Coba.C18
