/-
Helper lemmas for C09 (ordering and selection filters).  The property theorems are in
`Props/C09.lean`; each refers to one primed lemma here.
-/
import CobaVerif.Model.C09
import CobaVerif.Lemmas.C05
import Mathlib.Data.List.Basic
import Mathlib.Data.List.Perm.Basic
import Mathlib.Data.List.Perm.Subperm
import Mathlib.Data.List.Nodup
import Mathlib.Data.List.Sort
import Mathlib.Data.List.InsertIdx
import Mathlib.Tactic.Linarith
import Mathlib.Algebra.Order.Field.Rat

namespace Coba.C09
open Coba

theorem pShuffle_perm' {α} (s : Nat) (xs : List α) : (pShuffle s xs).Perm xs := C05.shuffle_perm' s xs

theorem eShuffle_perm' {α} (isLogged : α → Bool) (sP sL : Nat) (xs : List α) :
    (eShuffle isLogged sP sL xs).Perm xs := by
  cases xs with
  | nil => simp [eShuffle]
  | cons x xs => exact pShuffle_perm' _ _

theorem take_eq_spec' {α} (c : Option Nat) (strict : Bool) (xs : List α) : take c strict xs = takeSpec c strict xs := by
  cases c with
  | none => rfl
  | some n =>
    simp only [take, takeSpec, List.length_take]
    by_cases h : xs.length < n
    · have : min n xs.length < n := by omega
      simp [h, this]
    · have : ¬ min n xs.length < n := by omega
      simp [h, this]

theorem shuffle_map' {α β} (f : α → β) (s : Nat) (xs : List α) :
    C05.shuffle s (xs.map f) = ((C05.shuffle s xs).1, (C05.shuffle s xs).2.map f) := by
  fun_induction C05.shuffle s xs with
  | case1 => simp [C05.shuffle]
  | case2 => simp [C05.shuffle]
  | case3 s x y r xs j hj s' t heq ih =>
    rw [heq] at ih
    have ih' : C05.shuffle (C05.next s) (f y :: List.map f r) = (s', List.map f t) := by simpa [xs] using ih
    simp only [List.map_cons]
    rw [C05.shuffle]
    simp only [List.length_cons, List.length_map]
    have hj' : C05.scaled s (r.length + 1 + 1) = 0 := by simpa [xs, j] using hj
    simp only [hj', ih']
  | case4 s x y r xs j j' hj z hz s' t heq ih =>
    rw [heq] at ih
    simp only [List.map_cons]
    rw [C05.shuffle]
    simp only [List.length_cons, List.length_map]
    have hj'' : C05.scaled s (r.length + 1 + 1) = j' + 1 := by simpa [xs, j] using hj
    simp only [hj'']
    have hz' : (f y :: List.map f r)[j']? = some (f z) := by
      have h1 : (List.map f xs)[j']? = some (f z) := by rw [List.getElem?_map, hz]; rfl
      simpa [xs] using h1
    simp only [hz']
    have hset : (f y :: List.map f r).set j' (f x) = List.map f (xs.set j' x) := by
      simp [xs, List.map_set]
    rw [hset, ih]
  | case5 s x y r xs j j' hj hz s' t heq ih =>
    rw [heq] at ih
    have ih' : C05.shuffle (C05.next s) (f y :: List.map f r) = (s', List.map f t) := by simpa [xs] using ih
    simp only [List.map_cons]
    rw [C05.shuffle]
    simp only [List.length_cons, List.length_map]
    have hj'' : C05.scaled s (r.length + 1 + 1) = j' + 1 := by simpa [xs, j] using hj
    simp only [hj'']
    have hz' : (f y :: List.map f r)[j']? = none := by
      have h1 : (List.map f xs)[j']? = none := by rw [List.getElem?_map, hz]; rfl
      simpa [xs] using h1
    simp only [hz', ih']

theorem pick_cons_true {α} (p : Nat → Bool) (i : Nat) (x : α) (xs : List α) (h : p i = true) :
    pick p i (x :: xs) = x :: pick p (i+1) xs := by simp [pick, h]

theorem pick_cons_false {α} (p : Nat → Bool) (i : Nat) (x : α) (xs : List α) (h : p i = false) :
    pick p i (x :: xs) = pick p (i+1) xs := by simp [pick, h]

theorem pick_congr {α} (p q : Nat → Bool) (i0 : Nat) (xs : List α)
    (h : ∀ i, i0 ≤ i → p i = q i) : pick p i0 xs = pick q i0 xs := by
  induction xs generalizing i0 with
  | nil => rfl
  | cons x xs ih =>
    simp only [pick]
    rw [h i0 (Nat.le_refl _), ih (i0+1) (fun i hi => h i (by omega))]

theorem pick_false {α} (p : Nat → Bool) (i0 : Nat) (xs : List α)
    (h : ∀ i, i0 ≤ i → p i = false) : pick p i0 xs = [] := by
  induction xs generalizing i0 with
  | nil => rfl
  | cons x xs ih =>
    simp only [pick]
    rw [h i0 (Nat.le_refl _), ih (i0+1) (fun i hi => h i (by omega))]
    simp

theorem pick_take {α} (q : Nat → Bool) (i0 n : Nat) (xs : List α) :
    pick q i0 (xs.take n) = pick (fun i => q i && decide (i < i0 + n)) i0 xs := by
  induction xs generalizing i0 n with
  | nil => simp [pick]
  | cons x xs ih =>
    cases n with
    | zero =>
      rw [List.take_zero]
      symm
      apply pick_false
      intro i hi
      simp; omega
    | succ n =>
      have hc : pick (fun i => q i && decide (i < i0 + 1 + n)) (i0+1) xs
           = pick (fun i => q i && decide (i < i0 + (n + 1))) (i0+1) xs := by
        apply pick_congr; intro i _
        have : (i < i0 + 1 + n) ↔ (i < i0 + (n+1)) := by omega
        simp [this]
      rw [List.take_succ_cons]
      by_cases hq : q i0 = true
      · rw [pick_cons_true _ _ _ _ hq, pick_cons_true _ _ _ _ (by simp [hq]), ih (i0+1) n, hc]
      · have hq' : q i0 = false := by simpa using hq
        rw [pick_cons_false _ _ _ _ hq', pick_cons_false _ _ _ _ (by simp [hq']), ih (i0+1) n, hc]

theorem pick_drop {α} (q : Nat → Bool) (i0 n : Nat) (xs : List α) :
    pick q (i0 + n) (xs.drop n) = pick (fun i => q i && decide (i0 + n ≤ i)) i0 xs := by
  induction xs generalizing i0 n with
  | nil => simp [pick]
  | cons x xs ih =>
    cases n with
    | zero =>
      simp only [List.drop_zero, Nat.add_zero]
      apply pick_congr; intro i hi; simp [hi]
    | succ n =>
      simp only [List.drop_succ_cons]
      rw [pick_cons_false _ _ _ _ (by simp)]
      have := ih (i0+1) n
      rw [show i0 + 1 + n = i0 + (n+1) by omega] at this
      rw [this]

theorem every_eq_pick {α} (step : Nat) (hstep : 0 < step) (xs : List α) (k i0 : Nat) :
    every step xs k = pick (fun i => decide (i0 + k ≤ i) && decide ((i - (i0 + k)) % step = 0)) i0 xs := by
  induction xs generalizing k i0 with
  | nil => simp [every, pick]
  | cons x xs ih =>
    cases k with
    | zero =>
      simp only [every, pick, Nat.add_zero, Nat.le_refl, decide_true, Nat.sub_self, Nat.zero_mod, Bool.and_self, ↓reduceIte]
      rw [ih (step - 1) (i0 + 1)]
      congr 1
      apply pick_congr
      intro i hi
      have e1 : i0 + 1 + (step - 1) = i0 + step := by omega
      rw [e1]
      by_cases hle : i0 + step ≤ i
      · have : i - i0 = (i - (i0 + step)) + step := by omega
        have h2 : i0 ≤ i := by omega
        simp [hle, h2, this]
      · have h2 : i0 ≤ i := by omega
        have hlt : i - i0 < step := by omega
        have hpos : 0 < i - i0 := by omega
        have : (i - i0) % step ≠ 0 := by rw [Nat.mod_eq_of_lt hlt]; omega
        simp [hle, this]
    | succ k =>
      simp only [every]
      rw [pick_cons_false _ _ _ _ (by simp)]
      rw [ih k (i0 + 1)]
      apply pick_congr
      intro i _
      rw [show i0 + 1 + k = i0 + (k + 1) by omega]

theorem slice_eq_spec' {α} (start stop : Option Nat) (step : Nat) (hstep : 0 < step) (xs : List α) :
    slice start stop step xs = sliceSpec start stop step xs := by
  unfold slice sliceSpec
  generalize start.getD 0 = a
  have h1 := fun (l : List α) => every_eq_pick step hstep (l.drop a) 0 a
  simp only [Nat.add_zero] at h1
  rw [h1]
  have h2 := fun (l : List α) (q : Nat → Bool) => pick_drop q 0 a l
  simp only [Nat.zero_add] at h2
  rw [h2]
  cases stop with
  | none =>
    simp only
    apply pick_congr; intro i _
    simp only [inSlice]
    cases decide (a ≤ i) <;> simp
  | some st =>
    simp only
    have h3 := pick_take (fun i => (decide (a ≤ i) && decide ((i - a) % step = 0)) && decide (a ≤ i)) 0 st xs
    simp only [Nat.zero_add] at h3
    rw [h3]
    apply pick_congr; intro i _
    simp only [inSlice]
    cases decide (a ≤ i) <;> cases decide (i < st) <;> simp

theorem set_subperm {α} (res : List α) (slot : Nat) (y : α) : (res.set slot y).Subperm (y :: res) := by
  induction res generalizing slot with
  | nil => simp
  | cons x xs ih =>
    cases slot with
    | zero =>
      simp only [List.set_cons_zero]
      exact (List.Sublist.cons_cons y (List.sublist_cons_self x xs)).subperm
    | succ n =>
      simp only [List.set_cons_succ]
      have h1 : (x :: xs.set n y).Subperm (x :: y :: xs) := (List.subperm_cons x).2 (ih n)
      exact h1.trans (List.Perm.swap y x xs).subperm

theorem resLoop_inv {α} (steps : List Step) (rest res out : List α)
    (h : resLoop steps rest res = .ok out) : out.length = res.length ∧ out.Subperm (res ++ rest) := by
  induction steps generalizing rest res with
  | nil => simp [resLoop] at h
  | cons st steps ih =>
    cases st with
    | raise e => simp [resLoop] at h
    | skip S slot =>
      simp only [resLoop] at h
      split at h
      · injection h with h; subst h
        exact ⟨rfl, (List.sublist_append_left _ _).subperm⟩
      · rename_i y rest' hdrop
        split at h
        · obtain ⟨hl, hs⟩ := ih rest' (res.set slot y) h
          refine ⟨by simpa using hl, ?_⟩
          have h1 : (res.set slot y ++ rest').Subperm ((y :: res) ++ rest') :=
            (List.subperm_append_right rest').2 (set_subperm res slot y)
          have h2 : ((y :: res) ++ rest').Perm (res ++ (y :: rest')) := by
            simpa using (List.perm_middle (l₁ := res) (l₂ := rest') (a := y)).symm
          have h3 : (res ++ (y :: rest')).Sublist (res ++ rest) := by
            rw [← hdrop]
            exact List.Sublist.append_left (List.drop_sublist S rest) res
          exact hs.trans (h1.trans (h2.subperm.trans h3.subperm))
        · simp at h

theorem reservoir_spec' {α} (count : Option Nat) (strict : Bool) (s : Nat) (steps : List Step)
    (xs out : List α) (h : reservoir count strict s steps xs = .ok out) :
    out.Subperm xs ∧
    out.length = reservoirSize count strict xs.length := by
  unfold reservoirSize
  cases count with
  | none =>
    simp only [reservoir] at h
    injection h with h; subst h
    exact ⟨(C05.shuffle_perm' s xs).subperm, (C05.shuffle_perm' s xs).length_eq⟩
  | some n =>
    cases n with
    | zero =>
      simp only [reservoir] at h
      injection h with h; subst h
      simp
    | succ n =>
      simp only [reservoir, List.length_take] at h
      split at h
      · rename_i hlt
        have hlt' : xs.length < n + 1 := by omega
        injection h with h; subst h
        cases strict with
        | true => simp [hlt']
        | false =>
          have hp := C05.shuffle_perm' s (xs.take (n+1))
          refine ⟨hp.subperm.trans (List.take_sublist _ _).subperm, ?_⟩
          simp only [Bool.false_eq_true, ↓reduceIte, Bool.false_and]
          rw [hp.length_eq]; simp [List.length_take]
      · rename_i hge
        have hge' : ¬ xs.length < n + 1 := by omega
        obtain ⟨hl, hs⟩ := resLoop_inv _ _ _ _ h
        have hp := C05.shuffle_perm' s (xs.take (n+1))
        constructor
        · have : ((C05.shuffle s (xs.take (n+1))).2 ++ xs.drop (n+1)).Perm xs := by
            have := List.Perm.append_right (xs.drop (n+1)) hp
            simpa [List.take_append_drop] using this
          exact hs.trans this.subperm
        · rw [hl, hp.length_eq]
          simp [List.length_take, hge']

theorem subperm_nodup {α} {l₁ l₂ : List α} (h : l₁.Subperm l₂) (hn : l₂.Nodup) : l₁.Nodup := by
  obtain ⟨l, hp, hs⟩ := h
  exact hp.nodup_iff.1 (hn.sublist hs)

theorem insertBy_eq {α} (le : α → α → Bool) (a : α) (l : List α) :
    insertBy le a l = List.orderedInsert (fun a b => le a b = true) a l := by
  induction l with
  | nil => rfl
  | cons b l ih => simp [insertBy, List.orderedInsert, ih]

theorem isort_eq {α} (le : α → α → Bool) (l : List α) :
    isort le l = List.insertionSort (fun a b => le a b = true) l := by
  induction l with
  | nil => rfl
  | cons a l ih => simp [isort, insertBy_eq, ih]

theorem sortBy_spec' {α K} (le : K → K → Bool) (key : α → K)
    (htot : ∀ a b, le a b = true ∨ le b a = true)
    (htr : ∀ a b c, le a b = true → le b c = true → le a c = true) (xs : List α) :
    (sortBy le key xs).Perm xs ∧
    (sortBy le key xs).Pairwise (fun a b => le (key a) (key b) = true) ∧
    (∀ a b, le (key a) (key b) = true → [a, b].Sublist xs → [a, b].Sublist (sortBy le key xs)) := by
  unfold sortBy
  rw [isort_eq]
  have : Std.Total (fun a b : α => le (key a) (key b) = true) := ⟨fun a b => htot _ _⟩
  have : IsTrans α (fun a b : α => le (key a) (key b) = true) := ⟨fun a b c => htr _ _ _⟩
  refine ⟨List.perm_insertionSort _ _, List.pairwise_insertionSort _ _, ?_⟩
  intro a b hab hs
  exact List.pair_sublist_insertionSort hab hs

/-- equal-key classes keep their input order (the usual statement of stability) -/
theorem sortBy_stable_class' {α K} (le : K → K → Bool) (key : α → K)
    (xs : List α) (p : α → Bool)
    (hp : ∀ a b, p a = true → p b = true → le (key a) (key b) = true) :
    (sortBy le key xs).filter p = xs.filter p := by
  unfold sortBy
  rw [isort_eq]
  have hpw : (xs.filter p).Pairwise (fun a b => le (key a) (key b) = true) := by
    rw [List.pairwise_iff_forall_sublist]
    intro a b hab
    have ha : a ∈ xs.filter p := hab.subset (by simp)
    have hb : b ∈ xs.filter p := hab.subset (by simp)
    exact hp a b (List.mem_filter.1 ha).2 (List.mem_filter.1 hb).2
  have hsub : (xs.filter p).Sublist (List.insertionSort (fun a b => le (key a) (key b) = true) xs) :=
    List.sublist_insertionSort hpw List.filter_sublist
  have hsub2 : (xs.filter p).Sublist ((List.insertionSort (fun a b => le (key a) (key b) = true) xs).filter p) := by
    have := hsub.filter p
    simpa using this
  have hlen : ((List.insertionSort (fun a b => le (key a) (key b) = true) xs).filter p).length = (xs.filter p).length :=
    ((List.perm_insertionSort _ xs).filter p).length_eq
  exact (hsub2.eq_of_length hlen.symm).symm

structure StrictWeak {β} (lt : β → β → Bool) : Prop where
  asymm : ∀ a b, lt a b = true → lt b a = false
  negTrans : ∀ a b c, lt a c = true → lt a b = true ∨ lt b c = true

theorem StrictWeak.irrefl {β} {lt : β → β → Bool} (h : StrictWeak lt) (a : β) : lt a a = false := by
  cases hh : lt a a with
  | false => rfl
  | true => have := h.asymm a a hh; rw [hh] at this; exact this

theorem lexLt_asymm {β} {lt : β → β → Bool} (h : StrictWeak lt) :
    ∀ a b : List β, lexLt lt a b = true → lexLt lt b a = false := by
  intro a
  induction a with
  | nil => intro b; cases b <;> simp [lexLt]
  | cons x as ih =>
    intro b
    cases b with
    | nil => simp [lexLt]
    | cons y bs =>
      simp only [lexLt]
      cases hxy : lt x y with
      | true => simp [h.asymm x y hxy]
      | false =>
        cases hyx : lt y x with
        | true => simp
        | false => simpa using ih bs

theorem lexLt_negTrans {β} {lt : β → β → Bool} (h : StrictWeak lt) :
    ∀ a b c : List β, lexLt lt a c = true → lexLt lt a b = true ∨ lexLt lt b c = true := by
  intro a
  induction a with
  | nil =>
    intro b c hac
    cases c with
    | nil => simp [lexLt] at hac
    | cons z cs => cases b with
      | nil => right; simp [lexLt]
      | cons y bs => left; simp [lexLt]
  | cons x as ih =>
    intro b c hac
    cases c with
    | nil => simp [lexLt] at hac
    | cons z cs =>
      cases b with
      | nil => right; simp [lexLt]
      | cons y bs =>
        simp only [lexLt] at hac ⊢
        cases hxz : lt x z with
        | true =>
          rcases h.negTrans x y z hxz with hxy | hyz
          · left; simp [hxy]
          · right; simp [hyz]
        | false =>
          rw [hxz] at hac
          cases hzx : lt z x with
          | true => simp [hzx] at hac
          | false =>
            rw [hzx] at hac
            simp only [Bool.false_eq_true, ↓reduceIte] at hac
            cases hxy : lt x y with
            | true => left; simp
            | false =>
              cases hyx : lt y x with
              | true =>
                -- y < x, x ~ z  ⇒  y < z
                rcases h.negTrans y z x hyx with hyz | hzx'
                · right; simp [hyz]
                · rw [hzx] at hzx'; exact absurd hzx' (by simp)
              | false =>
                -- x ~ y, x ~ z ⇒ y ~ z
                have hyz : lt y z = false := by
                  cases hh : lt y z with
                  | false => rfl
                  | true =>
                    rcases h.negTrans y x z hh with h1 | h1
                    · rw [hyx] at h1; exact absurd h1 (by simp)
                    · rw [hxz] at h1; exact absurd h1 (by simp)
                have hzy : lt z y = false := by
                  cases hh : lt z y with
                  | false => rfl
                  | true =>
                    rcases h.negTrans z x y hh with h1 | h1
                    · rw [hzx] at h1; exact absurd h1 (by simp)
                    · rw [hxy] at h1; exact absurd h1 (by simp)
                simp only [hyz, hzy, Bool.false_eq_true, ↓reduceIte]
                exact ih bs cs hac

theorem lexLt_strictWeak {β} {lt : β → β → Bool} (h : StrictWeak lt) : StrictWeak (lexLt lt) :=
  ⟨lexLt_asymm h, lexLt_negTrans h⟩

theorem natLt_strictWeak : StrictWeak (fun x y : Nat => decide (x < y)) :=
  ⟨by intro a b h; simp at h ⊢; omega, by intro a b c h; simp at h ⊢; omega⟩

theorem valLt_strictWeak : StrictWeak Val.lt := by
  have hs := lexLt_strictWeak natLt_strictWeak
  constructor
  · intro a b h
    cases a <;> cases b <;> simp only [Val.lt] at h ⊢
    · simp at h ⊢; exact le_of_lt h
    · simp at h
    · exact hs.asymm _ _ h
  · intro a b c h
    cases a <;> cases b <;> cases c <;> simp only [Val.lt] at h ⊢ <;> try simp at h
    · rename_i p q r
      simp
      by_cases hh : p < q
      · left; exact hh
      · right; exact lt_of_le_of_lt (not_lt.1 hh) h
    · simp
    · simp
    · simp
    · simp
    · exact hs.negTrans _ _ _ h

theorem keyLt_strictWeak : StrictWeak keyLt := lexLt_strictWeak valLt_strictWeak

theorem keyLe_total' (a b : Key) : keyLe a b = true ∨ keyLe b a = true := by
  unfold keyLe
  cases h : keyLt b a with
  | false => left; rfl
  | true => right; simp [keyLt_strictWeak.asymm b a h]

theorem keyLe_trans' (a b c : Key) (h1 : keyLe a b = true) (h2 : keyLe b c = true) : keyLe a c = true := by
  unfold keyLe at *
  cases h : keyLt c a with
  | false => rfl
  | true =>
    rcases keyLt_strictWeak.negTrans c b a h with h3 | h3
    · simp [h3] at h2
    · simp [h3] at h1

theorem decorate_ok {α} (keyOf : α → Except Err Key) (kf : α → Key) (l : List α)
    (hk : ∀ a ∈ l, keyOf a = .ok (kf a)) : decorate keyOf l = .ok (l.map (fun a => (kf a, a))) := by
  induction l with
  | nil => rfl
  | cons a l ih =>
    simp only [decorate, hk a (by simp), ih (fun b hb => hk b (by simp [hb])), List.map_cons]

theorem decorate_err {α} (keyOf : α → Except Err Key) (l : List α) (r : List (Key × α))
    (h : decorate keyOf l = .ok r) : ∀ a ∈ l, ∃ k, keyOf a = .ok k := by
  induction l generalizing r with
  | nil => simp
  | cons a l ih =>
    simp only [decorate] at h
    split at h
    · simp at h
    · rename_i k hk
      split at h
      · simp at h
      · rename_i r' hr'
        intro b hb
        rcases List.mem_cons.1 hb with rfl | hb
        · exact ⟨k, hk⟩
        · exact ih r' hr' b hb

theorem sortF_eq_sortBy' {α} (hasCtx : α → Bool) (ctx : α → Ctx) (keys : List Val) (kf : α → Key)
    (x : α) (xs : List α) (hc : hasCtx x = true)
    (hk : ∀ a ∈ x :: xs, sortKey keys (ctx x).isSparse (ctx a) = .ok (kf a)) :
    sortF hasCtx ctx keys (x :: xs) = .ok (sortBy keyLe kf (x :: xs)) := by
  simp only [sortF, hc, Bool.not_true, Bool.false_eq_true, ↓reduceIte]
  rw [decorate_ok _ kf _ hk]
  simp only
  congr 1
  unfold sortBy
  rw [isort_eq, isort_eq]
  rw [List.map_insertionSort (r := fun p q : Key × α => keyLe p.1 q.1 = true)
        (s := fun a b : α => keyLe (kf a) (kf b) = true) (fun p : Key × α => p.2)]
  · simp [Function.comp_def]
  · intro p hp q hq
    obtain ⟨a, _, rfl⟩ := List.mem_map.1 hp
    obtain ⟨b, _, rfl⟩ := List.mem_map.1 hq
    simp

theorem sortF_perm' {α} (hasCtx : α → Bool) (ctx : α → Ctx) (keys : List Val) (xs out : List α)
    (h : sortF hasCtx ctx keys xs = .ok out) : out.Perm xs := by
  cases xs with
  | nil => simp [sortF] at h; subst h; exact List.Perm.refl _
  | cons x xs =>
    simp only [sortF] at h
    split at h
    · injection h with h; subst h; exact List.Perm.refl _
    · split at h
      · simp at h
      · rename_i kxs hd
        injection h with h; subst h
        -- every key exists, so the decorated list is the input decorated by some key function
        have hex := decorate_err _ _ _ hd
        classical
        let kf : α → Key := fun a =>
          match sortKey keys (ctx x).isSparse (ctx a) with | .ok k => k | .error _ => []
        have hk : ∀ a ∈ x :: xs, sortKey keys (ctx x).isSparse (ctx a) = .ok (kf a) := by
          intro a ha
          obtain ⟨k, hk⟩ := hex a ha
          simp [kf, hk]
        have hd' := decorate_ok _ kf _ hk
        rw [hd] at hd'
        injection hd' with hd'
        subst hd'
        unfold sortBy
        rw [isort_eq]
        have hp := List.perm_insertionSort (fun p q : Key × α => keyLe p.1 q.1 = true)
          (List.map (fun a => (kf a, a)) (x :: xs))
        have := hp.map (fun p : Key × α => p.2)
        simpa [Function.comp_def] using this

/-! Where -/

theorem peek_inMinMax (mn mx : Option Nat) (n : Nat) :
    inMinMax (min (peekCount (mn, mx)) (n + 1)) mn mx = inMinMax (n + 1) mn mx := by
  cases mn with
  | none =>
    cases mx with
    | none => simp [inMinMax]
    | some b =>
      simp only [inMinMax, peekCount, Bool.true_and]
      congr 1
      apply propext
      constructor <;> intro h <;> omega
  | some a =>
    cases mx with
    | none =>
      simp only [inMinMax, peekCount, Bool.and_true]
      congr 1
      apply propext
      constructor <;> intro h <;> omega
    | some b =>
      simp only [inMinMax, peekCount]
      by_cases h1 : a ≤ n + 1 <;> by_cases h2 : n + 1 ≤ b
      · have e1 : a ≤ min (1 + b) (n + 1) := by omega
        have e2 : min (1 + b) (n + 1) ≤ b := by omega
        simp [h1, h2, e1, e2]
      · have e2 : ¬ min (1 + b) (n + 1) ≤ b := by omega
        simp [h2, e2]
      · have e1 : ¬ a ≤ min (1 + b) (n + 1) := by omega
        simp [h1, e1]
      · have e1 : ¬ a ≤ min (1 + b) (n + 1) := by omega
        simp [h1, e1]

theorem whereF_eq_spec' {α} (fetLen : α → Nat) (nAct : α → Nat) (nInt nActB nFet : Range) (xs : List α) :
    whereF fetLen nAct nInt nActB nFet xs = whereSpec fetLen nAct nInt nActB nFet xs := by
  cases xs with
  | nil => rfl
  | cons x xs =>
    obtain ⟨mn, mx⟩ := nInt
    obtain ⟨amn, amx⟩ := nActB
    simp only [whereF, whereSpec, List.length_take, List.length_cons]
    rw [peek_inMinMax mn mx xs.length]
    have hfilter : (x :: xs).filter (fun a => (amn.isNone && amx.isNone) || inMinMax (nAct a) amn amx)
        = (x :: xs).filter (fun a => inMinMax (nAct a) amn amx) := by
      congr 1
      funext a
      cases amn <;> cases amx <;> simp [inMinMax]
    rw [hfilter]
    cases inMinMax (xs.length + 1) mn mx <;> cases inMinMax (fetLen x) nFet.1 nFet.2 <;> simp

/-! Riffle -/

theorem popInsert_perm {α} (idx : Nat) (l : List α) : (popInsert idx l).Perm l := by
  unfold popInsert
  cases h : l.getLast? with
  | none => exact List.Perm.refl _
  | some z =>
    simp only
    have h1 : l.dropLast ++ [z] = l := List.dropLast_append_getLast? z (by simp [h])
    have h2 := List.perm_insertIdx z l.dropLast (i := min idx l.dropLast.length) (Nat.min_le_right _ _)
    refine h2.trans ?_
    have : (z :: l.dropLast).Perm (l.dropLast ++ [z]) := by
      simpa using (List.perm_append_singleton z l.dropLast).symm
    rw [h1] at this
    exact this

theorem riffleLoop_perm {α} (spacing k i s : Nat) (l : List α) : (riffleLoop spacing k i s l).Perm l := by
  induction k generalizing i s l with
  | zero => exact List.Perm.refl _
  | succ k ih =>
    simp only [riffleLoop]
    exact (ih _ _ _).trans (popInsert_perm _ _)

theorem riffle_perm' {α} (spacing s : Nat) (xs : List α) : (riffle spacing s xs).Perm xs :=
  riffleLoop_perm _ _ _ _ _

/-! chunks -/

theorem chunkGo_flatten {α} (k : Nat) (xs cur : List α) : (chunkGo k xs cur).flatten = cur ++ xs := by
  induction xs generalizing cur with
  | nil =>
    simp only [chunkGo]
    cases cur <;> simp
  | cons x xs ih =>
    simp only [chunkGo]
    split
    · simp [ih]
    · simp [ih]

theorem chunks_flatten' {α} (k : Nat) (xs : List α) : (chunks k xs).flatten = xs := by
  simpa [chunks] using chunkGo_flatten k xs []

theorem chunkGo_len {α} (k : Nat) (xs cur : List α) (hcur : cur.length < k) :
    ∀ b ∈ chunkGo k xs cur, 0 < b.length ∧ b.length ≤ k := by
  induction xs generalizing cur with
  | nil =>
    simp only [chunkGo]
    cases cur with
    | nil => simp
    | cons c cs => intro b hb; simp at hb; subst hb; simp at hcur ⊢; omega
  | cons x xs ih =>
    simp only [chunkGo]
    split
    · rename_i heq
      intro b hb
      rcases List.mem_cons.1 hb with rfl | hb
      · simp at heq ⊢; omega
      · exact ih [] (by simp; omega) b hb
    · rename_i hne
      exact ih (cur ++ [x]) (by simp at hne ⊢; omega)

theorem chunks_len' {α} (k : Nat) (hk : 0 < k) (xs : List α) :
    ∀ b ∈ chunks k xs, 0 < b.length ∧ b.length ≤ k := chunkGo_len k xs [] (by simpa using hk)

/-! records -/

def consCol {V} (k : String) (vs : List V) (rs : List (Rec V)) : List (Rec V) :=
  List.zipWith (fun v r => (k, v) :: r) vs rs

theorem decompose {V} (k : String) (ks : List String) (b : List (Rec V))
    (h : ∀ r ∈ b, r.map (·.1) = k :: ks) :
    ∃ vs rs, vs.length = rs.length ∧ b = consCol k vs rs ∧ ∀ r ∈ rs, r.map (·.1) = ks := by
  induction b with
  | nil => exact ⟨[], [], rfl, rfl, by simp⟩
  | cons r b ih =>
    obtain ⟨vs, rs, hl, hb, hr⟩ := ih (fun r hr => h r (by simp [hr]))
    have hr0 := h r (by simp)
    cases r with
    | nil => simp at hr0
    | cons p r' =>
      obtain ⟨k', v⟩ := p
      simp only [List.map_cons, List.cons.injEq] at hr0
      obtain ⟨hk, hr'⟩ := hr0
      subst hk
      refine ⟨v :: vs, r' :: rs, by simp [hl], by simp [consCol, hb], ?_⟩
      intro r hr2
      rcases List.mem_cons.1 hr2 with rfl | hr2
      · exact hr'
      · exact hr r hr2

theorem column_consCol_same {V} (k : String) (vs : List V) (rs : List (Rec V)) (hl : vs.length = rs.length) :
    column k (consCol k vs rs) = .ok vs := by
  induction vs generalizing rs with
  | nil => cases rs <;> simp_all [consCol, column]
  | cons v vs ih =>
    cases rs with
    | nil => simp at hl
    | cons r rs =>
      have := ih rs (by simpa using hl)
      simp only [consCol] at this
      simp [consCol, column, lookupKey, this]

theorem column_consCol_other {V} (k k' : String) (hne : k ≠ k') (vs : List V) (rs : List (Rec V))
    (hl : vs.length = rs.length) : column k' (consCol k vs rs) = column k' rs := by
  induction vs generalizing rs with
  | nil => cases rs <;> simp_all [consCol, column]
  | cons v vs ih =>
    cases rs with
    | nil => simp at hl
    | cons r rs =>
      have := ih rs (by simpa using hl)
      simp only [consCol] at this
      simp [consCol, column, lookupKey, hne, this]

theorem batchCols_consCol {V} (k : String) (ks : List String) (hk : k ∉ ks) (vs : List V) (rs : List (Rec V))
    (hl : vs.length = rs.length) : batchCols ks (consCol k vs rs) = batchCols ks rs := by
  induction ks with
  | nil => rfl
  | cons k' ks ih =>
    have hne : k ≠ k' := fun h => hk (by simp [h])
    simp only [batchCols, column_consCol_other k k' hne vs rs hl, ih (fun h => hk (by simp [h]))]

theorem unbatchCols_length {V} (cols : List (String × List V)) (n : Nat)
    (h : ∀ c ∈ cols, c.2.length = n) : (unbatchCols cols n).length = n := by
  induction cols with
  | nil => simp [unbatchCols]
  | cons c cols ih =>
    obtain ⟨k, vs⟩ := c
    simp only [unbatchCols, List.length_zipWith]
    rw [ih (fun c hc => h c (by simp [hc]))]
    have := h (k, vs) (by simp)
    simp at this
    omega

/-- transposing a batch of records with one common duplicate-free key list and transposing back -/
theorem transpose_id {V} (ks : List String) (hnd : ks.Nodup) (b : List (Rec V))
    (h : ∀ r ∈ b, r.map (·.1) = ks) :
    ∃ cols, batchCols ks b = .ok cols ∧ unbatchCols cols b.length = b ∧
      (∀ c ∈ cols, c.2.length = b.length) ∧ cols.map (·.1) = ks := by
  induction ks generalizing b with
  | nil =>
    refine ⟨[], rfl, ?_, by simp, rfl⟩
    simp only [unbatchCols]
    apply List.ext_getElem
    · simp
    · intro i h1 h2
      have := h b[i] (List.getElem_mem h2)
      simp at this
      simp [this]
  | cons k ks ih =>
    obtain ⟨hk, hnd'⟩ := List.nodup_cons.1 hnd
    obtain ⟨vs, rs, hl, hb, hr⟩ := decompose k ks b h
    obtain ⟨cols, hc, hu, hlen, hkeys⟩ := ih hnd' rs hr
    have hbl : b.length = rs.length := by rw [hb]; simp [consCol, hl]
    refine ⟨(k, vs) :: cols, ?_, ?_, ?_, by simp [hkeys]⟩
    · rw [hb]
      simp only [batchCols, column_consCol_same k vs rs hl, batchCols_consCol k ks hk vs rs hl, hc]
    · simp only [unbatchCols]
      rw [hbl, hu]
      exact hb.symm
    · intro c hc'
      rcases List.mem_cons.1 hc' with rfl | hc'
      · simp [hl, hbl]
      · rw [hbl]; exact hlen c hc'

theorem unbatchOne_batch {V} (ks : List String) (hne : ks ≠ []) (hnd : ks.Nodup) (b : List (Rec V))
    (h : ∀ r ∈ b, r.map (·.1) = ks) :
    ∃ cols, batchCols ks b = .ok cols ∧ unbatchOne (.batch cols) = b := by
  obtain ⟨cols, hc, hu, hlen, hkeys⟩ := transpose_id ks hnd b h
  refine ⟨cols, hc, ?_⟩
  cases cols with
  | nil => simp at hkeys; exact absurd hkeys hne
  | cons c cols =>
    obtain ⟨k, vs⟩ := c
    have : vs.length = b.length := by simpa using hlen (k, vs) (by simp)
    simp only [unbatchOne, this]
    exact hu

theorem batchAll_unbatch {V} (ks : List String) (hne : ks ≠ []) (hnd : ks.Nodup) (bs : List (List (Rec V)))
    (h : ∀ b ∈ bs, ∀ r ∈ b, r.map (·.1) = ks) :
    ∃ cs, batchAll ks bs = .ok cs ∧ (cs.map Batched.batch).flatMap unbatchOne = bs.flatten := by
  induction bs with
  | nil => exact ⟨[], rfl, rfl⟩
  | cons b bs ih =>
    obtain ⟨cs, hcs, hfl⟩ := ih (fun b hb => h b (by simp [hb]))
    obtain ⟨cols, hc, hu⟩ := unbatchOne_batch ks hne hnd b (h b (by simp))
    refine ⟨cols :: cs, by simp [batchAll, hc, hcs], ?_⟩
    simp only [List.map_cons, List.flatMap_cons, List.flatten_cons, hu, hfl]

theorem unbatchF_plain {V} (xs : List (Rec V)) : unbatchF (xs.map Batched.plain) = xs := by
  cases xs with
  | nil => rfl
  | cons x xs =>
    simp only [List.map_cons, unbatchF]
    congr 1
    induction xs with
    | nil => rfl
    | cons y ys ih => simp [List.flatMap_cons, ih]

theorem unbatchF_batches {V} (cs : List (List (String × List V))) :
    unbatchF (cs.map Batched.batch) = (cs.map Batched.batch).flatMap unbatchOne := by
  cases cs with
  | nil => rfl
  | cons c cs => simp [unbatchF]

theorem batch_unbatch_id' {V} (size : Nat) (ks : List String) (hne : ks ≠ []) (xs : List (Rec V))
    (hu : uniformKeys ks xs) : ∃ bs, batchF size xs = .ok bs ∧ unbatchF bs = xs := by
  obtain ⟨hnd, hk⟩ := hu
  cases xs with
  | nil => exact ⟨[], rfl, rfl⟩
  | cons x xs =>
    simp only [batchF]
    by_cases hs : size = 0
    · simp only [hs, ↓reduceIte]
      exact ⟨_, rfl, unbatchF_plain _⟩
    · simp only [hs, ↓reduceIte]
      have hx : x.map (·.1) = ks := hk x (by simp)
      rw [hx]
      have hmem : ∀ b ∈ chunks size (x :: xs), ∀ r ∈ b, r.map (·.1) = ks := by
        intro b hb r hr
        apply hk
        rw [← chunks_flatten' size (x :: xs)]
        exact List.mem_flatten.2 ⟨b, hb, hr⟩
      obtain ⟨cs, hcs, hfl⟩ := batchAll_unbatch ks hne hnd _ hmem
      rw [hcs]
      refine ⟨_, rfl, ?_⟩
      rw [unbatchF_batches, hfl, chunks_flatten']

/-! Cache -/

theorem cacheRead_spec {α} (nSlice : Nat) (items : List α) (st : Option (CacheSt α)) (k : Option Nat)
    (h : cacheInv items st) :
    cacheInv items (cacheRead nSlice items st k).1 ∧ (cacheRead nSlice items st k).2 = readSpec items k := by
  cases k with
  | some k =>
    cases k with
    | zero => simp [cacheRead, readSpec, h]
    | succ k =>
      cases st with
      | none =>
        simp [cacheRead, readSpec, cacheInv]
      | some st =>
        obtain ⟨cache, rest⟩ := st
        cases rest with
        | none =>
          simp only [cacheInv] at h
          simp [cacheRead, readSpec, cacheInv, h]
        | some rest =>
          simp only [cacheInv] at h
          simp only [cacheRead, readSpec, cacheInv, List.append_assoc, List.take_append_drop]
          exact ⟨h, by rw [h]⟩
  | none =>
    cases st with
    | none => simp [cacheRead, readSpec, cacheInv]
    | some st =>
      obtain ⟨cache, rest⟩ := st
      cases rest with
      | none =>
        simp only [cacheInv] at h
        simp [cacheRead, readSpec, cacheInv, h]
      | some rest =>
        simp only [cacheInv] at h
        simp [cacheRead, readSpec, cacheInv, h]

theorem cacheRun_spec {α} (nSlice : Nat) (items : List α) (st : Option (CacheSt α)) (h : cacheInv items st)
    (reads : List (Option Nat)) : cacheRun nSlice items st reads = reads.map (readSpec items) := by
  induction reads generalizing st with
  | nil => rfl
  | cons k ks ih =>
    obtain ⟨h1, h2⟩ := cacheRead_spec nSlice items st k h
    simp only [cacheRun, List.map_cons, h2, ih _ h1]

/-! naturality -/

theorem pShuffle_map' {α β} (f : α → β) (s : Nat) (xs : List α) :
    pShuffle s (xs.map f) = (pShuffle s xs).map f := by
  simp [pShuffle, shuffle_map']

theorem take_map' {α β} (f : α → β) (c : Option Nat) (strict : Bool) (xs : List α) :
    take c strict (xs.map f) = (take c strict xs).map f := by
  cases c with
  | none => rfl
  | some n =>
    simp only [take, List.length_take, List.length_map, ← List.map_take]
    split <;> simp

theorem every_map {α β} (f : α → β) (step : Nat) (xs : List α) (k : Nat) :
    every step (xs.map f) k = (every step xs k).map f := by
  induction xs generalizing k with
  | nil => simp [every]
  | cons x xs ih =>
    cases k with
    | zero => simp [every, ih]
    | succ k => simp [every, ih]

theorem slice_map' {α β} (f : α → β) (start stop : Option Nat) (step : Nat) (xs : List α) :
    slice start stop step (xs.map f) = (slice start stop step xs).map f := by
  unfold slice
  cases stop with
  | none => simp only [← List.map_drop, every_map]
  | some st => simp only [← List.map_take, ← List.map_drop, every_map]

theorem resLoop_map {α β} (f : α → β) (steps : List Step) (rest res : List α) :
    resLoop steps (rest.map f) (res.map f) = (resLoop steps rest res).map (List.map f) := by
  induction steps generalizing rest res with
  | nil => rfl
  | cons st steps ih =>
    cases st with
    | raise e => rfl
    | skip S slot =>
      simp only [resLoop, ← List.map_drop]
      cases h : rest.drop S with
      | nil => simp [Except.map]
      | cons y rest' =>
        simp only [List.map_cons, List.length_map]
        split
        · rw [← List.map_set, ih]
        · rfl

theorem reservoir_map' {α β} (f : α → β) (count : Option Nat) (strict : Bool) (s : Nat) (steps : List Step)
    (xs : List α) :
    reservoir count strict s steps (xs.map f) = (reservoir count strict s steps xs).map (List.map f) := by
  cases count with
  | none => simp [reservoir, shuffle_map', Except.map]
  | some n =>
    cases n with
    | zero => simp [reservoir, Except.map]
    | succ n =>
      simp only [reservoir, ← List.map_take, ← List.map_drop, List.length_map, shuffle_map']
      split
      · cases strict <;> simp [Except.map]
      · rw [resLoop_map]

theorem popInsert_map {α β} (f : α → β) (idx : Nat) (l : List α) :
    popInsert idx (l.map f) = (popInsert idx l).map f := by
  unfold popInsert
  rw [List.getLast?_map]
  cases h : l.getLast? with
  | none => simp
  | some z =>
    simp only [Option.map_some]
    rw [List.map_insertIdx, List.map_dropLast]
    simp

theorem riffleLoop_map {α β} (f : α → β) (spacing k i s : Nat) (l : List α) :
    riffleLoop spacing k i s (l.map f) = (riffleLoop spacing k i s l).map f := by
  induction k generalizing i s l with
  | zero => rfl
  | succ k ih => simp only [riffleLoop, popInsert_map, ih]

theorem riffle_map' {α β} (f : α → β) (spacing s : Nat) (xs : List α) :
    riffle spacing s (xs.map f) = (riffle spacing s xs).map f := by
  simp [riffle, riffleLoop_map]

theorem whereF_map' {α β} (f : α → β) (fetLen nAct : β → Nat) (nInt nActB nFet : Range) (xs : List α) :
    whereF fetLen nAct nInt nActB nFet (xs.map f)
      = (whereF (fetLen ∘ f) (nAct ∘ f) nInt nActB nFet xs).map f := by
  cases xs with
  | nil => rfl
  | cons x xs =>
    simp only [List.map_cons, whereF, List.length_take, List.length_cons, List.length_map, Function.comp]
    split
    · rfl
    · split
      · rfl
      · rw [← List.map_cons, List.filter_map]
        rfl

theorem sortBy_map' {α β K} (f : α → β) (le : K → K → Bool) (key : β → K) (xs : List α) :
    sortBy le key (xs.map f) = (sortBy le (key ∘ f) xs).map f := by
  unfold sortBy
  rw [isort_eq, isort_eq]
  symm
  apply List.map_insertionSort
  intro a _ b _
  simp

theorem resLoop_total {α} (steps : List Step) (rest res : List α)
    (hs : ∀ st ∈ steps, st.okFor res.length = true) (hl : rest.length < steps.length) :
    ∃ out, resLoop steps rest res = .ok out := by
  induction steps generalizing rest res with
  | nil => simp at hl
  | cons st steps ih =>
    cases st with
    | raise e => have := hs (.raise e) (by simp); simp [Step.okFor] at this
    | skip S slot =>
      have hslot : slot < res.length := by
        have := hs (.skip S slot) (by simp); simpa [Step.okFor] using this
      simp only [resLoop]
      cases h : rest.drop S with
      | nil => exact ⟨res, rfl⟩
      | cons y rest' =>
        simp only [hslot, ↓reduceIte]
        apply ih
        · intro st hst
          have := hs st (by simp [hst])
          simpa using this
        · have : (rest.drop S).length = rest'.length + 1 := by rw [h]; simp
          simp at this hl
          omega

theorem reservoir_total' {α} (count : Option Nat) (strict : Bool) (s : Nat) (steps : List Step) (xs : List α)
    (hs : ∀ n, count = some n → ∀ st ∈ steps, st.okFor n = true) (hl : xs.length < steps.length) :
    ∃ out, reservoir count strict s steps xs = .ok out := by
  cases count with
  | none => exact ⟨_, rfl⟩
  | some n =>
    cases n with
    | zero => exact ⟨_, rfl⟩
    | succ n =>
      simp only [reservoir, List.length_take]
      split
      · exact ⟨_, rfl⟩
      · rename_i hge
        apply resLoop_total
        · have hlen : (C05.shuffle s (List.take (n + 1) xs)).2.length = n + 1 := by
            rw [(C05.shuffle_perm' s _).length_eq, List.length_take]; omega
          rw [hlen]
          exact hs (n+1) rfl
        · simp; omega

theorem sort_spec' {α} (hasCtx : α → Bool) (ctx : α → Ctx) (keys : List Val) (kf : α → Key)
    (x : α) (xs : List α) (hc : hasCtx x = true)
    (hk : ∀ a ∈ x :: xs, sortKey keys (ctx x).isSparse (ctx a) = .ok (kf a)) :
    ∃ out, sortF hasCtx ctx keys (x :: xs) = .ok out ∧ out.Perm (x :: xs) ∧
      out.Pairwise (fun a b => keyLe (kf a) (kf b) = true) ∧
      (∀ a b, keyLe (kf a) (kf b) = true → [a, b].Sublist (x :: xs) → [a, b].Sublist out) :=
  ⟨_, sortF_eq_sortBy' hasCtx ctx keys kf x xs hc hk, sortBy_spec' keyLe kf keyLe_total' keyLe_trans' (x :: xs)⟩

theorem sort_class' {α} (hasCtx : α → Bool) (ctx : α → Ctx) (keys : List Val) (kf : α → Key)
    (x : α) (xs : List α) (hc : hasCtx x = true)
    (hk : ∀ a ∈ x :: xs, sortKey keys (ctx x).isSparse (ctx a) = .ok (kf a)) (k : Key) :
    ∃ out, sortF hasCtx ctx keys (x :: xs) = .ok out ∧
      out.filter (fun a => decide (kf a = k)) = (x :: xs).filter (fun a => decide (kf a = k)) := by
  refine ⟨_, sortF_eq_sortBy' hasCtx ctx keys kf x xs hc hk, ?_⟩
  apply sortBy_stable_class'
  intro a b ha hb
  simp only [decide_eq_true_eq] at ha hb
  rw [ha, hb]
  rcases keyLe_total' k k with h | h <;> exact h

theorem sort_passthrough' {α} (hasCtx : α → Bool) (ctx : α → Ctx) (keys : List Val)
    (x : α) (xs : List α) (hc : hasCtx x = false) : sortF hasCtx ctx keys (x :: xs) = .ok (x :: xs) := by
  simp [sortF, hc]

theorem take_strict' {α} (n : Nat) (xs : List α) :
    take (some n) true xs = (if n ≤ xs.length then xs.take n else []) ∧
    ((take (some n) true xs).length = n ∨ take (some n) true xs = []) := by
  rw [take_eq_spec']
  simp only [takeSpec, Bool.true_and, decide_eq_true_eq]
  by_cases h : xs.length < n
  · have : ¬ n ≤ xs.length := by omega
    simp [h, this]
  · have h' : n ≤ xs.length := by omega
    simp [h, h', List.length_take]

theorem take_prefix' {α} (n : Nat) (xs : List α) :
    take (some n) false xs = xs.take n ∧ (take (some n) false xs).length = min n xs.length := by
  simp [take, List.length_take]

theorem reservoir_strict' {α} (n s : Nat) (steps : List Step) (xs out : List α)
    (h : reservoir (some n) true s steps xs = .ok out) : out.length = n ∨ out = [] := by
  have := (reservoir_spec' _ _ _ _ _ _ h).2
  simp only [reservoirSize, Bool.true_and, decide_eq_true_eq] at this
  by_cases hlt : xs.length < n
  · right; simp [hlt] at this; exact this
  · left; simp [hlt] at this; omega


/-! # Phase 2 -/

/-! BatchSafe -/
theorem chunkGo_head {α} (k : Nat) (xs cur : List α) (hcur : cur.length < k) (hne : cur ++ xs ≠ []) :
    ∃ rest, chunkGo k xs cur = (cur ++ xs.take (k - cur.length)) :: rest := by
  induction xs generalizing cur with
  | nil =>
    simp only [chunkGo]
    cases cur with
    | nil => simp at hne
    | cons c cs => exact ⟨[], by simp⟩
  | cons x xs ih =>
    simp only [chunkGo]
    split
    · rename_i heq
      simp at heq
      refine ⟨chunkGo k xs [], ?_⟩
      have : k - cur.length = 1 := by omega
      simp [this]
    · rename_i hne'
      simp at hne'
      obtain ⟨rest, hr⟩ := ih (cur ++ [x]) (by simp; omega) (by simp)
      refine ⟨rest, ?_⟩
      rw [hr]
      have : k - cur.length = (k - (cur ++ [x]).length) + 1 := by simp; omega
      rw [this]
      simp

theorem chunks_head {α} (k : Nat) (hk : 0 < k) (xs : List α) (hne : xs ≠ []) :
    ∃ rest, chunks k xs = xs.take k :: rest := by
  have := chunkGo_head k xs [] (by simpa using hk) (by simpa using hne)
  simpa [chunks] using this

theorem batchF_first {V} (size : Nat) (hs : 0 < size) (ks : List String) (hne : ks ≠ []) (recs : List (Rec V))
    (hr : recs ≠ []) (hu : uniformKeys ks recs) (bs : List (Batched V)) (hb : batchF size recs = .ok bs) :
    ∃ first rest, bs = first :: rest ∧ firstBatchSize first = min size recs.length ∧ unbatchF bs = recs := by
  obtain ⟨bs', hb', hub⟩ := batch_unbatch_id' size ks hne recs hu
  rw [hb] at hb'
  injection hb' with hb'
  subst hb'
  obtain ⟨hnd, hk⟩ := hu
  cases recs with
  | nil => exact absurd rfl hr
  | cons x xs =>
    simp only [batchF, Nat.ne_of_gt hs, ↓reduceIte] at hb
    have hx : x.map (·.1) = ks := hk x (by simp)
    rw [hx] at hb
    obtain ⟨rest, hch⟩ := chunks_head size hs (x :: xs) (by simp)
    rw [hch] at hb
    simp only [batchAll] at hb
    have hmem : ∀ r ∈ (x :: xs).take size, r.map (·.1) = ks := fun r hr' => hk r (List.mem_of_mem_take hr')
    obtain ⟨cols, hc, _, hlen, hkeys⟩ := transpose_id ks hnd _ hmem
    rw [hc] at hb
    cases hcs : batchAll ks rest with
    | error e => simp [hcs] at hb
    | ok cs =>
      simp only [hcs] at hb
      injection hb with hb
      subst hb
      refine ⟨.batch cols, cs.map .batch, by simp, ?_, hub⟩
      cases cols with
      | nil => simp at hkeys; exact absurd hkeys hne
      | cons c cols =>
        obtain ⟨k, vs⟩ := c
        have := hlen (k, vs) (by simp)
        simp only [firstBatchSize]
        simpa [List.length_take] using this

theorem batchSafe_nil' {V} (G : List (Batched V) → Except Err (List (Batched V))) : batchSafe G [] = .ok [] := rfl

theorem batchSafe_plain' {V} (G : List (Batched V) → Except Err (List (Batched V))) (r : Rec V) (rest : List (Batched V)) :
    batchSafe G (.plain r :: rest) = G (.plain r :: rest) := by
  simp [batchSafe, firstBatchSize]

theorem batchSafe_batched' {V} (G : List (Batched V) → Except Err (List (Batched V)))
    (size : Nat) (hs : 0 < size) (ks : List String) (hne : ks ≠ []) (recs : List (Rec V))
    (hr : recs ≠ []) (hu : uniformKeys ks recs) (bs : List (Batched V)) (hb : batchF size recs = .ok bs) :
    batchSafe G bs = (match G (recs.map .plain) with
      | .error e => .error e
      | .ok ys => batchF (min size recs.length) (unbatchF ys)) := by
  obtain ⟨first, rest, hbs, hsz, hub⟩ := batchF_first size hs ks hne recs hr hu bs hb
  subst hbs
  have hpos : min size recs.length ≠ 0 := by
    have : 0 < recs.length := List.length_pos_of_ne_nil hr
    omega
  simp only [batchSafe, hsz, hpos, ↓reduceIte, hub]
  cases G (List.map Batched.plain recs) <;> rfl

theorem liftF_plain {V} (F : List (Rec V) → Except Err (List (Rec V))) (recs : List (Rec V)) :
    liftF F (recs.map .plain) = (match F recs with | .error e => .error e | .ok ys => .ok (ys.map .plain)) := by
  simp only [liftF, unbatchF_plain]
  cases F recs <;> rfl

theorem batchsafe_eq_plain' {V} (F : List (Rec V) → Except Err (List (Rec V))) :
    (batchSafe (liftF F) [] = .ok []) ∧
    (∀ recs : List (Rec V), recs ≠ [] →
      batchSafe (liftF F) (recs.map .plain) = (match F recs with | .error e => .error e | .ok ys => .ok (ys.map .plain))) ∧
    (∀ (size : Nat) (ks : List String) (recs : List (Rec V)) (bs : List (Batched V)),
      0 < size → ks ≠ [] → recs ≠ [] → uniformKeys ks recs → batchF size recs = .ok bs →
      batchSafe (liftF F) bs = (match F recs with | .error e => .error e | .ok ys => batchF (min size recs.length) ys)) := by
  refine ⟨rfl, ?_, ?_⟩
  · intro recs hr
    cases recs with
    | nil => exact absurd rfl hr
    | cons r rest =>
      rw [List.map_cons, batchSafe_plain', ← List.map_cons, liftF_plain]
  · intro size ks recs bs hs hne hr hu hb
    rw [batchSafe_batched' _ size hs ks hne recs hr hu bs hb, liftF_plain]
    cases F recs with
    | error e => rfl
    | ok ys => simp [unbatchF_plain]

/-! collections -/
theorem collection_pointwise' {σ E β} (f : Filt σ E β) (envs : Nat → E) (st : Nat → σ)
    (h : List (Nat × Option Nat)) (k : Nat) :
    ((runColl f envs st h).filter (·.1 = k)).map (·.2)
      = runAlone f (envs k) (st k) ((h.filter (·.1 = k)).map (·.2)) := by
  induction h generalizing st with
  | nil => simp [runColl, runAlone]
  | cons p h ih =>
    obtain ⟨j, c⟩ := p
    simp only [runColl]
    by_cases hjk : j = k
    · subst hjk
      simp [runAlone, ih]
    · have : (fun i => if i = j then (f.read (st j) (envs j) c).1 else st i) k = st k := by
        simp [Ne.symm hjk]
      simp [hjk, ih, this]

theorem runAlone_cache {α} (nSlice : Nat) (items : List α) (st : Option (CacheSt α)) (h : cacheInv items st)
    (reads : List (Option Nat)) : runAlone (cacheFilt nSlice) items st reads = reads.map (readSpec items) := by
  induction reads generalizing st with
  | nil => rfl
  | cons c cs ih =>
    obtain ⟨h1, h2⟩ := cacheRead_spec nSlice items st c h
    simp only [runAlone, cacheFilt, List.map_cons]
    rw [h2]
    congr 1
    exact ih _ h1

theorem collection_cache' {α} (nSlice : Nat) (envs : Nat → List α) (h : List (Nat × Option Nat)) (k : Nat) :
    ((runColl (cacheFilt nSlice) envs (fun _ => none) h).filter (·.1 = k)).map (·.2)
      = ((h.filter (·.1 = k)).map (·.2)).map (readSpec (envs k)) := by
  rw [collection_pointwise']
  exact runAlone_cache nSlice (envs k) none trivial _

theorem runAlone_stateless {E α} (F : E → Except Err (List α)) (env : E) (reads : List (Option Nat)) :
    runAlone (statelessFilt F) env () reads = reads.map (fun c => ((statelessFilt F).read () env c).2) := by
  induction reads with
  | nil => rfl
  | cons c cs ih => simp only [runAlone, List.map_cons]; congr 1

theorem collection_stateless' {E α} (F : E → Except Err (List α)) (envs : Nat → E) (h : List (Nat × Option Nat)) (k : Nat) :
    ((runColl (statelessFilt F) envs (fun _ => ()) h).filter (·.1 = k)).map (·.2)
      = ((h.filter (·.1 = k)).map (·.2)).map (fun c => ((statelessFilt F).read () (envs k) c).2) := by
  rw [collection_pointwise']
  exact runAlone_stateless F (envs k) _

theorem shared_cex : runShared (cacheFilt 25) (fun k => if k = 0 then [1, 2] else [3]) none [(0, none), (1, none)]
    = [(0, [1, 2]), (1, [1, 2])] := by decide

/-! seeds -/
theorem seed_int_congr' (a b : Int) (h : a % (C05.M : Int) = b % (C05.M : Int)) :
    Seed.norm (.int a) = Seed.norm (.int b) := by
  simp [Seed.norm, C05.normInt, h]

/-! Reservoir with float formulas -/
theorem floatSteps_ok {R} (ops : FloatOps R) (U : R → Prop) (laws : FloatLaws ops U) (count : Nat) (hc : 0 < count)
    (W : R) (hW : W = ops.one ∨ U W) (ts : List (Nat × Nat × Nat))
    (hts : ∀ t ∈ ts, t.1 < C05.M ∧ t.2.1 < C05.M ∧ t.2.2 < C05.M) :
    (∀ st ∈ floatSteps ops count W ts, st.okFor count = true) ∧
    (floatSteps ops count W ts).length = (ts.filter guardOk).length := by
  induction ts generalizing W with
  | nil => simp [floatSteps]
  | cons t ts ih =>
    obtain ⟨k1, k2, k3⟩ := t
    have ht := hts (k1, k2, k3) (by simp)
    have hts' : ∀ t ∈ ts, t.1 < C05.M ∧ t.2.1 < C05.M ∧ t.2.2 < C05.M := fun t h => hts t (by simp [h])
    simp only [floatSteps]
    by_cases hg : guardOk (k1, k2, k3) = true
    · simp only [hg, ↓reduceIte, List.filter_cons_of_pos]
      have hk : k1 ≠ 0 ∧ k2 ≠ 0 := by simpa [guardOk] using hg
      have hr1 : U (ops.ofUnif k1) := laws.unif k1 (Nat.pos_of_ne_zero hk.1) ht.1
      have hr2 : U (ops.ofUnif k2) := laws.unif k2 (Nat.pos_of_ne_zero hk.2) ht.2.1
      have hp : U (ops.pw (ops.ofUnif k1) (ops.inv count)) := laws.pw_unit _ _ hr1 hc
      have hW' : U (ops.mul W (ops.pw (ops.ofUnif k1) (ops.inv count))) := by
        rcases hW with rfl | hW
        · exact laws.mul_one _ hp
        · exact laws.mul_unit _ _ hW hp
      have hbase := laws.oneMinus_unit _ hW'
      have hstep : floatStep ops count W k1 k2 k3 =
          (ops.mul W (ops.pw (ops.ofUnif k1) (ops.inv count)),
           .skip (ops.quotFloor (ops.lg (ops.ofUnif k2)) (ops.lg (ops.oneMinus (ops.mul W (ops.pw (ops.ofUnif k1) (ops.inv count))))))
                 (ops.slot (ops.ofUnif k3) count)) := by
        simp [floatStep, laws.pos_unit _ hr2, laws.pos_unit _ hbase, laws.lg_ne_zero _ hbase]
      simp only [hstep]
      obtain ⟨h1, h2⟩ := ih _ (Or.inr hW') hts'
      constructor
      · intro st hst
        rcases List.mem_cons.1 hst with rfl | hst
        · simpa [Step.okFor] using laws.slot_lt k3 count ht.2.2 hc
        · exact h1 st hst
      · simp [h2]
    · have hg' : guardOk (k1, k2, k3) = false := by simpa using hg
      simp only [hg', Bool.false_eq_true, ↓reduceIte]
      rw [List.filter_cons_of_neg (by simp [hg'])]
      exact ih W hW hts'

theorem triples_lt (s n : Nat) : ∀ t ∈ triples s n, t.1 < C05.M ∧ t.2.1 < C05.M ∧ t.2.2 < C05.M := by
  induction n generalizing s with
  | zero => simp [triples]
  | succ n ih =>
    intro t ht
    simp only [triples, List.mem_cons] at ht
    rcases ht with rfl | ht
    · exact ⟨C05.next_lt _, C05.next_lt _, C05.next_lt _⟩
    · exact ih _ t ht

theorem reservoir_total_laws' {R α} (ops : FloatOps R) (U : R → Prop) (laws : FloatLaws ops U)
    (n : Nat) (strict : Bool) (s : Nat) (ts : List (Nat × Nat × Nat)) (xs : List α)
    (hts : ∀ t ∈ ts, t.1 < C05.M ∧ t.2.1 < C05.M ∧ t.2.2 < C05.M)
    (hl : xs.length < (ts.filter guardOk).length) :
    ∃ out, reservoir (some n) strict s (floatSteps ops n ops.one ts) xs = .ok out := by
  cases n with
  | zero => exact ⟨_, rfl⟩
  | succ n =>
    obtain ⟨h1, h2⟩ := floatSteps_ok ops U laws (n+1) (Nat.succ_pos n) ops.one (Or.inl rfl) ts hts
    apply reservoir_total'
    · intro m hm st hst
      cases hm
      exact h1 st hst
    · rw [h2]; exact hl

theorem reservoirF_total' {R α} (ops : FloatOps R) (U : R → Prop) (laws : FloatLaws ops U)
    (count : Option Nat) (strict : Bool) (s nT : Nat) (xs : List α)
    (hl : ∀ n, count = some n → xs.length < ((triples (reservoirState count s xs) nT).filter guardOk).length) :
    ∃ out, reservoirF ops count strict s nT xs = .ok out := by
  cases count with
  | none => exact ⟨_, rfl⟩
  | some n =>
    simp only [reservoirF]
    exact reservoir_total_laws' ops U laws n strict s _ xs (triples_lt _ _) (hl n rfl)

theorem ratOps_laws : FloatLaws ratOps (fun x : Rat => 0 < x ∧ x < 1) where
  unif k h0 hM := by
    have hMq : (0 : Rat) < (C05.M : Rat) := C05.MQ_pos
    simp only [ratOps]
    constructor
    · have : (0 : Rat) < (k : Rat) := by exact_mod_cast h0
      positivity
    · rw [div_lt_one hMq]; exact_mod_cast hM
  pw_unit r n hr _ := hr
  mul_one p hp := by simpa [ratOps] using hp
  mul_unit w p hw hp := by
    simp only [ratOps]
    exact ⟨mul_pos hw.1 hp.1, by nlinarith [hw.1, hw.2, hp.1, hp.2]⟩
  oneMinus_unit w hw := by simp only [ratOps]; constructor <;> linarith [hw.1, hw.2]
  pos_unit r hr := by simp [ratOps, hr.1]
  lg_ne_zero r hr := by
    simp only [ratOps, decide_eq_false_iff_not]
    intro h; linarith [hr.2]
  slot_lt k n hk hn := by
    simp only [ratOps]
    have hMq : (0 : Rat) < (C05.M : Rat) := C05.MQ_pos
    have hnq : (0 : Rat) < (n : Rat) := by exact_mod_cast hn
    have hk' : (k : Rat) < (C05.M : Rat) := by exact_mod_cast hk
    have h0 : (0 : Rat) ≤ (k : Rat) / (C05.M : Rat) * (n : Rat) := by positivity
    have h1 : (k : Rat) / (C05.M : Rat) * (n : Rat) < (n : Rat) := by
      have : (k : Rat) / (C05.M : Rat) < 1 := by rw [div_lt_one hMq]; exact hk'
      nlinarith
    have hf0 : (0 : Int) ≤ ((k : Rat) / (C05.M : Rat) * (n : Rat)).floor := Rat.le_floor_iff.2 (by exact_mod_cast h0)
    have hf1 : ((k : Rat) / (C05.M : Rat) * (n : Rat)).floor < (n : Int) := Rat.floor_lt_iff.2 (by exact_mod_cast h1)
    omega

theorem isort_all_le {α} (le : α → α → Bool) (h : ∀ a b, le a b = true) (l : List α) : isort le l = l := by
  induction l with
  | nil => rfl
  | cons a l ih =>
    simp only [isort, ih]
    cases l with
    | nil => rfl
    | cons b l => simp [insertBy, h]

/-- no keys on sparse contexts: the key of an interaction is the list of its context's key NAMES -/
theorem sort_sparse_nokeys_key' (b : Bool) (kvs : List (Val × Val)) :
    sortKey [] b (.sparse kvs) = .ok (kvs.map (·.1)) := rfl

/-- …so interactions whose sparse contexts carry the same names (whatever the values) all tie and
`Sort()` returns them in their input order -/
theorem sort_sparse_nokeys_same_names' {α} (hasCtx : α → Bool) (ctx : α → Ctx) (names : List Val)
    (x : α) (xs : List α) (hc : hasCtx x = true)
    (hn : ∀ a ∈ x :: xs, ∃ kvs, ctx a = .sparse kvs ∧ kvs.map (·.1) = names) :
    sortF hasCtx ctx [] (x :: xs) = .ok (x :: xs) := by
  have hk : ∀ a ∈ x :: xs, sortKey [] (ctx x).isSparse (ctx a) = .ok ((fun _ => names) a) := by
    intro a ha
    obtain ⟨kvs, h1, h2⟩ := hn a ha
    rw [h1, sort_sparse_nokeys_key', h2]
  rw [sortF_eq_sortBy' hasCtx ctx [] (fun _ => names) x xs hc hk]
  congr 1
  unfold sortBy
  apply isort_all_le
  intro a b
  rcases keyLe_total' names names with h | h <;> exact h

theorem sort_ok_all_keys' {α} (hasCtx : α → Bool) (ctx : α → Ctx) (keys : List Val)
    (x : α) (xs out : List α) (hc : hasCtx x = true) (h : sortF hasCtx ctx keys (x :: xs) = .ok out) :
    ∀ a ∈ x :: xs, ∃ k, sortKey keys (ctx x).isSparse (ctx a) = .ok k := by
  simp only [sortF, hc, Bool.not_true, Bool.false_eq_true, ↓reduceIte] at h
  split at h
  · simp at h
  · rename_i kxs hd
    exact decorate_err _ _ _ hd

theorem sort_sparse_missing_key' (keys : List Val) (hk : keys ≠ []) (kvs : List (Val × Val)) :
    sortKey keys true (.sparse kvs) = .ok (keys.map (fun k => match lookupVal k kvs with | some v => v | none => .num 0)) := by
  cases keys with
  | nil => exact absurd rfl hk
  | cons k ks => rfl

theorem sort_dense_short' (k : Nat) (vs : List Val) (h : vs.length ≤ k) :
    sortKey [.num (k : Rat)] false (.dense vs) = .error .indexError := by
  have hq : ((k : Rat)).den = 1 := by simp
  have hn : ((k : Rat)).num = (k : Int) := by simp
  simp only [sortKey, Bool.false_eq_true, ↓reduceIte, subscripts, subscript, hq, hn, pyIndex]
  have : vs[k]? = none := List.getElem?_eq_none (by omega)
  simp [this]

theorem eShuffle_map' {α β} (f : α → β) (isLogged : β → Bool) (sP sL : Nat) (xs : List α) :
    eShuffle isLogged sP sL (xs.map f) = (eShuffle (isLogged ∘ f) sP sL xs).map f := by
  cases xs with
  | nil => rfl
  | cons x xs =>
    simp only [List.map_cons, eShuffle, Function.comp]
    rw [← List.map_cons, pShuffle_map']

theorem reservoirState_map {α β} (f : α → β) (count : Option Nat) (s : Nat) (xs : List α) :
    reservoirState count s (xs.map f) = reservoirState count s xs := by
  cases count with
  | none => simp [reservoirState, shuffle_map']
  | some n => simp [reservoirState, ← List.map_take, shuffle_map']

theorem reservoirF_map' {R α β} (f : α → β) (ops : FloatOps R) (count : Option Nat) (strict : Bool) (s nT : Nat)
    (xs : List α) :
    reservoirF ops count strict s nT (xs.map f) = (reservoirF ops count strict s nT xs).map (List.map f) := by
  simp only [reservoirF, reservoirState_map, reservoir_map']

theorem seeded_det' {α β} (f : α → β) (sd lsd : Seed) (xs : List α) :
    shuffleSeeded sd (xs.map f) = (shuffleSeeded sd xs).map f ∧
    (∀ sp, riffleSeeded sp sd (xs.map f) = (riffleSeeded sp sd xs).map f) ∧
    (∀ isLogged : β → Bool,
      eShuffleSeeded isLogged sd lsd (xs.map f) = (eShuffleSeeded (isLogged ∘ f) sd lsd xs).map f) ∧
    (∀ {R} (ops : FloatOps R) c strict nT,
      reservoirF ops c strict sd.norm nT (xs.map f) = (reservoirF ops c strict sd.norm nT xs).map (List.map f)) :=
  ⟨pShuffle_map' f _ xs, fun sp => riffle_map' f sp _ xs, fun il => eShuffle_map' f il _ _ xs,
   fun ops c st nT => reservoirF_map' f ops c st _ nT xs⟩

theorem seeded_perm' {α} (isLogged : α → Bool) (sd lsd : Seed) (sp : Nat) (xs : List α) :
    (shuffleSeeded sd xs).Perm xs ∧ (eShuffleSeeded isLogged sd lsd xs).Perm xs ∧ (riffleSeeded sp sd xs).Perm xs :=
  ⟨pShuffle_perm' _ xs, eShuffle_perm' _ _ _ xs, riffle_perm' _ _ xs⟩


/-! # Phase 3 -/

/-! BatchSafe on arbitrary batch sequences -/
theorem batchSafe_first_batch' {V} (G : List (Batched V) → Except Err (List (Batched V)))
    (F : List (Rec V) → Except Err (List (Rec V))) (hG : agreesOnPlain G F)
    (k : String) (vs : List V) (cols : List (String × List V)) (rest : List (Batched V)) (hvs : vs ≠ []) :
    batchSafe G (.batch ((k, vs) :: cols) :: rest)
      = (match F (unbatchF (.batch ((k, vs) :: cols) :: rest)) with
         | .error e => .error e
         | .ok ys => batchF vs.length ys) := by
  have hlen : vs.length ≠ 0 := by
    intro h; exact hvs (List.length_eq_zero_iff.1 h)
  simp only [batchSafe, firstBatchSize, hlen, ↓reduceIte]
  rw [hG]
  cases F (unbatchF (.batch ((k, vs) :: cols) :: rest)) with
  | error e => rfl
  | ok ys => simp [unbatchF_plain]

theorem batchSafe_unbatch' {V} (G : List (Batched V) → Except Err (List (Batched V)))
    (F : List (Rec V) → Except Err (List (Rec V))) (hG : agreesOnPlain G F)
    (k : String) (vs : List V) (cols : List (String × List V)) (rest : List (Batched V)) (hvs : vs ≠ [])
    (ys : List (Rec V)) (hF : F (unbatchF (.batch ((k, vs) :: cols) :: rest)) = .ok ys)
    (ks : List String) (hne : ks ≠ []) (hu : uniformKeys ks ys) :
    ∃ out, batchSafe G (.batch ((k, vs) :: cols) :: rest) = .ok out ∧ unbatchF out = ys := by
  rw [batchSafe_first_batch' G F hG k vs cols rest hvs, hF]
  exact batch_unbatch_id' vs.length ks hne ys hu

theorem uniform_of_subset {V} (ks : List String) (xs ys : List (Rec V)) (hu : uniformKeys ks xs)
    (hs : ∀ y ∈ ys, y ∈ xs) : uniformKeys ks ys := ⟨hu.1, fun y hy => hu.2 y (hs y hy)⟩

theorem batchSafe_selection' {V} (G : List (Batched V) → Except Err (List (Batched V)))
    (F : List (Rec V) → Except Err (List (Rec V))) (hG : agreesOnPlain G F)
    (size : Nat) (hs : 0 < size) (ks : List String) (hne : ks ≠ []) (recs : List (Rec V)) (hr : recs ≠ [])
    (hu : uniformKeys ks recs) (bs : List (Batched V)) (hb : batchF size recs = .ok bs)
    (ys : List (Rec V)) (hF : F recs = .ok ys) (hsel : ∀ y ∈ ys, y ∈ recs) :
    ∃ out, batchSafe G bs = .ok out ∧ unbatchF out = ys := by
  obtain ⟨first, rest, hbs, hsz, hub⟩ := batchF_first size hs ks hne recs hr hu bs hb
  subst hbs
  have hpos : min size recs.length ≠ 0 := by
    have : 0 < recs.length := List.length_pos_of_ne_nil hr
    omega
  simp only [batchSafe, hsz, hpos, ↓reduceIte, hub]
  rw [hG, hF]
  simp only [unbatchF_plain]
  exact batch_unbatch_id' _ ks hne ys (uniform_of_subset ks recs ys hu hsel)

theorem batchSafe_falsy_first' {V} (G : List (Batched V) → Except Err (List (Batched V)))
    (first : Batched V) (rest : List (Batched V)) (h : firstBatchSize first = 0) :
    batchSafe G (first :: rest) = G (first :: rest) := by
  simp [batchSafe, h]

theorem liftF_agrees {V} (F : List (Rec V) → Except Err (List (Rec V))) : agreesOnPlain (liftF F) F :=
  fun recs => liftF_plain F recs

/-! products -/
theorem productMembers_succ (n nF : Nat) :
    productMembers (n+1) nF = productMembers n nF ++ (List.range nF).map (fun j => (n, j)) := by
  simp [productMembers, List.range_succ, List.flatMap_append]

theorem productMembers_length (nE nF : Nat) : (productMembers nE nF).length = nE * nF := by
  induction nE with
  | zero => simp [productMembers]
  | succ n ih => rw [productMembers_succ, List.length_append, ih]; simp [Nat.succ_mul]

theorem productMembers_get' (nE nF i j : Nat) (hi : i < nE) (hj : j < nF) :
    (productMembers nE nF)[i * nF + j]? = some (i, j) := by
  induction nE with
  | zero => omega
  | succ n ih =>
    rw [productMembers_succ]
    by_cases h : i < n
    · have hlt : i * nF + j < (productMembers n nF).length := by
        rw [productMembers_length]
        calc i * nF + j < i * nF + nF := by omega
          _ = (i + 1) * nF := by rw [Nat.succ_mul]
          _ ≤ n * nF := Nat.mul_le_mul_right _ h
      rw [List.getElem?_append_left hlt]
      exact ih h
    · have hin : i = n := by omega
      subst hin
      rw [List.getElem?_append_right (by rw [productMembers_length]; omega), productMembers_length]
      simp [hj]

theorem sortedMembers_spec' (seedOf : Nat → Nat) (nE nF : Nat) :
    (sortedMembers seedOf nE nF).Perm (productMembers nE nF) ∧
    (sortedMembers seedOf nE nF).Pairwise (fun a b => seedOf a.2 ≤ seedOf b.2) ∧
    (∀ a b, seedOf a.2 ≤ seedOf b.2 → [a, b].Sublist (productMembers nE nF) → [a, b].Sublist (sortedMembers seedOf nE nF)) := by
  have h := sortBy_spec' (fun a b : Nat => decide (a ≤ b)) (fun m : Nat × Nat => seedOf m.2)
    (by intro a b; simp; omega) (by intro a b c; simp; omega) (productMembers nE nF)
  unfold sortedMembers
  refine ⟨h.1, ?_, ?_⟩
  · simpa using h.2.1
  · intro a b hab; exact h.2.2 a b (by simpa using hab)

theorem collection_product' {E Φ α} (apply : Φ → E → Except Err (List α)) (envs : Nat → E) (filters : Nat → Φ)
    (members : List (Nat × Nat)) (dflt : Nat × Nat) (h : List (Nat × Option Nat)) (m i j : Nat)
    (hm : members[m]? = some (i, j)) :
    ((runColl (statelessFilt (fun p : E × Φ => apply p.2 p.1)) (memberEnv envs filters members dflt) (fun _ => ()) h).filter (·.1 = m)).map (·.2)
      = ((h.filter (·.1 = m)).map (·.2)).map (fun c => match c with
          | none => apply (filters j) (envs i)
          | some k => match apply (filters j) (envs i) with | .ok l => .ok (l.take k) | .error e => .error e) := by
  rw [collection_stateless']
  simp only [statelessFilt, memberEnv, hm, Option.getD_some]
  congr 1

theorem unbatchG_plain_first' (first : CRec) (rest : List CRec)
    (h : first.find? (fun kv => kv.2.isBatch) = none) : unbatchG (first :: rest) = .ok (first :: rest) := by
  simp [unbatchG, h]

theorem rowsOf_wf (r : CRec) (n : Nat) (h : wfBatch r n) : rowsOf r n = rowsSpec r n := by
  unfold rowsOf rowsSpec
  apply List.map_congr_left
  intro i hi
  have hi' : i < n := List.mem_range.1 hi
  induction r with
  | nil => rfl
  | cons kv r ih =>
    obtain ⟨vs, hv, hl⟩ := h kv (by simp)
    have ih' := ih (fun kv' h' => h kv' (by simp [h']))
    obtain ⟨v, hv'⟩ : ∃ v, vs[i]? = some v := ⟨vs[i]'(by omega), List.getElem?_eq_getElem (by omega)⟩
    have hhead : cellAt kv.2 i = Cell.val v := by rw [hv]; simp [cellAt, hv']
    rw [List.map_cons, hhead, ih', List.filterMap_cons]
    simp [hv, hv']

theorem unbatchRec_wf (bk : String) (r : CRec) (n : Nat) (h : wfBatch r n) (c : Cell) (hk : lookupCell bk r = some c) :
    unbatchRec bk r = .ok (rowsSpec r n) := by
  have hmem : ∃ kv ∈ r, kv.2 = c := by
    clear h
    induction r with
    | nil => simp [lookupCell] at hk
    | cons kv r ih =>
      obtain ⟨k', v⟩ := kv
      simp only [lookupCell] at hk
      split at hk
      · injection hk with hk; exact ⟨(k', v), by simp, hk⟩
      · obtain ⟨kv, h1, h2⟩ := ih hk; exact ⟨kv, by simp [h1], h2⟩
  obtain ⟨kv, hkv, hc⟩ := hmem
  obtain ⟨vs, hv, hl⟩ := h kv hkv
  simp only [unbatchRec, hk, ← hc, hv, cellLen, hl]
  rw [rowsOf_wf r n h]

/-- every interaction fully batched (each with its own size) and carrying the first batched key of
the first one: Unbatch is the row-by-row transposition, in order -/
theorem unbatchAll_wf (bk : String) (rs : List CRec) (size : CRec → Nat)
    (h : ∀ r ∈ rs, wfBatch r (size r) ∧ ∃ c, lookupCell bk r = some c) :
    unbatchAll bk rs = .ok (rs.flatMap (fun r => rowsSpec r (size r))) := by
  induction rs with
  | nil => rfl
  | cons r rs ih =>
    obtain ⟨hw, c, hc⟩ := h r (by simp)
    simp only [unbatchAll, unbatchRec_wf bk r (size r) hw c hc, ih (fun r' h' => h r' (by simp [h'])), List.flatMap_cons]

theorem unbatchG_wf' (first : CRec) (rest : List CRec) (size : CRec → Nat) (bk : String) (c0 : Cell)
    (hfirst : first.find? (fun kv => kv.2.isBatch) = some (bk, c0))
    (h : ∀ r ∈ first :: rest, wfBatch r (size r) ∧ ∃ c, lookupCell bk r = some c) :
    unbatchG (first :: rest) = .ok ((first :: rest).flatMap (fun r => rowsSpec r (size r))) := by
  simp only [unbatchG, hfirst]
  exact unbatchAll_wf bk (first :: rest) size h

/-! ## Phase 4: pipelines sharing one Cache object -/

theorem cachedRun_spec {α β} (nSlice : Nat) (items : List α) (st : Option (CacheSt α)) (h : cacheInv items st)
    (reads : List (Option Nat × (List α → β))) :
    cachedRun nSlice items st reads = reads.map (fun r => r.2 (readSpec items r.1)) := by
  induction reads generalizing st with
  | nil => rfl
  | cons r rs ih =>
    obtain ⟨h1, h2⟩ := cacheRead_spec nSlice items st r.1 h
    simp only [cachedRun, cachedRead, List.map_cons, h2, ih _ h1]

theorem cachedRun_full {α β} (nSlice : Nat) (items : List α)
    (reads : List (Option Nat × (List α → β)))
    (hp : ∀ r ∈ reads, r.2 (readSpec items r.1) = r.2 items) :
    cachedRun nSlice items none reads = reads.map (fun r => r.2 items) := by
  rw [cachedRun_spec nSlice items none trivial reads]
  exact List.map_congr_left hp

theorem take_need' {α} (count : Option Nat) (strict : Bool) (items : List α) :
    take count strict (readSpec items (takeNeed count)) = take count strict items := by
  cases count with
  | none => rfl
  | some n => simp [take, readSpec, takeNeed, List.take_take]

theorem slice_need' {α} (start stop : Option Nat) (step : Nat) (items : List α) :
    slice start stop step (readSpec items (sliceNeed stop)) = slice start stop step items := by
  cases stop with
  | none => rfl
  | some n => simp [slice, readSpec, sliceNeed, List.take_take]

theorem sealing_cex : cacheRunSealing 25 (List.range 60) none [some 1, none] = [[0], List.range 25] := by
  decide

/-! ## Phase 5: whole-input branches behind shared caches; Reservoir's run-time check -/

theorem multiCachedRun_spec {α β} (nSlice : Nat) (envs : Nat → List α) (st : Nat → Option (CacheSt α))
    (h : ∀ e, cacheInv (envs e) (st e)) (reads : List (Nat × Option Nat × (List α → β))) :
    multiCachedRun nSlice envs st reads = reads.map (fun r => r.2.2 (readSpec (envs r.1) r.2.1)) := by
  induction reads generalizing st with
  | nil => rfl
  | cons r rs ih =>
    obtain ⟨h1, h2⟩ := cacheRead_spec nSlice (envs r.1) (st r.1) r.2.1 (h r.1)
    simp only [multiCachedRun, cachedRead, List.map_cons, h2]
    congr 1
    apply ih
    intro e
    by_cases he : e = r.1
    · subst he; simpa using h1
    · simpa [he] using h e

theorem branchRun_spec {α} (nSlice : Nat) (envs : Nat → List α) (reads : List (BranchRead α)) :
    branchRun nSlice envs reads = reads.map (branchSpec envs) := by
  unfold branchRun
  rw [multiCachedRun_spec nSlice envs (fun _ => none) (fun _ => trivial), List.map_map]
  apply List.map_congr_left
  intro r _
  simp only [Function.comp, branchSpec]
  cases hp : pullNeed r.pull r.k with
  | none => rfl
  | some n =>
    have : n = 0 := by
      cases hpl : r.pull <;> cases hk : r.k <;> simp [hpl, hk, pullNeed] at hp
      · rename_i k; cases k <;> simp [pullNeed] at hp; exact hp.symm
      · exact hp.symm
      · exact hp.symm
    subst this
    simp [readSpec]

theorem resLoop_ok_iff {α} (steps : List Step) (rest res : List α) :
    (∃ out, resLoop steps rest res = .ok out) ↔ resLoopOk steps rest.length res.length = true := by
  induction steps generalizing rest res with
  | nil => simp [resLoop, resLoopOk]
  | cons st steps ih =>
    cases st with
    | raise e => simp [resLoop, resLoopOk]
    | skip S slot =>
      simp only [resLoop, resLoopOk]
      by_cases hle : rest.length ≤ S
      · simp [hle, List.drop_eq_nil_of_le hle]
      · have hlt : S < rest.length := by omega
        obtain ⟨y, rest', hd⟩ : ∃ y rest', rest.drop S = y :: rest' := by
          cases hdd : rest.drop S with
          | nil => simp [List.drop_eq_nil_iff] at hdd; omega
          | cons y r => exact ⟨y, r, rfl⟩
        have hlen : rest'.length = rest.length - S - 1 := by
          have := congrArg List.length hd
          simp at this; omega
        simp only [hd, hle, if_false]
        by_cases hs : slot < res.length
        · simp only [hs, if_true, decide_true, Bool.true_and]
          rw [ih rest' (res.set slot y), hlen, List.length_set]
        · simp [hs]

theorem reservoir_ok_iff {α} (count : Option Nat) (strict : Bool) (s : Nat) (steps : List Step) (xs : List α) :
    (∃ out, reservoir count strict s steps xs = .ok out) ↔ reservoirOk count steps xs.length = true := by
  cases count with
  | none => simp [reservoir, reservoirOk]
  | some n =>
    cases n with
    | zero => simp [reservoir, reservoirOk]
    | succ n =>
      simp only [reservoir, reservoirOk, List.length_take]
      by_cases h : xs.length < n + 1
      · have : min (n+1) xs.length < n + 1 := by omega
        simp [this, h]
      · have h2 : ¬ min (n+1) xs.length < n + 1 := by omega
        simp only [h2, h, if_false]
        rw [resLoop_ok_iff, (C05.shuffle_perm' s _).length_eq, List.length_take, List.length_drop]
        have : min (n+1) xs.length = n + 1 := by omega
        rw [this]


theorem branchRun_complete {α} (nSlice : Nat) (envs : Nat → List α) (reads : List (BranchRead α))
    (i : Nat) (hi : i < reads.length) (hk : reads[i].k = none) (hp : reads[i].pull ≠ .never) :
    (branchRun nSlice envs reads)[i]? = some (reads[i].F (envs reads[i].env)) := by
  rw [branchRun_spec, List.getElem?_map, List.getElem?_eq_getElem hi]
  simp only [Option.map_some, branchSpec, hk]
  cases hpl : reads[i].pull with
  | never => exact absurd hpl hp
  | eager => simp only [pullNeed, consume]; cases reads[i].F (envs reads[i].env) <;> rfl
  | onFirst => simp only [pullNeed, consume]; cases reads[i].F (envs reads[i].env) <;> rfl

theorem reservoirF_zero {R α} (ops : FloatOps R) (strict : Bool) (s nT : Nat) (xs : List α) :
    reservoirF ops (some 0) strict s nT xs = .ok [] := rfl

theorem reservoirF_ok_iff {R α} (ops : FloatOps R) (n : Nat) (strict : Bool) (s nT : Nat) (xs : List α) :
    (∃ out, reservoirF ops (some n) strict s nT xs = .ok out) ↔
      reservoirOk (some n) (floatSteps ops n ops.one (triples (reservoirState (some n) s xs) nT)) xs.length = true := by
  simp only [reservoirF]
  exact reservoir_ok_iff (some n) strict s _ xs

/-! ## Phase 5: the extracted `shuffle` / `chunk` programs, interpreted -/


theorem runShuffle_model (c : ShuffleCall) : runShuffle c 20 shuffleProgram none = some (shuffleSeeds c) := by
  cases c with
  | n k =>
    cases k with
    | zero => decide
    | succ k =>
      have h : (List.range (k+1)).isEmpty = false := by simp
      simp [runShuffle, shuffleProgram, shuffleTail, evalTest, evalExpr, shuffleSeeds, h]
  | kwInt v =>
    simp [runShuffle, shuffleProgram, shuffleTail, evalTest, evalExpr, shuffleSeeds]
  | kwRow row =>
    cases h : flatRow row with
    | nil => simp [runShuffle, shuffleProgram, shuffleTail, evalTest, evalExpr, shuffleSeeds, h]
    | cons a r => simp [runShuffle, shuffleProgram, shuffleTail, evalTest, evalExpr, shuffleSeeds, h]
  | args row =>
    cases h : flatRow row with
    | nil => simp [runShuffle, shuffleProgram, shuffleTail, evalTest, evalExpr, shuffleSeeds, h]
    | cons a r => simp [runShuffle, shuffleProgram, shuffleTail, evalTest, evalExpr, shuffleSeeds, h]

theorem runChunk_model (cache : Bool) : runChunk cache chunkProgram = some (chunkFilters cache) := by
  cases cache <;> decide

theorem shuffleSeeds_ne_nil (c : ShuffleCall) : shuffleSeeds c ≠ [] := by
  cases c with
  | n k => cases k <;> simp [shuffleSeeds, List.range_succ]
  | kwInt v => simp [shuffleSeeds]
  | kwRow row => simp only [shuffleSeeds]; split <;> simp_all
  | args row => simp only [shuffleSeeds]; split <;> simp_all

theorem chunkRun_spec {α} (cache : Bool) (nSlice : Nat) (items : List α) (reads : List (Option Nat)) :
    chunkRun cache nSlice items reads = reads.map (readSpec items) := by
  cases cache
  · rfl
  · simp only [chunkRun, if_true]
    exact cacheRun_spec nSlice items none trivial reads

/-! ## Phase 6: pipelines of filters, nested joins -/


theorem chainF_append' {α : Type} (fs gs : List (List α → Except Err (List α))) (xs : List α) :
    chainF (fs ++ gs) xs = (match chainF fs xs with | .ok ys => chainF gs ys | .error e => .error e) := by
  induction fs generalizing xs with
  | nil => rfl
  | cons f fs ih =>
    simp only [List.cons_append, chainF]
    cases f xs with
    | ok ys => exact ih ys
    | error e => rfl

mutual
theorem pipe_flat_eq_run' {α : Type} : ∀ (p : Pipe α) (xs : List α), chainF p.filters xs = p.run xs
  | .one f, xs => by
    simp only [Pipe.filters, Pipe.run, chainF]
    cases f xs <;> rfl
  | .joined ps, xs => by
    simp only [Pipe.filters, Pipe.run]
    exact pipe_flatL_eq_runL' ps xs
theorem pipe_flatL_eq_runL' {α : Type} : ∀ (ps : List (Pipe α)) (xs : List α), chainF (Pipe.filtersL ps) xs = Pipe.runL ps xs
  | [], xs => by simp [Pipe.filtersL, Pipe.runL, chainF]
  | p :: ps, xs => by
    simp only [Pipe.filtersL, Pipe.runL, chainF_append', pipe_flat_eq_run' p xs]
    cases p.run xs with
    | ok ys => exact pipe_flatL_eq_runL' ps ys
    | error e => rfl
end

theorem chainF_rel' {α : Type} (Rel : List α → List α → Prop) (hrefl : ∀ l, Rel l l)
    (htrans : ∀ a b c, Rel a b → Rel b c → Rel a c)
    (fs : List (List α → Except Err (List α))) (hf : ∀ f ∈ fs, ∀ a b, f a = .ok b → Rel b a)
    (xs ys : List α) (h : chainF fs xs = .ok ys) : Rel ys xs := by
  induction fs generalizing xs with
  | nil => simp [chainF] at h; subst h; exact hrefl _
  | cons f fs ih =>
    simp only [chainF] at h
    cases hfx : f xs with
    | error e => rw [hfx] at h; simp at h
    | ok zs =>
      rw [hfx] at h
      exact htrans _ _ _ (ih (fun g hg => hf g (List.mem_cons_of_mem _ hg)) zs h) (hf f List.mem_cons_self xs zs hfx)

theorem every_sublist' {α} (step : Nat) (l : List α) (k : Nat) : (every step l k).Sublist l := by
  induction l generalizing k with
  | nil => simp [every]
  | cons x xs ih =>
    cases k with
    | zero => simp only [every]; exact (ih _).cons_cons x
    | succ k => simp only [every]; exact (ih k).cons x

theorem take_sublist' {α} (c : Option Nat) (strict : Bool) (xs : List α) : (take c strict xs).Sublist xs := by
  rw [take_eq_spec']
  cases c with
  | none => exact List.Sublist.refl _
  | some n =>
    simp only [takeSpec]
    split
    · exact List.nil_sublist _
    · exact List.take_sublist _ _

theorem slice_sublist' {α} (a b : Option Nat) (st : Nat) (xs : List α) : (slice a b st xs).Sublist xs := by
  unfold slice
  refine (every_sublist' _ _ _).trans ((List.drop_sublist _ _).trans ?_)
  cases b with
  | none => exact List.Sublist.refl _
  | some n => exact List.take_sublist _ _

theorem whereF_sublist' {α} (fetLen nAct : α → Nat) (ni na nf : Range) (xs : List α) :
    (whereF fetLen nAct ni na nf xs).Sublist xs := by
  rw [whereF_eq_spec']
  cases xs with
  | nil => exact List.Sublist.refl _
  | cons x xs =>
    simp only [whereSpec]
    split
    · exact List.filter_sublist
    · exact List.nil_sublist _

theorem fop_selecting_sublist' {R α : Type} (ops : FloatOps R) (A : Acc α) (nT : Nat) (op : FOp)
    (hs : op.selecting = true) (xs ys : List α) (h : op.run ops A nT xs = .ok ys) : ys.Sublist xs := by
  cases op <;> simp [FOp.selecting] at hs <;> simp only [FOp.run, Except.ok.injEq] at h <;> subst h
  · exact take_sublist' _ _ _
  · exact slice_sublist' _ _ _ _
  · exact whereF_sublist' _ _ _ _ _ _
  · exact List.Sublist.refl _

theorem fop_ordering_perm' {R α : Type} (ops : FloatOps R) (A : Acc α) (nT : Nat) (op : FOp)
    (hs : op.ordering = true) (xs ys : List α) (h : op.run ops A nT xs = .ok ys) : ys.Perm xs := by
  cases op <;> simp [FOp.ordering] at hs <;> simp only [FOp.run] at h
  · cases h; exact pShuffle_perm' _ xs
  · cases h; exact eShuffle_perm' _ _ _ xs
  · cases h; exact riffle_perm' _ _ xs
  · exact sortF_perm' _ _ _ _ _ h
  · cases h; exact List.Perm.refl _

theorem fop_subperm' {R α : Type} (ops : FloatOps R) (A : Acc α) (nT : Nat) (op : FOp)
    (xs ys : List α) (h : op.run ops A nT xs = .ok ys) : ys.Subperm xs := by
  by_cases h1 : op.selecting = true
  · exact (fop_selecting_sublist' ops A nT op h1 xs ys h).subperm
  by_cases h2 : op.ordering = true
  · exact (fop_ordering_perm' ops A nT op h2 xs ys h).subperm
  cases op <;> simp [FOp.selecting] at h1 <;> simp [FOp.ordering] at h2
  simp only [FOp.run, reservoirF] at h
  exact (reservoir_spec' _ _ _ _ _ _ h).1

theorem pipeline_subperm' {R α : Type} (ops : FloatOps R) (A : Acc α) (nT : Nat) (fs : List FOp)
    (xs ys : List α) (h : pipeline ops A nT fs xs = .ok ys) : ys.Subperm xs := by
  refine chainF_rel' (fun a b => a.Subperm b) (fun l => List.Subperm.refl l) (fun a b c h1 h2 => h1.trans h2) _ ?_ xs ys h
  intro f hf a b hab
  obtain ⟨op, _, rfl⟩ := List.mem_map.1 hf
  exact fop_subperm' ops A nT op a b hab

theorem pipeline_selecting_sublist' {R α : Type} (ops : FloatOps R) (A : Acc α) (nT : Nat) (fs : List FOp)
    (hs : ∀ op ∈ fs, op.selecting = true) (xs ys : List α) (h : pipeline ops A nT fs xs = .ok ys) : ys.Sublist xs := by
  refine chainF_rel' (fun a b => a.Sublist b) (fun l => List.Sublist.refl l) (fun a b c h1 h2 => h1.trans h2) _ ?_ xs ys h
  intro f hf a b hab
  obtain ⟨op, hop, rfl⟩ := List.mem_map.1 hf
  exact fop_selecting_sublist' ops A nT op (hs op hop) a b hab

theorem pipeline_ordering_perm' {R α : Type} (ops : FloatOps R) (A : Acc α) (nT : Nat) (fs : List FOp)
    (hs : ∀ op ∈ fs, op.ordering = true) (xs ys : List α) (h : pipeline ops A nT fs xs = .ok ys) : ys.Perm xs := by
  refine chainF_rel' (fun a b => a.Perm b) (fun l => List.Perm.refl l) (fun a b c h1 h2 => h1.trans h2) _ ?_ xs ys h
  intro f hf a b hab
  obtain ⟨op, hop, rfl⟩ := List.mem_map.1 hf
  exact fop_ordering_perm' ops A nT op (hs op hop) a b hab

theorem pipeline_append' {R α : Type} (ops : FloatOps R) (A : Acc α) (nT : Nat) (fs gs : List FOp) (xs : List α) :
    pipeline ops A nT (fs ++ gs) xs =
      (match pipeline ops A nT fs xs with | .ok ys => pipeline ops A nT gs ys | .error e => .error e) := by
  simp only [pipeline, List.map_append, chainF_append']

theorem take_take' {R α : Type} (ops : FloatOps R) (A : Acc α) (nT : Nat) (a b : Nat) (xs : List α) :
    pipeline ops A nT [.take (some a) false, .take (some b) false] xs = pipeline ops A nT [.take (some (min a b)) false] xs := by
  simp [pipeline, chainF, FOp.run, take, List.take_take, Nat.min_comm]

/-! ### the interpreter of the pipeline-running method bodies on the model's programs -/

theorem runPipeProgram_filter_model' {α : Type} (fs : List (List α → Except Err (List α))) (input : List α) :
    runPipeProgram fs input filtersFilterProgram [("items", .ok input)] = some (chainF fs input) := by
  simp [runPipeProgram, filtersFilterProgram, loopFilters, List.lookup]

theorem runPipeProgram_read_model' {α : Type} (fs : List (List α → Except Err (List α))) (input : List α) :
    runPipeProgram fs input sourceReadProgram [] = some (chainF fs input) := by
  simp [runPipeProgram, sourceReadProgram, loopFilters, List.lookup]

/-! ### content preservation along a whole pipeline -/

theorem decorate_map' {α β} (f : α → β) (keyOf : β → Except Err Key) (xs : List α) :
    decorate keyOf (xs.map f) = (decorate (keyOf ∘ f) xs).map (List.map (fun p => (p.1, f p.2))) := by
  induction xs with
  | nil => rfl
  | cons a l ih =>
    simp only [List.map_cons, decorate, Function.comp, ih]
    cases keyOf (f a) with
    | error e => rfl
    | ok k =>
      cases decorate (keyOf ∘ f) l with
      | error e => rfl
      | ok r => rfl

theorem sortF_map' {α β} (f : α → β) (hasCtx : β → Bool) (ctx : β → Ctx) (keys : List Val) (xs : List α) :
    sortF hasCtx ctx keys (xs.map f) = (sortF (hasCtx ∘ f) (ctx ∘ f) keys xs).map (List.map f) := by
  cases xs with
  | nil => rfl
  | cons x xs =>
    simp only [List.map_cons, sortF, Function.comp]
    split
    · rfl
    · rw [← List.map_cons, decorate_map']
      have hd : ((fun a => sortKey keys (ctx (f x)).isSparse (ctx a)) ∘ f) = (fun a => sortKey keys (ctx (f x)).isSparse (ctx (f a))) := rfl
      rw [hd]
      cases decorate (fun a => sortKey keys (ctx (f x)).isSparse (ctx (f a))) (x :: xs) with
      | error e => rfl
      | ok kxs =>
        simp only [Except.map]
        have := sortBy_map' (fun (p : Key × α) => (p.1, f p.2)) keyLe (fun (p : Key × β) => p.1) kxs
        rw [this]
        simp only [List.map_map]
        rfl

/-- relabelled accessors -/
def Acc.comap {α β : Type} (A : Acc β) (f : α → β) : Acc α := ⟨A.isLogged ∘ f, A.hasCtx ∘ f, A.ctx ∘ f, A.nAct ∘ f⟩

theorem fop_map' {R α β : Type} (ops : FloatOps R) (A : Acc β) (f : α → β) (nT : Nat) (op : FOp) (xs : List α) :
    op.run ops A nT (xs.map f) = (op.run ops (A.comap f) nT xs).map (List.map f) := by
  cases op <;> simp only [FOp.run, Acc.comap, Except.map, List.length_map]
  · rw [take_map']
  · rw [slice_map']
  · simp only [shuffleSeeded, pShuffle_map']
  · simp only [eShuffleSeeded, eShuffle_map']
  · simp only [riffleSeeded, riffle_map']
  · rw [sortF_map']; rfl
  · rw [whereF_map']; rfl
  · rw [reservoirF_map']; rfl
  · rfl

theorem pipeline_map' {R α β : Type} (ops : FloatOps R) (A : Acc β) (f : α → β) (nT : Nat) (fs : List FOp) (xs : List α) :
    pipeline ops A nT fs (xs.map f) = (pipeline ops (A.comap f) nT fs xs).map (List.map f) := by
  induction fs generalizing xs with
  | nil => rfl
  | cons op fs ih =>
    simp only [pipeline, List.map_cons, chainF] at ih ⊢
    rw [fop_map']
    cases op.run ops (A.comap f) nT xs with
    | error e => rfl
    | ok ys => exact ih ys

end Coba.C09
