import CobaVerif.Lemmas.C05Reservoir

/-! Phase 6 lemmas: the filters that own a generator (`Shuffle`, `Reservoir` dispatch) and histories of `filter` calls. -/
namespace Coba.C05

theorem shuffleFilter_perm' (s n : Nat) : (shuffleFilter s n).Perm (List.range n) := by
  unfold shuffleFilter; exact shuffle_perm' _ _

theorem shuffleFilter_eq_method' (s n : Nat) :
    (step (fresh s).g (.shuffle n)).2 = .perm (shuffleFilter s n) := by
  simp [step, shuffleLoop_eq_shuffle', shuffleFilter]

theorem shuffle_filter_is_seed_stream' (s n : Nat) :
    fltOut (.shuffle s) n = .items (shuffleFilter s n) ∧
    (step (fresh s).g (.shuffle n)).2 = .perm (shuffleFilter s n) ∧ (shuffleFilter s n).Perm (List.range n) :=
  ⟨rfl, shuffleFilter_eq_method' s n, shuffleFilter_perm' s n⟩

theorem reservoir_none' (strict : Bool) (s n : Nat) :
    fltOut (.reservoir none strict s) n = fltOut (.shuffle s) n := rfl

theorem reservoir_zero' (strict : Bool) (s n : Nat) : fltOut (.reservoir (some 0) strict s) n = .items [] := by
  simp [fltOut]

theorem reservoir_short' (c s n : Nat) (h : n < c) :
    fltOut (.reservoir (some c) false s) n = fltOut (.shuffle s) n ∧ fltOut (.reservoir (some c) true s) n = .items [] := by
  have hc : c ≠ 0 := by omega
  simp [fltOut, hc, h]

theorem reservoir_full' (c : Nat) (strict : Bool) (s n b k : Nat) (hc : 0 < c) (h : c ≤ n) :
    fltOut (.reservoir (some c) strict s) n = .walk (reservoirWalk s c b k).1 (adv s (c - 1)) ∧
    (reservoirWalk s c b k).2 = streamTriples (adv s (c - 1)) (b * k) ∧
    (reservoirWalk s c b k).1.Perm (List.range c) := by
  have hc' : c ≠ 0 := by omega
  have hn : ¬ n < c := by omega
  have hd : (shuffle s (List.range c)).1 = adv s (c - 1) := by
    rw [shuffle_draws', adv_eq_iterate']; simp
  refine ⟨?_, ?_, ?_⟩
  · simp [fltOut, hc', hn, shuffleFilter, fresh, reservoirWalk, hd]
  · rw [reservoir_consumes_stream', hd]
  · simp only [reservoirWalk]; exact shuffle_perm' _ _

/-- every `filter` call of a history answers from its object's seed alone: whatever calls (finished, abandoned, on the same or on a
sibling object) came before or come after -/
theorem filter_history_pure' (objs : List Flt) (pre post : List (Nat × Nat)) (o n : Nat) :
    fltRun objs (pre ++ (o, n) :: post)
      = fltRun objs pre ++ fltAt objs o n :: fltRun objs post := by
  induction pre with
  | nil => simp [fltRun]
  | cons p pre ih => obtain ⟨a, b⟩ := p; simp [fltRun, ih]

theorem filter_history_length' (objs : List Flt) (h : List (Nat × Nat)) : (fltRun objs h).length = h.length := by
  induction h with
  | nil => rfl
  | cons p h ih => obtain ⟨a, b⟩ := p; simp [fltRun, ih]

/-- a sampled list is always a rearrangement of (part of) the input: no item invented or duplicated by the `items` paths -/
theorem fltOut_items_sub' (f : Flt) (n : Nat) (l : List Nat) (h : fltOut f n = .items l) : l = [] ∨ l.Perm (List.range n) := by
  cases f with
  | shuffle s => simp only [fltOut, FltOut.items.injEq] at h; subst h; exact Or.inr (shuffleFilter_perm' s n)
  | reservoir count strict s =>
    cases count with
    | none => simp only [fltOut, FltOut.items.injEq] at h; subst h; exact Or.inr (shuffleFilter_perm' s n)
    | some c =>
      simp only [fltOut] at h
      split at h
      · simp only [FltOut.items.injEq] at h; exact Or.inl h.symm
      · split at h
        · split at h
          · simp only [FltOut.items.injEq] at h; exact Or.inl h.symm
          · simp only [FltOut.items.injEq] at h; subst h; exact Or.inr (shuffleFilter_perm' s n)
        · cases h

end Coba.C05
