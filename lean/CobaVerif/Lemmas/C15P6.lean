/-
Phase-6 lemmas for C15: the action cache of `SafeLearner.predict` when the caller reuses its list object (`prepareRef`, the
pinned code keeping a REFERENCE in `_prev_actions`) against the value-based `prepare` of all other theorems.
-/
import CobaVerif.Lemmas.C15P5

namespace Coba.C15
open PyVal

/-- a call passing another object than the one kept: the pinned lines are the value-based `prepare` -/
theorem prepareRef_other (fx : Fixes) (a : AState) (c : OCall) (h : a.prevOid ≠ some c.oid) :
    (prepareRef fx a c).2 = (prepare fx a.st c.arg).2 ∧ (prepareRef fx a c).1.st = (prepare fx a.st c.arg).1 := by
  unfold prepareRef
  rw [if_neg h]
  constructor
  · rfl
  · dsimp only
    split
    · rfl
    · split <;> rfl

theorem prepareRef_prevOid (fx : Fixes) (a : AState) (c : OCall) :
    (prepareRef fx a c).1.prevOid = a.prevOid ∨ (prepareRef fx a c).1.prevOid = some c.oid := by
  unfold prepareRef
  by_cases h : a.prevOid = some c.oid
  · rw [if_pos h]; left; rfl
  · rw [if_neg h]
    dsimp only
    split
    · right; rfl
    · split
      · right; rfl
      · left; rfl

theorem prepRef_never_kept' (fx : Fixes) (cs : List OCall) : ∀ (a : AState), neverKept fx a cs = true →
    runPrepRef fx a cs = runPrep fx a.st cs := by
  induction cs with
  | nil => intro a _; rfl
  | cons c cs ih =>
    intro a h
    simp only [neverKept, Bool.and_eq_true, bne_iff_ne, ne_eq] at h
    obtain ⟨h1, h2⟩ := h
    obtain ⟨e1, e2⟩ := prepareRef_other fx a c h1
    simp only [runPrepRef, runPrep]
    rw [ih _ h2, e1, e2]

theorem fresh_never_kept' (fx : Fixes) (cs : List OCall) : ∀ (a : AState) (seen : List Nat),
    (∀ o, a.prevOid = some o → o ∈ seen) → freshObjects seen cs = true → neverKept fx a cs = true := by
  induction cs with
  | nil => intro a seen _ _; rfl
  | cons c cs ih =>
    intro a seen hs h
    simp only [freshObjects, Bool.and_eq_true, Bool.not_eq_true', List.contains_eq_mem, decide_eq_false_iff_not] at h
    obtain ⟨h1, h2⟩ := h
    simp only [neverKept, Bool.and_eq_true, bne_iff_ne, ne_eq]
    refine ⟨fun e => h1 (hs _ e), ih _ (c.oid :: seen) ?_ h2⟩
    intro o ho
    rcases prepareRef_prevOid fx a c with e | e
    · rw [e] at ho; exact List.mem_cons_of_mem _ (hs _ ho)
    · rw [e] at ho; cases ho; exact List.mem_cons_self ..

theorem prepRef_fresh_objects' (fx : Fixes) (st : State) (cs : List OCall) (h : freshObjects [] cs = true) :
    runPrepRef fx { st := st } cs = runPrep fx st cs :=
  prepRef_never_kept' fx cs { st := st } (fresh_never_kept' fx cs { st := st } [] (by intro o ho; cases ho) h)

/-- the caller's list object 1 holds [0,1,2], is refilled in place with [3,4] and passed again -/
def inplaceCalls : List OCall :=
  [⟨1, .single (.int 7) [.int 0, .int 1, .int 2]⟩, ⟨1, .single (.int 8) [.int 3, .int 4]⟩]

def offeredLists : List Arg → List (List PyVal)
  | [] => []
  | .single _ as :: r => as :: offeredLists r
  | .batch _ rows :: r => rows.flatten :: offeredLists r

theorem inplace_stale_counterexample' :
    (offeredLists (runPrepRef Fixes.all { st := initState 1 } inplaceCalls)).map (fun l => pyEqList l [.int 3, .int 4]) = [false, false]
    ∧ (offeredLists (runPrepRef Fixes.all { st := initState 1 } inplaceCalls)).map (fun l => pyEqList l [.int 0, .int 1, .int 2]) = [true, true]
    ∧ (offeredLists (runPrep Fixes.all (initState 1) inplaceCalls)).map (fun l => pyEqList l [.int 3, .int 4]) = [false, true]
    ∧ neverKept Fixes.all { st := initState 1 } inplaceCalls = false := by
  decide

end Coba.C15
