import CobaVerif.Lemmas.C05Module

/-! Phase 5 lemmas: Reservoir's batched walk over the uniform stream. -/
namespace Coba.C05

theorem chunk3_unums (s b : Nat) : chunk3 (unums s (3 * b)) = streamTriples s b := by
  induction b generalizing s with
  | zero => simp [unums, chunk3, streamTriples]
  | succ b ih =>
    have h : 3 * (b + 1) = 3 * b + 1 + 1 + 1 := by omega
    rw [h]; simp only [unums, chunk3, streamTriples]; rw [ih]

theorem streamTriples_add (s a b : Nat) :
    streamTriples s (a + b) = streamTriples s a ++ streamTriples (adv s (3 * a)) b := by
  induction a generalizing s with
  | zero => simp [streamTriples, adv]
  | succ a ih =>
    have h1 : a + 1 + b = (a + b) + 1 := by omega
    have h2 : 3 * (a + 1) = 3 * a + 1 + 1 + 1 := by omega
    rw [h1, h2]; simp only [streamTriples, List.cons_append, adv]; rw [ih]

theorem streamTriples_length (s j : Nat) : (streamTriples s j).length = j := by
  induction j generalizing s with
  | zero => simp [streamTriples]
  | succ j ih => simp [streamTriples, ih]

/-- batches of `3*b` uniforms walked in threes = consecutive triples of the stream, for every batch size, state and number of batches -/
theorem reservoir_walk_is_stream' (b s k : Nat) : batchedTriples (3 * b) s k = streamTriples s (b * k) := by
  induction k generalizing s with
  | zero => simp [batchedTriples, streamTriples]
  | succ k ih =>
    simp only [batchedTriples]
    rw [chunk3_unums, ih, Nat.mul_succ, Nat.add_comm (b * k) b, streamTriples_add]

theorem reservoir_walk_length' (b s k : Nat) : (batchedTriples (3 * b) s k).length = b * k := by
  rw [reservoir_walk_is_stream', streamTriples_length]

theorem adv_eq_iterate' (s n : Nat) : adv s n = next^[n] s := by
  induction n generalizing s with
  | zero => rfl
  | succ n ih => simp [adv, ih, Function.iterate_succ]

/-- `randoms(n)` returns exactly the uniforms `unums` lists and leaves the generator at `adv s n` -/
theorem randoms_eq_unums' (s n : Nat) :
    randoms s n 0 1 = (adv s n, (unums s n).map (fun k => (k : Rat) / (M : Rat))) := by
  induction n generalizing s with
  | zero => simp [randoms, adv, unums]
  | succ n ih => simp [randoms, random, adv, unums, ih, u]

/-- the in-place shuffle Reservoir starts with is the model's shuffle; after it the walk is the stream -/
theorem reservoir_consumes_stream' (s count b k : Nat) :
    reservoirWalk s count b k =
      ((shuffle s (List.range count)).2, streamTriples (shuffle s (List.range count)).1 (b * k)) := by
  simp only [reservoirWalk, reservoir_walk_is_stream']

/-- a batch whose size is not a multiple of three loses a uniform per batch (the 64-uniform batch walked by
`zip(it,it,it)`): from the 22nd triple on it is not the seed's stream -/
theorem reservoir_walk_counterexample' : batchedTriples 64 1 2 ≠ streamTriples 1 42 := by decide +kernel

end Coba.C05
