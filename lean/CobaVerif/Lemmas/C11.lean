/-
C11 — helper lemmas for the Scale / Impute model (`Model/C11.lean`).
-/
import CobaVerif.Model.C11
import CobaVerif.Generated.C11Options
import CobaVerif.Generated.C11Programs
import Mathlib.Tactic.Linarith
import Mathlib.Tactic.Ring
import Mathlib.Tactic.FieldSimp
import Mathlib.Algebra.Order.Field.Rat
import Mathlib.Data.List.Perm.Basic
import Mathlib.Data.Rat.Floor
import Mathlib.Data.List.Induction
import Mathlib.Data.Nat.Sqrt
import Mathlib.Data.Rat.Lemmas

namespace Coba.C11

/-! ### min / max -/

theorem foldl_min_le (xs : List Rat) (a : Rat) : xs.foldl min a ≤ a ∧ ∀ x ∈ xs, xs.foldl min a ≤ x := by
  induction xs generalizing a with
  | nil => simp
  | cons b l ih =>
    simp only [List.foldl_cons, List.mem_cons]
    obtain ⟨h1, h2⟩ := ih (min a b)
    refine ⟨le_trans h1 (min_le_left _ _), ?_⟩
    rintro x (rfl | hx)
    · exact le_trans h1 (min_le_right _ _)
    · exact h2 x hx

theorem foldl_min_mem (xs : List Rat) (a : Rat) : xs.foldl min a = a ∨ xs.foldl min a ∈ xs := by
  induction xs generalizing a with
  | nil => simp
  | cons b l ih =>
    simp only [List.foldl_cons, List.mem_cons]
    rcases ih (min a b) with h | h
    · rw [h]
      rcases min_choice a b with h' | h'
      · left; exact h'
      · right; left; exact h'
    · right; right; exact h

theorem minL_isMin {xs : List Rat} {m : Rat} (h : minL xs = some m) : IsMin xs m := by
  cases xs with
  | nil => simp [minL] at h
  | cons a l =>
    simp only [minL, Option.some.injEq] at h
    subst h
    obtain ⟨h1, h2⟩ := foldl_min_le l a
    refine ⟨?_, ?_⟩
    · rcases foldl_min_mem l a with h | h
      · rw [h]; exact List.mem_cons_self
      · exact List.mem_cons_of_mem _ h
    · intro x hx
      rcases List.mem_cons.1 hx with rfl | hx
      · exact h1
      · exact h2 x hx

theorem minL_isSome {xs : List Rat} (h : xs ≠ []) : ∃ m, minL xs = some m := by
  cases xs with
  | nil => exact absurd rfl h
  | cons a l => exact ⟨_, rfl⟩

theorem foldl_max_ge (xs : List Rat) (a : Rat) : a ≤ xs.foldl max a ∧ ∀ x ∈ xs, x ≤ xs.foldl max a := by
  induction xs generalizing a with
  | nil => simp
  | cons b l ih =>
    simp only [List.foldl_cons, List.mem_cons]
    obtain ⟨h1, h2⟩ := ih (max a b)
    refine ⟨le_trans (le_max_left _ _) h1, ?_⟩
    rintro x (rfl | hx)
    · exact le_trans (le_max_right _ _) h1
    · exact h2 x hx

theorem foldl_max_mem (xs : List Rat) (a : Rat) : xs.foldl max a = a ∨ xs.foldl max a ∈ xs := by
  induction xs generalizing a with
  | nil => simp
  | cons b l ih =>
    simp only [List.foldl_cons, List.mem_cons]
    rcases ih (max a b) with h | h
    · rw [h]
      rcases max_choice a b with h' | h'
      · left; exact h'
      · right; left; exact h'
    · right; right; exact h

theorem maxL_isMax {xs : List Rat} {m : Rat} (h : maxL xs = some m) : IsMax xs m := by
  cases xs with
  | nil => simp [maxL] at h
  | cons a l =>
    simp only [maxL, Option.some.injEq] at h
    subst h
    obtain ⟨h1, h2⟩ := foldl_max_ge l a
    refine ⟨?_, ?_⟩
    · rcases foldl_max_mem l a with h | h
      · rw [h]; exact List.mem_cons_self
      · exact List.mem_cons_of_mem _ h
    · intro x hx
      rcases List.mem_cons.1 hx with rfl | hx
      · exact h1
      · exact h2 x hx

theorem maxL_isSome {xs : List Rat} (h : xs ≠ []) : ∃ m, maxL xs = some m := by
  cases xs with
  | nil => exact absurd rfl h
  | cons a l => exact ⟨_, rfl⟩

/-! ### sorting -/

theorem insertSorted_perm (a : Rat) (l : List Rat) : (insertSorted a l).Perm (a :: l) := by
  induction l with
  | nil => simp [insertSorted]
  | cons b l ih =>
    simp only [insertSorted]
    split
    · exact List.Perm.refl _
    · exact (List.Perm.cons b ih).trans (List.Perm.swap a b l)

theorem isort_perm (l : List Rat) : (isort l).Perm l := by
  induction l with
  | nil => simp [isort]
  | cons a l ih =>
    simp only [isort]
    exact (insertSorted_perm a (isort l)).trans (List.Perm.cons a ih)

theorem insertSorted_sorted (a : Rat) (l : List Rat) (h : Sorted l) : Sorted (insertSorted a l) := by
  induction l with
  | nil => simp [insertSorted, Sorted]
  | cons b l ih =>
    simp only [insertSorted]
    obtain ⟨hb, hl⟩ := h
    split
    · rename_i hab
      refine ⟨?_, hb, hl⟩
      intro c hc
      rcases List.mem_cons.1 hc with rfl | hc
      · exact hab
      · exact le_trans hab (hb c hc)
    · rename_i hab
      refine ⟨?_, ih hl⟩
      intro c hc
      have := (insertSorted_perm a l).mem_iff.1 hc
      rcases List.mem_cons.1 this with rfl | hc'
      · exact le_of_lt (not_le.1 hab)
      · exact hb c hc'

theorem isort_sorted (l : List Rat) : Sorted (isort l) := by
  induction l with
  | nil => simp [isort, Sorted]
  | cons a l ih => exact insertSorted_sorted a _ ih

theorem isort_length (l : List Rat) : (isort l).length = l.length := (isort_perm l).length_eq

/-- a sorted list is monotone in the index -/
theorem Sorted.get_le {s : List Rat} (h : Sorted s) {i j : Nat} {a b : Rat}
    (hij : i ≤ j) (ha : s[i]? = some a) (hb : s[j]? = some b) : a ≤ b := by
  induction s generalizing i j with
  | nil => simp at ha
  | cons c l ih =>
    obtain ⟨hc, hl⟩ := h
    cases i with
    | zero =>
      simp at ha; subst ha
      cases j with
      | zero => simp at hb; subst hb; exact le_refl _
      | succ j =>
        simp at hb
        exact hc b (List.mem_of_getElem? hb)
    | succ i =>
      cases j with
      | zero => omega
      | succ j =>
        simp at ha hb
        exact ih hl (by omega) ha hb

/-! ### median -/

theorem median_isMedian {xs : List Rat} {m : Rat} (h : median xs = some m) : IsMedian xs m := by
  refine ⟨isort xs, isort_perm xs, isort_sorted xs, ?_⟩
  unfold median at h
  simp only at h
  split at h
  · simp at h
  · split at h
    · rename_i h1
      exact Or.inl ⟨h1, h⟩
    · rename_i h0 h1
      right
      refine ⟨by omega, ?_⟩
      split at h
      · rename_i a b ha hb
        simp only [Option.some.injEq] at h
        exact ⟨a, b, ha, hb, h.symm⟩
      · simp at h

theorem median_isSome {xs : List Rat} (h : xs ≠ []) : ∃ m, median xs = some m := by
  have hl : (isort xs).length ≠ 0 := by
    rw [isort_length]; exact fun h0 => h (List.length_eq_zero_iff.1 h0)
  unfold median
  simp only [hl, if_false]
  split
  · have : (isort xs).length / 2 < (isort xs).length := by omega
    exact ⟨_, List.getElem?_eq_getElem this⟩
  · have h1 : (isort xs).length / 2 - 1 < (isort xs).length := by omega
    have h2 : (isort xs).length / 2 < (isort xs).length := by omega
    rw [List.getElem?_eq_getElem h1, List.getElem?_eq_getElem h2]
    exact ⟨_, rfl⟩


/-! ### percentile / iqr -/

theorem rat_floor_eq (q : Rat) : q.floor = ⌊q⌋ := rfl

theorem percentile_interp (s : List Rat) (p : Rat) (hn : 2 ≤ s.length) (hp0 : 0 ≤ p) (hp1 : p ≤ 1) :
    ∃ q, percentile s p = some q ∧ Interp s p q := by
  have hlen : (2 : Rat) ≤ (s.length : Rat) := by exact_mod_cast hn
  unfold percentile
  split
  · simp at hn
  · by_cases h0 : p = 0
    · subst h0
      simp only [if_true]
      have : 0 < s.length := by omega
      refine ⟨s[0], by simp [List.head?_eq_getElem?], ?_⟩
      unfold Interp
      simp only [zero_mul]
      refine ⟨s[0], by simp [rat_floor_eq], Or.inl ⟨by simp [rat_floor_eq], rfl⟩⟩
    · simp only [h0, if_false]
      by_cases h1 : p = 1
      · subst h1
        simp only [if_true]
        have hl : s.length - 1 < s.length := by omega
        refine ⟨s[s.length - 1], by rw [List.getLast?_eq_getElem?]; exact List.getElem?_eq_getElem hl, ?_⟩
        unfold Interp
        have hc : (1 : Rat) * ((s.length : Rat) - 1) = ((s.length - 1 : Nat) : Rat) := by
          rw [one_mul, Nat.cast_sub (by omega)]; simp
        simp only [hc, rat_floor_eq, Int.floor_natCast, Int.toNat_natCast]
        exact ⟨s[s.length - 1], List.getElem?_eq_getElem hl, Or.inl ⟨trivial, rfl⟩⟩
      · simp only [h1, if_false]
        have hp0' : 0 < p := lt_of_le_of_ne hp0 (Ne.symm h0)
        have hp1' : p < 1 := lt_of_le_of_ne hp1 h1
        set h : Rat := p * ((s.length : Rat) - 1) with hh
        have hpos : 0 ≤ h := by
          have : (0 : Rat) ≤ (s.length : Rat) - 1 := by linarith
          exact mul_nonneg hp0 this
        have hlt : h < (s.length : Rat) - 1 := by
          have : (0 : Rat) < (s.length : Rat) - 1 := by linarith
          calc h = p * ((s.length : Rat) - 1) := rfl
            _ < 1 * ((s.length : Rat) - 1) := by exact mul_lt_mul_of_pos_right hp1' this
            _ = (s.length : Rat) - 1 := one_mul _
        have hfl : 0 ≤ ⌊h⌋ := Int.floor_nonneg.2 hpos
        have hI : ((h.floor.toNat : Nat) : Rat) = ((⌊h⌋ : Int) : Rat) := by
          rw [rat_floor_eq]
          have : ((⌊h⌋.toNat : Nat) : Int) = ⌊h⌋ := Int.toNat_of_nonneg hfl
          exact_mod_cast this
        have hIle : ((h.floor.toNat : Nat) : Rat) ≤ h := by rw [hI]; exact Int.floor_le h
        have hIlt : h.floor.toNat + 1 < s.length := by
          have : ((h.floor.toNat : Nat) : Rat) < (s.length : Rat) - 1 := lt_of_le_of_lt hIle hlt
          have : ((h.floor.toNat + 1 : Nat) : Rat) < (s.length : Rat) := by push_cast; linarith
          exact_mod_cast this
        have hI0 : h.floor.toNat < s.length := by omega
        by_cases he : h = ((h.floor.toNat : Nat) : Rat)
        · simp only [he.symm, if_true]
          refine ⟨s[h.floor.toNat], List.getElem?_eq_getElem hI0, ?_⟩
          unfold Interp
          exact ⟨s[h.floor.toNat], List.getElem?_eq_getElem hI0, Or.inl ⟨he, rfl⟩⟩
        · simp only [if_neg he]
          rw [List.getElem?_eq_getElem hI0, List.getElem?_eq_getElem hIlt]
          refine ⟨_, rfl, ?_⟩
          unfold Interp
          refine ⟨s[h.floor.toNat], List.getElem?_eq_getElem hI0, Or.inr ⟨s[h.floor.toNat + 1], List.getElem?_eq_getElem hIlt, ?_⟩⟩
          ring


theorem percentile_isQuantile (xs : List Rat) (p : Rat) (hn : 2 ≤ xs.length) (hp0 : 0 ≤ p) (hp1 : p ≤ 1) :
    ∃ q, percentile (isort xs) p = some q ∧ IsQuantile xs p q := by
  obtain ⟨q, h1, h2⟩ := percentile_interp (isort xs) p (by rw [isort_length]; exact hn) hp0 hp1
  exact ⟨q, h1, isort xs, isort_perm xs, isort_sorted xs, h2⟩

theorem iqr_sound {xs : List Rat} {d : Rat} (h : iqr xs = some d) :
    (xs.length ≤ 1 ∧ d = 0) ∨
    (2 ≤ xs.length ∧ ∃ a b, IsQuantile xs (1/4) a ∧ IsQuantile xs (3/4) b ∧ d = b - a) := by
  unfold iqr at h
  split at h
  · rename_i hl
    left; exact ⟨hl, by simpa using h.symm⟩
  · rename_i hl
    have hn : 2 ≤ xs.length := by omega
    right
    obtain ⟨a, ha, hqa⟩ := percentile_isQuantile xs (1/4) hn (by norm_num) (by norm_num)
    obtain ⟨b, hb, hqb⟩ := percentile_isQuantile xs (3/4) hn (by norm_num) (by norm_num)
    rw [ha, hb] at h
    simp only [Option.some.injEq] at h
    exact ⟨hn, a, b, hqa, hqb, h.symm⟩

theorem iqr_isSome (xs : List Rat) : ∃ d, iqr xs = some d := by
  unfold iqr
  split
  · exact ⟨0, rfl⟩
  · rename_i hl
    have hn : 2 ≤ xs.length := by omega
    obtain ⟨a, ha, _⟩ := percentile_isQuantile xs (1/4) hn (by norm_num) (by norm_num)
    obtain ⟨b, hb, _⟩ := percentile_isQuantile xs (3/4) hn (by norm_num) (by norm_num)
    rw [ha, hb]
    exact ⟨_, rfl⟩

theorem mean_sound {xs : List Rat} {m : Rat} (h : mean xs = some m) :
    xs ≠ [] ∧ m = sumL xs / (xs.length : Rat) := by
  cases xs with
  | nil => simp [mean] at h
  | cons a l =>
    simp only [mean, Option.some.injEq] at h
    exact ⟨by simp, h.symm⟩

theorem mean_isSome {xs : List Rat} (h : xs ≠ []) : ∃ m, mean xs = some m := by
  cases xs with
  | nil => exact absurd rfl h
  | cons a l => exact ⟨_, rfl⟩

theorem shiftValue_sound {sh : Shift} {xs : List Rat} {s : Rat} (h : shiftValue sh xs = some s) :
    ShiftStat sh xs s := by
  cases sh with
  | num a => simp only [shiftValue, Option.some.injEq] at h; exact h.symm
  | min =>
    simp only [shiftValue, Option.map_eq_some_iff] at h
    obtain ⟨m, hm, rfl⟩ := h
    exact ⟨m, minL_isMin hm, rfl⟩
  | mean =>
    simp only [shiftValue, Option.map_eq_some_iff] at h
    obtain ⟨m, hm, rfl⟩ := h
    obtain ⟨h1, h2⟩ := mean_sound hm
    exact ⟨h1, by rw [h2]⟩
  | median =>
    simp only [shiftValue, Option.map_eq_some_iff] at h
    obtain ⟨m, hm, rfl⟩ := h
    exact ⟨m, median_isMedian hm, rfl⟩

theorem shiftValue_isSome (sh : Shift) (xs : List Rat)
    (h : match sh with | .num _ => True | _ => xs ≠ []) : ∃ s, shiftValue sh xs = some s := by
  cases sh with
  | num a => exact ⟨a, rfl⟩
  | min => obtain ⟨m, hm⟩ := minL_isSome h; exact ⟨-m, by simp [shiftValue, hm]⟩
  | mean => obtain ⟨m, hm⟩ := mean_isSome h; exact ⟨-m, by simp [shiftValue, hm]⟩
  | median => obtain ⟨m, hm⟩ := median_isSome h; exact ⟨-m, by simp [shiftValue, hm]⟩

theorem scaleValue_sound {sd : List Rat → Rat} {sc : Scl} {xs : List Rat} {s f : Rat}
    (h : scaleValue sd sc xs s = some f) : ScaleStat sd sc xs s f := by
  simp only [scaleValue, Option.map_eq_some_iff] at h
  obtain ⟨nd, hnd, rfl⟩ := h
  cases sc with
  | num b =>
    simp only [scaleNumDen, Option.some.injEq] at hnd
    subst hnd
    refine ⟨1, rfl, ?_⟩
    simp only [guardDiv]
    norm_num
  | minmax =>
    simp only [scaleNumDen] at hnd
    split at hnd
    · rename_i mx mn hmx hmn
      simp only [Option.some.injEq] at hnd
      subst hnd
      refine ⟨mx - mn, ⟨mn, mx, minL_isMin hmn, maxL_isMax hmx, rfl⟩, ?_⟩
      simp [guardDiv]
    · simp at hnd
  | std =>
    simp only [scaleNumDen] at hnd
    split at hnd
    · simp at hnd
    · rename_i hl
      simp only [Option.some.injEq] at hnd
      subst hnd
      refine ⟨sd xs, ⟨by omega, rfl⟩, ?_⟩
      simp [guardDiv]
  | iqr =>
    simp only [scaleNumDen, Option.map_eq_some_iff] at hnd
    obtain ⟨d, hd, rfl⟩ := hnd
    refine ⟨d, iqr_sound hd, ?_⟩
    simp [guardDiv]
  | maxabs =>
    simp only [scaleNumDen, Option.map_eq_some_iff] at hnd
    obtain ⟨d, hd, rfl⟩ := hnd
    refine ⟨d, maxL_isMax hd, ?_⟩
    simp [guardDiv]

theorem scaleValue_isSome (sd : List Rat → Rat) (sc : Scl) (xs : List Rat) (s : Rat)
    (h : match sc with | .num _ => True | .iqr => True | .std => 2 ≤ xs.length | _ => xs ≠ []) :
    ∃ f, scaleValue sd sc xs s = some f := by
  cases sc with
  | num b => exact ⟨guardDiv (b, 1), by simp [scaleValue, scaleNumDen]⟩
  | minmax =>
    obtain ⟨mx, hmx⟩ := maxL_isSome h
    obtain ⟨mn, hmn⟩ := minL_isSome h
    exact ⟨guardDiv (1, mx - mn), by simp [scaleValue, scaleNumDen, hmx, hmn]⟩
  | std =>
    have : ¬ xs.length < 2 := by simpa using h
    exact ⟨guardDiv (1, sd xs), by simp [scaleValue, scaleNumDen, this]⟩
  | iqr =>
    obtain ⟨d, hd⟩ := iqr_isSome xs
    exact ⟨guardDiv (1, d), by simp [scaleValue, scaleNumDen, hd]⟩
  | maxabs =>
    have : xs.map (fun v => absR (v + s)) ≠ [] := by simpa using h
    obtain ⟨d, hd⟩ := maxL_isSome this
    exact ⟨guardDiv (1, d), by simp [scaleValue, scaleNumDen, hd]⟩

theorem nums_length_le_present (w : List Val) : (nums w).length ≤ presentCount w := by
  induction w with
  | nil => simp [nums, presentCount]
  | cons v l ih =>
    unfold nums presentCount at ih ⊢
    cases v with
    | num q =>
      rw [List.filterMap_cons_some (f := Val.num?) (a := Val.num q) (b := q) rfl, List.filter_cons_of_pos (by rfl)]
      simp only [List.length_cons]; omega
    | nan =>
      rw [List.filterMap_cons_none (f := Val.num?) (a := Val.nan) rfl, List.filter_cons_of_neg (by decide)]
      exact ih
    | nil =>
      rw [List.filterMap_cons_none (f := Val.num?) (a := Val.nil) rfl, List.filter_cons_of_neg (by decide)]
      exact ih
    | str t =>
      rw [List.filterMap_cons_none (f := Val.num?) (a := Val.str t) rfl, List.filter_cons_of_pos (by rfl)]
      simp only [List.length_cons]; omega

/-- soundness of the fitted parameters: they are the documented statistics of the window -/
theorem fit_sound {sd : List Rat → Rat} {cfg : Cfg} {w : List Val} {s f : Rat}
    (h : fit sd cfg w = some (s, f)) :
    ShiftStat cfg.shift (nums w) s ∧ ScaleStat sd cfg.scale (nums w) s f := by
  unfold fit at h
  split at h
  · split at h
    · rename_i a b hsh hsc
      simp only [Option.some.injEq, Prod.mk.injEq] at h
      obtain ⟨rfl, rfl⟩ := h
      rw [hsh, hsc]
      exact ⟨rfl, 1, rfl, by norm_num⟩
    · rename_i a hsh hsc
      split at h
      · rename_i hc
        simp only [Option.some.injEq, Prod.mk.injEq] at h
        obtain ⟨rfl, rfl⟩ := h
        rw [hsh, hsc]
        refine ⟨rfl, 0, Or.inl ⟨le_trans (nums_length_le_present w) hc, rfl⟩, by norm_num⟩
      · simp at h
    · simp at h
  · split at h
    · simp at h
    · rename_i sh hsh
      split at h
      · simp at h
      · rename_i sc hsc
        simp only [Option.some.injEq, Prod.mk.injEq] at h
        obtain ⟨rfl, rfl⟩ := h
        exact ⟨shiftValue_sound hsh, scaleValue_sound hsc⟩

/-- completeness: on a column without strings whose statistics are defined, parameters exist -/
theorem fit_isSome (sd : List Rat → Rat) (cfg : Cfg) (w : List Val)
    (hstr : w.any Val.isStr = false) (hdef : StatsDefined cfg w) :
    ∃ s f, fit sd cfg w = some (s, f) := by
  obtain ⟨h1, h2⟩ := hdef
  obtain ⟨s, hs⟩ := shiftValue_isSome cfg.shift (nums w) h1
  obtain ⟨f, hf⟩ := scaleValue_isSome sd cfg.scale (nums w) s (by
    cases hsc : cfg.scale <;> simp_all)
  refine ⟨s, f, ?_⟩
  unfold fit
  simp [hstr, hs, hf]


/-! ### Scale: cells -/

theorem applyVal_nonnum (p : Rat × Rat) (v : Val) (h : v.isNum = false) : applyVal p v = v := by
  cases v <;> simp_all [applyVal, Val.isNum]

theorem applyOpt_nonnum (p : Option (Rat × Rat)) (v : Val) (h : v.isNum = false) : applyOpt p v = v := by
  cases p with
  | none => rfl
  | some p => exact applyVal_nonnum p v h

/-- what a cell becomes under fitted parameters meets the cell specification -/
theorem applyOpt_spec (sd : List Rat → Rat) (cfg : Cfg) (w : List Val) (v : Val)
    (hstr : w.any Val.isStr = false) (hdef : StatsDefined cfg w) :
    ScaleCellSpec sd cfg w v (applyOpt (fit sd cfg w) v) := by
  obtain ⟨s, f, hfit⟩ := fit_isSome sd cfg w hstr hdef
  obtain ⟨h1, h2⟩ := fit_sound hfit
  rw [hfit]
  cases v with
  | num x => exact ⟨s, f, h1, h2, rfl⟩
  | nan => rfl
  | nil => rfl
  | str t => rfl

theorem scaleDense_cell (sd : List Rat → Rat) (cfg : Cfg) (rows : List (List Val)) (first : List Val)
    (hfirst : rows.head? = some first) (i k : Nat) :
    denseCell (scaleDense sd cfg rows) i k =
      (denseCell rows i k).map (applyOpt (if potDense first k then fit sd cfg (col k (window cfg.usingN rows)) else none)) := by
  cases rows with
  | nil => simp at hfirst
  | cons f rest =>
    simp only [List.head?_cons, Option.some.injEq] at hfirst
    subst hfirst
    simp only [denseCell, scaleDense, List.getElem?_map]
    cases (f :: rest)[i]? with
    | none => rfl
    | some row => simp [denseRow, List.getElem?_mapIdx]

theorem scale_dense_eq_spec' (sd : List Rat → Rat) (cfg : Cfg) (rows : List (List Val)) (first : List Val)
    (i k : Nat) (v : Val)
    (hfirst : rows.head? = some first) (hv : denseCell rows i k = some v)
    (hpot : potDense first k = true)
    (hstr : (col k (window cfg.usingN rows)).any Val.isStr = false)
    (hdef : StatsDefined cfg (col k (window cfg.usingN rows))) :
    ∃ out, denseCell (scaleDense sd cfg rows) i k = some out ∧
      ScaleCellSpec sd cfg (col k (window cfg.usingN rows)) v out := by
  rw [scaleDense_cell sd cfg rows first hfirst, hv, hpot]
  exact ⟨_, rfl, applyOpt_spec sd cfg _ v hstr hdef⟩

theorem scale_dense_untouched' (sd : List Rat → Rat) (cfg : Cfg) (rows : List (List Val)) (i k : Nat) (v : Val)
    (hv : denseCell rows i k = some v) (hnn : v.isNum = false) :
    denseCell (scaleDense sd cfg rows) i k = some v := by
  cases rows with
  | nil => simp [denseCell] at hv
  | cons f rest =>
    rw [scaleDense_cell sd cfg (f :: rest) f rfl, hv]
    simp [applyOpt_nonnum _ v hnn]

theorem scale_dense_nonpotential' (sd : List Rat → Rat) (cfg : Cfg) (rows : List (List Val)) (first : List Val)
    (i k : Nat) (hfirst : rows.head? = some first) (hpot : potDense first k = false) :
    denseCell (scaleDense sd cfg rows) i k = denseCell rows i k := by
  rw [scaleDense_cell sd cfg rows first hfirst, hpot]
  cases denseCell rows i k <;> simp [applyOpt]

theorem scale_dense_shape' (sd : List Rat → Rat) (cfg : Cfg) (rows : List (List Val)) :
    (scaleDense sd cfg rows).length = rows.length ∧
    ∀ i : Nat, ((scaleDense sd cfg rows)[i]?).map List.length = (rows[i]?).map List.length := by
  cases rows with
  | nil => simp [scaleDense]
  | cons f rest =>
    refine ⟨by simp [scaleDense], fun i => ?_⟩
    simp only [scaleDense, List.getElem?_map]
    cases (f :: rest)[i]? <;> simp [denseRow]

/-! scalar contexts -/

theorem scale_scalar_eq_spec' (sd : List Rat → Rat) (cfg : Cfg) (rows : List Val) (i : Nat) (v : Val)
    (hv : rows[i]? = some v)
    (hstr : (window cfg.usingN rows).any Val.isStr = false)
    (hdef : StatsDefined cfg (window cfg.usingN rows)) :
    ∃ out, (scaleScalar sd cfg rows)[i]? = some out ∧ ScaleCellSpec sd cfg (window cfg.usingN rows) v out := by
  simp only [scaleScalar, List.getElem?_map, hv, Option.map_some]
  exact ⟨_, rfl, applyOpt_spec sd cfg _ v hstr hdef⟩

theorem scale_scalar_untouched' (sd : List Rat → Rat) (cfg : Cfg) (rows : List Val) (i : Nat) (v : Val)
    (hv : rows[i]? = some v) (hnn : v.isNum = false) :
    (scaleScalar sd cfg rows)[i]? = some v := by
  simp [scaleScalar, List.getElem?_map, hv, applyOpt_nonnum _ v hnn]

theorem scale_scalar_length' (sd : List Rat → Rat) (cfg : Cfg) (rows : List Val) :
    (scaleScalar sd cfg rows).length = rows.length := by simp [scaleScalar]

/-! sparse contexts -/

theorem lookup_map_val {g : String → Val → Val} (c : SCtx) (k : String) :
    (c.map (fun kv => (kv.1, g kv.1 kv.2))).lookup k = (c.lookup k).map (g k) := by
  induction c with
  | nil => rfl
  | cons kv c ih =>
    obtain ⟨a, b⟩ := kv
    simp only [List.map_cons, List.lookup]
    cases h : k == a with
    | true =>
      have : k = a := by simpa using h
      subst this
      simp
    | false => simpa using ih

theorem scaleSparse_ok (sd : List Rat → Rat) (cfg : Cfg) (rows : List SCtx) (first : SCtx)
    (hfirst : rows.head? = some first) (h0 : cfg.shift = .num 0) :
    scaleSparse sd cfg rows = .ok (rows.map (sparseRow sd cfg first (window cfg.usingN rows))) := by
  cases rows with
  | nil => simp at hfirst
  | cons f rest =>
    simp only [List.head?_cons, Option.some.injEq] at hfirst
    subst hfirst
    simp [scaleSparse, h0]

theorem scaleSparse_cell (sd : List Rat → Rat) (cfg : Cfg) (rows : List SCtx) (first : SCtx)
    (hfirst : rows.head? = some first) (h0 : cfg.shift = .num 0) (i : Nat) (k : String) :
    ∃ out, scaleSparse sd cfg rows = .ok out ∧
      sparseCell out i k = (sparseCell rows i k).map
        (applyOpt (if potSparse first k
          then fit sd cfg ((window cfg.usingN rows).map (getD0 k)) else none)) := by
  refine ⟨_, scaleSparse_ok sd cfg rows first hfirst h0, ?_⟩
  simp only [sparseCell, List.getElem?_map]
  cases rows[i]? with
  | none => rfl
  | some c =>
    simp only [Option.map_some, Option.bind_some]
    exact lookup_map_val (g := fun k v => applyOpt (if potSparse first k
          then fit sd cfg ((window cfg.usingN rows).map (getD0 k)) else none) v) c k

theorem scale_sparse_eq_spec' (sd : List Rat → Rat) (cfg : Cfg) (rows : List SCtx) (first : SCtx)
    (i : Nat) (k : String) (v : Val)
    (hfirst : rows.head? = some first) (h0 : cfg.shift = .num 0)
    (hv : sparseCell rows i k = some v)
    (hpot : potSparse first k = true)
    (hstr : ((window cfg.usingN rows).map (getD0 k)).any Val.isStr = false)
    (hdef : StatsDefined cfg ((window cfg.usingN rows).map (getD0 k))) :
    ∃ outs out, scaleSparse sd cfg rows = .ok outs ∧ sparseCell outs i k = some out ∧
      ScaleCellSpec sd cfg ((window cfg.usingN rows).map (getD0 k)) v out := by
  obtain ⟨outs, h1, h2⟩ := scaleSparse_cell sd cfg rows first hfirst h0 i k
  rw [hv, hpot] at h2
  exact ⟨outs, _, h1, h2, applyOpt_spec sd cfg _ v hstr hdef⟩

theorem scale_sparse_untouched' (sd : List Rat → Rat) (cfg : Cfg) (rows : List SCtx) (first : SCtx)
    (i : Nat) (k : String) (v : Val)
    (hfirst : rows.head? = some first) (h0 : cfg.shift = .num 0)
    (hv : sparseCell rows i k = some v) (hnn : v.isNum = false) :
    ∃ outs, scaleSparse sd cfg rows = .ok outs ∧ sparseCell outs i k = some v := by
  obtain ⟨outs, h1, h2⟩ := scaleSparse_cell sd cfg rows first hfirst h0 i k
  rw [hv] at h2
  exact ⟨outs, h1, by simp [h2, applyOpt_nonnum _ v hnn]⟩

theorem scale_sparse_keys' (sd : List Rat → Rat) (cfg : Cfg) (rows : List SCtx) (first : SCtx)
    (hfirst : rows.head? = some first) (h0 : cfg.shift = .num 0) :
    ∃ outs, scaleSparse sd cfg rows = .ok outs ∧
      outs.map (fun c => c.map Prod.fst) = rows.map (fun c => c.map Prod.fst) := by
  refine ⟨_, scaleSparse_ok sd cfg rows first hfirst h0, ?_⟩
  simp [sparseRow, List.map_map, Function.comp_def]

theorem scale_sparse_rejects' (sd : List Rat → Rat) (cfg : Cfg) (rows : List SCtx)
    (hne : rows ≠ []) (h0 : cfg.shift ≠ .num 0) : scaleSparse sd cfg rows = .error .cobaException := by
  cases rows with
  | nil => exact absurd rfl hne
  | cons f rest => simp [scaleSparse, h0]


/-! ### the fitting window -/

theorem window_none' {α} (rows : List α) : window none rows = rows := rfl

theorem window_ge' {α} (n : Nat) (rows : List α) (h : rows.length ≤ n) : window (some n) rows = rows :=
  List.take_of_length_le h

theorem window_append' {α} (w rest : List α) : window (some w.length) (w ++ rest) = w := by
  simp [window]

theorem window_map {α β} (f : α → β) (u : Option Nat) (rows : List α) :
    window u (rows.map f) = (window u rows).map f := by
  cases u with
  | none => rfl
  | some n => simp [window, List.map_take]

/-- `Scale` with `using = len(w)`: the result on `w ++ rest` is the row function fitted on `w` alone,
applied to every interaction (so the statistics do not depend on `rest`) -/
theorem scaleDense_window' (sd : List Rat → Rat) (cfg : Cfg) (first : List Val) (w rest : List (List Val))
    (hw : w.head? = some first) (hu : cfg.usingN = some w.length) :
    scaleDense sd cfg (w ++ rest) = (w ++ rest).map (denseRow sd cfg first w) := by
  cases w with
  | nil => simp at hw
  | cons f w' =>
    simp only [List.head?_cons, Option.some.injEq] at hw
    subst hw
    have : window cfg.usingN (f :: w' ++ rest) = f :: w' := by rw [hu]; exact window_append' (f :: w') rest
    simp only [List.cons_append] at this ⊢
    simp [scaleDense, this]

theorem scaleDense_using_none' (sd : List Rat → Rat) (cfg : Cfg) (first : List Val) (rows : List (List Val))
    (hf : rows.head? = some first) (hu : cfg.usingN = none) :
    scaleDense sd cfg rows = rows.map (denseRow sd cfg first rows) := by
  cases rows with
  | nil => simp at hf
  | cons f r =>
    simp only [List.head?_cons, Option.some.injEq] at hf
    subst hf
    simp [scaleDense, hu, window]

theorem scaleDense_using_ge' (sd : List Rat → Rat) (sh : Shift) (sc : Scl) (n : Nat) (rows : List (List Val))
    (h : rows.length ≤ n) :
    scaleDense sd ⟨sh, sc, some n⟩ rows = scaleDense sd ⟨sh, sc, none⟩ rows := by
  cases rows with
  | nil => rfl
  | cons f r =>
    have ht : List.take n (f :: r) = f :: r := List.take_of_length_le h
    simp only [scaleDense, window, ht]
    rfl

theorem scaleScalar_using_ge' (sd : List Rat → Rat) (sh : Shift) (sc : Scl) (n : Nat) (rows : List Val)
    (h : rows.length ≤ n) :
    scaleScalar sd ⟨sh, sc, some n⟩ rows = scaleScalar sd ⟨sh, sc, none⟩ rows := by
  have ht : List.take n rows = rows := List.take_of_length_le h
  simp only [scaleScalar, window, ht]
  rfl

theorem scaleScalar_window' (sd : List Rat → Rat) (cfg : Cfg) (w rest : List Val)
    (hu : cfg.usingN = some w.length) :
    scaleScalar sd cfg (w ++ rest) = (w ++ rest).map (applyOpt (fit sd cfg w)) := by
  simp only [scaleScalar, hu, window_append']

theorem scaleSparse_using_ge' (sd : List Rat → Rat) (sh : Shift) (sc : Scl) (n : Nat) (rows : List SCtx)
    (h : rows.length ≤ n) :
    scaleSparse sd ⟨sh, sc, some n⟩ rows = scaleSparse sd ⟨sh, sc, none⟩ rows := by
  cases rows with
  | nil => rfl
  | cons f r =>
    have ht : List.take n (f :: r) = f :: r := List.take_of_length_le h
    simp only [scaleSparse, window, ht]
    rfl

theorem scaleSparse_window' (sd : List Rat → Rat) (cfg : Cfg) (first : SCtx) (w rest : List SCtx)
    (hw : w.head? = some first) (hu : cfg.usingN = some w.length) (h0 : cfg.shift = .num 0) :
    scaleSparse sd cfg (w ++ rest) = .ok ((w ++ rest).map (sparseRow sd cfg first w)) := by
  cases w with
  | nil => simp at hw
  | cons f w' =>
    simp only [List.head?_cons, Option.some.injEq] at hw
    subst hw
    have : window cfg.usingN (f :: w' ++ rest) = f :: w' := by rw [hu]; exact window_append' (f :: w') rest
    simp only [List.cons_append] at this ⊢
    simp [scaleSparse, this, h0]

/-! ### the three kinds of context agree -/

theorem col_zero_singletons (ws : List Val) : col 0 (ws.map (fun v => [v])) = ws := by
  induction ws with
  | nil => rfl
  | cons a l ih => simp [col] at ih ⊢

/-- scalar contexts behave like dense contexts with one feature (when the first context is not a string: the dense
path takes its potential keys from the first context, the scalar path always fits) -/
theorem scale_scalar_dense_agree' (sd : List Rat → Rat) (cfg : Cfg) (rows : List Val)
    (hs : ∀ v0, rows.head? = some v0 → v0.isStr = false) :
    scaleDense sd cfg (rows.map (fun v => [v])) = (scaleScalar sd cfg rows).map (fun v => [v]) := by
  cases rows with
  | nil => rfl
  | cons v0 rest =>
    have hwin : window cfg.usingN ((v0 :: rest).map (fun v => [v])) = (window cfg.usingN (v0 :: rest)).map (fun v => [v]) :=
      window_map _ _ _
    simp only [List.map_cons] at hwin
    simp only [scaleDense, scaleScalar, List.map_cons, List.map_map, hwin]
    have hcol : col 0 ((window cfg.usingN (v0 :: rest)).map (fun v => [v])) = window cfg.usingN (v0 :: rest) :=
      col_zero_singletons _
    have hp : potDense [v0] 0 = true := by
      have := hs v0 rfl
      cases v0 <;> simp_all [potDense, Val.numOrNil, Val.isStr]
    have key : ∀ v : Val, denseRow sd cfg [v0] ((window cfg.usingN (v0 :: rest)).map (fun v => [v])) [v]
        = [applyOpt (fit sd cfg (window cfg.usingN (v0 :: rest))) v] := by
      intro v
      simp [denseRow, List.mapIdx_cons, List.mapIdx_nil, hcol, hp]
    simp [Function.comp_def, key]


/-! ### Impute: statistics -/

theorem modeAux_spec (all : List Val) (l : List Val) (b : Val) :
    ∃ m, modeAux all l (some b) = some m ∧ count b all ≤ count m all ∧
      (∀ v ∈ l, count v all ≤ count m all) ∧ (m = b ∨ m ∈ l) := by
  induction l generalizing b with
  | nil => exact ⟨b, rfl, le_refl _, by simp, Or.inl rfl⟩
  | cons v l ih =>
    simp only [modeAux]
    by_cases h : count b all < count v all
    · simp only [h, if_true]
      obtain ⟨m, h1, h2, h3, h4⟩ := ih v
      refine ⟨m, h1, by omega, ?_, ?_⟩
      · intro x hx
        rcases List.mem_cons.1 hx with rfl | hx
        · exact h2
        · exact h3 x hx
      · rcases h4 with rfl | h4
        · right; exact List.mem_cons_self
        · right; exact List.mem_cons_of_mem _ h4
    · simp only [h, if_false]
      obtain ⟨m, h1, h2, h3, h4⟩ := ih b
      refine ⟨m, h1, h2, ?_, ?_⟩
      · intro x hx
        rcases List.mem_cons.1 hx with rfl | hx
        · omega
        · exact h3 x hx
      · rcases h4 with rfl | h4
        · left; rfl
        · right; exact List.mem_cons_of_mem _ h4

theorem count_eq_zero_of_not_mem {v : Val} {l : List Val} (h : v ∉ l) : count v l = 0 := by
  simp only [count, List.length_eq_zero_iff, List.filter_eq_nil_iff]
  intro a ha hav
  have : a = v := by simpa using hav
  exact h (this ▸ ha)

theorem mode_isMode {vs : List Val} {m : Val} (h : mode vs = some m) : IsMode vs m := by
  cases vs with
  | nil => simp [mode, modeAux] at h
  | cons a l =>
    simp only [mode, modeAux] at h
    obtain ⟨m', h1, h2, h3, h4⟩ := modeAux_spec (a :: l) l a
    rw [h1] at h
    simp only [Option.some.injEq] at h
    subst h
    refine ⟨?_, ?_⟩
    · rcases h4 with rfl | h4
      · exact List.mem_cons_self
      · exact List.mem_cons_of_mem _ h4
    · intro v
      by_cases hv : v ∈ a :: l
      · rcases List.mem_cons.1 hv with rfl | hv
        · exact h2
        · exact h3 v hv
      · rw [count_eq_zero_of_not_mem hv]; exact Nat.zero_le _

theorem mode_isSome {vs : List Val} (h : vs ≠ []) : ∃ m, mode vs = some m := by
  cases vs with
  | nil => exact absurd rfl h
  | cons a l =>
    obtain ⟨m', h1, _⟩ := modeAux_spec (a :: l) l a
    exact ⟨m', by simp only [mode, modeAux]; exact h1⟩

/-- the non-missing (neither `None` nor `nan`) values of a column -/
abbrev present (w : List Val) : List Val := w.filter (fun v => !v.isMiss)

theorem getImp_sound {st : Stat} {w : List Val} {m : Val} (h : getImp st w = some m) :
    ImpStat st (present w) m := by
  cases st with
  | mode => exact mode_isMode h
  | mean =>
    simp only [getImp] at h
    split at h
    · simp only [Option.map_eq_some_iff] at h
      obtain ⟨q, hq, rfl⟩ := h
      obtain ⟨h1, h2⟩ := mean_sound hq
      exact ⟨h1, by rw [h2]⟩
    · simp at h
  | median =>
    simp only [getImp] at h
    split at h
    · simp only [Option.map_eq_some_iff] at h
      obtain ⟨q, hq, rfl⟩ := h
      exact ⟨q, median_isMedian hq, rfl⟩
    · simp at h

theorem nums_ne_nil {vs : List Val} (hne : vs ≠ []) (hall : vs.all Val.isNum = true) : nums vs ≠ [] := by
  cases vs with
  | nil => exact absurd rfl hne
  | cons a l =>
    simp only [List.all_cons, Bool.and_eq_true] at hall
    cases a <;> simp_all [nums, Val.isNum, Val.num?]

theorem getImp_isSome {st : Stat} {w : List Val} (h : Imputable st w) : ∃ m, getImp st w = some m := by
  obtain ⟨hne, hall⟩ := h
  cases st with
  | mode => exact mode_isSome hne
  | mean =>
    simp only at hall
    obtain ⟨q, hq⟩ := mean_isSome (nums_ne_nil hne hall)
    exact ⟨.num q, by simp [getImp, hall, hq]⟩
  | median =>
    simp only at hall
    obtain ⟨q, hq⟩ := median_isSome (nums_ne_nil hne hall)
    exact ⟨.num q, by simp [getImp, hall, hq]⟩

theorem imputeCell_nonmiss (imp : Option Val) (v : Val) (h : v.isMiss = false) : imputeCell imp v = v := by
  cases imp <;> simp [imputeCell, h]

theorem imputeCell_miss_some (x v : Val) (h : v.isMiss = true) : imputeCell (some x) v = x := by
  simp [imputeCell, h]

/-! ### Impute: dense contexts -/

theorem imputeDense_row (st : Stat) (ind : Bool) (u : Option Nat) (rows : List (List Val)) (first : List Val)
    (hfirst : rows.head? = some first) (i : Nat) :
    (imputeDense st ind u rows)[i]? = (rows[i]?).map (imputeDenseRow st ind first (window u rows)) := by
  cases rows with
  | nil => simp at hfirst
  | cons f rest =>
    simp only [List.head?_cons, Option.some.injEq] at hfirst
    subst hfirst
    simp only [imputeDense, List.getElem?_map]

theorem imputeDenseRow_cell (st : Stat) (ind : Bool) (first : List Val) (win : List (List Val)) (row : List Val)
    (k : Nat) (v : Val) (hv : row[k]? = some v) :
    (imputeDenseRow st ind first win row)[k]? = some (imputeCell (denseImp st first win k) v) := by
  have hk : k < row.length := by
    by_contra hc
    rw [List.getElem?_eq_none (by omega)] at hv
    simp at hv
  unfold imputeDenseRow
  rw [List.getElem?_append_left (by simpa using hk)]
  simp [List.getElem?_mapIdx, hv]

theorem imputeDenseRow_length (st : Stat) (ind : Bool) (first : List Val) (win : List (List Val)) (row : List Val) :
    (imputeDenseRow st ind first win row).length = row.length + (denseBins ind first win).length := by
  simp [imputeDenseRow]

theorem imputeDenseRow_bit (st : Stat) (ind : Bool) (first : List Val) (win : List (List Val)) (row : List Val)
    (j k : Nat) (hj : (denseBins ind first win)[j]? = some k) :
    (imputeDenseRow st ind first win row)[row.length + j]? = some (bit (missAt row[k]?)) := by
  unfold imputeDenseRow
  rw [List.getElem?_append_right (by simp)]
  simp [List.getElem?_map, hj]

theorem mem_denseBins (ind : Bool) (first : List Val) (win : List (List Val)) (k : Nat) :
    k ∈ denseBins ind first win ↔ (ind = true ∧ k < first.length ∧ (col k win).any Val.isMiss = true) := by
  unfold denseBins
  cases ind with
  | false => simp
  | true => simp [List.mem_filter]

theorem impDense_of_imputable (st : Stat) (first : List Val) (rows : List (List Val)) (u : Option Nat) (k : Nat)
    (hfirst : rows.head? = some first) (hu : u ≠ some 0) (hk : k < first.length)
    (himp : Imputable st (col k (window u rows))) : impDense st first k = true := by
  cases st with
  | mode => simpa [impDense] using hk
  | mean | median =>
    all_goals
      simp only [impDense, potDense]
      have hget : first[k]? = some first[k] := List.getElem?_eq_getElem hk
      rw [hget]
      simp only
      by_contra hc
      have hs : first[k].isStr = true := by
        cases hv : first[k] <;> simp_all [Val.numOrNil, Val.isStr]
      -- the first row lies in the window, so its string is among the non-missing window values
      cases rows with
      | nil => simp at hfirst
      | cons f rest =>
        simp only [List.head?_cons, Option.some.injEq] at hfirst
        subst hfirst
        have hwin : ∃ tl, window u (f :: rest) = f :: tl := by
          cases u with
          | none => exact ⟨rest, rfl⟩
          | some n =>
            cases n with
            | zero => exact absurd rfl hu
            | succ n => exact ⟨rest.take n, by simp [window]⟩
        obtain ⟨tl, htl⟩ := hwin
        have hmem : f[k] ∈ (col k (window u (f :: rest))).filter (fun v => !v.isMiss) := by
          rw [htl]
          simp only [col, List.filterMap_cons, hget, List.mem_filter]
          refine ⟨List.mem_cons_self, ?_⟩
          cases hv : f[k] <;> simp_all [Val.isMiss, Val.isStr]
        have hall := himp.2
        simp only at hall
        have := List.all_eq_true.1 hall _ hmem
        cases hv : f[k] <;> simp_all [Val.isNum, Val.isStr]

/-- non-missing values are never changed and stay where they are -/
theorem impute_dense_nonmissing_fixed' (st : Stat) (ind : Bool) (u : Option Nat) (rows : List (List Val))
    (i k : Nat) (v : Val) (hv : denseCell rows i k = some v) (hnn : v.isMiss = false) :
    denseCell (imputeDense st ind u rows) i k = some v := by
  cases rows with
  | nil => simp [denseCell] at hv
  | cons f rest =>
    simp only [denseCell, imputeDense_row st ind u (f :: rest) f rfl] at hv ⊢
    cases hr : (f :: rest)[i]? with
    | none => simp [hr] at hv
    | some row =>
      simp only [hr, Option.bind_some, Option.map_some] at hv ⊢
      rw [imputeDenseRow_cell st ind f _ row k v hv, imputeCell_nonmiss _ v hnn]

/-- every missing value of an imputable feature is replaced by the statistic of the window -/
theorem impute_dense_eq_spec' (st : Stat) (ind : Bool) (u : Option Nat) (rows : List (List Val)) (first : List Val)
    (i k : Nat) (v : Val) (hfirst : rows.head? = some first) (hu : u ≠ some 0) (hk : k < first.length)
    (hv : denseCell rows i k = some v) (hmiss : v.isMiss = true)
    (himp : Imputable st (col k (window u rows))) :
    ∃ m, denseCell (imputeDense st ind u rows) i k = some m ∧ ImpStat st (present (col k (window u rows))) m := by
  obtain ⟨m, hm⟩ := getImp_isSome himp
  have hd : denseImp st first (window u rows) k = some m := by
    simp [denseImp, impDense_of_imputable st first rows u k hfirst hu hk himp, hm]
  refine ⟨m, ?_, getImp_sound hm⟩
  simp only [denseCell, imputeDense_row st ind u rows first hfirst] at hv ⊢
  cases hr : rows[i]? with
  | none => simp [hr] at hv
  | some row =>
    simp only [hr, Option.bind_some, Option.map_some] at hv ⊢
    rw [imputeDenseRow_cell st ind first _ row k v hv, hd, imputeCell_miss_some m v hmiss]


/-- the missingness indicators of a dense row: exactly one 0/1 feature per column that has a missing value
(`None` or `nan`) in the window, appended after the features, 1 iff the row's value there was missing -/
theorem impute_dense_indicator' (st : Stat) (ind : Bool) (u : Option Nat) (rows : List (List Val)) (first row : List Val)
    (i : Nat) (hfirst : rows.head? = some first) (hrow : rows[i]? = some row) :
    ∃ out, (imputeDense st ind u rows)[i]? = some out ∧
      out.length = row.length + (denseBins ind first (window u rows)).length ∧
      (∀ j k, (denseBins ind first (window u rows))[j]? = some k →
        out[row.length + j]? = some (bit (missAt row[k]?))) ∧
      (∀ k, k ∈ denseBins ind first (window u rows) ↔
        (ind = true ∧ k < first.length ∧ (col k (window u rows)).any Val.isMiss = true)) := by
  refine ⟨imputeDenseRow st ind first (window u rows) row, ?_, imputeDenseRow_length _ _ _ _ _, ?_, ?_⟩
  · rw [imputeDense_row st ind u rows first hfirst, hrow]; rfl
  · intro j k hj; exact imputeDenseRow_bit st ind first _ row j k hj
  · intro k; exact mem_denseBins ind first _ k

theorem impute_dense_no_indicator' (st : Stat) (u : Option Nat) (rows : List (List Val)) :
    (imputeDense st false u rows).map List.length = rows.map List.length := by
  cases rows with
  | nil => rfl
  | cons f rest =>
    simp only [imputeDense, List.map_map]
    apply List.map_congr_left
    intro row _
    simp [imputeDenseRow, denseBins]

theorem impute_dense_length' (st : Stat) (ind : Bool) (u : Option Nat) (rows : List (List Val)) :
    (imputeDense st ind u rows).length = rows.length := by
  cases rows with
  | nil => rfl
  | cons f rest => simp [imputeDense]

/-! ### Impute: scalar contexts -/

theorem impute_scalar_spec' (st : Stat) (ind : Bool) (u : Option Nat) (rows : List Val) :
    (ind && (window u rows).any Val.isMiss) = false →
      imputeScalar st ind u rows = .scalars (rows.map (imputeCell (getImp st (window u rows)))) := by
  intro h; simp [imputeScalar, h]

theorem impute_scalar_indicator' (st : Stat) (ind : Bool) (u : Option Nat) (rows : List Val) :
    (ind && (window u rows).any Val.isMiss) = true →
      imputeScalar st ind u rows =
        .pairs (rows.map (fun v => [imputeCell (getImp st (window u rows)) v, bit v.isMiss])) := by
  intro h; simp [imputeScalar, h]

/-- a missing scalar context is replaced by the statistic of the window, everything else stays -/
theorem imputeCell_spec (st : Stat) (w : List Val) (v : Val) :
    (v.isMiss = false → imputeCell (getImp st w) v = v) ∧
    (v.isMiss = true → Imputable st w → ∃ m, imputeCell (getImp st w) v = m ∧ ImpStat st (present w) m) := by
  refine ⟨imputeCell_nonmiss _ v, ?_⟩
  intro hmiss himp
  obtain ⟨m, hm⟩ := getImp_isSome himp
  exact ⟨m, by rw [hm, imputeCell_miss_some m v hmiss], getImp_sound hm⟩

/-! ### Impute: sparse contexts -/

theorem lookup_map_val_isSome {g : String → Val → Val} (c : SCtx) (k : String) :
    ((c.map (fun kv => (kv.1, g kv.1 kv.2))).lookup k).isSome = (c.lookup k).isSome := by
  rw [lookup_map_val]; cases c.lookup k <;> rfl

theorem imputeSparse_row (st : Stat) (ind : Bool) (u : Option Nat) (rows : List SCtx) (first : SCtx)
    (hfirst : rows.head? = some first) (i : Nat) :
    (imputeSparse st ind u rows)[i]? = (rows[i]?).map (imputeSparseRow st ind first (window u rows)) := by
  cases rows with
  | nil => simp at hfirst
  | cons f rest =>
    simp only [List.head?_cons, Option.some.injEq] at hfirst
    subst hfirst
    simp only [imputeSparse, List.getElem?_map]

theorem lookup_upsert (c : SCtx) (k k' : String) (v : Val) :
    (upsert c k' v).lookup k = if k == k' then some v else c.lookup k := by
  induction c with
  | nil =>
    simp only [upsert, List.lookup]
    cases h : k == k' <;> simp
  | cons kv rest ih =>
    obtain ⟨a, b⟩ := kv
    simp only [upsert]
    by_cases hak : (a == k') = true
    · have e1 : a = k' := by simpa using hak
      subst e1
      simp only [beq_self_eq_true, if_true, List.lookup]
      cases h : k == a <;> simp
    · simp only [hak, Bool.false_eq_true, if_false, List.lookup]
      cases h : k == a with
      | true =>
        have e1 : k = a := by simpa using h
        subst e1
        have : (k == k') = false := by simpa using hak
        simp [this]
      | false => simpa using ih

theorem lookup_foldl_upsert (bins : List String) (g : String → Val) (c : SCtx) (k : String)
    (hfresh : ∀ b ∈ bins, b ++ "_is_missing" ≠ k) :
    (bins.foldl (fun acc b => upsert acc (b ++ "_is_missing") (g b)) c).lookup k = c.lookup k := by
  induction bins generalizing c with
  | nil => rfl
  | cons b rest ih =>
    simp only [List.foldl_cons]
    rw [ih _ (fun b' hb' => hfresh b' (List.mem_cons_of_mem _ hb')), lookup_upsert]
    have : (k == b ++ "_is_missing") = false := by
      have := hfresh b List.mem_cons_self
      simpa using fun h => this h.symm
    simp [this]

theorem imputeSparseRow_cell (st : Stat) (ind : Bool) (first : SCtx) (win : List SCtx) (c : SCtx)
    (k : String) (v : Val) (hv : c.lookup k = some v)
    (hfresh : ∀ b ∈ sparseBins ind win, b ++ "_is_missing" ≠ k) :
    (imputeSparseRow st ind first win c).lookup k = some (imputeCell (sparseImp st first win k) v) := by
  unfold imputeSparseRow
  rw [lookup_foldl_upsert _ _ _ _ hfresh]
  rw [lookup_map_val (g := fun k v => imputeCell (sparseImp st first win k) v) c k, hv]
  rfl

theorem impute_sparse_cell' (st : Stat) (ind : Bool) (u : Option Nat) (rows : List SCtx) (first : SCtx)
    (i : Nat) (k : String) (v : Val) (hfirst : rows.head? = some first) (hv : sparseCell rows i k = some v)
    (hfresh : ∀ b ∈ sparseBins ind (window u rows), b ++ "_is_missing" ≠ k) :
    sparseCell (imputeSparse st ind u rows) i k = some (imputeCell (sparseImp st first (window u rows) k) v) := by
  simp only [sparseCell, imputeSparse_row st ind u rows first hfirst] at hv ⊢
  cases hr : rows[i]? with
  | none => simp [hr] at hv
  | some c =>
    simp only [hr, Option.bind_some, Option.map_some] at hv ⊢
    exact imputeSparseRow_cell st ind first _ c k v hv hfresh

theorem impute_sparse_nonmissing_fixed' (st : Stat) (ind : Bool) (u : Option Nat) (rows : List SCtx)
    (i : Nat) (k : String) (v : Val) (hv : sparseCell rows i k = some v) (hnn : v.isMiss = false)
    (hfresh : ∀ b ∈ sparseBins ind (window u rows), b ++ "_is_missing" ≠ k) :
    sparseCell (imputeSparse st ind u rows) i k = some v := by
  cases rows with
  | nil => simp [sparseCell] at hv
  | cons f rest =>
    rw [impute_sparse_cell' st ind u (f :: rest) f i k v rfl hv hfresh, imputeCell_nonmiss _ v hnn]

theorem impute_sparse_eq_spec' (st : Stat) (ind : Bool) (u : Option Nat) (rows : List SCtx) (first : SCtx)
    (i : Nat) (k : String) (v : Val) (hfirst : rows.head? = some first)
    (hv : sparseCell rows i k = some v) (hmiss : v.isMiss = true)
    (hkey : impSparseKey st first k = true)
    (himp : Imputable st (sparseCol k (window u rows)))
    (hfresh : ∀ b ∈ sparseBins ind (window u rows), b ++ "_is_missing" ≠ k) :
    ∃ m, sparseCell (imputeSparse st ind u rows) i k = some m ∧
      ImpStat st (present (sparseCol k (window u rows))) m := by
  obtain ⟨m, hm⟩ := getImp_isSome himp
  refine ⟨m, ?_, getImp_sound hm⟩
  rw [impute_sparse_cell' st ind u rows first i k v hfirst hv hfresh]
  simp [sparseImp, hkey, hm, imputeCell_miss_some m v hmiss]

/-! ### Impute: window and lists of statistics -/

theorem imputeDense_window' (st : Stat) (ind : Bool) (first : List Val) (w rest : List (List Val))
    (hw : w.head? = some first) :
    imputeDense st ind (some w.length) (w ++ rest) = (w ++ rest).map (imputeDenseRow st ind first w) := by
  cases w with
  | nil => simp at hw
  | cons f w' =>
    simp only [List.head?_cons, Option.some.injEq] at hw
    subst hw
    have : window (some (f :: w').length) (f :: w' ++ rest) = f :: w' := window_append' (f :: w') rest
    simp only [List.cons_append, List.length_cons] at this ⊢
    simp [imputeDense, this]

theorem imputeDense_using_ge' (st : Stat) (ind : Bool) (n : Nat) (rows : List (List Val)) (h : rows.length ≤ n) :
    imputeDense st ind (some n) rows = imputeDense st ind none rows := by
  cases rows with
  | nil => rfl
  | cons f r =>
    have ht : List.take n (f :: r) = f :: r := List.take_of_length_le h
    simp only [imputeDense, window, ht]

theorem imputeSparse_using_ge' (st : Stat) (ind : Bool) (n : Nat) (rows : List SCtx) (h : rows.length ≤ n) :
    imputeSparse st ind (some n) rows = imputeSparse st ind none rows := by
  cases rows with
  | nil => rfl
  | cons f r =>
    have ht : List.take n (f :: r) = f :: r := List.take_of_length_le h
    simp only [imputeSparse, window, ht]

theorem imputeScalar_using_ge' (st : Stat) (ind : Bool) (n : Nat) (rows : List Val) (h : rows.length ≤ n) :
    imputeScalar st ind (some n) rows = imputeScalar st ind none rows := by
  unfold imputeScalar
  rw [window_ge' n rows h]
  rfl

theorem envImpute_nil' (ind : Bool) (u : Option Nat) (c : Ctxs) : envImpute [] ind u c = c := rfl

theorem envImpute_cons' (st : Stat) (stats : List Stat) (ind : Bool) (u : Option Nat) (c : Ctxs) :
    envImpute (st :: stats) ind u c = envImpute stats ind u (imputeCtxs st ind u c) := rfl


/-! ### sparse contexts agree with their dense embedding (absent key = 0) -/

theorem embed_get (keys : List String) (j : Nat) (k : String) (hk : keys[j]? = some k) (c : SCtx) :
    (embed keys c)[j]? = some (getD0 k c) := by
  simp [embed, List.getElem?_map, hk]

theorem col_embed (keys : List String) (j : Nat) (k : String) (hk : keys[j]? = some k) (ws : List SCtx) :
    col j (ws.map (embed keys)) = ws.map (getD0 k) := by
  induction ws with
  | nil => rfl
  | cons c l ih =>
    simp only [col, List.map_cons, List.filterMap_cons, embed_get keys j k hk c] at ih ⊢
    rw [ih]

theorem numOrNil_eq_not_isStr (v : Val) : v.numOrNil = !v.isStr := by cases v <;> rfl

theorem scale_sparse_dense_agree' (sd : List Rat → Rat) (cfg : Cfg) (rows : List SCtx) (first : SCtx)
    (keys : List String) (i j : Nat) (k : String) (v : Val)
    (hfirst : rows.head? = some first) (h0 : cfg.shift = .num 0)
    (hk : keys[j]? = some k) (hv : sparseCell rows i k = some v) :
    ∃ outs, scaleSparse sd cfg rows = .ok outs ∧
      sparseCell outs i k = denseCell (scaleDense sd cfg (rows.map (embed keys))) i j := by
  obtain ⟨outs, h1, h2⟩ := scaleSparse_cell sd cfg rows first hfirst h0 i k
  refine ⟨outs, h1, ?_⟩
  have hf' : (rows.map (embed keys)).head? = some (embed keys first) := by
    cases rows with
    | nil => simp at hfirst
    | cons f r => simp at hfirst; subst hfirst; rfl
  rw [h2, scaleDense_cell sd cfg _ (embed keys first) hf', window_map, col_embed keys j k hk]
  have hcell : denseCell (rows.map (embed keys)) i j = some v := by
    simp only [sparseCell] at hv
    simp only [denseCell, List.getElem?_map]
    cases hr : rows[i]? with
    | none => simp [hr] at hv
    | some c =>
      simp only [hr, Option.bind_some] at hv
      simp only [Option.map_some, Option.bind_some, embed_get keys j k hk c, getD0, hv]
  rw [hcell, hv]
  have hpot : potSparse first k = potDense (embed keys first) j := by
    simp only [potSparse, potDense, embed_get keys j k hk first, getD0]
    cases first.lookup k with
    | none => rfl
    | some x => simp [numOrNil_eq_not_isStr]
  rw [hpot]

/-! ### Impute: sparse indicators -/

theorem hasKey_iff (k : String) (c : SCtx) : hasKey k c = true ↔ k ∈ c.map Prod.fst := by
  induction c with
  | nil => simp [hasKey, List.lookup]
  | cons kv c ih =>
    obtain ⟨a, b⟩ := kv
    simp only [hasKey, List.lookup, List.map_cons, List.mem_cons] at ih ⊢
    cases h : k == a with
    | true =>
      have : k = a := by simpa using h
      simp [this]
    | false =>
      have : k ≠ a := by simpa using h
      simp only [ih]
      constructor
      · intro h'; exact Or.inr h'
      · rintro (h' | h')
        · exact absurd h' this
        · exact h'

theorem mem_foldl_keys (k : String) (c : SCtx) (acc : List String) :
    k ∈ c.foldl (fun a kv => if a.contains kv.1 then a else kv.1 :: a) acc ↔ k ∈ acc ∨ k ∈ c.map Prod.fst := by
  induction c generalizing acc with
  | nil => simp
  | cons kv c ih =>
    simp only [List.foldl_cons, List.map_cons, List.mem_cons]
    rw [ih]
    by_cases hc : acc.contains kv.1 = true
    · simp only [hc, if_true]
      have : kv.1 ∈ acc := by simpa using hc
      constructor
      · rintro (h | h)
        · exact Or.inl h
        · exact Or.inr (Or.inr h)
      · rintro (h | h | h)
        · exact Or.inl h
        · subst h; exact Or.inl this
        · exact Or.inr h
    · simp only [hc]
      simp only [Bool.false_eq_true, if_false, List.mem_cons]
      constructor
      · rintro ((h | h) | h)
        · exact Or.inr (Or.inl h)
        · exact Or.inl h
        · exact Or.inr (Or.inr h)
      · rintro (h | h | h)
        · exact Or.inl (Or.inr h)
        · exact Or.inl (Or.inl h)
        · exact Or.inr h

theorem mem_seenKeys (k : String) (cs : List SCtx) (acc : List String) :
    k ∈ seenKeys cs acc ↔ k ∈ acc ∨ cs.any (hasKey k) = true := by
  induction cs generalizing acc with
  | nil => simp [seenKeys]
  | cons c cs ih =>
    simp only [seenKeys, List.any_cons, Bool.or_eq_true]
    rw [ih, mem_foldl_keys, hasKey_iff]
    tauto

theorem mem_sparseBins (ind : Bool) (win : List SCtx) (k : String) :
    k ∈ sparseBins ind win ↔
      (ind = true ∧ win.any (hasKey k) = true ∧ (win.filterMap (fun c => c.lookup k)).any Val.isMiss = true) := by
  unfold sparseBins
  cases ind with
  | false => simp
  | true =>
    simp only [if_true, List.mem_filter, mem_seenKeys, List.not_mem_nil, false_or, true_and]

/-- a sparse result row is the (imputed) context followed by one `<key>_is_missing` 0/1 entry per key that occurs
with a missing value (`None` or `nan`) in the window; 1 iff this row's value under the key was missing -/
theorem impute_sparse_indicator' (st : Stat) (ind : Bool) (u : Option Nat) (rows : List SCtx) (first c : SCtx)
    (i : Nat) (hfirst : rows.head? = some first) (hrow : rows[i]? = some c) :
    (imputeSparse st ind u rows)[i]? = some
      ((sparseBins ind (window u rows)).foldl
        (fun acc k => upsert acc (k ++ "_is_missing") (bit (missAt (c.lookup k))))
        (c.map (fun kv => (kv.1, imputeCell (sparseImp st first (window u rows) kv.1) kv.2)))) ∧
    (∀ k, k ∈ sparseBins ind (window u rows) ↔
      (ind = true ∧ (window u rows).any (hasKey k) = true ∧
        ((window u rows).filterMap (fun c => c.lookup k)).any Val.isMiss = true)) := by
  refine ⟨?_, fun k => mem_sparseBins ind _ k⟩
  rw [imputeSparse_row st ind u rows first hfirst, hrow]
  rfl

/-! ### filter objects keep no fitted state -/

theorem Obj.call_cfg {κ α β : Type} (f : κ → α → β) (o : Obj κ) (dt : List Nat) (x : α) :
    (o.call f dt x).1.cfg = o.cfg ∧ (o.call f dt x).2 = f o.cfg x := ⟨rfl, rfl⟩

theorem Obj.run_spec {κ α β : Type} (f : κ → α → β) (o : Obj κ) (calls : List (List Nat × α)) :
    (Obj.run f o calls).1.cfg = o.cfg ∧ (Obj.run f o calls).2 = calls.map (fun c => f o.cfg c.2) := by
  induction calls generalizing o with
  | nil => exact ⟨rfl, rfl⟩
  | cons c rest ih =>
    obtain ⟨dt, x⟩ := c
    simp only [Obj.run, List.map_cons]
    obtain ⟨h1, h2⟩ := ih (o.call f dt x).1
    exact ⟨h1, by rw [h2]; rfl⟩

/-- the result for sequence `B` after any earlier calls equals the result of a fresh object on `B` -/
theorem filter_stateless' {κ α β : Type} (f : κ → α → β) (o : Obj κ) (before : List (List Nat × α))
    (dt : List Nat) (b : α) (times' : List Nat) :
    ((Obj.run f o (before ++ [(dt, b)])).2).getLast? = some (f o.cfg b) ∧
    ((Obj.run f o (before ++ [(dt, b)])).2).getLast? = some ((Obj.call f ⟨o.cfg, times'⟩ dt b).2) := by
  have h := (Obj.run_spec f o (before ++ [(dt, b)])).2
  rw [h]
  simp [Obj.call]

theorem pipeRun_spec {κ : Type} (f : κ → Ctxs → Except Err Ctxs) (dt : List Nat) (os : List (Obj κ))
    (r : Except Err Ctxs) :
    (pipeRun f dt os r).1.map (·.cfg) = os.map (·.cfg) ∧ (pipeRun f dt os r).2 = pipe f (os.map (·.cfg)) r := by
  induction os generalizing r with
  | nil => exact ⟨rfl, rfl⟩
  | cons o os ih =>
    cases r with
    | error e =>
      refine ⟨rfl, ?_⟩
      simp only [pipeRun, pipe, List.map_cons, List.foldl_cons]
      have : ∀ (cfgs : List κ), List.foldl (fun r k => r.bind (f k)) (Except.error e : Except Err Ctxs) cfgs = .error e := by
        intro cfgs
        induction cfgs with
        | nil => rfl
        | cons k ks ihk => simpa [List.foldl_cons, Except.bind] using ihk
      exact (this _).symm
    | ok c =>
      simp only [pipeRun, List.map_cons]
      obtain ⟨h1, h2⟩ := ih (o.call f dt c).2
      refine ⟨by rw [h1]; rfl, ?_⟩
      rw [h2]
      simp [pipe, List.foldl_cons, Obj.call, Except.bind]

theorem Coll.read_spec {κ : Type} (f : κ → Ctxs → Except Err Ctxs) (c : Coll κ) (dt : List Nat) (i : Nat) :
    (c.read f dt i).1.srcs = c.srcs ∧ (c.read f dt i).1.objs.map (·.cfg) = c.objs.map (·.cfg) ∧
    (c.read f dt i).2 = (c.srcs[i]?).map (fun src => pipe f (c.objs.map (·.cfg)) (.ok src)) := by
  unfold Coll.read
  cases h : c.srcs[i]? with
  | none => exact ⟨rfl, rfl, rfl⟩
  | some src =>
    obtain ⟨h1, h2⟩ := pipeRun_spec f dt c.objs (.ok src)
    exact ⟨rfl, h1, by simp [h2]⟩

/-- every read of a collection, in any order and any number of times, returns what the pipeline of the filters'
functions gives on that environment's own interactions -/
theorem collection_pointwise' {κ : Type} (f : κ → Ctxs → Except Err Ctxs) (c : Coll κ) (order : List (List Nat × Nat)) :
    (Coll.reads f c order).2 =
      order.map (fun di => (c.srcs[di.2]?).map (fun src => pipe f (c.objs.map (·.cfg)) (.ok src))) := by
  induction order generalizing c with
  | nil => rfl
  | cons di rest ih =>
    obtain ⟨dt, i⟩ := di
    obtain ⟨h1, h2, h3⟩ := Coll.read_spec f c dt i
    simp only [Coll.reads, List.map_cons]
    rw [ih (c.read f dt i).1, h1, h2, h3]

theorem pipe_scale (sd : List Rat → Rat) (cfg : Cfg) (c : Ctxs) :
    pipe (scaleCtxs sd) [cfg] (.ok c) = scaleCtxs sd cfg c := by
  simp [pipe, Except.bind]

theorem pipe_impute (stats : List Stat) (ind : Bool) (u : Option Nat) (c : Ctxs) :
    pipe imputeF (stats.map (fun st => (st, ind, u))) (.ok c) = .ok (envImpute stats ind u c) := by
  induction stats generalizing c with
  | nil => rfl
  | cons st rest ih =>
    simp only [pipe, List.map_cons, List.foldl_cons, envImpute] at ih ⊢
    simp only [Except.bind, imputeF]
    exact ih (imputeCtxs st ind u c)

/-! ### `std`: the reciprocal square root of the sample variance -/

theorem sumL_eq_sum (xs : List Rat) : sumL xs = xs.sum := by
  unfold sumL
  have : ∀ (a : Rat) (l : List Rat), l.foldl (· + ·) a = a + l.sum := by
    intro a l
    induction l generalizing a with
    | nil => simp
    | cons b l ih => simp [List.foldl_cons, ih, add_assoc]
  simpa using this 0 xs

theorem sum_sq_nonneg (l : List Rat) (g : Rat → Rat) : 0 ≤ (l.map (fun x => g x * g x)).sum := by
  induction l with
  | nil => simp
  | cons a l ih =>
    simp only [List.map_cons, List.sum_cons]
    have := mul_self_nonneg (g a)
    linarith

theorem variance_nonneg (xs : List Rat) (h : 2 ≤ xs.length) : 0 ≤ variance xs := by
  unfold variance
  rw [sumL_eq_sum]
  have h1 : (0 : Rat) ≤ (xs.length : Rat) - 1 := by
    have : (2 : Rat) ≤ (xs.length : Rat) := by exact_mod_cast h
    linarith
  exact div_nonneg (sum_sq_nonneg xs (fun x => x - sumL xs / (xs.length : Rat))) h1

/-- there is at most one reciprocal square root -/
theorem invSqrt_unique' {v f g : Rat} (hf : IsInvSqrt v f) (hg : IsInvSqrt v g) : f = g := by
  obtain ⟨hf0, hf1⟩ := hf
  obtain ⟨hg0, hg1⟩ := hg
  have hv : v ≠ 0 := by
    intro h; rw [h] at hf1; simp at hf1
  have hsq : f * f = g * g := by
    have : f * f * v = g * g * v := by rw [hf1, hg1]
    exact mul_right_cancel₀ hv this
  have : (f - g) * (f + g) = 0 := by ring_nf; linarith
  rcases mul_eq_zero.1 this with h | h
  · linarith
  · have hf' : f = 0 := by linarith
    have hg' : g = 0 := by linarith
    rw [hf', hg']

theorem guard_iff_variance {sd : List Rat → Rat} {xs : List Rat} (h : SqrtExact sd xs) :
    sd xs < 1 / 1000000 ↔ variance xs < 1 / 1000000000000 := by
  obtain ⟨h0, h1⟩ := h
  rw [← h1]
  constructor
  · intro hlt
    have : sd xs * sd xs < (1 / 1000000) * (1 / 1000000) := by nlinarith
    linarith
  · intro hlt
    by_contra hc
    have hge : (1 : Rat) / 1000000 ≤ sd xs := not_lt.1 hc
    have : (1 / 1000000 : Rat) * (1 / 1000000) ≤ sd xs * sd xs := by nlinarith
    linarith

/-- with an exact square root the code's scale for `std` is THE reciprocal square root of the sample variance
(1 below the 1e-6 guard) -/
theorem std_scale_exact' (sd : List Rat → Rat) (xs : List Rat) (s f : Rat) (hx : SqrtExact sd xs)
    (h : ScaleStat sd .std xs s f) : ScaleStatQ .std xs s f := by
  obtain ⟨d, ⟨hl, rfl⟩, rfl⟩ := h
  refine ⟨hl, ?_⟩
  by_cases hg : sd xs < 1 / 1000000
  · left
    exact ⟨(guard_iff_variance hx).1 hg, by rw [if_pos hg]; norm_num⟩
  · right
    have hv : ¬ variance xs < 1 / 1000000000000 := fun h' => hg ((guard_iff_variance hx).2 h')
    refine ⟨not_lt.1 hv, ?_⟩
    simp only [hg, if_false, mul_one]
    obtain ⟨h0, h1⟩ := hx
    have hpos : 0 < sd xs := lt_of_lt_of_le (by norm_num) (not_lt.1 hg)
    refine ⟨by positivity, ?_⟩
    rw [← h1]
    field_simp

/-- with a square root of relative error `δ` (in the square) the scale satisfies `f²·var·(1+δ) = 1`: it is the
reciprocal square root up to exactly the error of the square-root routine -/
theorem std_scale_within' (sd : List Rat → Rat) (xs : List Rat) (s f δ : Rat) (hx : SqrtWithin sd xs δ)
    (hg : ¬ sd xs < 1 / 1000000) (h : ScaleStat sd .std xs s f) :
    0 ≤ f ∧ f * f * variance xs * (1 + δ) = 1 := by
  obtain ⟨d, ⟨_, rfl⟩, rfl⟩ := h
  obtain ⟨hpos, h1⟩ := hx
  simp only [hg, if_false, mul_one]
  refine ⟨by positivity, ?_⟩
  rw [mul_assoc, ← h1]
  field_simp

theorem scaleStat_to_Q {sd : List Rat → Rat} {sc : Scl} {xs : List Rat} {s f : Rat}
    (h : ScaleStat sd sc xs s f) (hx : sc = .std → SqrtExact sd xs) : ScaleStatQ sc xs s f := by
  cases sc with
  | std => exact std_scale_exact' sd xs s f (hx rfl) h
  | num b => exact h
  | minmax => exact h
  | iqr => exact h
  | maxabs => exact h

theorem fit_sound_q {sd : List Rat → Rat} {cfg : Cfg} {w : List Val} {s f : Rat}
    (h : fit sd cfg w = some (s, f)) (hx : cfg.scale = .std → SqrtExact sd (nums w)) :
    ShiftStat cfg.shift (nums w) s ∧ ScaleStatQ cfg.scale (nums w) s f :=
  ⟨(fit_sound h).1, scaleStat_to_Q (fit_sound h).2 hx⟩

theorem cellSpec_to_Q {sd : List Rat → Rat} {cfg : Cfg} {w : List Val} {v out : Val}
    (h : ScaleCellSpec sd cfg w v out) (hx : cfg.scale = .std → SqrtExact sd (nums w)) :
    ScaleCellSpecQ cfg w v out := by
  cases v with
  | num x =>
    obtain ⟨s, f, h1, h2, h3⟩ := h
    exact ⟨s, f, h1, scaleStat_to_Q h2 hx, h3⟩
  | nan => exact h
  | nil => exact h
  | str t => exact h


theorem lookup_foldl_upsert_hit (bins : List String) (g : String → Val) (c : SCtx) (b : String) (hb : b ∈ bins) :
    ∃ b' ∈ bins, b' ++ "_is_missing" = b ++ "_is_missing" ∧
      (bins.foldl (fun acc b => upsert acc (b ++ "_is_missing") (g b)) c).lookup (b ++ "_is_missing") = some (g b') := by
  induction bins using List.reverseRecOn with
  | nil => simp at hb
  | append_singleton init last ih =>
    simp only [List.foldl_append, List.foldl_cons, List.foldl_nil, lookup_upsert]
    by_cases h : (b ++ "_is_missing" == last ++ "_is_missing") = true
    · refine ⟨last, by simp, ?_, by simp [h]⟩
      have : b ++ "_is_missing" = last ++ "_is_missing" := by simpa using h
      exact this.symm
    · have hb' : b ∈ init := by
        rcases List.mem_append.1 hb with h1 | h1
        · exact h1
        · have : b = last := by simpa using h1
          subst this
          simp at h
      obtain ⟨b', hm, he, hl⟩ := ih hb'
      refine ⟨b', List.mem_append_left _ hm, he, ?_⟩
      simp only [h, Bool.false_eq_true, if_false]
      exact hl

/-- every indicator key of the window is present in every result row and holds the missingness bit of a window key
with that indicator name -/
theorem impute_sparse_indicator_value' (st : Stat) (ind : Bool) (first : SCtx) (win : List SCtx) (c : SCtx)
    (b : String) (hb : b ∈ sparseBins ind win) :
    ∃ b' ∈ sparseBins ind win, b' ++ "_is_missing" = b ++ "_is_missing" ∧
      (imputeSparseRow st ind first win c).lookup (b ++ "_is_missing") = some (bit (missAt (c.lookup b'))) :=
  lookup_foldl_upsert_hit _ (fun k => bit (missAt (c.lookup k))) _ b hb


/-! ### phase 3: windows holding strings, the empty window, targets -/

theorem fit_string_window' (sd : List Rat → Rat) (cfg : Cfg) (w : List Val) (h : w.any Val.isStr = true) (s f : Rat) :
    fit sd cfg w = some (s, f) ↔
      ∃ a, cfg.shift = .num a ∧ s = a ∧
        ((∃ b, cfg.scale = .num b ∧ f = b) ∨ (cfg.scale = .iqr ∧ presentCount w ≤ 1 ∧ f = 1)) := by
  unfold fit
  simp only [h, if_true]
  constructor
  · intro hf
    split at hf
    · rename_i a b hsh hsc
      simp only [Option.some.injEq, Prod.mk.injEq] at hf
      exact ⟨a, hsh, hf.1.symm, Or.inl ⟨b, hsc, hf.2.symm⟩⟩
    · rename_i a hsh hsc
      split at hf
      · rename_i hc
        simp only [Option.some.injEq, Prod.mk.injEq] at hf
        exact ⟨a, hsh, hf.1.symm, Or.inr ⟨hsc, hc, hf.2.symm⟩⟩
      · simp at hf
    · simp at hf
  · rintro ⟨a, hsh, rfl, hb | ⟨hsc, hc, rfl⟩⟩
    · obtain ⟨b, hsc, rfl⟩ := hb
      rw [hsh, hsc]
    · rw [hsh, hsc]
      simp [hc]

theorem window_nonempty {α} (u : Option Nat) (f : α) (r : List α) (hu : u ≠ some 0) : (window u (f :: r)).isEmpty = false := by
  cases u with
  | none => rfl
  | some n =>
    cases n with
    | zero => exact absurd rfl hu
    | succ n => simp [window]

theorem scaleDenseFull_eq' (sd : List Rat → Rat) (cfg : Cfg) (rows : List (List Val)) (hu : cfg.usingN ≠ some 0) :
    scaleDenseFull sd cfg rows = scaleDense sd cfg rows := by
  cases rows with
  | nil => simp [scaleDenseFull, denseZeroWindow]
  | cons f r => simp [scaleDenseFull, denseZeroWindow, window_nonempty cfg.usingN f r hu]

theorem scaleDenseFull_zero' (sd : List Rat → Rat) (cfg : Cfg) (first : List Val) (rest : List (List Val))
    (hu : cfg.usingN = some 0) :
    scaleDenseFull sd cfg (first :: rest) =
      if 2 ≤ potCount first then first :: rest else scaleDense sd cfg (first :: rest) := by
  simp [scaleDenseFull, denseZeroWindow, hu, window]

theorem scaleSparse_eq_rows' (sd : List Rat → Rat) (cfg : Cfg) (rows : List SCtx) (h0 : cfg.shift = .num 0) :
    scaleSparse sd cfg rows = .ok (scaleSparseRows sd cfg rows) := by
  cases rows with
  | nil => rfl
  | cons f r => simp [scaleSparse, scaleSparseRows, h0]

theorem scaleFilter_context' (sd : List Rat → Rat) (sc : ScaleCfg) (c : Ctxs) (h : sc.target = "context") :
    scaleFilter sd sc c = scaleCtxs sd sc.cfg c := by
  cases c <;> simp [scaleFilter, scaleCtxs, h]

theorem scaleFilter_other' (sd : List Rat → Rat) (sc : ScaleCfg) (c : Ctxs) (h : sc.target ≠ "context") :
    scaleFilter sd sc c = match c with
      | .sparse rows => .ok (.sparse (scaleSparseRows sd sc.cfg rows))
      | c => scaleCtxs sd sc.cfg c := by
  cases c <;> simp [scaleFilter, h]

/-! ### `std` under a square root with relative error: the guard and the full case split -/

theorem guard_within {sd : List Rat → Rat} {xs : List Rat} {δ : Rat} (h : SqrtWithin sd xs δ) :
    sd xs < 1 / 1000000 ↔ variance xs * (1 + δ) < 1 / 1000000000000 := by
  obtain ⟨h0, h1⟩ := h
  rw [← h1]
  constructor
  · intro hlt
    have : sd xs * sd xs < (1 / 1000000) * (1 / 1000000) := by nlinarith
    linarith
  · intro hlt
    by_contra hc
    have hge : (1 : Rat) / 1000000 ≤ sd xs := not_lt.1 hc
    have : (1 / 1000000 : Rat) * (1 / 1000000) ≤ sd xs * sd xs := by nlinarith
    linarith

theorem std_scale_within_cases' (sd : List Rat → Rat) (xs : List Rat) (s f δ : Rat) (hx : SqrtWithin sd xs δ)
    (h : ScaleStat sd .std xs s f) :
    2 ≤ xs.length ∧
    ((variance xs * (1 + δ) < 1 / 1000000000000 ∧ f = 1) ∨
     (1 / 1000000000000 ≤ variance xs * (1 + δ) ∧ 0 ≤ f ∧ f * f * variance xs * (1 + δ) = 1)) := by
  have hl : 2 ≤ xs.length := by
    obtain ⟨d, ⟨hl, _⟩, _⟩ := h
    exact hl
  refine ⟨hl, ?_⟩
  by_cases hg : sd xs < 1 / 1000000
  · left
    refine ⟨(guard_within hx).1 hg, ?_⟩
    obtain ⟨d, ⟨_, rfl⟩, rfl⟩ := h
    rw [if_pos hg]; norm_num
  · right
    have hv : ¬ variance xs * (1 + δ) < 1 / 1000000000000 := fun h' => hg ((guard_within hx).2 h')
    exact ⟨not_lt.1 hv, std_scale_within' sd xs s f δ hx hg h⟩

/-! ### the argument glue -/

theorem envScaleFilters_given (sh : Shift) (sc : Scl) (ts : List String) (u : Option Nat) :
    envScaleFilters ⟨some sh, some sc, some ts, some u⟩ = ts.map (fun t => ⟨⟨sh, sc, u⟩, t⟩) := rfl

theorem envScaleFilters_defaults :
    envScaleFilters ⟨none, none, none, none⟩ = [⟨⟨.min, .minmax, none⟩, "context"⟩] := rfl

theorem envScaleFilters_fields (a : ScaleArgs) (k : ScaleCfg) (hk : k ∈ envScaleFilters a) :
    (∀ sh, a.shift = some sh → k.cfg.shift = sh) ∧ (a.shift = none → k.cfg.shift = .min) ∧
    (∀ sc, a.scale = some sc → k.cfg.scale = sc) ∧ (a.scale = none → k.cfg.scale = .minmax) ∧
    (∀ u, a.usingA = some u → k.cfg.usingN = u) ∧ (a.usingA = none → k.cfg.usingN = none) := by
  simp only [envScaleFilters, List.mem_map] at hk
  obtain ⟨t, _, rfl⟩ := hk
  refine ⟨?_, ?_, ?_, ?_, ?_, ?_⟩ <;> intros <;> simp_all

theorem envScaleFilters_targets (a : ScaleArgs) :
    (envScaleFilters a).map (·.target) = (match a.targets with | some ts => ts | none => ["context"]) := by
  obtain ⟨sh, sc, ts, u⟩ := a
  cases ts <;> simp [envScaleFilters, List.map_map, Function.comp_def]

theorem envImputeFilters_given (ss : List Stat) (b : Bool) (u : Option Nat) :
    envImputeFilters ⟨some ss, some b, some u⟩ = ss.map (fun st => (st, b, u)) := rfl

theorem envImputeFilters_defaults : envImputeFilters ⟨none, none, none⟩ = [(.mean, true, none)] := rfl

theorem envImputeFilters_fields (a : ImputeArgs) (k : Stat × Bool × Option Nat) (hk : k ∈ envImputeFilters a) :
    (∀ b, a.indicator = some b → k.2.1 = b) ∧ (a.indicator = none → k.2.1 = true) ∧
    (∀ u, a.usingA = some u → k.2.2 = u) ∧ (a.usingA = none → k.2.2 = none) := by
  simp only [envImputeFilters, List.mem_map] at hk
  obtain ⟨t, _, rfl⟩ := hk
  refine ⟨?_, ?_, ?_, ?_⟩ <;> intros <;> simp_all

theorem envScale_eq_pipe (sd : List Rat → Rat) (a : ScaleArgs) (c : Ctxs) :
    envScale sd a c = pipe (scaleFilter sd) (envScaleFilters a) (.ok c) := rfl

/-! ### the sparse default-zero completion -/

theorem sparseCol_perm (k : String) (win : List SCtx) : (sparseCol k win).Perm (win.map (getD0 k)) := by
  induction win with
  | nil => simp [sparseCol]
  | cons c l ih =>
    unfold sparseCol at ih ⊢
    cases h : c.lookup k with
    | some v =>
      simp only [List.filterMap_cons, h, List.map_cons, getD0, List.length_cons, List.cons_append]
      have : l.length + 1 - ((List.filterMap (fun c => List.lookup k c) l).length + 1)
          = l.length - (List.filterMap (fun c => List.lookup k c) l).length := by omega
      rw [this]
      exact List.Perm.cons v ih
    | none =>
      simp only [List.filterMap_cons, h, List.map_cons, getD0, List.length_cons]
      have hle : (List.filterMap (fun c => List.lookup k c) l).length ≤ l.length := List.length_filterMap_le _ _
      have : l.length + 1 - (List.filterMap (fun c => List.lookup k c) l).length
          = (l.length - (List.filterMap (fun c => List.lookup k c) l).length) + 1 := by omega
      rw [this, List.replicate_succ']
      rw [← List.append_assoc]
      exact (List.perm_append_singleton _ _).trans (List.Perm.cons _ ih)

theorem perm_present {a b : List Val} (h : a.Perm b) : (present a).Perm (present b) := h.filter _

theorem perm_nums {a b : List Val} (h : a.Perm b) : (nums a).Perm (nums b) := h.filterMap _

theorem count_perm {a b : List Val} (h : a.Perm b) (v : Val) : count v a = count v b := by
  unfold count
  exact (h.filter _).length_eq

theorem isMedian_perm {xs ys : List Rat} (h : xs.Perm ys) {m : Rat} (hm : IsMedian xs m) : IsMedian ys m := by
  obtain ⟨s, hs, rest⟩ := hm
  exact ⟨s, hs.trans h, rest⟩

theorem isMode_perm {a b : List Val} (h : a.Perm b) {m : Val} (hm : IsMode a m) : IsMode b m := by
  obtain ⟨h1, h2⟩ := hm
  refine ⟨h.mem_iff.1 h1, fun v => ?_⟩
  rw [← count_perm h v, ← count_perm h m]
  exact h2 v

theorem impStat_perm {st : Stat} {a b : List Val} (h : a.Perm b) {m : Val} (hm : ImpStat st a m) : ImpStat st b m := by
  cases st with
  | mode => exact isMode_perm h hm
  | mean =>
    obtain ⟨h1, h2⟩ := hm
    have hp := perm_nums h
    refine ⟨fun hb => h1 (by rw [hb] at hp; exact hp.eq_nil), ?_⟩
    rw [h2, sumL_eq_sum, sumL_eq_sum, hp.sum_eq, hp.length_eq]
  | median =>
    obtain ⟨q, hq, rfl⟩ := hm
    exact ⟨q, isMedian_perm (perm_nums h) hq, rfl⟩

/-- the imputation statistic over Impute's completed sparse column (zeros appended) is the statistic over the dense
embedding column (zeros in place) -/
theorem sparse_completion_stat' (st : Stat) (k : String) (win : List SCtx) (m : Val) :
    ImpStat st (present (sparseCol k win)) m ↔ ImpStat st (present (win.map (getD0 k))) m :=
  ⟨impStat_perm (perm_present (sparseCol_perm k win)), impStat_perm (perm_present (sparseCol_perm k win).symm)⟩


theorem scalar_dense_mixed_witness :
    scaleScalar (fun _ => 1) ⟨.num 1, .num 2, none⟩ [.str "x", .num 3] = [.str "x", .num 8] ∧
    scaleDense (fun _ => 1) ⟨.num 1, .num 2, none⟩ [[.str "x"], [.num 3]] = [[.str "x"], [.num 3]] := by
  constructor
  · simp [scaleScalar, window, fit, applyOpt, applyVal, Val.isStr]
    norm_num
  · simp [scaleDense, denseRow, window, potDense, Val.numOrNil, applyOpt]


/-! ## phase 4 -/

/-! ### phase 4: exception values -/

theorem shiftValueE_toOption (sh : Shift) (xs : List Rat) :
    shiftValue sh xs = (match shiftValueE sh xs with | .ok s => some s | .error _ => none) := by
  cases sh <;> simp [shiftValue, shiftValueE]
  · cases minL xs <;> rfl
  · cases mean xs <;> rfl
  · cases median xs <;> rfl

theorem scaleValueE_toOption (sd : List Rat → Rat) (sc : Scl) (xs : List Rat) (s : Rat) :
    scaleValue sd sc xs s = (match scaleValueE sd sc xs s with | .ok f => some f | .error _ => none) := by
  cases sc <;> simp [scaleValue, scaleNumDen, scaleValueE]
  · cases maxL xs <;> cases minL xs <;> rfl
  · split <;> rfl
  · cases iqr xs <;> rfl
  · cases maxL (xs.map (fun v => absR (v + s))) <;> rfl

/-- `fit` (parameters or `None`) is `fitE` with the exception forgotten -/
theorem fit_eq_fitE' (sd : List Rat → Rat) (cfg : Cfg) (w : List Val) :
    fit sd cfg w = (match fitE sd cfg w with | .ok p => some p | .error _ => none) := by
  unfold fit fitE
  split
  · cases cfg.shift <;> cases cfg.scale <;> simp <;> split <;> rfl
  · rw [shiftValueE_toOption]
    cases hs : shiftValueE cfg.shift (nums w) with
    | error e => rfl
    | ok s =>
      simp only []
      rw [scaleValueE_toOption]
      cases scaleValueE sd cfg.scale (nums w) s <;> rfl

theorem median_nil : median [] = none := by simp [median, isort]

theorem shiftValueE_nil (sh : Shift) :
    shiftValueE sh [] = (match sh with
      | .num a => .ok a | .min => .error .valueError | _ => .error .statisticsError) := by
  cases sh <;> simp [shiftValueE, minL, mean, median_nil]

theorem shiftValueE_cons (sh : Shift) (x : Rat) (t : List Rat) : ∃ s, shiftValueE sh (x :: t) = .ok s := by
  cases sh with
  | num a => exact ⟨a, rfl⟩
  | min => exact ⟨_, rfl⟩
  | mean => exact ⟨_, rfl⟩
  | median =>
    obtain ⟨m, hm⟩ := median_isSome (xs := x :: t) (by simp)
    exact ⟨-m, by simp [shiftValueE, hm]⟩

theorem scaleValueE_nil (sd : List Rat → Rat) (sc : Scl) (s : Rat) :
    scaleValueE sd sc [] s = (match sc with
      | .num b => .ok (guardDiv (b, 1)) | .minmax => .error .valueError | .std => .error .statisticsError
      | .iqr => .ok (guardDiv (1, 0)) | .maxabs => .error .valueError) := by
  cases sc <;> simp [scaleValueE, minL, maxL, iqr]

theorem scaleValueE_cons (sd : List Rat → Rat) (sc : Scl) (x : Rat) (t : List Rat) (s : Rat) :
    (sc = .std ∧ t = [] ∧ scaleValueE sd sc (x :: t) s = .error .statisticsError) ∨
    (¬ (sc = .std ∧ t = []) ∧ ∃ f, scaleValueE sd sc (x :: t) s = .ok f) := by
  cases sc with
  | num b => exact Or.inr ⟨by simp, _, rfl⟩
  | minmax => exact Or.inr ⟨by simp, _, rfl⟩
  | std =>
    cases t with
    | nil => exact Or.inl ⟨rfl, rfl, by simp [scaleValueE]⟩
    | cons y t' => exact Or.inr ⟨by simp, guardDiv (1, sd (x :: y :: t')), by simp [scaleValueE]⟩
  | iqr =>
    obtain ⟨d, hd⟩ := iqr_isSome (x :: t)
    exact Or.inr ⟨by simp, guardDiv (1, d), by simp [scaleValueE, hd]⟩
  | maxabs => exact Or.inr ⟨by simp, by simp [scaleValueE, maxL]⟩

/-- the only exception class the handler does not catch never arises -/
theorem fitE_no_indexError' (sd : List Rat → Rat) (cfg : Cfg) (w : List Val) : fitE sd cfg w ≠ .error .indexError := by
  unfold fitE
  split
  · cases cfg.shift <;> cases cfg.scale <;> simp <;> split <;> simp
  · cases hn : nums w with
    | nil =>
      rw [shiftValueE_nil]
      cases cfg.shift <;> simp
      rw [scaleValueE_nil]
      cases cfg.scale <;> simp
    | cons x t =>
      obtain ⟨s, hs⟩ := shiftValueE_cons cfg.shift x t
      rw [hs]
      rcases scaleValueE_cons sd cfg.scale x t s with ⟨_, _, h⟩ | ⟨_, f, h⟩ <;> simp [h]

theorem fitE_typeError' (sd : List Rat → Rat) (cfg : Cfg) (w : List Val) :
    fitE sd cfg w = .error .typeError ↔
      w.any Val.isStr = true ∧
        ¬ ∃ a, cfg.shift = .num a ∧ ((∃ b, cfg.scale = .num b) ∨ (cfg.scale = .iqr ∧ presentCount w ≤ 1)) := by
  unfold fitE
  by_cases hstr : w.any Val.isStr = true
  · simp only [hstr, if_true, true_and]
    cases cfg.shift <;> cases cfg.scale <;> simp <;> try (split <;> simp_all)
  · simp only [hstr, if_false, false_and, iff_false]
    cases hn : nums w with
    | nil =>
      rw [shiftValueE_nil]
      cases cfg.shift <;> simp
      rw [scaleValueE_nil]
      cases cfg.scale <;> simp
    | cons x t =>
      obtain ⟨s, hs⟩ := shiftValueE_cons cfg.shift x t
      rw [hs]
      rcases scaleValueE_cons sd cfg.scale x t s with ⟨_, _, h⟩ | ⟨_, f, h⟩ <;> simp [h]

theorem fitE_valueError' (sd : List Rat → Rat) (cfg : Cfg) (w : List Val) :
    fitE sd cfg w = .error .valueError ↔
      w.any Val.isStr = false ∧ nums w = [] ∧
        (cfg.shift = .min ∨ ((∃ a, cfg.shift = .num a) ∧ (cfg.scale = .minmax ∨ cfg.scale = .maxabs))) := by
  unfold fitE
  by_cases hstr : w.any Val.isStr = true
  · simp only [hstr, if_true]
    cases cfg.shift <;> cases cfg.scale <;> simp
    split <;> simp
  · have hstr' : w.any Val.isStr = false := by simpa using hstr
    simp only [hstr, if_false, hstr', true_and]
    cases hn : nums w with
    | nil =>
      rw [shiftValueE_nil]
      cases cfg.shift <;> simp
      rw [scaleValueE_nil]
      cases cfg.scale <;> simp
    | cons x t =>
      obtain ⟨s, hs⟩ := shiftValueE_cons cfg.shift x t
      rw [hs]
      rcases scaleValueE_cons sd cfg.scale x t s with ⟨_, _, h⟩ | ⟨_, f, h⟩ <;> simp [h]

theorem fitE_statisticsError' (sd : List Rat → Rat) (cfg : Cfg) (w : List Val) :
    fitE sd cfg w = .error .statisticsError ↔
      w.any Val.isStr = false ∧
        ((nums w = [] ∧ (cfg.shift = .mean ∨ cfg.shift = .median)) ∨
         (((∃ a, cfg.shift = .num a) ∨ nums w ≠ []) ∧ cfg.scale = .std ∧ (nums w).length < 2)) := by
  unfold fitE
  by_cases hstr : w.any Val.isStr = true
  · simp only [hstr, if_true]
    cases cfg.shift <;> cases cfg.scale <;> simp
    split <;> simp
  · have hstr' : w.any Val.isStr = false := by simpa using hstr
    simp only [hstr, if_false, hstr', true_and]
    cases hn : nums w with
    | nil =>
      rw [shiftValueE_nil]
      cases cfg.shift <;> simp
      all_goals (rw [scaleValueE_nil]; cases cfg.scale <;> simp)
    | cons x t =>
      obtain ⟨s, hs⟩ := shiftValueE_cons cfg.shift x t
      rw [hs]
      rcases scaleValueE_cons sd cfg.scale x t s with ⟨h1, h2, h⟩ | ⟨hne, f, h⟩
      · simp only [h]
        simp [h1, h2]
      · simp only [h]
        constructor
        · intro h'
          cases h'
        · rintro (⟨h', _⟩ | ⟨_, hsc, hlen⟩)
          · cases h'
          · exfalso
            apply hne
            refine ⟨hsc, ?_⟩
            cases t with
            | nil => rfl
            | cons y t' => exact absurd hlen (by simp)

/-- with the source's handler tuple `_get_shift_and_scale` never lets an exception out, and returns `fit` -/
theorem getShiftAndScale_eq' (sd : List Rat → Rat) (cfg : Cfg) (w : List Val) :
    getShiftAndScale scaleHandlers sd cfg w = .ok (fit sd cfg w) := by
  unfold getShiftAndScale
  rw [fit_eq_fitE']
  have hno := fitE_no_indexError' sd cfg w
  cases h : fitE sd cfg w with
  | ok p => rfl
  | error e =>
    cases e with
    | indexError => exact absurd h hno
    | typeError => rfl
    | valueError => rfl
    | statisticsError => rfl

/-! ### ragged dense rows -/

theorem rect_length {first : List Val} {rest : List (List Val)} (h : Rect (first :: rest) = true) :
    ∀ r ∈ first :: rest, r.length = first.length := by
  intro r hr
  rcases List.mem_cons.1 hr with rfl | hr
  · rfl
  · simp [Rect] at h
    exact h r hr

theorem mem_potKeys {first : List Val} {k : Nat} (h : k ∈ potKeys first) : k < first.length := by
  simp [potKeys] at h
  exact h.1

theorem mem_window {α} (u : Option Nat) (rows : List α) (r : α) (h : r ∈ window u rows) : r ∈ rows := by
  cases u with
  | none => exact h
  | some n => exact List.mem_of_mem_take h

/-- on rectangular data (every context as long as the first) no `IndexError` arises and the filter is `scaleDenseFull` -/
theorem scaleDenseE_rect' (sd : List Rat → Rat) (cfg : Cfg) (rows : List (List Val)) (h : Rect rows = true) :
    scaleDenseE sd cfg rows = .ok (scaleDenseFull sd cfg rows) := by
  cases rows with
  | nil => simp [scaleDenseE, scaleDenseFull, denseZeroWindow, scaleDense]
  | cons first rest =>
    have hl := rect_length h
    have h1 : (window cfg.usingN (first :: rest)).any (fun r => (potKeys first).any (fun k => decide (r.length ≤ k))) = false := by
      rw [List.any_eq_false]
      intro r hr
      have := hl r (mem_window _ _ _ hr)
      simp only [List.any_eq_true, not_exists, not_and, decide_eq_true_eq]
      intro k hk
      have := mem_potKeys hk
      omega
    have h2 : ∀ (p : Nat → Bool), (first :: rest).any (fun r => ((potKeys first).filter p).any (fun k => decide (r.length ≤ k))) = false := by
      intro p
      rw [List.any_eq_false]
      intro r hr
      have := hl r hr
      simp only [List.any_eq_true, not_exists, not_and, decide_eq_true_eq]
      intro k hk
      have := mem_potKeys (List.mem_filter.1 hk).1
      omega
    simp only [scaleDenseE, h1, h2]
    simp


/-! ### option tables and the translator tie (`Generated/C11Options.lean` is rewritten from the source on every run) -/

theorem shiftOfName_none_iff' (s : String) : shiftOfName s = none ↔ s ∉ shiftNames := by
  unfold shiftOfName shiftNames
  split_ifs <;> simp_all

theorem sclOfName_none_iff' (s : String) : sclOfName s = none ↔ s ∉ scaleNames := by
  unfold sclOfName scaleNames
  split_ifs <;> simp_all

theorem statOfName_none_iff' (s : String) : statOfName s = none ↔ s ∉ statNames := by
  unfold statOfName statNames
  split_ifs <;> simp_all

theorem guardDiv_threshold' (nd : Rat × Rat) : guardDiv nd = if nd.2 < guardThreshold then nd.1 else nd.1 / nd.2 := rfl

theorem options_match_source' :
    Coba.Generated.C11.shiftAccepted = shiftNames ∧ Coba.Generated.C11.scaleAccepted = scaleNames ∧
    Coba.Generated.C11.statAccepted = statNames ∧ Coba.Generated.C11.shiftDispatch = shiftTable ∧
    Coba.Generated.C11.scaleDispatch = sclTable ∧ Coba.Generated.C11.statDispatch = statTable ∧
    Coba.Generated.C11.guard = guardThreshold ∧ Coba.Generated.C11.handlers = scaleHandlers := by
  refine ⟨by decide, by decide, by decide, by decide, by decide, by decide, by decide +kernel, by decide⟩

/-- a `Scale` configuration as a tuple with decidable equality -/
def ScaleCfg.tuple (k : ScaleCfg) : Shift × Scl × Option Nat × String := (k.cfg.shift, k.cfg.scale, k.cfg.usingN, k.target)

theorem defaults_match_source' :
    Coba.Generated.C11.ctorScale.tuple = (scaleCtorCfg ⟨none, none, none, none⟩).tuple ∧
    Coba.Generated.C11.envScale.map ScaleCfg.tuple = (envScaleFilters ⟨none, none, none, none⟩).map ScaleCfg.tuple ∧
    [Coba.Generated.C11.ctorImpute] = envImputeFilters ⟨none, none, none⟩ ∧
    Coba.Generated.C11.envImpute = envImputeFilters ⟨none, none, none⟩ := by
  refine ⟨by decide +kernel, by decide +kernel, by decide, by decide⟩

/-! ## phase 4 (continued) -/

/-! ### phase 4 (continued): which columns get scaled / imputed -/

/-- parameters exist exactly when none of the three exception conditions holds -/
theorem fit_isSome_iff' (sd : List Rat → Rat) (cfg : Cfg) (w : List Val) :
    (fit sd cfg w).isSome = true ↔ ¬ TypeErrCond cfg w ∧ ¬ ValueErrCond cfg w ∧ ¬ StatErrCond cfg w := by
  have ht := fitE_typeError' sd cfg w
  have hv := fitE_valueError' sd cfg w
  have hs := fitE_statisticsError' sd cfg w
  have hi := fitE_no_indexError' sd cfg w
  rw [fit_eq_fitE']
  unfold TypeErrCond ValueErrCond StatErrCond
  rw [← ht, ← hv, ← hs]
  cases h : fitE sd cfg w with
  | ok p => simp
  | error e => cases e <;> simp_all

theorem denseRow_decision (sd : List Rat → Rat) (cfg : Cfg) (first : List Val) (win : List (List Val)) (row : List Val) :
    denseRow sd cfg first win row = row.mapIdx (fun k v => applyOpt (denseDecision sd cfg first win k) v) := rfl

theorem sparseRow_decision (sd : List Rat → Rat) (cfg : Cfg) (first : SCtx) (win : List SCtx) (c : SCtx) :
    sparseRow sd cfg first win c = c.map (fun kv => (kv.1, applyOpt (sparseDecision sd cfg first win kv.1) kv.2)) := rfl

theorem potDense_iff (first : List Val) (k : Nat) : potDense first k = true ↔ ∃ v, first[k]? = some v ∧ v.isStr = false := by
  unfold potDense
  cases h : first[k]? with
  | none => simp
  | some v => cases v <;> simp [Val.numOrNil, Val.isStr]

theorem potSparse_iff (first : SCtx) (k : String) : potSparse first k = true ↔ ∀ v, first.lookup k = some v → v.isStr = false := by
  unfold potSparse
  cases h : first.lookup k with
  | none => simp
  | some v => cases v <;> simp [Val.isStr]

theorem denseDecision_isSome_iff' (sd : List Rat → Rat) (cfg : Cfg) (first : List Val) (win : List (List Val)) (k : Nat) :
    (denseDecision sd cfg first win k).isSome = true ↔
      (∃ v, first[k]? = some v ∧ v.isStr = false) ∧
        ¬ TypeErrCond cfg (col k win) ∧ ¬ ValueErrCond cfg (col k win) ∧ ¬ StatErrCond cfg (col k win) := by
  unfold denseDecision
  rw [← potDense_iff, ← fit_isSome_iff' sd]
  cases potDense first k <;> simp

theorem sparseDecision_isSome_iff' (sd : List Rat → Rat) (cfg : Cfg) (first : SCtx) (win : List SCtx) (k : String) :
    (sparseDecision sd cfg first win k).isSome = true ↔
      (∀ v, first.lookup k = some v → v.isStr = false) ∧
        ¬ TypeErrCond cfg (win.map (getD0 k)) ∧ ¬ ValueErrCond cfg (win.map (getD0 k)) ∧ ¬ StatErrCond cfg (win.map (getD0 k)) := by
  unfold sparseDecision
  rw [← potSparse_iff, ← fit_isSome_iff' sd]
  cases potSparse first k <;> simp

/-- what a decision means for the cells of the column -/
theorem applyOpt_decision (p : Option (Rat × Rat)) (v : Val) :
    (p = none → applyOpt p v = v) ∧
    (∀ s f, p = some (s, f) → (∀ x, v = .num x → applyOpt p v = .num ((x + s) * f)) ∧ (v.isNum = false → applyOpt p v = v)) := by
  refine ⟨fun h => by rw [h]; rfl, fun s f h => ⟨fun x hx => by rw [h, hx]; rfl, fun hv => by rw [h]; exact applyOpt_nonnum _ _ hv⟩⟩

/-! #### Impute -/

theorem getImp_imputable {st : Stat} {w : List Val} {m : Val} (h : getImp st w = some m) : Imputable st w := by
  unfold getImp at h
  unfold Imputable
  cases st with
  | mode =>
    simp only at h
    refine ⟨?_, trivial⟩
    intro he
    rw [he] at h
    simp [mode, modeAux] at h
  | mean =>
    simp only at h
    split at h
    · rename_i hall
      refine ⟨?_, hall⟩
      intro he
      rw [he] at h
      simp [nums, mean] at h
    · cases h
  | median =>
    simp only at h
    split at h
    · rename_i hall
      refine ⟨?_, hall⟩
      intro he
      rw [he] at h
      simp [nums, median_nil] at h
    · cases h

theorem getImp_isSome_iff' (st : Stat) (w : List Val) : (getImp st w).isSome = true ↔ Imputable st w := by
  constructor
  · intro h
    obtain ⟨m, hm⟩ := Option.isSome_iff_exists.1 h
    exact getImp_imputable hm
  · intro h
    obtain ⟨m, hm⟩ := getImp_isSome h
    rw [hm]; rfl

theorem denseImp_isSome_iff' (st : Stat) (first : List Val) (win : List (List Val)) (k : Nat) :
    (denseImp st first win k).isSome = true ↔
      (match st with | .mode => k < first.length | _ => ∃ v, first[k]? = some v ∧ v.isStr = false) ∧
        Imputable st (col k win) := by
  unfold denseImp
  rw [← getImp_isSome_iff']
  cases st <;> simp only [impDense, ← potDense_iff]
  · by_cases hp : potDense first k = true <;> simp [hp]
  · by_cases hp : potDense first k = true <;> simp [hp]
  · by_cases hk : k < first.length <;> simp [hk]

theorem ite_isSome {α : Type} (b : Bool) (o : Option α) :
    (if b = true then o else none).isSome = true ↔ b = true ∧ o.isSome = true := by cases b <;> simp

theorem sparseImp_isSome_iff' (st : Stat) (first : SCtx) (win : List SCtx) (k : String) :
    (sparseImp st first win k).isSome = true ↔
      (match st with | .mode => True | _ => ∀ v, first.lookup k = some v → v.isStr = false) ∧
        Imputable st (sparseCol k win) := by
  unfold sparseImp
  rw [← getImp_isSome_iff']
  cases st <;> simp only [impSparseKey]
  · rw [← potSparse_iff]; unfold potSparse
    exact ite_isSome _ _
  · rw [← potSparse_iff]; unfold potSparse
    exact ite_isSome _ _
  · simp

/-! #### scalar vs dense with one feature: exactly when they agree -/

theorem scaleDense_string_first (sd : List Rat → Rat) (cfg : Cfg) (s : String) (rest : List Val) :
    scaleDense sd cfg ((Val.str s :: rest).map (fun v => [v])) = (Val.str s :: rest).map (fun v => [v]) := by
  have key : ∀ (v : Val) (win : List (List Val)), denseRow sd cfg [Val.str s] win [v] = [v] := by
    intro v win
    simp [denseRow, List.mapIdx_cons, List.mapIdx_nil, potDense, Val.numOrNil, applyOpt]
  simp only [List.map_cons, scaleDense]
  rw [key]
  congr 1
  rw [List.map_map]
  apply List.map_congr_left
  intro v _
  exact key v _

theorem scale_scalar_dense_agree_iff' (sd : List Rat → Rat) (cfg : Cfg) (v0 : Val) (rest : List Val) :
    scaleDense sd cfg ((v0 :: rest).map (fun v => [v])) = (scaleScalar sd cfg (v0 :: rest)).map (fun v => [v]) ↔
      (v0.isStr = false ∨ ∀ v ∈ v0 :: rest, applyOpt (fit sd cfg (window cfg.usingN (v0 :: rest))) v = v) := by
  by_cases h0 : v0.isStr = false
  · simp only [h0, true_or, iff_true]
    exact scale_scalar_dense_agree' sd cfg (v0 :: rest) (by intro v hv; simp at hv; rw [← hv]; exact h0)
  · obtain ⟨s, rfl⟩ : ∃ s, v0 = .str s := by cases v0 <;> simp_all [Val.isStr]
    rw [scaleDense_string_first]
    simp only [Val.isStr, false_or, scaleScalar, List.map_map]
    constructor
    · intro h
      right
      intro v hv
      have := (List.map_inj_left.1 h) v hv
      simpa using this.symm
    · intro h
      rcases h with h | h
      · cases h
      · apply List.map_congr_left
        intro v hv
        simp [h v hv]

theorem isqrtRto_exact' (a m : Nat) (hm : 0 < m) : isqrtRto (a * a * m) m = a := by
  unfold isqrtRto
  rw [Nat.mul_div_cancel _ hm, Nat.sqrt_eq]
  simp

theorem pySqrtFrac_exact' (a b : Nat) (hb : 0 < b) (hq : pySqrtShift (a * a) (b * b) < 0)
    (hd : b ∣ a * 2 ^ (-(pySqrtShift (a * a) (b * b))).toNat) :
    pySqrtFrac (a * a) (b * b) =
      (a * 2 ^ (-(pySqrtShift (a * a) (b * b))).toNat / b, 2 ^ (-(pySqrtShift (a * a) (b * b))).toNat) := by
  unfold pySqrtFrac
  rw [if_neg (by omega)]
  generalize (-(pySqrtShift (a * a) (b * b))).toNat = s at hd ⊢
  obtain ⟨c, hc⟩ := hd
  have hcb : a * 2 ^ s / b = c := by rw [hc]; exact Nat.mul_div_cancel_left c hb
  rw [hcb, Nat.shiftLeft_eq, Nat.one_shiftLeft]
  have : a * a * 2 ^ (2 * s) = c * c * (b * b) := by
    have : a * a * 2 ^ (2 * s) = (a * 2 ^ s) * (a * 2 ^ s) := by rw [Nat.mul_comm 2 s, pow_mul]; ring
    rw [this, hc]; ring
  rw [this, isqrtRto_exact' c (b * b) (Nat.mul_pos hb hb)]

/-- the square root CPython's `statistics.stdev` computes is exact on data whose sample variance is the square of a
rational `r ≥ 0` whose denominator divides `r.num · 2^s` (`s` = the routine's scaling shift; every dyadic `r` of modest size) -/
theorem sqrt_exact_perfect_square' (xs : List Rat) (r : Rat) (hr : 0 ≤ r) (hv : variance xs = r * r)
    (hq : pySqrtShift (r.num.toNat * r.num.toNat) (r.den * r.den) < 0)
    (hd : r.den ∣ r.num.toNat * 2 ^ (-(pySqrtShift (r.num.toNat * r.num.toNat) (r.den * r.den))).toNat) :
    SqrtExact pySd xs := by
  have hn : 0 ≤ r.num := Rat.num_nonneg.2 hr
  have h1 : (variance xs).num.toNat = r.num.toNat * r.num.toNat := by
    rw [hv, Rat.mul_self_num]
    exact Int.toNat_mul hn hn
  have h2 : (variance xs).den = r.den * r.den := by rw [hv, Rat.mul_self_den]
  have hsd : pySd xs = r := by
    unfold pySd
    rw [h1, h2, pySqrtFrac_exact' _ _ r.den_pos hq hd]
    simp only
    generalize (-(pySqrtShift (r.num.toNat * r.num.toNat) (r.den * r.den))).toNat = s at hd ⊢
    obtain ⟨c, hc⟩ := hd
    rw [hc, Nat.mul_div_cancel_left c r.den_pos]
    have hden : (r.den : Rat) ≠ 0 := by exact_mod_cast r.den_pos.ne'
    have h2s : ((2 ^ s : Nat) : Rat) ≠ 0 := by positivity
    have hcq : (r.num.toNat : Rat) * ((2 ^ s : Nat) : Rat) = (r.den : Rat) * (c : Rat) := by exact_mod_cast hc
    have hnum : (r.num.toNat : Rat) = r * r.den := by
      have : ((r.num.toNat : Int) : Rat) = (r.num : Rat) := by rw [Int.toNat_of_nonneg hn]
      rw [Rat.mul_den_eq_num]; exact_mod_cast this
    rw [div_eq_iff h2s]
    have : (r.den : Rat) * (c : Rat) = (r.den : Rat) * (r * ((2 ^ s : Nat) : Rat)) := by rw [← hcq, hnum]; ring
    exact mul_left_cancel₀ hden this
  unfold SqrtExact
  rw [hsd]
  exact ⟨hr, hv.symm⟩

example : pySqrtFrac 4 1 = (2 * 2 ^ 54, 2 ^ 54) := by decide +kernel

/-! ### phase 5 — first-seen mode, rank arithmetic of the quartiles, small sizes -/

theorem modeAux_first (all : List Val) (l : List Val) (b : Val) :
    ∃ r, modeAux all l (some b) = some r ∧
      ((r = b ∧ ∀ v ∈ l, count v all ≤ count b all) ∨
       (∃ pre post, l = pre ++ r :: post ∧ (∀ v ∈ pre, count v all < count r all) ∧ count b all < count r all ∧
          ∀ v ∈ post, count v all ≤ count r all)) := by
  induction l generalizing b with
  | nil => exact ⟨b, rfl, Or.inl ⟨rfl, by simp⟩⟩
  | cons v l ih =>
    simp only [modeAux]
    by_cases h : count b all < count v all
    · simp only [h, if_true]
      obtain ⟨r, h1, h2⟩ := ih v
      refine ⟨r, h1, Or.inr ?_⟩
      rcases h2 with ⟨rfl, h2⟩ | ⟨pre, post, rfl, h3, h4, h5⟩
      · exact ⟨[], l, rfl, by simp, h, h2⟩
      · refine ⟨v :: pre, post, rfl, ?_, by omega, h5⟩
        intro x hx
        rcases List.mem_cons.1 hx with rfl | hx
        · exact h4
        · exact h3 x hx
    · simp only [h, if_false]
      obtain ⟨r, h1, h2⟩ := ih b
      refine ⟨r, h1, ?_⟩
      rcases h2 with ⟨rfl, h2⟩ | ⟨pre, post, rfl, h3, h4, h5⟩
      · left
        refine ⟨rfl, ?_⟩
        intro x hx
        rcases List.mem_cons.1 hx with rfl | hx
        · omega
        · exact h2 x hx
      · right
        refine ⟨v :: pre, post, rfl, ?_, h4, h5⟩
        intro x hx
        rcases List.mem_cons.1 hx with rfl | hx
        · omega
        · exact h3 x hx

theorem mode_first_seen' {vs : List Val} {m : Val} (h : mode vs = some m) :
    ∃ pre post, vs = pre ++ m :: post ∧ (∀ v ∈ pre, count v vs < count m vs) ∧ (∀ v ∈ post, count v vs ≤ count m vs) := by
  cases vs with
  | nil => simp [mode, modeAux] at h
  | cons a l =>
    simp only [mode, modeAux] at h
    obtain ⟨r, h1, h2⟩ := modeAux_first (a :: l) l a
    rw [h1] at h
    simp only [Option.some.injEq] at h
    subst h
    rcases h2 with ⟨rfl, h2⟩ | ⟨pre, post, hl, h3, h4, h5⟩
    · exact ⟨[], l, rfl, by simp, h2⟩
    · refine ⟨a :: pre, post, by rw [hl]; rfl, ?_, h5⟩
      intro x hx
      rcases List.mem_cons.1 hx with rfl | hx
      · exact h4
      · exact h3 x hx

theorem mode_not_before' {vs : List Val} {m : Val} (h : mode vs = some m) (v : Val) (hv : v ∈ vs)
    (hc : count v vs = count m vs) : vs.idxOf m ≤ vs.idxOf v := by
  obtain ⟨pre, post, hvs, h1, _⟩ := mode_first_seen' h
  have hm : m ∉ pre := fun hm => by have := h1 m hm; omega
  have hvp : v ∉ pre := fun hv' => by have := h1 v hv'; omega
  rw [hvs, List.idxOf_append_of_notMem hm, List.idxOf_append_of_notMem hvp]
  simp



theorem percentile_quarter' (s : List Rat) (q : Nat) (hq : q = 1 ∨ q = 3) (hn : 2 ≤ s.length) :
    percentile s ((q : Rat) / 4) = quarterAt s q := by
  have hp0 : ((q : Rat) / 4) ≠ 0 := by rcases hq with rfl | rfl <;> norm_num
  have hp1 : ((q : Rat) / 4) ≠ 1 := by rcases hq with rfl | rfl <;> norm_num
  obtain ⟨n, hnn⟩ : ∃ n, s.length = n + 1 := ⟨s.length - 1, by omega⟩
  have hi : (q : Rat) / 4 * ((s.length : Rat) - 1) = ((q * n : Nat) : Rat) / ((4 : Nat) : Rat) := by
    rw [hnn]; push_cast; ring
  have hfl : ((q : Rat) / 4 * ((s.length : Rat) - 1)).floor.toNat = q * n / 4 := by
    rw [hi, rat_floor_eq, Rat.floor_natCast_div_natCast]
    exact Int.toNat_natCast _
  have hk : q * (s.length - 1) = q * n := by rw [hnn]; simp
  have hdm : ((q * n : Nat) : Rat) = 4 * ((q * n / 4 : Nat) : Rat) + ((q * n % 4 : Nat) : Rat) := by
    exact_mod_cast (Nat.div_add_mod (q * n) 4).symm
  have hne : ∀ x, s ≠ [x] := fun x hx => by rw [hx] at hn; simp at hn
  unfold percentile quarterAt
  split
  · rename_i x; exact absurd rfl (hne x)
  · simp only [hp0, hp1, if_false, hfl, hk]
    rw [hi]
    by_cases hr : q * n % 4 = 0
    · have : ((q * n : Nat) : Rat) / ((4 : Nat) : Rat) = ((q * n / 4 : Nat) : Rat) := by
        rw [hdm, hr]; push_cast; ring
      simp only [hr, if_true, this]
    · have hne' : ((q * n : Nat) : Rat) / ((4 : Nat) : Rat) ≠ ((q * n / 4 : Nat) : Rat) := by
        intro he
        rw [hdm] at he
        have h4 : ((q * n % 4 : Nat) : Rat) = 0 := by push_cast at he ⊢; linarith
        exact hr (by exact_mod_cast h4)
      have hw : ((q * n : Nat) : Rat) / ((4 : Nat) : Rat) - ((q * n / 4 : Nat) : Rat) = ((q * n % 4 : Nat) : Rat) / 4 := by
        rw [hdm]; push_cast; ring
      simp only [hr, hne', if_false, hw]
      try (cases s[q * n / 4]? <;> cases s[q * n / 4 + 1]? <;> rfl)

theorem iqr_quarters' (xs : List Rat) (hn : 2 ≤ xs.length) :
    iqr xs = match quarterAt (isort xs) 1, quarterAt (isort xs) 3 with
      | some a, some b => some (b - a)
      | _, _ => none := by
  have h1 := percentile_quarter' (isort xs) 1 (Or.inl rfl) (by rw [isort_length]; exact hn)
  have h3 := percentile_quarter' (isort xs) 3 (Or.inr rfl) (by rw [isort_length]; exact hn)
  have e1 : (((1 : Nat) : Rat) / 4) = 1 / 4 := by norm_num
  have e3 : (((3 : Nat) : Rat) / 4) = 3 / 4 := by norm_num
  rw [e1] at h1; rw [e3] at h3
  unfold iqr
  rw [if_neg (by omega), h1, h3]
  cases quarterAt (isort xs) 1 <;> cases quarterAt (isort xs) 3 <;> rfl

/-- EVEN number of values: `n−1` is odd, so neither quartile rank is whole — both quartiles are proper interpolations
between two neighbouring order statistics, with weights `r/4`, `r ∈ {1,3}` -/
theorem iqr_even_interpolates' (xs : List Rat) (hn : 2 ≤ xs.length) (he : xs.length % 2 = 0) :
    ∃ a b c d, (isort xs)[(xs.length - 1) / 4]? = some a ∧ (isort xs)[(xs.length - 1) / 4 + 1]? = some b ∧
      (isort xs)[3 * (xs.length - 1) / 4]? = some c ∧ (isort xs)[3 * (xs.length - 1) / 4 + 1]? = some d ∧
      (xs.length - 1) % 4 ≠ 0 ∧ 3 * (xs.length - 1) % 4 ≠ 0 ∧
      iqr xs = some (((1 - ((3 * (xs.length - 1) % 4 : Nat) : Rat) / 4) * c + ((3 * (xs.length - 1) % 4 : Nat) : Rat) / 4 * d)
                   - ((1 - (((xs.length - 1) % 4 : Nat) : Rat) / 4) * a + (((xs.length - 1) % 4 : Nat) : Rat) / 4 * b)) := by
  have hl := isort_length xs
  have r1 : (xs.length - 1) % 4 ≠ 0 := by omega
  have r3 : 3 * (xs.length - 1) % 4 ≠ 0 := by omega
  have b1 : (xs.length - 1) / 4 + 1 < (isort xs).length := by omega
  have b3 : 3 * (xs.length - 1) / 4 + 1 < (isort xs).length := by omega
  refine ⟨(isort xs)[(xs.length - 1) / 4]'(by omega), (isort xs)[(xs.length - 1) / 4 + 1]'b1,
          (isort xs)[3 * (xs.length - 1) / 4]'(by omega), (isort xs)[3 * (xs.length - 1) / 4 + 1]'b3,
          List.getElem?_eq_getElem _, List.getElem?_eq_getElem _, List.getElem?_eq_getElem _, List.getElem?_eq_getElem _, r1, r3, ?_⟩
  rw [iqr_quarters' xs hn]
  simp only [quarterAt, hl, Nat.one_mul, r1, r3, if_false, List.getElem?_eq_getElem b1, List.getElem?_eq_getElem b3,
    List.getElem?_eq_getElem (show (xs.length - 1) / 4 < (isort xs).length by omega),
    List.getElem?_eq_getElem (show 3 * (xs.length - 1) / 4 < (isort xs).length by omega)]

/-- `n ≡ 1 (mod 4)` values: both ranks are whole, no interpolation — the interquartile range is the difference of two
order statistics -/
theorem iqr_whole_ranks' (xs : List Rat) (hn : 2 ≤ xs.length) (h4 : xs.length % 4 = 1) :
    ∃ a c, (isort xs)[(xs.length - 1) / 4]? = some a ∧ (isort xs)[3 * (xs.length - 1) / 4]? = some c ∧ iqr xs = some (c - a) := by
  have hl := isort_length xs
  have r1 : (xs.length - 1) % 4 = 0 := by omega
  have r3 : 3 * (xs.length - 1) % 4 = 0 := by omega
  have b1 : (xs.length - 1) / 4 < (isort xs).length := by omega
  have b3 : 3 * (xs.length - 1) / 4 < (isort xs).length := by omega
  refine ⟨(isort xs)[(xs.length - 1) / 4]'b1, (isort xs)[3 * (xs.length - 1) / 4]'b3,
          List.getElem?_eq_getElem _, List.getElem?_eq_getElem _, ?_⟩
  rw [iqr_quarters' xs hn]
  simp only [quarterAt, hl, Nat.one_mul, r1, r3, if_true, List.getElem?_eq_getElem b1, List.getElem?_eq_getElem b3]

/-- the size thresholds: no value / one value → 0 (`len(values) <= 1`); two values → half their distance -/
theorem iqr_small' : iqr [] = some 0 ∧ (∀ a, iqr [a] = some 0) ∧ (∀ a b, iqr [a, b] = some (absR (b - a) / 2)) := by
  refine ⟨rfl, fun a => rfl, fun a b => ?_⟩
  rw [iqr_quarters' [a, b] (by simp)]
  by_cases h : a ≤ b
  · have hs : isort [a, b] = [a, b] := by simp [isort, insertSorted, h]
    have : ¬ b - a < 0 := by linarith
    simp [hs, quarterAt, absR, this]
    ring
  · have hs : isort [a, b] = [b, a] := by simp [isort, insertSorted, h]
    have : b - a < 0 := by linarith
    simp [hs, quarterAt, absR, this]
    ring

/-- median: one value → itself, two values → their mean (the even/odd threshold at its smallest sizes) -/
theorem median_small' : median [] = none ∧ (∀ a, median [a] = some a) ∧ (∀ a b, median [a, b] = some ((a + b) / 2)) := by
  refine ⟨by simp [median, isort], fun a => by simp [median, isort, insertSorted], fun a b => ?_⟩
  by_cases h : a ≤ b
  · simp [median, isort, insertSorted, h]
  · simp [median, isort, insertSorted, h]; ring

/-- the even/odd threshold of `statistics.median` on the sorted data -/
theorem median_parity' (xs : List Rat) (hn : xs ≠ []) :
    (xs.length % 2 = 1 → ∃ a, (isort xs)[xs.length / 2]? = some a ∧ median xs = some a) ∧
    (xs.length % 2 = 0 → ∃ a b, (isort xs)[xs.length / 2 - 1]? = some a ∧ (isort xs)[xs.length / 2]? = some b ∧
        median xs = some ((a + b) / 2)) := by
  have hl := isort_length xs
  have hpos : 0 < xs.length := List.length_pos_iff.2 hn
  constructor
  · intro ho
    have b : xs.length / 2 < (isort xs).length := by omega
    refine ⟨(isort xs)[xs.length / 2]'b, List.getElem?_eq_getElem b, ?_⟩
    simp only [median, hl, ho, if_true, show ¬ xs.length = 0 by omega, if_false, List.getElem?_eq_getElem b]
  · intro he
    have b1 : xs.length / 2 - 1 < (isort xs).length := by omega
    have b2 : xs.length / 2 < (isort xs).length := by omega
    refine ⟨(isort xs)[xs.length / 2 - 1]'b1, (isort xs)[xs.length / 2]'b2, List.getElem?_eq_getElem b1, List.getElem?_eq_getElem b2, ?_⟩
    simp only [median, hl, he, show ¬ xs.length = 0 by omega, if_false, show ¬ (0 = 1) by omega,
      List.getElem?_eq_getElem b1, List.getElem?_eq_getElem b2]

/-! ### phase 5 — expression programs -/

theorem iqr_program' (xs : List Rat) : iqrProg.run xs = iqr xs := by
  unfold IqrProg.run iqr iqrProg
  by_cases h : xs.length ≤ 1
  · simp [h]
  · simp only [h, if_false, List.map]
    cases percentile (isort xs) (1 / 4) <;> cases percentile (isort xs) (3 / 4) <;>
      simp [optAll, PExpr.eval, List.lookup]

theorem apply_program' (x s f : Rat) :
    applyExpr.eval [("x", x), ("shift", s), ("scale", f)] [] = some ((x + s) * f) ∧ applyVal (s, f) (.num x) = .num ((x + s) * f) := by
  constructor
  · simp [applyExpr, PExpr.eval, List.lookup]
  · rfl

theorem mean_program' (xs : List Rat) : meanExpr.eval [] xs = mean xs := by
  cases xs with
  | nil => simp [meanExpr, PExpr.eval, mean]
  | cons a l =>
    have : ((l.length : Rat) + 1) ≠ 0 := by positivity
    simp [meanExpr, PExpr.eval, mean, this]

theorem pyIndex_nat (s : List Rat) (k : Nat) : pyIndex s (k : Rat) = s[k]? := by
  have h : ¬ ((k : Rat) < 0) := not_lt.2 (Nat.cast_nonneg k)
  simp [pyIndex, h, rat_floor_eq]

theorem percentile_not_single (s : List Rat) (p : Rat) (h : s.length ≠ 1) :
    percentile s p = if p = 0 then s.head? else if p = 1 then s.getLast? else
      if p * ((s.length : Rat) - 1) = ((p * ((s.length : Rat) - 1)).floor.toNat : Rat) then s[(p * ((s.length : Rat) - 1)).floor.toNat]?
      else match s[(p * ((s.length : Rat) - 1)).floor.toNat]?, s[(p * ((s.length : Rat) - 1)).floor.toNat + 1]? with
        | some a, some b => some ((1 - (p * ((s.length : Rat) - 1) - ((p * ((s.length : Rat) - 1)).floor.toNat : Rat))) * a
                                  + (p * ((s.length : Rat) - 1) - ((p * ((s.length : Rat) - 1)).floor.toNat : Rat)) * b)
        | _, _ => none := by
  match s, h with
  | [], _ => rfl
  | [x], h => exact absurd rfl h
  | _ :: _ :: _, _ => rfl

theorem percentile_program' (s : List Rat) (p : Rat) (hp : 0 ≤ p) (hs : s ≠ []) : pctProg.run s p = percentile s p := by
  obtain ⟨n, hn⟩ : ∃ n, s.length = n + 1 := ⟨s.length - 1, by have := List.length_pos_iff.2 hs; omega⟩
  unfold PctProg.run
  by_cases h1 : s.length = 1
  · obtain ⟨x, rfl⟩ := List.length_eq_one_iff.1 h1
    have := pyIndex_nat [x] 0
    simp only [Nat.cast_zero] at this
    simp [pctProg, PExpr.eval, percentile, this]
  · rw [if_neg h1, percentile_not_single s p h1]
    by_cases h0 : p = 0
    · have := pyIndex_nat s 0
      simp only [Nat.cast_zero] at this
      simp [h0, pctProg, PExpr.eval, this, List.head?_eq_getElem?]
    · by_cases hp1 : p = 1
      · have hl : pyIndex s (-1) = s[s.length - 1]? := by
          have : ((-1 : Rat) < 0) := by norm_num
          simp [pyIndex, this, rat_floor_eq, hn]
        simp [hp1, pctProg, PExpr.eval, hl, List.getLast?_eq_getElem?]
      · simp only [h0, hp1, if_false]
        have hi0 : 0 ≤ p * ((s.length : Rat) - 1) := by
          rw [hn]; push_cast; have : (0 : Rat) ≤ n := Nat.cast_nonneg n; nlinarith
        simp only [pctProg, PExpr.eval, List.lookup, String.reduceBEq, Option.bind_some, Option.map_some, Option.bind]
        generalize p * ((s.length : Rat) - 1) = i at hi0
        have hfl : 0 ≤ ⌊i⌋ := Int.floor_nonneg.2 hi0
        have hI : pyInt i = ((i.floor.toNat : Nat) : Rat) := by
          simp only [pyInt, hi0, if_true, rat_floor_eq]
          have : ((⌊i⌋.toNat : Nat) : Int) = ⌊i⌋ := Int.toNat_of_nonneg hfl
          exact_mod_cast congrArg (fun z : Int => (z : Rat)) this.symm
        have e1 : pyIndex s ((i.floor.toNat : Nat) : Rat) = s[i.floor.toNat]? := pyIndex_nat s _
        have e2 : pyIndex s (((i.floor.toNat : Nat) : Rat) + 1) = s[i.floor.toNat + 1]? := by
          have := pyIndex_nat s (i.floor.toNat + 1)
          push_cast at this
          exact this
        rw [hI, e1, e2]
        by_cases he : i = ((i.floor.toNat : Nat) : Rat)
        · rw [if_pos he, if_pos he]
        · rw [if_neg he, if_neg he]
          cases s[i.floor.toNat]? <;> cases s[i.floor.toNat + 1]? <;> simp

theorem programs_match_source' :
    Coba.Generated.C11.pctSrc = pctProg ∧ Coba.Generated.C11.iqrSrc = iqrProg ∧
    (Coba.Generated.C11.applySrc ≠ [] ∧ ∀ e ∈ Coba.Generated.C11.applySrc, e = applyExpr) ∧ Coba.Generated.C11.meanSrc = meanExpr := by
  decide +kernel

/-! ## phase 6 — generator histories (partial, abandoned, interleaved reads) -/

theorem drop_cons_getElem? {α : Type} (rows : List α) (k : Nat) (r : α) (rest : List α)
    (h : rows.drop k = r :: rest) : rows[k]? = some r ∧ rows.drop (k + 1) = rest := by
  induction rows generalizing k with
  | nil => simp at h
  | cons a as ih =>
    cases k with
    | zero => simp at h; simp [h]
    | succ k => simpa using ih k (by simpa using h)

theorem drop_nil_getElem? {α : Type} (rows : List α) (k : Nat) (h : rows.drop k = []) : rows[k]? = none := by
  simp at h; simp [h]

theorem set_same {α : Type} (l : List α) (g : Nat) (a : α) (h : l[g]? = some a) : l.set g a = l := by
  induction l generalizing g with
  | nil => rfl
  | cons b bs ih =>
    cases g with
    | zero => simp at h; simp [h]
    | succ g => simp at h; simp [ih g h]

/-- one step: the generator machine and the cursor machine give the same output and stay related -/
theorem GenSt.step_cur {κ : Type} (f : κ → Ctxs → Except Err Ctxs) (srcs : List Ctxs) (s : GenSt κ) (cs : List Cur)
    (dt : List Nat) (op : GenOp) (cfgs : List κ) (hc : s.objs.map (·.cfg) = cfgs)
    (hg : s.gens = cs.map (Cur.conc (pipeRows f cfgs))) :
    (s.step f srcs dt op).2 = (curStep (pipeRows f cfgs) srcs cs op).2 ∧
    (s.step f srcs dt op).1.objs.map (·.cfg) = cfgs ∧
    (s.step f srcs dt op).1.gens = (curStep (pipeRows f cfgs) srcs cs op).1.map (Cur.conc (pipeRows f cfgs)) := by
  cases op with
  | openG i =>
    simp only [GenSt.step, curStep]
    cases srcs[i]? with
    | none => exact ⟨rfl, hc, hg⟩
    | some src => exact ⟨rfl, hc, by simp [hg, Cur.conc]⟩
  | close g =>
    simp only [GenSt.step, curStep, hg, List.getElem?_map]
    cases cs[g]? with
    | none => exact ⟨rfl, hc, by simp [hg]⟩
    | some c => exact ⟨rfl, hc, by simp [List.map_set, Cur.conc]⟩
  | next g =>
    simp only [GenSt.step, curStep, hg, List.getElem?_map]
    cases hcg : cs[g]? with
    | none => exact ⟨rfl, hc, by simp [hg]⟩
    | some c =>
      obtain ⟨src, pos⟩ := c
      cases pos with
      | none => simp [Cur.conc, hc, hg]
      | some k =>
        cases k with
        | zero =>
          obtain ⟨h1, h2⟩ := pipeRun_spec f dt s.objs (.ok src)
          simp only [Option.map_some, Cur.conc, pipeRows]
          rw [h2, hc]
          cases hp : pipe f cfgs (.ok src) with
          | error e => simp [Except.map, List.map_set, Cur.conc, h1, hc]
          | ok c =>
            simp only [Except.map]
            cases hr : c.rowList with
            | nil => simp [List.map_set, Cur.conc, h1, hc]
            | cons r rest => simp [List.map_set, Cur.conc, h1, hc, pipeRows, hp, Except.map, hr]
        | succ k =>
          simp only [Option.map_some, Cur.conc]
          cases hF : pipeRows f cfgs src with
          | error e =>
            have hd : (List.map (Cur.conc (pipeRows f cfgs)) cs)[g]? = some Gen.done := by
              simp [List.getElem?_map, hcg, Cur.conc, hF]
            simp [Cur.conc, hc, hg, set_same _ _ _ hd]
          | ok rows =>
            simp only []
            cases hd : rows.drop (k + 1) with
            | nil =>
              have := drop_nil_getElem? rows (k + 1) hd
              simp [this, List.map_set, Cur.conc, hc]
            | cons r rest =>
              obtain ⟨h1, h2⟩ := drop_cons_getElem? rows (k + 1) r rest hd
              simp [h1, List.map_set, Cur.conc, hc, hF, h2]

theorem generator_histories' {κ : Type} (f : κ → Ctxs → Except Err Ctxs) (srcs : List Ctxs) (s : GenSt κ) (cs : List Cur)
    (ops : List (List Nat × GenOp)) (hg : s.gens = cs.map (Cur.conc (pipeRows f (s.objs.map (·.cfg))))) :
    (GenSt.run f srcs s ops).2 = (curRun (pipeRows f (s.objs.map (·.cfg))) srcs cs (ops.map (·.2))).2 := by
  induction ops generalizing s cs with
  | nil => rfl
  | cons o rest ih =>
    obtain ⟨dt, op⟩ := o
    obtain ⟨h1, h2, h3⟩ := GenSt.step_cur f srcs s cs dt op _ rfl hg
    simp only [GenSt.run, curRun, List.map_cons]
    rw [h1]
    have := ih (s.step f srcs dt op).1 (curStep (pipeRows f (s.objs.map (·.cfg))) srcs cs op).1 (by rw [h2]; exact h3)
    rw [h2] at this
    rw [this]


/-- from the start (no generator yet): every output of every history is the cursor machine's output -/
theorem generator_histories_init' {κ : Type} (f : κ → Ctxs → Except Err Ctxs) (srcs : List Ctxs) (objs : List (Obj κ))
    (ops : List (List Nat × GenOp)) :
    (GenSt.run f srcs ⟨objs, []⟩ ops).2 = (curRun (pipeRows f (objs.map (·.cfg))) srcs [] (ops.map (·.2))).2 :=
  generator_histories' f srcs ⟨objs, []⟩ [] ops rfl

/-- a step of the cursor machine touches no other cursor -/
theorem cursor_frame' (F : Ctxs → Except Err (List Row)) (srcs : List Ctxs) (cs : List Cur) (op : GenOp) (g' : Nat)
    (hlt : g' < cs.length) (hne : op ≠ .next g' ∧ op ≠ .close g') :
    (curStep F srcs cs op).1[g']? = cs[g']? := by
  cases op with
  | openG i =>
    simp only [curStep]
    cases srcs[i]? with
    | none => rfl
    | some src => simp [List.getElem?_append_left hlt]
  | close g =>
    have hg : g ≠ g' := fun h => hne.2 (by rw [h])
    simp only [curStep]
    cases cs[g]? with
    | none => rfl
    | some c => simp [List.getElem?_set_ne hg]
  | next g =>
    have hg : g ≠ g' := fun h => hne.1 (by rw [h])
    simp only [curStep]
    cases cs[g]? with
    | none => rfl
    | some c =>
      obtain ⟨src, pos⟩ := c
      cases pos with
      | none => rfl
      | some k =>
        simp only []
        cases F src with
        | error e => simp [List.getElem?_set_ne hg]
        | ok rows =>
          simp only []
          cases rows[k]? with
          | none => simp [List.getElem?_set_ne hg]
          | some r => simp [List.getElem?_set_ne hg]

/-- the result lists of the two pipelines -/
theorem generator_pipelines' (sd : List Rat → Rat) (cfg : Cfg) (stats : List Stat) (ind : Bool) (u : Option Nat) (c : Ctxs) :
    pipeRows (scaleCtxs sd) [cfg] c = (scaleCtxs sd cfg c).map Ctxs.rowList ∧
    pipeRows imputeF (stats.map (fun st => (st, ind, u))) c = .ok (envImpute stats ind u c).rowList := by
  refine ⟨by simp only [pipeRows, pipe_scale], by simp only [pipeRows, pipe_impute]; rfl⟩

end Coba.C11
