import CobaVerif.Model.C11
namespace Coba.C11
end Coba.C11
