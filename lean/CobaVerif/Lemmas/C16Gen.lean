/-
C16, phase 4: (1) translator obligations — constants re-extracted from coba/learners/corral.py on every run
(`Generated/C16CorralConsts.lean`) are the ones the model uses; (2) offered lists with EQUAL members: every
learner whose pmf does not depend on the identity of the actions (all but BanditUCB) still returns a drawn
POSITION together with that position's weight, which is > 0.
-/
import CobaVerif.Lemmas.C16
import CobaVerif.Generated.C16CorralConsts

namespace Coba.C16
open Coba.C05 (choicew next)

theorem corral_consts_match' :
    (∀ y : Rat, rounds1 y = (decide (1 - 5 / (10 : Rat) ^ (Coba.Generated.C16.omdPrecision + 1) < y) &&
        decide (y < 1 + 5 / (10 : Rat) ^ (Coba.Generated.C16.omdPrecision + 1)))) ∧
    (∀ (fl : Rat → Rat) (M : Nat) (eta gamma beta : Rat) (imp : Bool) (rng : Nat),
        (Corral.init fl M eta gamma beta imp rng).rhos = List.replicate M ((Coba.Generated.C16.rhoFactor : Rat) * (M : Rat))) ∧
    Coba.Generated.C16.modes = ["importance", "off-policy"] := by
  refine ⟨?_, ?_, by decide⟩
  · intro y
    have h1 : (1 : Rat) - 5 / (10 : Rat) ^ (Coba.Generated.C16.omdPrecision + 1) = 99995 / 100000 := by
      norm_num [Coba.Generated.C16.omdPrecision]
    have h2 : (1 : Rat) + 5 / (10 : Rat) ^ (Coba.Generated.C16.omdPrecision + 1) = 100005 / 100000 := by
      norm_num [Coba.Generated.C16.omdPrecision]
    rw [h1, h2]; rfl
  · intro fl M eta gamma beta imp rng
    simp [Corral.init, Coba.Generated.C16.rhoFactor]

/-- a kind whose pmf is a function of the NUMBER of offered actions only, or of per-key tables (everything but UCB) -/
def Kind.positional : Kind → Bool
  | .ucb _ => false
  | _ => true

theorem Kind.pmf_valid_dups (val : Act → Rat) (k : Kind) (actions : List Act) (hinv : k.Inv)
    (hne : actions ≠ []) (hpos : k.positional = true) (hfit : Fits k.arity actions.length) :
    ∃ pmf, k.pmf val actions = .ok pmf ∧ Valid pmf actions.length := by
  cases k with
  | eps st => exact ⟨_, rfl, Eps.pmf_valid st actions hinv.1 hinv.2 hne⟩
  | ucb st => simp [Kind.positional] at hpos
  | fixed p => exact ⟨p, rfl, hfit p.length rfl, hinv.1, hinv.2⟩
  | random =>
    refine ⟨_, rfl, replicate_valid _ ?_⟩
    intro h; exact hne (List.length_eq_zero_iff.mp h)

theorem Learner.predict_ok_dups (val : Act → Rat) (L : Learner) (actions : List Act) (hinv : L.kind.Inv)
    (hne : actions ≠ []) (hpos : L.kind.positional = true) (hfit : Fits L.kind.arity actions.length) :
    ∃ i p pmf, L.predict val actions = .ok ({ L with rng := next L.rng }, i, p, pmf) ∧
      L.kind.pmf val actions = .ok pmf ∧ Valid pmf actions.length ∧ i < actions.length ∧ pmf[i]? = some p ∧ 0 < p := by
  obtain ⟨pmf, hpmf, hv⟩ := Kind.pmf_valid_dups val L.kind actions hinv hne hpos hfit
  have hn : actions.length ≠ 0 := fun h => hne (List.length_eq_zero_iff.mp h)
  cases hk : L.kind with
  | random =>
    have hpos : 0 < actions.length := Nat.pos_of_ne_zero hn
    obtain ⟨i, hc, hi⟩ := Coba.C05.choice_uniform_mem' L.rng actions.length hpos
    rw [hk] at hpmf
    simp only [Kind.pmf, Except.ok.injEq] at hpmf
    subst hpmf
    refine ⟨i, 1 / (actions.length : Rat), _, ?_, rfl, hv, hi, ?_, ?_⟩
    · simp [Learner.predict, hk, liftRng, choicew, hc, hn]
    · simp [hi]
    · have : (0 : Rat) < (actions.length : Rat) := by exact_mod_cast hpos
      positivity
  | eps st =>
    obtain ⟨i, w, hc, hw, hwpos⟩ := Coba.C05.choicew_weight' L.rng actions.length pmf hv.1 hv.2.1 (valid_sum_pos pmf _ hv)
    rw [hk] at hpmf
    refine ⟨i, w, pmf, ?_, hpmf, hv, ?_, hw, hwpos⟩
    · simp [Learner.predict, hk, hpmf, liftRng, hc]
    · have := (List.getElem?_eq_some_iff.mp hw).1; rw [hv.1] at this; exact this
  | ucb st => rw [hk] at hpos; simp [Kind.positional] at hpos
  | fixed p =>
    obtain ⟨i, w, hc, hw, hwpos⟩ := Coba.C05.choicew_weight' L.rng actions.length pmf hv.1 hv.2.1 (valid_sum_pos pmf _ hv)
    rw [hk] at hpmf
    refine ⟨i, w, pmf, ?_, hpmf, hv, ?_, hw, hwpos⟩
    · simp [Learner.predict, hk, hpmf, liftRng, hc]
    · have := (List.getElem?_eq_some_iff.mp hw).1; rw [hv.1] at this; exact this

end Coba.C16
