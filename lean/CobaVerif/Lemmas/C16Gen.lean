/-
C16, phase 4: (1) translator obligations — constants re-extracted from coba/learners/corral.py on every run
(`Generated/C16CorralConsts.lean`) are the ones the model uses; (2) offered lists with EQUAL members: every
learner whose pmf does not depend on the identity of the actions (all but BanditUCB) still returns a drawn
POSITION together with that position's weight, which is > 0.
-/
import CobaVerif.Lemmas.C16
import CobaVerif.Generated.C16CorralConsts
import CobaVerif.Generated.C16Exprs

namespace Coba.C16
open Coba.C05 (choicew next)

theorem corral_consts_match' :
    (∀ y : Rat, rounds1 y = (decide (1 - 5 / (10 : Rat) ^ (Coba.Generated.C16.omdPrecision + 1) < y) &&
        decide (y < 1 + 5 / (10 : Rat) ^ (Coba.Generated.C16.omdPrecision + 1)))) ∧
    (∀ (fl : Rat → Rat) (M : Nat) (eta gamma beta : Rat) (imp : Bool) (rng : Nat),
        (Corral.init fl M eta gamma beta imp rng).rhos = List.replicate M ((Coba.Generated.C16.rhoFactor : Rat) * (M : Rat))) ∧
    Coba.Generated.C16.modes = ["importance", "off-policy"] := by
  refine ⟨?_, ?_, by decide⟩
  · intro y
    have h1 : (1 : Rat) - 5 / (10 : Rat) ^ (Coba.Generated.C16.omdPrecision + 1) = 99995 / 100000 := by
      norm_num [Coba.Generated.C16.omdPrecision]
    have h2 : (1 : Rat) + 5 / (10 : Rat) ^ (Coba.Generated.C16.omdPrecision + 1) = 100005 / 100000 := by
      norm_num [Coba.Generated.C16.omdPrecision]
    rw [h1, h2]; rfl
  · intro fl M eta gamma beta imp rng
    simp [Corral.init, Coba.Generated.C16.rhoFactor]

/-- a kind whose pmf is a function of the NUMBER of offered actions only, or of per-key tables (everything but UCB) -/
def Kind.positional : Kind → Bool
  | .ucb _ => false
  | _ => true

theorem Kind.pmf_valid_dups (val : Act → Rat) (k : Kind) (actions : List Act) (hinv : k.Inv)
    (hne : actions ≠ []) (hpos : k.positional = true) (hfit : Fits k.arity actions.length) :
    ∃ pmf, k.pmf val actions = .ok pmf ∧ Valid pmf actions.length := by
  cases k with
  | eps st => exact ⟨_, rfl, Eps.pmf_valid st actions hinv.1 hinv.2 hne⟩
  | ucb st => simp [Kind.positional] at hpos
  | fixed p => exact ⟨p, rfl, hfit p.length rfl, hinv.1, hinv.2⟩
  | random =>
    refine ⟨_, rfl, replicate_valid _ ?_⟩
    intro h; exact hne (List.length_eq_zero_iff.mp h)

theorem Learner.predict_ok_dups (val : Act → Rat) (L : Learner) (actions : List Act) (hinv : L.kind.Inv)
    (hne : actions ≠ []) (hpos : L.kind.positional = true) (hfit : Fits L.kind.arity actions.length) :
    ∃ i p pmf, L.predict val actions = .ok ({ L with rng := next L.rng }, i, p, pmf) ∧
      L.kind.pmf val actions = .ok pmf ∧ Valid pmf actions.length ∧ i < actions.length ∧ pmf[i]? = some p ∧ 0 < p := by
  obtain ⟨pmf, hpmf, hv⟩ := Kind.pmf_valid_dups val L.kind actions hinv hne hpos hfit
  have hn : actions.length ≠ 0 := fun h => hne (List.length_eq_zero_iff.mp h)
  cases hk : L.kind with
  | random =>
    have hpos : 0 < actions.length := Nat.pos_of_ne_zero hn
    obtain ⟨i, hc, hi⟩ := Coba.C05.choice_uniform_mem' L.rng actions.length hpos
    rw [hk] at hpmf
    simp only [Kind.pmf, Except.ok.injEq] at hpmf
    subst hpmf
    refine ⟨i, 1 / (actions.length : Rat), _, ?_, rfl, hv, hi, ?_, ?_⟩
    · simp [Learner.predict, hk, liftRng, choicew, hc, hn]
    · simp [hi]
    · have : (0 : Rat) < (actions.length : Rat) := by exact_mod_cast hpos
      positivity
  | eps st =>
    obtain ⟨i, w, hc, hw, hwpos⟩ := Coba.C05.choicew_weight' L.rng actions.length pmf hv.1 hv.2.1 (valid_sum_pos pmf _ hv)
    rw [hk] at hpmf
    refine ⟨i, w, pmf, ?_, hpmf, hv, ?_, hw, hwpos⟩
    · simp [Learner.predict, hk, hpmf, liftRng, hc]
    · have := (List.getElem?_eq_some_iff.mp hw).1; rw [hv.1] at this; exact this
  | ucb st => rw [hk] at hpos; simp [Kind.positional] at hpos
  | fixed p =>
    obtain ⟨i, w, hc, hw, hwpos⟩ := Coba.C05.choicew_weight' L.rng actions.length pmf hv.1 hv.2.1 (valid_sum_pos pmf _ hv)
    rw [hk] at hpmf
    refine ⟨i, w, pmf, ?_, hpmf, hv, ?_, hw, hwpos⟩
    · simp [Learner.predict, hk, hpmf, liftRng, hc]
    · have := (List.getElem?_eq_some_iff.mp hw).1; rw [hv.1] at this; exact this

/-! ### BanditUCB over a list with EQUAL members -/

/-- a weight vector `choicew` can draw from: right length, entries in [0,1], total ≥ 1 -/
def Drawable (pmf : List Rat) (n : Nat) : Prop :=
  pmf.length = n ∧ (∀ p ∈ pmf, 0 ≤ p ∧ p ≤ 1) ∧ 1 ≤ pmf.sum

theorem distinct_length_le (l : List Act) : (distinct l).length ≤ l.length := by
  induction l with
  | nil => simp [distinct]
  | cons a l ih =>
    by_cases h : a ∈ l
    · simp only [distinct, h, if_true, List.length_cons]; omega
    · simp only [distinct, h, if_false, List.length_cons]; omega

theorem distinct_ne_nil (l : List Act) (h : l ≠ []) : distinct l ≠ [] := by
  induction l with
  | nil => exact absurd rfl h
  | cons a l ih =>
    by_cases hm : a ∈ l
    · simp only [distinct, hm, if_true]
      exact ih (fun he => by rw [he] at hm; simp at hm)
    · simp [distinct, hm]

theorem Ucb.pmf_equal_members' (val : Act → Rat) (st : Ucb) (actions : List Act) (hinv : st.Inv) (hne : actions ≠ []) :
    ∃ pmf, st.pmf val actions = .ok pmf ∧ Drawable pmf actions.length ∧
      ((∀ a ∈ actions, dhas st.m a = true) → Valid pmf actions.length) := by
  unfold Ucb.pmf
  by_cases hnever : actions.filter (fun a => !dhas st.m a) ≠ []
  · rw [if_pos hnever]
    refine ⟨_, rfl, ?_, ?_⟩
    · set never := actions.filter (fun a => !dhas st.m a) with hnv
      have hk0 : 0 < (distinct never).length := List.length_pos_iff.mpr (distinct_ne_nil _ hnever)
      have hk : (0 : Rat) < ((distinct never).length : Rat) := by exact_mod_cast hk0
      have hk1 : (1 : Rat) ≤ ((distinct never).length : Rat) := by exact_mod_cast hk0
      have hle : ((distinct never).length : Rat) ≤ (never.length : Rat) := by exact_mod_cast distinct_length_le never
      refine ⟨by simp [uniformOn], ?_, ?_⟩
      · intro p hp
        simp only [uniformOn, List.mem_map] at hp
        obtain ⟨a, _, rfl⟩ := hp
        split
        · constructor
          · positivity
          · rw [div_le_one hk]; exact hk1
        · exact ⟨le_refl _, zero_le_one⟩
      · have hcongr : uniformOn never (distinct never).length actions
            = actions.map (fun a => if (!dhas st.m a) = true then 1 / ((distinct never).length : Rat) else 0) := by
          simp only [uniformOn]
          apply List.map_congr_left
          intro a ha
          simp [hnv, List.mem_filter, ha]
        rw [hcongr, sum_map_ite actions (fun a => (!dhas st.m a) = true)]
        have : (List.filter (fun x => decide ((!dhas st.m x) = true)) actions) = never := by
          rw [hnv]; congr 1; funext x; simp
        rw [this, mul_one_div, le_div_iff₀ hk, one_mul]
        exact hle
    · intro hall
      exfalso
      obtain ⟨a, l, hal⟩ := List.exists_cons_of_ne_nil hnever
      have : a ∈ actions.filter (fun a => !dhas st.m a) := by rw [hal]; simp
      simp only [List.mem_filter] at this
      have := hall a this.1
      simp_all
  · rw [if_neg hnever]
    have hall : ∀ a ∈ actions, dhas st.m a = true := by
      intro a ha
      by_contra hc
      apply hnever
      intro he
      have : a ∈ actions.filter (fun a => !dhas st.m a) := by
        simp only [List.mem_filter, ha, true_and]; simpa using hc
      rw [he] at this; simp at this
    obtain ⟨a0, rest, rfl⟩ := List.exists_cons_of_ne_nil hne
    have h1 : (a0 :: rest).all (fun a => dhas st.s a) = true := by
      simp only [List.all_eq_true]
      intro a ha
      obtain ⟨n, hn, _⟩ := hinv.1 a (hall a ha)
      simp [dhas, hn]
    have h2 : st.t ≠ 0 := hinv.2 ⟨a0, hall a0 (by simp)⟩
    have h3 : (a0 :: rest).all (fun a => st.sPos a) = true := by
      simp only [List.all_eq_true]
      intro a ha
      obtain ⟨n, hn, hn0⟩ := hinv.1 a (hall a ha)
      simp [Ucb.sPos, hn, hn0]
    simp only [h1, h2, h3, Bool.not_true, Bool.false_eq_true, if_false]
    have hbest : (a0 :: rest).filter (fun a => decide (val a = maxOf (val a0) (rest.map val))) ≠ [] := by
      have hm : maxOf (val a0) (rest.map val) = val a0 ∨ maxOf (val a0) (rest.map val) ∈ rest.map val := maxOf_mem _ _
      rcases hm with h | h
      · intro he
        have : a0 ∈ (a0 :: rest).filter (fun a => decide (val a = maxOf (val a0) (rest.map val))) := by
          simp [List.mem_filter, h]
        rw [he] at this; simp at this
      · obtain ⟨b, hb, hbv⟩ := List.mem_map.mp h
        intro he
        have : b ∈ (a0 :: rest).filter (fun a => decide (val a = maxOf (val a0) (rest.map val))) := by
          simp [List.mem_filter, hb, hbv]
        rw [he] at this; simp at this
    have hv := uniformOn_filter_valid (a0 :: rest) _ hbest
    refine ⟨_, rfl, ⟨hv.1, ?_, by rw [hv.2.2]⟩, fun _ => hv⟩
    intro p hp
    refine ⟨hv.2.1 p hp, ?_⟩
    have hs := hv.2.2
    by_contra hgt
    push_neg at hgt
    have : p ≤ (uniformOn ((a0 :: rest).filter (fun a => decide (val a = maxOf (val a0) (rest.map val))))
        ((a0 :: rest).filter (fun a => decide (val a = maxOf (val a0) (rest.map val)))).length (a0 :: rest)).sum :=
      List.single_le_sum (fun x hx => hv.2.1 x hx) p hp
    linarith

/-- the set-valued branch really counts an action once: never-observed `[a, a, b]` gets `[1/2, 1/2, 1/2]` (sum 3/2) -/
theorem ucb_equal_members_witness (val : Act → Rat) : Ucb.pmf val {} [0, 0, 1] = .ok [1/2, 1/2, 1/2] := by
  simp [Ucb.pmf, dhas, dget, distinct, uniformOn]

/-! ### `accepts` at the depth the property speaks about (Corral over plain learners) -/

theorem allAccept_leaf (fl : Rat → Rat) : ∀ (ss : List (leafBase fl).σ) (fs : List (Act × Rat × Rat)), allAccept (leafLaws fl) ss fs := by
  intro ss
  induction ss with
  | nil => intro fs; simp [allAccept]
  | cons s ss ih =>
    intro fs
    cases fs with
    | nil => simp [allAccept]
    | cons f fs => obtain ⟨a, r, p⟩ := f; exact ⟨trivial, ih fs⟩

theorem corral_over_plain_accepts_iff' (fl : Rat → Rat) (s : (corralOver fl (leafBase fl)).σ) (a : Act) (r p : Rat) :
    (corralLaws fl (leafLaws fl)).accepts s a r p ↔ (0 ≤ misguide fl s.mis r ∧ misguide fl s.mis r ≤ 1 ∧ p ≠ 0) := by
  constructor
  · rintro ⟨h0, h1, hp, _⟩; exact ⟨h0, h1, hp⟩
  · rintro ⟨h0, h1, hp⟩; exact ⟨h0, h1, hp, allAccept_leaf fl _ _⟩

/-! ### Phase 5: `accepts` at every depth is the decidable recursive predicate `acceptsB` -/

theorem allAccept_iff_B {B : Base} (h : B.Laws) (acc : B.σ → Act → Rat → Rat → Bool)
    (hacc : ∀ s a r p, h.accepts s a r p ↔ acc s a r p = true) :
    ∀ (ss : List B.σ) (fs : List (Act × Rat × Rat)), allAccept h ss fs ↔ allAcceptB acc ss fs = true := by
  intro ss
  induction ss with
  | nil => intro fs; simp [allAccept, allAcceptB]
  | cons s ss ih =>
    intro fs
    cases fs with
    | nil => simp [allAccept, allAcceptB]
    | cons f fs =>
      obtain ⟨a, r, p⟩ := f
      simp only [allAccept, allAcceptB, Bool.and_eq_true]
      rw [hacc s a r p, ih fs]

theorem accepts_iff_acceptsB' (fl : Rat → Rat) : ∀ (n : Nat) (s : (tower fl n).σ) (a : Act) (r p : Rat),
    (towerLaws fl n).accepts s a r p ↔ acceptsB fl n s a r p = true := by
  intro n
  induction n with
  | zero => intro s a r p; simp [towerLaws, leafLaws, acceptsB]
  | succ n ih =>
    intro s a r p
    cases s with
    | inl s => simp [towerLaws, sumLaws, leafLaws, acceptsB]
    | inr s =>
      have key := allAccept_iff_B (towerLaws fl n) (acceptsB fl n) ih s.bases
        (corralFeedback s.c.importance s.lastActs s.lastProbs a (misguide fl s.mis r) p)
      simp only [towerLaws, sumLaws, corralLaws, acceptsB, Bool.and_eq_true, decide_eq_true_eq, Bool.not_eq_true', decide_eq_false_iff_not]
      rw [key]
      tauto

/-- off-policy feedback passes (action, reward, probability) through to every base learner -/
theorem allAccept_const {B : Base} (h : B.Laws) (a : Act) (r p : Rat) :
    ∀ (ss : List B.σ) (L : List Act), L.length = ss.length →
      (allAccept h ss (L.map (fun _ => (a, r, p))) ↔ ∀ b ∈ ss, h.accepts b a r p) := by
  intro ss
  induction ss with
  | nil => intro L _; simp [allAccept]
  | cons s ss ih =>
    intro L hL
    cases L with
    | nil => simp at hL
    | cons x xs =>
      simp only [List.map_cons, allAccept, List.mem_cons, forall_eq_or_imp]
      rw [ih xs (by simpa using hL)]

theorem offpolicy_accepts_iff' (fl : Rat → Rat) {B : Base} (h : B.Laws) (s : (corralOver fl B).σ) (a : Act) (r p : Rat)
    (hoff : s.c.importance = false) (hlen : s.lastActs.length = s.bases.length) :
    (corralLaws fl h).accepts s a r p ↔
      (0 ≤ misguide fl s.mis r ∧ misguide fl s.mis r ≤ 1 ∧ p ≠ 0 ∧ ∀ b ∈ s.bases, h.accepts b a (misguide fl s.mis r) p) := by
  simp only [corralLaws, corralFeedback, hoff, Bool.false_eq_true, ↓reduceIte]
  rw [allAccept_const h a (misguide fl s.mis r) p s.bases s.lastActs hlen]

/-- a tower in which every Corral runs off-policy, carries no Misguided wrapper and has predicted (holds one base choice per base learner) -/
def offPolicyPlain (fl : Rat → Rat) : (n : Nat) → (tower fl n).σ → Prop
  | 0 => fun _ => True
  | n + 1 => fun (s : Leaf ⊕ CNode (tower fl n).σ) =>
    match s with
    | .inl _ => True
    | .inr s => s.c.importance = false ∧ s.mis = [] ∧ s.lastActs.length = s.bases.length ∧ ∀ b ∈ s.bases, offPolicyPlain fl n b

theorem offpolicy_tower_accepts' (fl : Rat → Rat) : ∀ (n : Nat) (s : (tower fl n).σ) (a : Act) (r p : Rat),
    offPolicyPlain fl n s → 0 ≤ r → r ≤ 1 → p ≠ 0 → (towerLaws fl n).accepts s a r p := by
  intro n
  induction n with
  | zero => intro s a r p _ _ _ _; simp [towerLaws, leafLaws]
  | succ n ih =>
    intro s a r p hs h0 h1 hp
    cases s with
    | inl s => simp [towerLaws, sumLaws, leafLaws]
    | inr s =>
      obtain ⟨hoff, hmis, hlen, hb⟩ := hs
      have hm : misguide fl s.mis r = r := by rw [hmis]; rfl
      show (corralLaws fl (towerLaws fl n)).accepts s a r p
      rw [offpolicy_accepts_iff' fl (towerLaws fl n) s a r p hoff hlen, hm]
      exact ⟨h0, h1, hp, fun b hbm => ih b a r p (hb b hbm) h0 h1 hp⟩

/-- witness compositions for the `example` beside `accepts_iff_acceptsB`: a Corral (importance / off-policy) over one importance Corral -/
def accCorral (imp : Bool) (ps : List Rat) : Corral :=
  { gamma := 0, beta := 1, importance := imp, ps := ps, pbars := ps, etas := ps, rhos := ps, rng := 0 }
def accInner : (tower (fun x => x) 1).σ := Sum.inr { c := accCorral true [], bases := [] }
def accTop (imp : Bool) : (tower (fun x => x) 2).σ :=
  Sum.inr { c := accCorral imp [1], lastActs := [0], lastProbs := [1], bases := [accInner] }

/-! ### Phase 5: the update expressions of the source, translated with `ast`, evaluate (in floats) to what the model computes -/

open Coba.Generated.C16 in
theorem update_exprs_match' (fl : Rat → Rat) :
    (∀ (gamma p : Rat) (M : Nat), Ex.evalF fl [gamma, p, (M : Rat)] pbarExpr = pbarF fl gamma M p) ∧
    (∀ (beta pb e rh : Rat) (pbs es rhs : List Rat), etaRhoF fl beta (pb :: pbs) (e :: es) (rh :: rhs) =
        if rh < Ex.evalF fl [pb] rhoThrExpr
        then (fl (e * beta) :: (etaRhoF fl beta pbs es rhs).1, Ex.evalF fl [pb] rhoNewExpr :: (etaRhoF fl beta pbs es rhs).2)
        else (e :: (etaRhoF fl beta pbs es rhs).1, rh :: (etaRhoF fl beta pbs es rhs).2)) ∧
    (∀ (st : Eps) (a : Act) (r : Rat), (Eps.learn fl st a r).Q =
        dset st.Q a (Ex.evalF fl [Ex.evalF fl [(st.n a : Rat)] epsAlphaExpr, st.q a, r] epsQExpr)) ∧
    (∀ (st : Ucb) (a : Act) (r mv : Rat) (sv : Nat), dget st.m a = some mv → dget st.s a = some sv → sv ≠ 0 →
        Ucb.learn fl st a r =
          .ok { t := st.t + 1, m := dset st.m a (Ex.evalF fl [(sv : Rat), mv, r] ucbMeanExpr), s := dset st.s a (sv + 1) }) := by
  refine ⟨?_, ?_, ?_, ?_⟩
  · intro gamma p M
    simp [Ex.evalF, pbarExpr, pbarF]
  · intro beta pb e rh pbs es rhs
    simp only [etaRhoF, Ex.evalF, rhoThrExpr, rhoNewExpr, List.getD_cons_zero, Nat.cast_one, Nat.cast_ofNat]
  · intro st a r
    simp [Eps.learn, Ex.evalF, epsAlphaExpr, epsQExpr]
  · intro st a r mv sv hm hs hsv
    simp [Ucb.learn, hm, hs, hsv, Ex.evalF, ucbMeanExpr]

/-! ### Phase 6: the converse — feedback the predicate REJECTS makes `learn` raise (AssertionError / ZeroDivisionError), so under the
invariants `learn` succeeds exactly for accepted feedback -/

/-- what Python raises for rejected feedback: the inner Corral's `assert`, or `/ probability` -/
def RejectErr (e : PErr) : Prop := e = .assertion ∨ e = .zeroDivision

theorem learnAll_err_kind {B : Base} (h : B.Laws) (acc : B.σ → Act → Rat → Rat → Bool)
    (hacc : ∀ s a r p, h.accepts s a r p ↔ acc s a r p = true)
    (hrej : ∀ s a r p, h.inv s → h.ready s → acc s a r p = false → ∃ e, B.learn s a r p = .error e ∧ RejectErr e) :
    ∀ (ss : List B.σ) (fs : List (Act × Rat × Rat)), (∀ s ∈ ss, h.inv s) → (∀ s ∈ ss, h.ready s) →
      allAcceptB acc ss fs = false → ∃ e, learnAll B ss fs = .error e ∧ RejectErr e := by
  intro ss
  induction ss with
  | nil => intro fs _ _ hf; simp [allAcceptB] at hf
  | cons s ss ih =>
    intro fs hinv hready hf
    cases fs with
    | nil => simp [allAcceptB] at hf
    | cons f fs =>
      obtain ⟨a, r, p⟩ := f
      simp only [allAcceptB, Bool.and_eq_false_iff] at hf
      cases hb : acc s a r p with
      | false =>
        obtain ⟨e, he, hk⟩ := hrej s a r p (hinv s (by simp)) (hready s (by simp)) hb
        exact ⟨e, by simp [learnAll, he], hk⟩
      | true =>
        obtain ⟨s', hl, _⟩ := h.learn_ok s a r p (hinv s (by simp)) (hready s (by simp)) ((hacc s a r p).mpr hb)
        rcases hf with hf | hf
        · rw [hb] at hf; cases hf
        · obtain ⟨e, he, hk⟩ := ih fs (fun t ht => hinv t (by simp [ht])) (fun t ht => hready t (by simp [ht])) hf
          exact ⟨e, by simp [learnAll, hl, he], hk⟩

theorem rejected_learn_raises_kind' (fl : Rat → Rat) : ∀ (n : Nat) (s : (tower fl n).σ) (a : Act) (r p : Rat),
    (towerLaws fl n).inv s → (towerLaws fl n).ready s →
    acceptsB fl n s a r p = false → ∃ e, (tower fl n).learn s a r p = .error e ∧ RejectErr e := by
  intro n
  induction n with
  | zero => intro s a r p _ _ h; simp [acceptsB] at h
  | succ n ih =>
    intro s a r p hinv hready h
    cases s with
    | inl s => simp [acceptsB] at h
    | inr s =>
      simp only [acceptsB, Bool.and_eq_false_iff, decide_eq_false_iff_not, Bool.not_eq_false', decide_eq_true_eq] at h
      obtain ⟨_, _, hb⟩ : (corralLaws fl (towerLaws fl n)).inv s := hinv
      obtain ⟨_, hrb⟩ : (corralLaws fl (towerLaws fl n)).ready s := hready
      have hc : ∃ e, (corralOver fl (tower fl n)).learn s a r p = .error e ∧ RejectErr e := by
        by_cases h0 : 0 ≤ misguide fl s.mis r
        · by_cases h1 : misguide fl s.mis r ≤ 1
          · by_cases hp : p = 0
            · exact ⟨.zeroDivision, by simp [corralOver, h0, h1, hp], Or.inr rfl⟩
            · have hall : allAcceptB (acceptsB fl n) s.bases (corralFeedback s.c.importance s.lastActs s.lastProbs a (misguide fl s.mis r) p) = false := by
                rcases h with ((h | h) | h) | h
                · exact absurd h0 h
                · exact absurd h1 h
                · exact absurd h hp
                · exact h
              obtain ⟨e, he, hk⟩ := learnAll_err_kind (towerLaws fl n) (acceptsB fl n) (accepts_iff_acceptsB' fl n) ih s.bases _ hb hrb hall
              exact ⟨e, by simp [corralOver, h0, h1, hp, he], hk⟩
          · exact ⟨.assertion, by simp [corralOver, h0, h1], Or.inl rfl⟩
        · exact ⟨.assertion, by simp [corralOver, h0], Or.inl rfl⟩
      obtain ⟨e, he, hk⟩ := hc
      refine ⟨e, ?_, hk⟩
      show (sumBase (leafBase fl) (corralOver fl (tower fl n))).learn (Sum.inr s) a r p = .error e
      simp [sumBase, he]

/-- under the invariants `learn` succeeds exactly for accepted feedback -/
theorem tower_learn_ok_iff' (fl : Rat → Rat) (n : Nat) (s : (tower fl n).σ) (a : Act) (r p : Rat)
    (hinv : (towerLaws fl n).inv s) (hready : (towerLaws fl n).ready s) :
    (∃ s', (tower fl n).learn s a r p = .ok s') ↔ acceptsB fl n s a r p = true := by
  constructor
  · rintro ⟨s', hs'⟩
    cases hb : acceptsB fl n s a r p with
    | true => rfl
    | false =>
      obtain ⟨e, he, _⟩ := rejected_learn_raises_kind' fl n s a r p hinv hready hb
      rw [hs'] at he; cases he
  · intro h
    obtain ⟨s', hs', _⟩ := (towerLaws fl n).learn_ok s a r p hinv hready ((accepts_iff_acceptsB' fl n s a r p).mpr h)
    exact ⟨s', hs'⟩

/-- witness for the non-vacuity `example` beside `rejected_feedback_raises`: an importance Corral over an importance Corral over a RandomLearner,
all having predicted; reward 1 at probability 1/2 reaches the inner Corral as 2 -/
def rejLeaf : Leaf := { L := { kind := .random, rng := 0 }, val := fun _ _ => 0 }
def rejInner : (tower (fun x => x) 1).σ := Sum.inr { c := accCorral true [1], lastActs := [0], lastProbs := [1], bases := [rejLeaf] }
def rejTop : (tower (fun x => x) 2).σ := Sum.inr { c := accCorral true [1], lastActs := [0], lastProbs := [1], bases := [rejInner] }

theorem accCorral_inv : (accCorral true [1]).Inv := by
  constructor <;> simp [accCorral]

theorem rejTop_ok : (towerLaws (fun x => x) 2).inv rejTop ∧ (towerLaws (fun x => x) 2).ready rejTop ∧
    acceptsB (fun x => x) 2 rejTop 0 1 (1 / 2) = false := by
  refine ⟨?_, ?_, by decide +kernel⟩
  · show (corralLaws (fun x => x) (towerLaws (fun x => x) 1)).inv { c := accCorral true [1], lastActs := [0], lastProbs := [1], bases := [rejInner] }
    refine ⟨accCorral_inv, rfl, ?_⟩
    intro b hb
    have : b = rejInner := by simpa [rejTop] using hb
    subst this
    show (corralLaws (fun x => x) (towerLaws (fun x => x) 0)).inv { c := accCorral true [1], lastActs := [0], lastProbs := [1], bases := [rejLeaf] }
    refine ⟨accCorral_inv, rfl, ?_⟩
    intro b hb
    have : b = rejLeaf := List.mem_singleton.mp hb
    subst this
    show rejLeaf.L.kind.Inv
    simp [rejLeaf, Kind.Inv]
  · show (corralLaws (fun x => x) (towerLaws (fun x => x) 1)).ready { c := accCorral true [1], lastActs := [0], lastProbs := [1], bases := [rejInner] }
    refine ⟨rfl, ?_⟩
    intro b hb
    have : b = rejInner := by simpa [rejTop] using hb
    subst this
    show (corralLaws (fun x => x) (towerLaws (fun x => x) 0)).ready { c := accCorral true [1], lastActs := [0], lastProbs := [1], bases := [rejLeaf] }
    refine ⟨rfl, ?_⟩
    intro b hb
    trivial
/-! ### Phase 6: a string action is never merged with the action whose text it is -/

/-- a string action shares a table entry with exactly the identical string: never with a number, a dense or a sparse action whose text it is -/
theorem str_key_same_iff' (s : String) (x : PyAct) :
    Key.same (makeHashable (.scalar (.str s))) (makeHashable x) = true ↔ x = .scalar (.str s) := by
  cases x with
  | scalar c =>
    cases c with
    | num q => simp [makeHashable, Key.same]
    | str t => simp [makeHashable, Key.same]; exact eq_comm
  | dense f xs => simp [makeHashable, Key.same]
  | sparse f kv => simp [makeHashable, Key.same]

theorem str_py_eq_iff' (s : String) (x : PyAct) :
    pyEq (.scalar (.str s)) x = true ↔ x = .scalar (.str s) := by
  cases x with
  | scalar c =>
    cases c with
    | num q => simp [pyEq]
    | str t => simp [pyEq]; exact eq_comm
  | dense f xs => simp [pyEq]
  | sparse f kv => simp [pyEq]
end Coba.C16
