/-
Phase-2 lemmas for C15: kwargs as finite maps, whole call histories, score, PMF draws end to end.
-/
import CobaVerif.Lemmas.C15

namespace Coba.C15
open PyVal

/-! ### kwargs are finite maps -/

theorem lookupKey_map (k : String) (ks : List String) (f : String → PyVal) :
    lookupKey k ks (ks.map f) = if k ∈ ks then some (f k) else Option.none := by
  induction ks with
  | nil => simp [lookupKey]
  | cons k' ks ih =>
    by_cases h : k = k'
    · subst h; simp [lookupKey]
    · simp [lookupKey, h, ih]

theorem lookupKey_none (k : String) (ks : List String) (vs : List PyVal) (h : k ∉ ks) : lookupKey k ks vs = Option.none := by
  induction ks generalizing vs with
  | nil => cases vs <;> simp [lookupKey]
  | cons k' ks ih =>
    cases vs with
    | nil => simp [lookupKey]
    | cons v vs =>
      have h1 : k ≠ k' := fun e => h (by simp [e])
      have h2 : k ∉ ks := fun e => h (by simp [e])
      simp [lookupKey, h1, ih vs h2]

theorem kwargs_row_map' (sp : Spec) (R : Rows) (hk : sp.kw = true) (hs : sameKeys R = true) (j : Nat) (r : Answer × List PyVal)
    (hj : R[j]? = some r) :
    kwEquiv (wantKw sp R).1 ((wantKw sp R).2.map (fun c => c.getD j .none)) r.1.kwKeys r.1.kwVals := by
  cases R with
  | nil => simp at hj
  | cons r0 R' =>
    obtain ⟨a0, as0⟩ := r0
    simp only [sameKeys, List.all_eq_true, Bool.and_eq_true, beq_iff_eq, List.contains_iff_mem] at hs
    have hr : r ∈ (a0, as0) :: R' := List.mem_of_getElem? hj
    obtain ⟨⟨hlen, hsub⟩, hsup⟩ := hs r hr
    intro k
    simp only [wantKw, hk, ↓reduceIte, List.map_map]
    have hcol : ∀ k', ((fun c : List PyVal => c.getD j .none) ∘ fun k => ((a0, as0) :: R').map (fun r => (lookupKey k r.1.kwKeys r.1.kwVals).getD .none)) k'
        = (lookupKey k' r.1.kwKeys r.1.kwVals).getD .none := by
      intro k'
      simp only [Function.comp, List.getD_eq_getElem?_getD, List.getElem?_map, hj, Option.map_some, Option.getD_some]
    rw [show ((fun c : List PyVal => c.getD j .none) ∘ fun k => ((a0, as0) :: R').map (fun r => (lookupKey k r.1.kwKeys r.1.kwVals).getD .none))
          = fun k' => (lookupKey k' r.1.kwKeys r.1.kwVals).getD .none from funext hcol]
    rw [lookupKey_map]
    by_cases hin : k ∈ a0.kwKeys
    · obtain ⟨v, hv⟩ := lookupKey_isSome k r.1.kwKeys r.1.kwVals hlen (hsub k hin)
      simp [hin, hv]
    · have : k ∉ r.1.kwKeys := fun h => hin (hsup k h)
      simp [hin, lookupKey_none k _ _ this]



/-! ### learn on sequence-valued kwargs columns -/

theorem getIdx_of_items (v : PyVal) (c : List PyVal) (i : Nat) (h : v.items = some c) (hi : i < c.length) :
    getIdx v i = .ok (c.getD i .none) := by
  cases v <;> simp [PyVal.items] at h <;> subst h <;>
    simp [getIdx, List.getElem?_eq_getElem hi, List.getD_eq_getElem?_getD]

theorem mapE_getIdx_cols (vs : List PyVal) (cols : List (List PyVal)) (i : Nat) (h : allItems vs = some cols)
    (hi : ∀ c ∈ cols, i < c.length) : mapE (fun v => getIdx v i) vs = .ok (cols.map (fun c => c.getD i .none)) := by
  induction vs generalizing cols with
  | nil => simp [allItems] at h; subst h; simp [mapE, pure, Except.pure]
  | cons v vs ih =>
    cases hv : v.items with
    | none => simp [allItems, hv] at h
    | some c =>
      cases hr : allItems vs with
      | none => simp [allItems, hv, hr] at h
      | some cs =>
        simp [allItems, hv, hr] at h
        subst h
        have h1 := getIdx_of_items v c i hv (hi c (by simp))
        have h2 := ih cs hr (fun c' hc' => hi c' (by simp [hc']))
        simp [mapE, h1, h2, bind, Except.bind, pure, Except.pure]

theorem learnRows_cols (ks : List String) (vs : List PyVal) (cols : List (List PyVal)) (hv : allItems vs = some cols) :
    ∀ (i : Nat) (cs A R P : List PyVal), (∀ c ∈ cols, i + cs.length ≤ c.length) → A.length = cs.length → R.length = cs.length →
      P.length = cs.length →
      ∃ calls, learnRows i cs A R P ks vs = .ok calls ∧ calls.length = cs.length ∧
        ∀ (j : Nat) (call : LearnCall), calls[j]? = some call →
          call.kwKeys = ks ∧ call.kwVals = cols.map (fun c => c.getD (i + j) .none) ∧
          cs[j]? = some call.ctx ∧ A[j]? = some call.action ∧ R[j]? = some call.reward ∧ P[j]? = some call.prob := by
  intro i cs
  induction cs generalizing i with
  | nil =>
    intro A R P _ hA hR hP
    refine ⟨[], ?_, rfl, by intro j c h; simp at h⟩
    cases A <;> cases R <;> cases P <;> simp_all [learnRows, pure, Except.pure]
  | cons c cs ih =>
    intro A R P hc hA hR hP
    obtain ⟨a, A', rfl⟩ : ∃ a A', A = a :: A' := by cases A <;> simp_all
    obtain ⟨r, R', rfl⟩ : ∃ a A', R = a :: A' := by cases R <;> simp_all
    obtain ⟨p, P', rfl⟩ : ∃ a A', P = a :: A' := by cases P <;> simp_all
    have hkv := mapE_getIdx_cols vs cols i hv (by intro col hcol; have := hc col hcol; simp at this; omega)
    obtain ⟨calls, h1, h2, h3⟩ := ih (i + 1) A' R' P' (by intro col hcol; have := hc col hcol; simp at this ⊢; omega)
      (by simpa using hA) (by simpa using hR) (by simpa using hP)
    refine ⟨⟨c, a, r, p, ks, cols.map (fun c => c.getD i .none)⟩ :: calls, ?_, by simp [h2], ?_⟩
    · simp [learnRows, hkv, h1, bind, Except.bind, pure, Except.pure]
    · intro j call hj
      cases j with
      | zero => simp at hj; subst hj; simp
      | succ j =>
        simp at hj
        obtain ⟨g1, g2, g3, g4, g5, g6⟩ := h3 j call hj
        refine ⟨g1, ?_, by simpa using g3, by simpa using g4, by simpa using g5, by simpa using g6⟩
        rw [g2]; congr 1; funext col; congr 1; omega




theorem iter_of_items (v : PyVal) (l : List PyVal) (h : v.items = some l) : iter v = .ok l := by
  cases v <;> simp [PyVal.items] at h <;> subst h <;> rfl

theorem view_inv (r : Result) (v : BatchView) (h : r.view = some v) :
    r.a.items = some v.A ∧ r.p.items = some v.P ∧ ∃ ref vs, r.kw = .dict ref v.keys vs ∧ allItems vs = some v.cols := by
  unfold Result.view at h
  cases ha : r.a.items with
  | none => simp [ha] at h
  | some A =>
    cases hp : r.p.items with
    | none => simp [ha, hp] at h
    | some P =>
      cases hk : r.kw <;> simp [ha, hp, hk] at h
      rename_i ref ks vs
      cases hc : allItems vs with
      | none => simp [hc] at h
      | some cols =>
        simp [hc] at h
        subst h
        exact ⟨rfl, rfl, ref, vs, rfl, hc⟩

theorem choicewRows_length (s : Nat) (rows : List (List PyVal)) (ps : List PyVal) (s' : Nat) (A P : List PyVal)
    (h : choicewRows s rows ps = .ok (s', A, P)) (hl : rows.length = ps.length) :
    A.length = rows.length ∧ P.length = rows.length := by
  induction rows generalizing s s' ps A P with
  | nil => cases ps <;> simp [choicewRows, pure, Except.pure] at h <;> obtain ⟨_, rfl, rfl⟩ := h <;> simp
  | cons r rows ih =>
    cases ps with
    | nil => simp at hl
    | cons p ps =>
      simp only [choicewRows, bind, Except.bind] at h
      cases h1 : choicew s r p with
      | error e => simp [h1] at h
      | ok t =>
        obtain ⟨s1, a, w⟩ := t
        simp only [h1] at h
        cases h2 : choicewRows s1 rows ps with
        | error e => simp [h2] at h
        | ok t2 =>
          obtain ⟨s2, A2, P2⟩ := t2
          simp only [h2, pure, Except.pure, Except.ok.injEq, Prod.mk.injEq] at h
          obtain ⟨_, rfl, rfl⟩ := h
          obtain ⟨i1, i2⟩ := ih (s := s1) (s' := s2) (ps := ps) (A := A2) (P := P2) h2 (by simpa using hl)
          simp [i1, i2]

/-- the view `wantBatch` demands has one action, one probability and one entry per kwargs column for every row -/
theorem wantBatch_lengths (sp : Spec) (s : Nat) (R : Rows) (v : BatchView) (s' : Nat) (h : wantBatch sp s R = .ok (v, s')) :
    v.A.length = R.length ∧ v.P.length = R.length ∧ ∀ c ∈ v.cols, c.length = R.length := by
  have hcols : ∀ c ∈ (wantKw sp R).2, c.length = R.length := by
    intro c hc
    unfold wantKw at hc
    split at hc
    · cases R with
      | nil => simp at hc
      | cons r R' =>
        simp only [List.mem_map] at hc
        obtain ⟨k, _, rfl⟩ := hc
        simp
    · simp at hc
  unfold wantBatch at h
  cases hk : sp.fmt.kind <;> simp only [hk] at h
  · simp only [Except.ok.injEq, Prod.mk.injEq] at h; obtain ⟨rfl, _⟩ := h; exact ⟨by simp, by simp, hcols⟩
  · simp only [Except.ok.injEq, Prod.mk.injEq] at h; obtain ⟨rfl, _⟩ := h; exact ⟨by simp, by simp, hcols⟩
  · cases hc : choicewRows s (R.map (·.2)) (R.map (fun r => mkPmf sp.pmfTup r.1.pmf)) with
    | error e => simp [hc] at h
    | ok t =>
      obtain ⟨s1, A, P⟩ := t
      simp only [hc, Except.ok.injEq, Prod.mk.injEq] at h
      obtain ⟨rfl, _⟩ := h
      obtain ⟨i1, i2⟩ := choicewRows_length _ _ _ _ _ _ hc (by simp)
      exact ⟨by simpa using i1, by simpa using i2, hcols⟩

/-- `learn` after a batched predict whose result has the demanded view -/
theorem learn_meets (batchable : Bool) (cs : List PyVal) (rows : List (List PyVal)) (rw : PyVal) (r : Result) (v : BatchView)
    (Rw : List PyVal) (hv : r.view = some v) (hrw : rw.items = some Rw) (hR : Rw.length = cs.length) (hne : cs ≠ [])
    (hA : v.A.length = cs.length) (hP : v.P.length = cs.length) (hc : ∀ c ∈ v.cols, c.length = cs.length) :
    ∃ lc, learn batchable (.batch cs rows) r rw = .ok lc ∧ LearnMeets batchable cs rw r v lc := by
  obtain ⟨ha, hp, ref, vs, hk, hcols⟩ := view_inv r v hv
  cases batchable
  · have h1 := iter_of_items _ _ ha
    have h2 := iter_of_items _ _ hp
    have h3 := iter_of_items _ _ hrw
    obtain ⟨calls, g1, g2, g3⟩ := learnRows_cols v.keys vs v.cols hcols 0 cs v.A Rw v.P
      (by intro c hcm; rw [hc c hcm]; omega) hA hR hP
    have hne' : calls.isEmpty = false := by
      cases calls with
      | nil => simp at g2; exact absurd g2.symm (by simpa using hne)
      | cons _ _ => rfl
    refine ⟨calls, by simp [learn, hk, itemsE, h1, h2, h3, g1, hne', bind, Except.bind, pure, Except.pure], ?_⟩
    simp only [LearnMeets, Bool.false_eq_true, ↓reduceIte]
    refine ⟨g2, ?_⟩
    intro j call hj
    obtain ⟨k1, k2, k3, k4, k5, k6⟩ := g3 j call hj
    exact ⟨k3, k4, k6, ⟨Rw, hrw, k5⟩, k1, by simpa using k2⟩
  · refine ⟨[⟨.list .tmp cs, r.a, rw, r.p, v.keys, vs⟩], by simp [learn, hk, pure, Except.pure], ?_⟩
    simp only [LearnMeets, ↓reduceIte]
    exact ⟨ref, vs, hk, hcols, rfl⟩




/-- the part of the state the side conditions of a history depend on -/
def StEq (st st' : State) : Prop := st.prev = st'.prev ∧ st.safe = st'.safe ∧ st.layout.isSome = st'.layout.isSome

theorem prepare_congr (fx : Fixes) (st st' : State) (a : Arg) (h : StEq st st') :
    (prepare fx st a).2 = (prepare fx st' a).2 ∧ StEq (prepare fx st a).1 (prepare fx st' a).1 := by
  obtain ⟨h1, h2, h3⟩ := h
  unfold prepare StEq
  simp only [h1]
  cases hp : st'.prev with
  | none => simp [h3]
  | some p =>
    simp only
    by_cases hc : (!pyEq p.toPy (argActs a).toPy) = true
    · simp [hc, h3]
    · simp [hc, h1, h2, h3, hp]

theorem histOK_congr (fx : Fixes) (sp : Spec) (pol : Policy) (b : Bool) (h : List (Arg × PyVal)) :
    ∀ st st', StEq st st' → histOK fx sp pol b st h = histOK fx sp pol b st' h := by
  induction h with
  | nil => intro _ _ _; rfl
  | cons x h ih =>
    intro st st' heq
    obtain ⟨a, rw⟩ := x
    obtain ⟨e1, e2⟩ := prepare_congr fx st st' a heq
    have e3 : StEq { (prepare fx st a).1 with layout := some BLayout.not } { (prepare fx st' a).1 with layout := some BLayout.not } :=
      ⟨e2.1, e2.2.1, rfl⟩
    simp only [histOK, e1, ih _ _ e3, Unambiguous, e2.2.2]




theorem wantSingle_kw (sp : Spec) (s : Nat) (ans : Answer) (gs : List PyVal) (r : Result) (s' : Nat)
    (h : wantSingle sp s ans gs = .ok (r, s')) : r.kw = if sp.kw then kwDict ans else emptyKw := by
  unfold wantSingle at h
  cases hk : sp.fmt.kind <;> simp only [hk] at h
  · simp only [Except.ok.injEq, Prod.mk.injEq] at h; rw [← h.1]
  · simp only [Except.ok.injEq, Prod.mk.injEq] at h; rw [← h.1]
  · cases hc : choicew s gs (mkPmf sp.pmfTup ans.pmf) with
    | error e => simp [hc] at h
    | ok t => obtain ⟨s1, a, p⟩ := t; simp only [hc, Except.ok.injEq, Prod.mk.injEq] at h; rw [← h.1]

theorem withActs_single (c : PyVal) (as : List PyVal) (X : Acts) : ∃ gs, withActs (.single c as) X = .single c gs := by
  cases X <;> simp [withActs]

theorem withActs_batch (cs : List PyVal) (rows : List (List PyVal)) (X : Acts) : ∃ g, withActs (.batch cs rows) X = .batch cs g := by
  cases X <;> simp [withActs]

theorem prepare_shape (fx : Fixes) (st : State) (a : Arg) :
    (∀ c gs, (prepare fx st a).2 = .single c gs → ∃ as, a = .single c as) ∧
    (∀ cs grows, (prepare fx st a).2 = .batch cs grows → ∃ rows, a = .batch cs rows) := by
  cases a with
  | single c as =>
    have : ∃ gs, (prepare fx st (.single c as)).2 = .single c gs := by
      unfold prepare; simp only; exact withActs_single c as _
    obtain ⟨g, hg⟩ := this
    constructor
    · intro c' gs h; rw [hg] at h; cases h; exact ⟨as, rfl⟩
    · intro cs grows h; rw [hg] at h; cases h
  | batch cs rows =>
    have : ∃ g, (prepare fx st (.batch cs rows)).2 = .batch cs g := by
      unfold prepare; simp only; exact withActs_batch cs rows _
    obtain ⟨g, hg⟩ := this
    constructor
    · intro c' gs h; rw [hg] at h; cases h
    · intro cs' grows h; rw [hg] at h; cases h; exact ⟨rows, rfl⟩

theorem stEq_after (sp : Spec) (b : Bool) (st1 : State) (s : Nat) :
    StEq (stAfter sp b st1 s) { st1 with layout := some BLayout.not } := ⟨rfl, rfl, rfl⟩

/-- **history_roundtrip** (lemma form) -/
theorem history_roundtrip' (fx : Fixes) (sp : Spec) (pol : Policy) (batched batchable : Bool) (h : List (Arg × PyVal)) :
    ∀ st, Inv sp batched st → histOK fx sp pol batched st h = true →
      HistDelivers fx sp pol batchable st h (runHistory fx (scripted sp pol) batchable st h) := by
  induction h with
  | nil => intro st _ _; simp [HistDelivers, runHistory, pure, Except.pure]
  | cons x h ih =>
    intro st hinv hok
    obtain ⟨a, rw⟩ := x
    have hinv1 := inv_prepare' fx sp batched st a hinv
    obtain ⟨hsh1, hsh2⟩ := prepare_shape fx st a
    simp only [histOK, Bool.and_eq_true] at hok
    obtain ⟨hstep, hrest⟩ := hok
    simp only [HistDelivers, runHistory, predict_prepare' fx (scripted sp pol) st a, bind, Except.bind]
    cases hsarg : (prepare fx st a).2 with
    | single c gs =>
      obtain ⟨as, rfl⟩ := hsh1 c gs hsarg
      simp only [hsarg, Bool.and_eq_true, Bool.not_eq_true', Bool.or_eq_true] at hstep
      obtain ⟨hb, hfirst⟩ := hstep
      subst hb
      have hstepthm := format_roundtrip_single' fx sp pol (prepare fx st (.single c as)).1 c gs hinv1
        (by intro hl; rcases hfirst with h' | h'
            · rw [hl] at h'; simp at h'
            · exact h')
      simp only [hstepthm]
      cases hw : wantSingle sp (prepare fx st (.single c as)).1.rng (pol c gs) gs with
      | error e => simp [Except.map]
      | ok t =>
        obtain ⟨r, s'⟩ := t
        have hkw := wantSingle_kw sp _ _ _ _ _ hw
        have hinv2 := inv_stAfter' sp false (prepare fx st (.single c as)).1 s'
        have hok2 : histOK fx sp pol false (stAfter sp false (prepare fx st (.single c as)).1 s') h = true := by
          rw [histOK_congr fx sp pol false h _ _ (stEq_after sp false _ s')]; exact hrest
        have := ih _ hinv2 hok2
        refine ⟨_, this, ?_⟩
        cases hk : sp.kw <;> simp [Except.map, learn, hkw, hk, kwDict, emptyKw, pure, Except.pure]
    | batch cs grows =>
      obtain ⟨rows, rfl⟩ := hsh2 cs grows hsarg
      simp only [hsarg, Bool.and_eq_true, beq_iff_eq, Bool.not_eq_true'] at hstep
      obtain ⟨⟨⟨⟨hb, hlen⟩, hne⟩, hrw⟩, hU⟩ := hstep
      subst hb
      have hne' : grows ≠ [] := by intro h0; simp [h0] at hne
      have hstepthm := format_roundtrip_batch' fx sp pol (prepare fx st (.batch cs rows)).1 cs grows hinv1 hlen hne' hU
      cases hw : wantBatch sp (prepare fx st (.batch cs rows)).1.rng (rowsOf pol cs grows) with
      | error e =>
        simp only [Delivers, hw] at hstepthm
        simp only [hstepthm, hw]
      | ok t =>
        obtain ⟨v, s'⟩ := t
        simp only [Delivers, hw] at hstepthm
        simp only [hw]
        obtain ⟨r, hr, hv⟩ := hstepthm
        obtain ⟨Rw, hRw, hRl⟩ : ∃ Rw, rw.items = some Rw ∧ Rw.length = cs.length := by
          cases hi : rw.items with
          | none => simp [hi] at hrw
          | some Rw => exact ⟨Rw, rfl, by simpa [hi] using hrw⟩
        have hRlen : (rowsOf pol cs grows).length = cs.length := by
          rw [rowsOf, zipWithAns_length pol cs grows hlen, hlen]
        obtain ⟨l1, l2, l3⟩ := wantBatch_lengths sp _ _ v s' hw
        have hcsne : cs ≠ [] := by intro h0; rw [h0] at hlen; exact hne' (List.length_eq_zero_iff.mp hlen.symm)
        obtain ⟨lc, hlc, hmeets⟩ := learn_meets batchable cs rows rw r v Rw hv hRw hRl hcsne
          (by rw [l1, hRlen]) (by rw [l2, hRlen]) (by intro c hc; rw [l3 c hc, hRlen])
        have hinv2 := inv_stAfter' sp true (prepare fx st (.batch cs rows)).1 s'
        have hok2 : histOK fx sp pol true (stAfter sp true (prepare fx st (.batch cs rows)).1 s') h = true := by
          rw [histOK_congr fx sp pol true h _ _ (stEq_after sp true _ s')]; exact hrest
        have := ih _ hinv2 hok2
        refine ⟨r, lc, _, hv, hmeets, this, ?_⟩
        simp only [hr, hlc]
        cases runHistory fx (scripted sp pol) batchable (stAfter sp true (prepare fx st (.batch cs rows)).1 s') h <;>
          simp [Except.map, pure, Except.pure]




/-- `pmf_prob_reported` with the C05 draw exposed: the index is the one `CobaRandom.choicew` (C05 model) draws from the
rational weights of the PMF -/
theorem pmf_draw_c05' (s : Nat) (as pmf : List PyVal) (v : PyVal) (hv : v.items = some pmf) (hp : validPmf pmf as = true) :
    ∃ (qs : List Rat) (i : Nat) (a p : PyVal) (q : Rat), toRats pmf = some qs ∧
      Coba.C05.choicew s as.length (some qs) = .ok (Coba.C05.next s, i, q) ∧
      choicew s as v = .ok (Coba.C05.next s, a, p) ∧ as[i]? = some a ∧ pmf[i]? = some p ∧ p.num = some q ∧ 0 < q := by
  simp only [validPmf, Bool.and_eq_true, beq_iff_eq] at hp
  obtain ⟨⟨hlen, hsum⟩, hnn⟩ := hp
  have hnum : ∀ x ∈ pmf, ∃ q, x.num = some q := by
    intro x hx
    have := List.all_eq_true.mp hnn x hx
    cases hq : x.num with
    | none => simp [hq] at this
    | some q => exact ⟨q, rfl⟩
  obtain ⟨qs, h1, h2, h3, h4⟩ := toRats_of_valid pmf hnum
  have hs1 : 0 < qs.sum := by
    simp only [h2, decide_eq_true_eq] at hsum; linarith [hsum.2]
  have hnn' : ∀ w ∈ qs, 0 ≤ w := by
    intro w hw
    obtain ⟨i, hi, hiw⟩ := List.getElem_of_mem hw
    have hi' : i < pmf.length := by rw [← h3]; exact hi
    obtain ⟨q, hq1, hq2⟩ := h4 i pmf[i] (List.getElem?_eq_getElem hi')
    have : q = w := by
      rw [List.getElem?_eq_getElem hi] at hq2; simpa [hiw] using hq2.symm
    subst this
    have := List.all_eq_true.mp hnn pmf[i] (List.getElem_mem hi')
    simpa [hq1] using this
  have hpos : 0 < Coba.C05.sum qs := by rw [Coba.C05.sum_eq]; exact hs1
  obtain ⟨i, w, hc, hw, hwpos⟩ := Coba.C05.choicew_weight' s as.length qs (by rw [h3, hlen]) hnn' hpos
  have hi : i < qs.length := by
    by_contra hcon
    have : qs[i]? = Option.none := by simp at hcon; simp [hcon]
    rw [this] at hw; cases hw
  have hip : i < pmf.length := by rw [← h3]; exact hi
  have hia : i < as.length := by rw [← hlen]; exact hip
  obtain ⟨q, hq1, hq2⟩ := h4 i pmf[i] (List.getElem?_eq_getElem hip)
  have hqw : q = w := by rw [hw] at hq2; simpa using hq2.symm
  refine ⟨qs, i, as[i], pmf[i], q, h1, by rw [hqw]; exact hc, ?_, List.getElem?_eq_getElem hia, List.getElem?_eq_getElem hip, hq1,
    by rw [hqw]; exact hwpos⟩
  have hne : ¬ (pmf ≠ [] ∧ pmf.length ≠ as.length) := by intro h; exact h.2 hlen
  cases v <;> simp [PyVal.items] at hv <;> subst hv <;>
    simp [choicew, PyVal.items, hne, h1, hc, List.getElem?_eq_getElem hia, List.getElem?_eq_getElem hip]

theorem forall₂_getElem? {α β} {P : α → β → Prop} {xs : List α} {ys : List β} (h : List.Forall₂ P xs ys) (i : Nat) (x : α)
    (hx : xs[i]? = some x) : ∃ y, ys[i]? = some y ∧ P x y := by
  induction h generalizing i with
  | nil => simp at hx
  | cons hxy _ ih =>
    cases i with
    | zero => simp at hx; subst hx; exact ⟨_, by simp, hxy⟩
    | succ i => simp at hx; simpa using ih i hx

/-- **PMF draws end to end** (repaired code, fresh SafeLearner with `seed`, unbatched call, un-hinted or hinted PMF):
`predict` returns the member of the float-copied action list at the index C05's `choicew` draws from the PMF's rational
weights with the seed's first uniform; that member is the offered action at the same index or a float `==` to it; the
probability returned is the PMF's entry at that index, positive; one uniform is consumed. -/
theorem pmf_draw_end_to_end' (sp : Spec) (pol : Policy) (seed : Int) (c : PyVal) (as : List PyVal)
    (hk : sp.fmt.kind = .PM)
    (hfirst : firstRowOK Fixes.all sp (pol c (safeRow 0 as)) (safeRow 0 as) = true)
    (hvalid : validPmf (pol c (safeRow 0 as)).pmf (safeRow 0 as) = true) :
    ∃ (qs : List Rat) (i : Nat) (a' a p : PyVal) (q : Rat) (r : Result) (st' : State),
      predict Fixes.all (scripted sp pol) (initState seed) (.single c as) = .ok (r, st') ∧ r.a = a' ∧ r.p = p ∧
      toRats (pol c (safeRow 0 as)).pmf = some qs ∧
      Coba.C05.choicew (Coba.C05.normInt seed) as.length (some qs) = .ok (Coba.C05.next (Coba.C05.normInt seed), i, q) ∧
      (safeRow 0 as)[i]? = some a' ∧ as[i]? = some a ∧ (a' = a ∨ pyEq a' a = true) ∧
      (pol c (safeRow 0 as)).pmf[i]? = some p ∧ p.num = some q ∧ 0 < q ∧
      st'.rng = Coba.C05.next (Coba.C05.normInt seed) := by
  set gs := safeRow 0 as with hgs
  have hprev : (initState seed).prev = Option.none := rfl
  have hgiven := prepare_given' (initState seed) (.single c as) hprev
  simp only at hgiven
  obtain ⟨f1, f2, f3, f4, f5⟩ := prepare_frame' Fixes.all (initState seed) (.single c as)
  have hinv : Inv sp false (prepare Fixes.all (initState seed) (.single c as)).1 :=
    inv_prepare' Fixes.all sp false _ _ (Or.inl ⟨rfl, rfl⟩)
  have hstep := format_roundtrip_single' Fixes.all sp pol (prepare Fixes.all (initState seed) (.single c as)).1 c gs hinv (fun _ => hfirst)
  have hlen : gs.length = as.length := (safeRow_values' 0 as).length_eq
  obtain ⟨qs, i, a', p, q, h1, h2, h3, h4, h5, h6, h7⟩ :=
    pmf_draw_c05' (Coba.C05.normInt seed) gs (pol c gs).pmf (mkPmf sp.pmfTup (pol c gs).pmf) (by simp [mkPmf]) hvalid
  obtain ⟨a, ha, hrel⟩ := forall₂_getElem? (safeRow_values' 0 as) i a' h4
  have hrng : (prepare Fixes.all (initState seed) (.single c as)).1.rng = Coba.C05.normInt seed := by rw [f1]; rfl
  refine ⟨qs, i, a', a, p, q, ⟨a', p, if sp.kw then kwDict (pol c gs) else emptyKw⟩,
    stAfter sp false (prepare Fixes.all (initState seed) (.single c as)).1 (Coba.C05.next (Coba.C05.normInt seed)), ?_, rfl, rfl, h1, by rw [← hlen]; exact h2,
    h4, ha, hrel, h5, h6, h7, ?_⟩
  · rw [predict_prepare', hgiven, hstep, hrng]
    simp only [wantSingle, hk, h3, Except.map]
  · simp [stAfter]




theorem scorePerRow_scripted (pol : Policy) (b t : Bool) : ∀ (cs : List PyVal) (rows : List (List PyVal)) (acts : List PyVal),
    scorePerRow (scriptedScore pol b t) cs rows acts = .ok (scoresOf pol cs rows acts) := by
  intro cs
  induction cs with
  | nil => intro rows acts; simp [scorePerRow, scoresOf, pure, Except.pure]
  | cons c cs ih =>
    intro rows acts
    cases rows with
    | nil => simp [scorePerRow, scoresOf, pure, Except.pure]
    | cons a rows =>
      cases acts with
      | nil => simp [scorePerRow, scoresOf, pure, Except.pure]
      | cons x acts => simp [scorePerRow, scoresOf, scriptedScore, ih rows acts, bind, Except.bind, pure, Except.pure]

theorem scoresOf_length (pol : Policy) : ∀ (cs : List PyVal) (rows : List (List PyVal)) (acts : List PyVal),
    rows.length = cs.length → acts.length = cs.length → (scoresOf pol cs rows acts).length = cs.length := by
  intro cs
  induction cs with
  | nil => intro rows acts _ _; simp [scoresOf]
  | cons c cs ih =>
    intro rows acts h1 h2
    cases rows with
    | nil => simp at h1
    | cons a rows =>
      cases acts with
      | nil => simp at h2
      | cons x acts => simp [scoresOf, ih rows acts (by simpa using h1) (by simpa using h2)]

/-- a non-empty sequence of n scores whose first entry is not a dict is a valid answer for a batch of n -/
theorem validOut_scores (fx : Fixes) (v : PyVal) (xs : List PyVal) (x : PyVal) (n : Nat) (hv : v.items = some xs)
    (hx : xs.head? = some x) (hd : x.isDict = false) (hn : n = xs.length) : validOut fx v n = true := by
  obtain ⟨l, hl⟩ : ∃ l, xs.getLast? = some l := by
    cases h : xs.getLast? with
    | none => simp [List.getLast?_eq_none_iff] at h; subst h; simp at hx
    | some l => exact ⟨l, rfl⟩
  have hall : xs.all PyVal.isDict = false := by
    cases xs with
    | nil => simp at hx
    | cons y ys => simp at hx; subst hx; simp [hd]
  cases v <;> simp [PyVal.items] at hv <;> subst hv <;>
    (rename_i ys; cases ys with
      | nil => simp at hx
      | cons y ys => simp [validOut, hl, hall, hn])




/-- the memo `_method['score']` is unset or is the one a learner of this kind leads to -/
def ScoreInv (batchable : Bool) (m : Option Nat) : Prop := m = Option.none ∨ m = some (if batchable then 1 else 2)

theorem scoresOf_head (pol : Policy) (c : PyVal) (cs : List PyVal) (a : List PyVal) (rows : List (List PyVal)) (x : PyVal) (acts : List PyVal) :
    (scoresOf pol (c :: cs) (a :: rows) (x :: acts)).head? = some (scoreOf pol c a x) := rfl

/-- **score_roundtrip** (lemma form) -/
theorem score_roundtrip' (fx : Fixes) (pol : Policy) (batchable tup : Bool) (m : Option Nat) (hm : ScoreInv batchable m) :
    (∀ c as x, m ≠ some 2 → score fx (some (scriptedScore pol batchable tup)) m (.single c as x) = .ok (scoreOf pol c as x, 1)) ∧
    (∀ cs rows acts, cs ≠ [] → rows.length = cs.length → acts.length = cs.length →
        (∀ c a x, (scoreOf pol c a x).isDict = false) →
        ∃ v, score fx (some (scriptedScore pol batchable tup)) m (.batch cs rows acts) = .ok (v, if batchable then 1 else 2) ∧
          v.items = some (scoresOf pol cs rows acts)) := by
  constructor
  · intro c as x hm2
    cases m with
    | none => simp [score, scriptedScore, bind, Except.bind, pure, Except.pure]
    | some k =>
      match k, hm2 with
      | 0, _ | 1, _ | (k + 3), _ => simp [score, scriptedScore, bind, Except.bind, pure, Except.pure]
      | 2, h => exact absurd rfl h
  · intro cs rows acts hne h1 h2 hnd
    obtain ⟨c, cs', rfl⟩ : ∃ c cs', cs = c :: cs' := by cases cs <;> simp_all
    obtain ⟨a, rows', rfl⟩ : ∃ a r, rows = a :: r := by cases rows <;> simp_all
    obtain ⟨x, acts', rfl⟩ : ∃ a r, acts = a :: r := by cases acts <;> simp_all
    have hlen := scoresOf_length pol (c :: cs') (a :: rows') (x :: acts') h1 h2
    have hhead := scoresOf_head pol c cs' a rows' x acts'
    have hper := scorePerRow_scripted pol batchable tup (c :: cs') (a :: rows') (x :: acts')
    have hne' : (scoresOf pol (c :: cs') (a :: rows') (x :: acts')).isEmpty = false := by simp [scoresOf]
    have hm2 : scoreMethod2 (scriptedScore pol batchable tup) (c :: cs') (a :: rows') (x :: acts') =
        .ok (.list .tmp (scoresOf pol (c :: cs') (a :: rows') (x :: acts'))) := by
      simp [scoreMethod2, hper, hne', bind, Except.bind, pure, Except.pure]
    cases batchable
    · -- the learner raises on a batch: per-row calls
      have hv := validOut_scores fx (.list .tmp (scoresOf pol (c :: cs') (a :: rows') (x :: acts'))) _ _ (c :: cs').length rfl hhead
        (hnd c a x) hlen.symm
      refine ⟨.list .tmp (scoresOf pol (c :: cs') (a :: rows') (x :: acts')), ?_, rfl⟩
      rcases hm with rfl | rfl
      · simp only [List.length_cons] at hv
        simp [score, scriptedScore, hm2, hv]
      · simp [score, hm2, bind, Except.bind, pure, Except.pure]
    · have hv := validOut_scores fx (mkSeq tup (scoresOf pol (c :: cs') (a :: rows') (x :: acts'))) _ _ (c :: cs').length (items_mkSeq _ _) hhead
        (hnd c a x) hlen.symm
      refine ⟨mkSeq tup (scoresOf pol (c :: cs') (a :: rows') (x :: acts')), ?_, items_mkSeq _ _⟩
      rcases hm with rfl | rfl
      · simp only [List.length_cons] at hv
        simp [score, scriptedScore, hv]
      · simp [score, scriptedScore, bind, Except.bind, pure, Except.pure]




/-- frame: in any interleaving of calls on two wrappers of one learner, what each wrapper returns is what it returns on
its own calls alone, from its own state -/
theorem wrappers_frame' (fx : Fixes) (L : Learner) (h : List (Bool × Arg)) : ∀ (s0 s1 : State) (w : Bool),
    ((runTwo fx L s0 s1 h).filter (fun x => x.1 == w)).map (·.2) =
      runOne fx L (if w then s1 else s0) ((h.filter (fun x => x.1 == w)).map (·.2)) := by
  induction h with
  | nil => intro _ _ _; rfl
  | cons x h ih =>
    intro s0 s1 w
    obtain ⟨v, a⟩ := x
    cases v <;> cases w <;> simp only [runTwo, Bool.false_eq_true, ↓reduceIte] <;>
      (cases hp : predict fx L _ a with
       | error e =>
         have i0 := ih s0 s1 false
         have i1 := ih s0 s1 true
         simp at i0 i1
         simp [List.filter, runOne, hp, i0, i1]
       | ok t =>
         obtain ⟨r, s'⟩ := t
         have i0 := ih s' s1 false
         have i1 := ih s' s1 true
         have j0 := ih s0 s' false
         have j1 := ih s0 s' true
         simp at i0 i1 j0 j1
         simp [List.filter, runOne, hp, i0, i1, j0, j1])




theorem isPrefixL_append (p ys : List Char) : isPrefixL p (p ++ ys) = true := by
  induction p with
  | nil => cases ys <;> rfl
  | cons a p ih => simp [isPrefixL, ih]

theorem isInfixL_append (p xs ys : List Char) : isInfixL p (xs ++ (p ++ ys)) = true := by
  induction xs with
  | nil =>
    cases h : p ++ ys with
    | nil =>
      have : p = [] := by cases p <;> simp_all
      subst this; simp [isInfixL]
    | cons c cs =>
      have hp := isPrefixL_append p ys
      rw [h] at hp
      simp [isInfixL, hp]
  | cons x xs ih => simp [isInfixL, ih]

theorem strContains_mid (a sub b : String) : strContains (a ++ sub ++ b) sub = true := by
  simp [strContains, String.toList_append, List.append_assoc, isInfixL_append]

/-- **has_score_iff** (lemma form) -/
theorem has_score_iff' (k : ScoreKind)
    (hclean : ∀ f, k = .implemented (.raises f) → strContains f.msg "score" = false) :
    hasScore (probeOf k) = true ↔ ∃ p, k = .implemented p := by
  cases k with
  | absent cls =>
    have : strContains ("'" ++ cls ++ "' object has no attribute 'score'") "score" = true := by
      have := strContains_mid ("'" ++ cls ++ "' object has no attribute '") "score" "'"
      simpa [String.append_assoc] using this
    simp [probeOf, hasScore, this]
  | base =>
    have : strContains "The `score` interface has not been implemented for this learner." "score" = true := by decide
    simp [probeOf, hasScore, this]
  | implemented p =>
    cases p with
    | returns => simp [probeOf, hasScore]
    | raises f => simp [probeOf, hasScore, hclean f rfl]

/-- the text dependence: a learner that DOES implement score but whose probe call fails inside with a message mentioning
"score" is reported as having none -/
theorem has_score_counterexample' :
    hasScore (probeOf (.implemented (.raises ⟨true, "'NoneType' object has no attribute 'score_table'"⟩))) = false := by decide

/-- … and an AttributeError raised INSIDE an implemented score whose text contains `'score'` is reported as
"not implemented" by `SafeLearner.score`, while other AttributeErrors and other exceptions pass through -/
theorem score_error_paths' :
    scoreRaises ⟨true, "'Model' object has no attribute 'score'"⟩ = .coba ∧
    scoreRaises ⟨true, "'NoneType' object has no attribute 'score_table'"⟩ = .attr ∧
    scoreRaises ⟨false, "'score' went wrong"⟩ = .learner := by decide




def mixActs : List PyVal := [exStr 1 "aa", exStr 2 "bb"]

/-- where mixing breaks (1): after an unbatched first call the layout 'not' is kept, so a row-major 2-row batch answer
`['aa','bb']` comes back as ONE action (the list) with probability None - no exception -/
theorem mixed_unbatched_then_batch_counterexample' :
    obsRun (run Fixes.all (scripted { fmt := .A, kw := false, layout := .row } (exPol (fun i => i) (fun _ => 0) 2)) (initState 1)
      [.single (.int 0) mixActs, .batch (ctxs 2) [mixActs, mixActs]]) = .ok [(true, 2, false), (false, 2, false)] := by decide

/-- (2): with (action, prob) rows the first ROW becomes the action and the second ROW its probability -/
theorem mixed_unbatched_then_batch_AP_counterexample' :
    obsRun (run Fixes.all (scripted { fmt := .AP, kw := false, layout := .row } (exPol (fun i => i) (fun _ => 0) 2)) (initState 1)
      [.single (.int 0) mixActs, .batch (ctxs 2) [mixActs, mixActs]]) = .ok [(true, 2, false), (false, 2, true)] := by decide

/-- (3): a learner that cannot batch gets the batch directly (memo 1 from the unbatched call: no fallback any more) -/
theorem mixed_no_fallback_counterexample' :
    errOf (run Fixes.all (scripted { fmt := .AP, kw := false, layout := .single } (exPol (fun i => i) (fun _ => 0) 2)) (initState 1)
      [.single (.int 0) mixActs, .batch (ctxs 2) [mixActs, mixActs]]) = some .learner := by decide

/-- (4): after a batched first call the layout 'row' is kept: an unbatched bare answer 'bb' is iterated as a batch
(probabilities [None, None]); an (action, prob) answer raises TypeError -/
theorem mixed_batch_then_unbatched_counterexample' :
    obsRun (run Fixes.all (scripted { fmt := .A, kw := false, layout := .row } (exPol (fun i => i) (fun _ => 0) 2)) (initState 1)
      [.batch (ctxs 2) [mixActs, mixActs], .single (.int 1) mixActs]) = .ok [(false, 2, true), (true, 2, true)] ∧
    errOf (run Fixes.all (scripted { fmt := .AP, kw := false, layout := .row } (exPol (fun i => i) (fun _ => 0) 2)) (initState 1)
      [.batch (ctxs 2) [mixActs, mixActs], .single (.int 1) mixActs]) = some .type := by decide

/-! ### Python `==` on cached action sets -/

theorem num_makeSafe (k : Nat) (x : PyVal) : (makeSafe k x).num = x.num := by
  cases x with
  | bool b => cases b <;> simp [makeSafe, PyVal.num]
  | int i => by_cases h : i = 0 ∨ i = 1 <;> simp [makeSafe, h, PyVal.num]
  | _ => rfl

/-- a float copy compares (as left operand of `==`) exactly as the action it replaces -/
theorem pyEq_makeSafe_left' (k : Nat) (x y : PyVal) : pyEq (makeSafe k x) y = pyEq x y := by
  cases x with
  | bool b => cases b <;> cases y <;> simp [makeSafe, pyEq, PyVal.num]
  | int i =>
    by_cases h : i = 0 ∨ i = 1
    · rcases h with rfl | rfl <;> cases y <;> simp [makeSafe, pyEq, PyVal.num]
    · simp [makeSafe, h]
  | _ => rfl

theorem pyEqList_forall₂ : ∀ (xs ys : List PyVal), pyEqList xs ys = true ↔ List.Forall₂ (fun x y => pyEq x y = true) xs ys := by
  intro xs
  induction xs with
  | nil => intro ys; cases ys <;> simp [pyEqList]
  | cons x xs ih =>
    intro ys
    cases ys with
    | nil => simp [pyEqList]
    | cons y ys => simp [pyEqList, ih ys]

theorem safeRow_left (r : Nat) (as : List PyVal) :
    List.Forall₂ (fun s a => ∀ y, pyEq s y = pyEq a y) (safeRow r as) as := by
  unfold safeRow
  split
  · apply mapIdxFrom_forall₂; intro k x y; exact pyEq_makeSafe_left' _ x y
  · exact List.forall₂_same.mpr (fun a _ y => rfl)

/-- **cached action sets** (lemma form) -/
theorem cached_actions_equal' (r : Nat) (prev as : List PyVal) (h : pyEq (Acts.single prev).toPy (Acts.single as).toPy = true) :
    List.Forall₂ (fun s a => pyEq s a = true) (safeRow r prev) as := by
  have h1 : pyEqList prev as = true := by simpa [Acts.toPy, pyEq] using h
  have h2 := (pyEqList_forall₂ prev as).mp h1
  have h3 := safeRow_left r prev
  clear h h1
  generalize safeRow r prev = ss at h3
  induction h3 generalizing as with
  | nil => cases h2; exact List.Forall₂.nil
  | cons hsa _ ih =>
    cases h2 with
    | cons hxy hrest => exact List.Forall₂.cons (by rw [hsa]; exact hxy) (ih _ hrest)

/-- on scalars (None, bools, ints, floats - exact rationals, no nan - and strings) Python's `==` is an equivalence -/
theorem pyEq_scalar_equiv' (x y z : PyVal) (hx : isScalar x = true) (hy : isScalar y = true) (hz : isScalar z = true) :
    pyEq x x = true ∧ (pyEq x y = pyEq y x) ∧ (pyEq x y = true → pyEq y z = true → pyEq x z = true) := by
  refine ⟨?_, ?_, ?_⟩
  · cases x <;> simp [isScalar] at hx <;> simp [pyEq, PyVal.num]
  · cases x <;> simp [isScalar] at hx <;> cases y <;> simp [isScalar] at hy <;> simp [pyEq, PyVal.num, eq_comm]
  · cases x <;> simp [isScalar] at hx <;> cases y <;> simp [isScalar] at hy <;> cases z <;> simp [isScalar] at hz <;>
      simp [pyEq, PyVal.num] <;> intro h1 h2 <;> simp_all


end Coba.C15
